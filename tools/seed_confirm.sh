#!/bin/bash
# usage: tools/seed_confirm.sh <worktree-with-change> <seed-id>   (dev tool)
# confirms: demo exits 1 with the change and 0 on a pristine copy of /repo's HEAD; the full test suite with the change
# passes exactly the tests it passes without (compared with /tmp/gfo_baseline.junit.xml of the unchanged tree)
wt=$1; id=$2
out=/tmp/seedconfirm_$id; mkdir -p $out
cd $wt
PYTHONPATH=$wt/src timeout 300 /venv/bin/python $wt/seed/demo.py > $out/demo_with.log 2>&1; echo "demo_with_change_exit=$?" > $out/result.txt
clean=/tmp/clean_$id; rm -rf $clean; mkdir -p $clean; git -C /repo archive HEAD | tar -x -C $clean
PYTHONPATH=$clean/src timeout 300 /venv/bin/python $wt/seed/demo.py > $out/demo_without.log 2>&1; echo "demo_without_change_exit=$?" >> $out/result.txt
rm -rf $clean
PYTHONPATH=$wt/src timeout 3000 /venv/bin/python -m pytest -q -p no:cacheprovider --timeout=900 --continue-on-collection-errors --junitxml=$out/junit.xml tests > $out/pytest.log 2>&1
/venv/bin/python - $out <<'PY' >> $out/result.txt
import sys, xml.etree.ElementTree as ET
def load(p):
    r={}
    for tc in ET.parse(p).iter('testcase'):
        n=tc.get('classname')+'::'+tc.get('name')
        r[n]='fail' if any(c.tag in('failure','error') for c in tc) else ('skip' if any(c.tag=='skipped' for c in tc) else 'pass')
    return r
a=load('/tmp/gfo_baseline.junit.xml'); b=load(sys.argv[1]+'/junit.xml')
diff=[k for k in set(a)|set(b) if a.get(k)!=b.get(k)]
print("tests_total=%d passed=%d differing_from_unchanged_tree=%d"%(len(b), sum(1 for v in b.values() if v=='pass'), len(diff)))
print("differing:", diff[:10])
PY
cat $out/result.txt
