#!/usr/bin/env python3
"""usage: tools/seed_keep.py <worktree> <seed-id> <property> "<needs>" "<caught_by>"   (dev tool)
copies patch.diff / demo.py / notes.md of a confirmed seeded change into /verif/seeded/<seed-id>/ and writes meta.json"""
import sys, os, shutil, json
wt, sid, prop, needs, caught = sys.argv[1:6]
d = "/verif/seeded/%s" % sid
os.makedirs(d, exist_ok=True)
for f in ("patch.diff", "demo.py", "notes.md"):
    if os.path.exists(os.path.join(wt, "seed", f)):
        shutil.copy(os.path.join(wt, "seed", f), os.path.join(d, f))
conf = "/tmp/seedconfirm_%s/result.txt" % sid.split("-")[0]
ran = open(conf).read() if os.path.exists(conf) else ""
meta = dict(id=sid, property=prop, needs_to_manifest=needs, caught_by=caught,
            confirmed=("demo.py run by me in a scratch worktree with the change (exit 1) and on a pristine `git archive HEAD` copy of /repo (exit 0); "
                       "full test suite with the change compared test-by-test with the unchanged tree's junit results"),
            confirmation_output=ran,
            how_to_run="git -C /repo apply /verif/seeded/%s/patch.diff && python3 harness/check.py <check> ; git -C /repo checkout -- ." % sid)
json.dump(meta, open(os.path.join(d, "meta.json"), "w"), indent=1)
print("kept", d)
