#!/bin/bash
# usage: tools/seed_regress.sh [verif-dir]   (dev tool) -- applies every kept seeded change to a scratch worktree and runs the check of its
# property (quick tier) from <verif-dir> (default /verif) against it; prints one line per seed: caught (concrete) / caught (nfi) / MISSED
V=${1:-/verif}
wt=/tmp/wt_regress
git -C /repo worktree remove --force $wt >/dev/null 2>&1
git -C /repo worktree add --detach $wt HEAD >/dev/null 2>&1 || exit 2
for d in /verif/seeded/*/; do
  id=$(basename $d)
  prop=$(python3 -c "import json;print(json.load(open('$d/meta.json'))['property'])" 2>/dev/null | tail -1)
  git -C $wt checkout -q -- . ; git -C $wt apply $d/patch.diff || { echo "$id: patch does not apply"; continue; }
  out=$(cd $V && GFO_REPO=$wt VERIF_NO_EVIDENCE=1 VERIF_SEED=${VERIF_SEED:-0} timeout 1800 python3 harness/check.py $prop --tier quick 2>&1 | grep -v "^KNOWN\|^WARNING")
  v=$(echo "$out" | grep -c "^VIOLATION"); nf=$(echo "$out" | grep "^VIOLATION" | grep -c "no-failing-input-found")
  if [ "$v" = "0" ]; then r="MISSED"; elif [ "$nf" = "$v" ]; then r="caught (no-failing-input-found)"; else r="caught (concrete replay)"; fi
  echo "$id [$prop]: $r :: $(echo "$out" | tail -1)"
done
git -C /repo worktree remove --force $wt
