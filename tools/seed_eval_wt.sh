#!/bin/bash
# usage: tools/seed_eval_wt.sh <worktree-with-change-applied> [checks...]   (dev tool)
# runs the checks against the scratch worktree (GFO_REPO) without touching /repo
wt=$1; shift
checks=${@:-C01 C02 C03 C04 C05 C06 C07 C08 C09 C10 C11 C12 C13 C14 C15 C16 C17 C18 C19 C20}
cd ${VDIR:-/verif}
for c in $checks; do
  out=$(GFO_REPO=$wt VERIF_NO_EVIDENCE=1 VERIF_SEED=${VERIF_SEED:-0} timeout 1500 python3 harness/check.py $c --tier quick 2>&1 | grep -v "^KNOWN" )
  v=$(echo "$out" | grep -c "^VIOLATION")
  nf=$(echo "$out" | grep "^VIOLATION" | grep -c "no-failing-input-found")
  echo "$c violations=$v (no-failing-input-found=$nf) :: $(echo "$out" | tail -1)"
done
