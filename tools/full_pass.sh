#!/bin/bash
# usage: tools/full_pass.sh [seed ...]   (dev tool) -- quick tier of all 20 checks; only the run with seed 0 writes evidence
cd /verif
for sd in ${@:-0}; do
  for c in C01 C02 C03 C04 C05 C06 C07 C08 C09 C10 C11 C12 C13 C14 C15 C16 C17 C18 C19 C20; do
    if [ "$sd" = "0" ]; then ne=0; else ne=1; fi
    VERIF_SEED=$sd VERIF_NO_EVIDENCE=$ne python3 harness/check.py $c --tier quick 2>&1 | grep -v "^WARNING\|^KNOWN" | tail -3 | sed "s/^/seed$sd /"
  done
done
