#!/usr/bin/env python3
"""Translator (finish_search): regenerates coq/generated/FinishGen.v from Search.finish_search of /repo's search.py on every run.

  best_score = p_bar.score_best; best_value = conv.position2value(p_bar.pos_best); best_para = conv.value2para(best_value);
  memory_dict = mem.memory_dict when memory is on, {} otherwise

over a small record of what finish_search reads and publishes (the progress-bar object is DriverGen's g_pbar).  The converter calls are
the hand model's functions behind the returnNoneIfArgNone decorator (None -> None; pinned by digest), `self.memory not in [False, None]`
is pinned by text to the call's memory flag, `{}` to the empty dictionary; `self.search_data = ...`, `self.p_bar.close()` and `print_info(...)`
have no effect on the modelled state.  proofs/FinishTie.v proves the generated finish_search equal to Driver.finish_search.  Fail-closed."""
import ast, os, sys, json, hashlib

sys.path.insert(0, os.path.dirname(os.path.abspath(__file__)))
from pytrans import Abort, Unit, Fn, Tr, translate_function, coqty
from translate_driver import top_cls
from translate_memory import source_text

REPO = os.environ.get("GFO_REPO", "/repo")
PKG = os.path.join(REPO, "src", "gradient_free_optimizers")
VERIF = os.path.dirname(os.path.dirname(os.path.abspath(__file__)))
OUT = os.path.join(VERIF, "coq", "generated", "FinishGen.v")
INFO = os.path.join(VERIF, "coq", "generated", "finish_gen.json")
PINS = os.path.join(VERIF, "harness", "finish_pins.json")

PRELUDE = '''
Section FinishGen.
Variable sp : space.
Variable names : list Z.                   (* conv.para_names *)

Record g_fin := mkGFin { fn_p_bar : g_pbar; fn_memory_on : bool (* self.memory not in [False, None] *);
                         fn_mem_memory_dict : list (pos * result) (* self.mem.memory_dict *);
                         fn_best_score : score; fn_best_value : option values; fn_best_para : option para;
                         fn_memory_dict : list (pos * result) }.
#[export] Instance eta_g_fin : Settable g_fin := settable! mkGFin <fn_p_bar; fn_memory_on; fn_mem_memory_dict; fn_best_score; fn_best_value; fn_best_para; fn_memory_dict>.

(* Converter.position2value / value2para behind @returnNoneIfArgNone *)
Definition fg_position2value (o : option pos) : res (option values) :=
  match o with None => Ok None | Some p => do v <- position2value sp p; Ok (Some v) end.
Definition fg_value2para (o : option values) : res (option para) := Ok (option_map (value2para names) o).
'''


def build(out):
    path = os.path.join(PKG, "search.py")
    tree = ast.parse(open(path).read(), path)
    cls = top_cls(tree, "Search", ["TimesTracker", "SearchStatistics"])
    fs = [f for f in cls.body if isinstance(f, ast.FunctionDef) and f.name == "finish_search"]
    if len(fs) != 1 or fs[0].decorator_list or ast.unparse(fs[0].args) != "self":
        raise Abort("Search.finish_search: shape")
    out.append(PRELUDE)
    u = Unit("finish")
    u.self_ty = "g_fin"
    u.fields = {"best_score": ("fn_best_score", "score"), "best_value": ("fn_best_value", "opt:coq:values"), "best_para": ("fn_best_para", "opt:coq:para"),
                "memory_dict": ("fn_memory_dict", "pdict:coq:result"),
                "p_bar.score_best": ("(fun s => g_pbar_get_score_best (fn_p_bar s))", "score"),
                "p_bar.pos_best": ("(fun s => pb_pos_best (fn_p_bar s))", "opt:pos"),
                "mem.memory_dict": ("fn_mem_memory_dict", "pdict:coq:result")}
    u.oracles["self.memory not in [False, None]"] = ("(fn_memory_on self)", "bool")
    u.oracles["{}"] = ("[]", "pdict:coq:result")
    u.pinned["self.search_data = self.results_mang.search_data"] = ""
    u.noop_calls.append(lambda c: ast.unparse(c.func) in ("print_info", "self.p_bar.close"))

    def pure(name, ret):
        def mk(tr, ts):
            v = tr.fresh()
            return v, "%s %s" % (name, " ".join(ts)), v
        return (mk, ret)
    u.call_exprs["self.conv.position2value"] = pure("fg_position2value", "opt:coq:values")
    u.call_exprs["self.conv.value2para"] = pure("fg_value2para", "opt:coq:para")
    out.append(translate_function(u, fs[0], Fn("g_Search_finish_search", [], "none", kind="method")))
    out.append("End FinishGen.")
    # the decorator behind the converter calls
    cpath = os.path.join(PKG, "optimizers/core_optimizer/converter.py")
    ctree = ast.parse(open(cpath).read(), cpath)
    deco = [n for n in ast.walk(ctree) if isinstance(n, ast.FunctionDef) and n.name == "returnNoneIfArgNone"]
    conv = [n for n in ctree.body if isinstance(n, ast.ClassDef) and n.name == "Converter"]
    if len(deco) != 1 or len(conv) != 1:
        raise Abort("converter.py: returnNoneIfArgNone / Converter not found")
    for m in ("position2value", "value2para"):
        f = [x for x in conv[0].body if isinstance(x, ast.FunctionDef) and x.name == m]
        if len(f) != 1 or [ast.unparse(d) for d in f[0].decorator_list] != ["returnNoneIfArgNone"]:
            raise Abort("Converter.%s is no longer decorated with returnNoneIfArgNone" % m)
    pins = {"returnNoneIfArgNone": hashlib.sha1(source_text(cpath, deco[0]).encode()).hexdigest()}
    return ["Search.finish_search"], pins


HEADER = ["(* GENERATED by harness/translate_finish.py from search.py (finish_search) -- do not edit. *)",
          "Require Import Base PyPrims PyPrimsQ StopRun Converter Driver DriverGen.",
          "From RecordUpdate Require Import RecordSet.",
          "Import RecordSetNotations.",
          "Open Scope Z_scope.",
          ""]


def translate(write=True):
    info = dict(ok=True, error=None)
    try:
        info["digest"] = hashlib.sha1(open(os.path.join(PKG, "search.py"), "rb").read()).hexdigest()
        out = list(HEADER)
        info["methods"], pins = build(out)
        info["pinned_bodies"] = pins
        if not os.path.exists(PINS):
            raise Abort("harness/finish_pins.json is missing")
        want = json.load(open(PINS))
        for m, d in pins.items():
            if want.get(m) != d:
                raise Abort("%s changed: it is modelled by hand (None -> None) and pinned by digest" % m)
        text = "\n".join(out) + "\n"
    except Abort as e:
        info.update(ok=False, error=str(e))
        text = ("(* GENERATED by harness/translate_finish.py -- the translator ABORTED: %s *)\n"
                "Require Import Base PyPrims PyPrimsQ.\nDefinition translator_aborted : bool := true.\n" % str(e).replace("*)", "* )"))
    except (OSError, SyntaxError) as e:
        info.update(ok=False, error="%s: %s" % (type(e).__name__, e))
        text = ("(* GENERATED by harness/translate_finish.py -- source unreadable *)\nRequire Import Base PyPrims PyPrimsQ.\n"
                "Definition translator_aborted : bool := true.\n")
    info["text_sha1"] = hashlib.sha1(text.encode()).hexdigest()
    if write:
        old = open(OUT).read() if os.path.exists(OUT) else None
        if old != text:
            open(OUT, "w").write(text)
        json.dump(info, open(INFO, "w"), indent=1)
    info["text"] = text
    return info


if __name__ == "__main__":
    if "--pin" in sys.argv:
        _, pins = build([])
        json.dump(pins, open(PINS, "w"), indent=1)
        print("pinned", pins)
        sys.exit(0)
    r = translate(write="--dry" not in sys.argv)
    print(r["text"] if "--show" in sys.argv else ("ok" if r["ok"] else "ABORT: " + r["error"]))
    sys.exit(0 if r["ok"] else 1)
