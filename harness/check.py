#!/usr/bin/env python3
"""python3 harness/check.py Cxx [--tier quick|thorough] [--replay path]

Verdict of one property (DESIGN 4.4): re-check the Coq theorems of props/Prop_Cxx.v, run the
correspondence units the theorems rest on, run the property's runtime monitor, decide."""
import sys, os, argparse, importlib, json, time

sys.path.insert(0, os.path.dirname(os.path.abspath(__file__)))
import common

common.ensure_env()


def main():
    ap = argparse.ArgumentParser()
    ap.add_argument("pid")
    ap.add_argument("--tier", default=os.environ.get("VERIF_TIER", "quick"))
    ap.add_argument("--replay", default=None)
    ap.add_argument("--no-coq", action="store_true", help="dev only: skip the Coq build/re-check")
    a = ap.parse_args()
    pid = a.pid.upper()
    tier = a.tier if a.tier in ("quick", "thorough") else "quick"
    seed = int(os.environ.get("VERIF_SEED", "0") or 0)
    mod = importlib.import_module("props.%s" % pid.lower())
    ctx = common.Ctx(pid, tier, seed)
    if a.replay:
        data = json.load(open(a.replay))
        ctx.replay_path = a.replay
        try:
            import replay as _replay
            rc = _replay.rerun(ctx, mod, data)
        except Exception:
            import traceback
            print("re-execution of the replay failed:\n" + traceback.format_exc()[-1500:])
            rc = None
        if rc is not None:
            return rc
        return mod.replay(ctx, data)

    if hasattr(mod, "pre_build"):
        try:
            mod.pre_build(ctx)
        except Exception:
            import traceback
            u = ctx.unit("pre-build", "infrastructure", "translator / generated data")
            u.error = traceback.format_exc()[-3000:]
    # every generated file reflects /repo's working tree now, whichever property is being checked (the G-unit of a
    # property reports on its own translator; the others are refreshed silently so that `make` sees no stale file)
    try:
        import gen_units
        gen_units.refresh_all(ctx)
    except Exception:
        import traceback
        u = ctx.unit("pre-build", "infrastructure", "translator / generated data")
        u.error = traceback.format_exc()[-3000:]
    if a.no_coq:
        proof = dict(build_ok=True, build_out="", prop=dict(ok=True, theorems=[], assumptions={}, output=""), gate=[])
    else:
        ok, out = common.coq_build()
        proof = dict(build_out=out, gate=common.grep_gate())
        proof["prop"] = common.compile_prop(pid)
        # a failure elsewhere in the development does not concern this property as long as its own
        # theorem file (and therefore everything it depends on) re-checks now
        proof["build_ok"] = ok or proof["prop"]["ok"]
    try:
        mod.run(ctx)
    except Exception:
        import traceback
        u = ctx.unit("harness", "infrastructure", "the harness itself")
        u.error = traceback.format_exc()[-3000:]
    return common.finish(ctx, proof)


if __name__ == "__main__":
    sys.exit(main())
