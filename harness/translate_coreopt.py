#!/usr/bin/env python3
"""Translator (core optimizer moves): regenerates coq/generated/CoreGen.v from /repo's core_optimizer.py on every run.

  CoreOptimizer.move_random       while True: pos = move_random(search_space_positions); if not_in_constraint(pos): return pos
  CoreOptimizer.conv2pos          rint, clip, astype(int); far outside -> move_random()
  CoreOptimizer.move_climb        while True: sample around pos; conv2pos; if not_in_constraint(pos): return pos; widen
  CoreOptimizer.random_iteration  the decorator's wrapper: rand_rest_p > random.uniform(0, 1) -> move_random(), else the wrapped iterate

These four are what every optimizer's proposals go through (C01 in the box, C02 feasible, C08 no livelock).  Control flow (the loops,
the constraint test before every return, the far-outside escape, the restart test) is translated statement by statement; the numpy
arithmetic on float vectors is pinned BY SOURCE TEXT to the hand model's primitives of theories/CoreOpt.v:

  dist_dict[distribution](pos, sigma, pos.shape)    one real per dimension read from the random tape (the location / scale are inside the
                                                    recorded samples), so `sigma = ...` and `epsilon_mod *= 1.01` only shape the tape
  np.rint(pos)                                      map rint_x
  np.clip(r_pos, n_zeros, max_positions).astype(int)  clip_int per dimension (NaN -> int64 min)
  dist = cdist(...); threshold = ...; dist > threshold   far_outside sp r_pos
  move_random(self.conv.search_space_positions)     draw_position (dim_sizes sp) from the tape; utils.move_random pinned by digest
  self.conv.not_in_constraint(pos)                  feasible sp cons pos, counted in a ghost counter

Any other text in these positions aborts the translation.  proofs/CoreTie.v proves the generated definitions equal to (move_random,
conv2pos, random_iteration) or input/output-equivalent to (move_climb: the two differ in how fuel is passed down) theories/CoreOpt.v.
Fail-closed."""
import ast, os, sys, json, hashlib

sys.path.insert(0, os.path.dirname(os.path.abspath(__file__)))
from pytrans import Abort, Unit, Fn, Tr, translate_function, coqty
from translate_driver import top_cls
from translate_memory import source_text

REPO = os.environ.get("GFO_REPO", "/repo")
PKG = os.path.join(REPO, "src", "gradient_free_optimizers")
VERIF = os.path.dirname(os.path.dirname(os.path.abspath(__file__)))
OUT = os.path.join(VERIF, "coq", "generated", "CoreGen.v")
INFO = os.path.join(VERIF, "coq", "generated", "core_gen.json")
PINS = os.path.join(VERIF, "harness", "coreopt_pins.json")
REL = "optimizers/core_optimizer/core_optimizer.py"

PRELUDE = '''
Section CoreGen.
Variable sp : space.
Variable cons : values -> bool.            (* conjunction of the constraints on a decoded parameter set *)
Variables rrp_m rrp_e : Z.                 (* self.rand_rest_p, an exact dyadic *)

(* what the moves read and write: the random tape and a ghost counter of constraint evaluations *)
Record g_core := mkGCore { cg_tape : tape; cg_ncalls : Z }.
#[export] Instance eta_g_core : Settable g_core := settable! mkGCore <cg_tape; cg_ncalls>.

(* utils.move_random(ss_positions): one random.choice(range(d)) per dimension *)
Definition cg_draw_position (self : g_core) (dims : list Z) : res (g_core * pos) :=
  do pt <- draw_position dims (cg_tape self); Ok (self <| cg_tape := snd pt |>, fst pt).
(* self.conv.not_in_constraint(pos) *)
Definition cg_not_in_constraint (self : g_core) (p : pos) : res (g_core * bool) :=
  do ok <- feasible sp cons p; Ok (self <| cg_ncalls := cg_ncalls self + 1 |>, ok).
(* dist_dict[distribution](pos, sigma, pos.shape): one sample per dimension *)
Definition cg_sample (self : g_core) : res (g_core * list xreal) :=
  do xt <- read_reals (length sp) (cg_tape self); Ok (self <| cg_tape := snd xt |>, fst xt).
(* self.rand_rest_p > random.uniform(0, 1) *)
Definition cg_rand_rest (self : g_core) : res (g_core * bool) :=
  match cg_tape self with
  | DF um ue :: t' => Ok (self <| cg_tape := t' |>, dyadic_gt rrp_m rrp_e um ue)
  | _ => Err OutOfTape
  end.
Definition clip_pos (rs : list rint_t) : pos := map (fun mr => clip_int (fst mr) (snd mr)) (zip (max_positions sp) rs).
'''

MOVE_CLIMB_PARAMS = "self, pos, epsilon=0.03, distribution='normal', epsilon_mod=1"
DIST_DICT = "dist_dict = {'normal': normal, 'laplace': laplace, 'logistic': logistic, 'gumbel': gumbel}"
IMPORTS = ["from .utils import set_random_seed, move_random", "from numpy.random import normal, laplace, logistic, gumbel"]


def method(cls, name):
    fs = [f for f in cls.body if isinstance(f, ast.FunctionDef) and f.name == name]
    if len(fs) != 1:
        raise Abort("CoreOptimizer.%s: found %d definitions" % (name, len(fs)))
    return fs[0]


def plain(fn, params):
    """the function with its parameter list replaced by `self` + params (defaults checked by the caller)"""
    if fn.decorator_list:
        raise Abort("CoreOptimizer.%s is decorated" % fn.name)
    return ast.FunctionDef(name=fn.name, args=ast.arguments(posonlyargs=[], args=[ast.arg(arg="self")] + [ast.arg(arg=p) for p in params],
                                                            vararg=None, kwonlyargs=[], kw_defaults=[], kwarg=None, defaults=[]),
                           body=fn.body, decorator_list=[], returns=None, type_comment=None)


def build(out):
    path = os.path.join(PKG, REL)
    tree = ast.parse(open(path).read(), path)
    top = [ast.unparse(n) for n in tree.body]
    for imp in IMPORTS + [DIST_DICT]:
        if imp not in top:
            raise Abort("core_optimizer.py no longer contains `%s`" % imp)
    cls = top_cls(tree, "CoreOptimizer", ["SearchTracker"])
    out.append(PRELUDE)
    u = Unit("core")
    u.fields = {}
    u.self_ty = "g_core"
    u.expr_hooks = {}

    def hook(coq, ty):
        def mk(tr):
            v = tr.fresh()
            return [("(self, %s)" % v, coq)], v, ty
        return mk
    u.expr_hooks["dist_dict[distribution](pos, sigma, pos.shape)"] = hook("cg_sample self", "coq:list xreal")   # (pos_a, sigma: inside the samples)
    u.expr_hooks["self.rand_rest_p > random.uniform(0, 1)"] = hook("cg_rand_rest self", "bool")
    u.expr_hooks["func(self, *args, **kwargs)"] = hook("body self", "pos")
    u.oracles["self.conv.search_space_positions"] = ("(dim_sizes sp)", "list:Z")

    def mr(tr, ts):
        v = tr.fresh()
        return "(self, %s)" % v, "cg_draw_position self %s" % " ".join(ts), v
    u.call_exprs["move_random"] = (mr, "pos")

    def nic(tr, ts):
        v = tr.fresh()
        return "(self, %s)" % v, "cg_not_in_constraint self %s" % " ".join(ts), v
    u.call_exprs["self.conv.not_in_constraint"] = (nic, "bool")

    # ---- move_random
    f = method(cls, "move_random")
    if ast.unparse(f.args) != "self":
        raise Abort("CoreOptimizer.move_random: parameters")
    sig = Fn("g_core_move_random", [], "pos", kind="method", fueled=True)
    out.append(translate_function(u, plain(f, []), sig))
    u.methods["move_random"] = sig

    # ---- conv2pos
    f = method(cls, "conv2pos")
    if ast.unparse(f.args) != "self, pos":
        raise Abort("CoreOptimizer.conv2pos: parameters")
    u.oracles["np.rint(pos)"] = ("(map rint_x pos_a)", "coq:list rint_t")
    u.oracles["np.clip(r_pos, n_zeros, self.conv.max_positions).astype(int)"] = ("(clip_pos r_pos_v)", "pos")
    u.oracles["dist > threshold"] = ("(far_outside sp r_pos_v)", "bool")
    for st in ("n_zeros = [0] * len(self.conv.max_positions)",
               "dist = scipy.spatial.distance.cdist(r_pos.reshape(1, -1), pos.reshape(1, -1))",
               "threshold = self.conv.search_space_size / 100 ** self.conv.n_dimensions"):
        u.pinned[st] = ""
    sig = Fn("g_core_conv2pos", ["coq:list xreal"], "pos", kind="method", fueled=True)
    out.append(translate_function(u, plain(f, ["pos"]), sig))
    u.methods["conv2pos"] = sig
    for k in ("np.rint(pos)", "np.clip(r_pos, n_zeros, self.conv.max_positions).astype(int)", "dist > threshold"):
        del u.oracles[k]
    u.pinned.clear()

    # ---- move_climb
    f = method(cls, "move_climb")
    if ast.unparse(f.args) != MOVE_CLIMB_PARAMS:
        raise Abort("CoreOptimizer.move_climb: parameters `%s`" % ast.unparse(f.args))
    for st in ("sigma = self.conv.max_positions * epsilon * epsilon_mod", "epsilon_mod *= 1.01"):
        u.pinned[st] = ""
    sig = Fn("g_core_move_climb", ["pos"], "pos", kind="method", fueled=True)
    out.append(translate_function(u, plain(f, ["pos"]), sig))
    u.methods["move_climb"] = sig
    u.pinned.clear()

    # ---- random_iteration (decorator)
    d = method(cls, "random_iteration")
    if [a.arg for a in d.args.args] != ["func"] or len(d.body) != 2 or not isinstance(d.body[0], ast.FunctionDef) \
            or ast.unparse(d.body[1]) != "return wrapper":
        raise Abort("CoreOptimizer.random_iteration: shape")
    w = d.body[0]
    if ast.unparse(w.args) != "self, *args, **kwargs":
        raise Abort("CoreOptimizer.random_iteration.wrapper: parameters")
    out.append("Variable body : g_core -> res (g_core * pos).     (* the decorated iterate: func(self, *args, **kwargs) *)")
    tr = Tr(u, clocked=False, is_method=True, ret="pos", truth_only=False, fueled=True)
    txt = tr.block(w.body, {})
    out.append("Definition g_core_random_iteration (fuel : nat) (self : g_core) : res (g_core * pos) :=\n  %s." % txt)
    out.append("End CoreGen.")
    # hand-modelled pieces pinned by the digest of their source text
    utree_path = os.path.join(PKG, "optimizers/core_optimizer/utils.py")
    utree = ast.parse(open(utree_path).read(), utree_path)
    mv = [n for n in utree.body if isinstance(n, ast.FunctionDef) and n.name == "move_random"]
    if len(mv) != 1:
        raise Abort("utils.move_random: found %d definitions" % len(mv))
    pins = {"utils.move_random": hashlib.sha1(ast.unparse(ast.Module(body=[s for s in mv[0].body if not (isinstance(s, ast.Expr) and isinstance(s.value, ast.Constant))],
                                                                      type_ignores=[])).encode()).hexdigest()}
    return ["CoreOptimizer.move_random", "CoreOptimizer.conv2pos", "CoreOptimizer.move_climb", "CoreOptimizer.random_iteration.wrapper"], pins


HEADER = ["(* GENERATED by harness/translate_coreopt.py from %s -- do not edit. *)" % REL,
          "Require Import Base PyPrims PyPrimsQ Converter CoreOpt.",
          "From RecordUpdate Require Import RecordSet.",
          "Import RecordSetNotations.",
          "Open Scope Z_scope.",
          ""]


def translate(write=True):
    info = dict(ok=True, error=None)
    try:
        info["digest"] = hashlib.sha1(open(os.path.join(PKG, REL), "rb").read()).hexdigest()
        out = list(HEADER)
        info["methods"], pins = build(out)
        info["pinned_bodies"] = pins
        if not os.path.exists(PINS):
            raise Abort("harness/coreopt_pins.json is missing")
        want = json.load(open(PINS))
        for m, d in pins.items():
            if want.get(m) != d:
                raise Abort("%s changed: it is modelled by hand (CoreOpt.draw_position) and pinned by digest" % m)
        text = "\n".join(out) + "\n"
    except Abort as e:
        info.update(ok=False, error=str(e))
        text = ("(* GENERATED by harness/translate_coreopt.py -- the translator ABORTED: %s *)\n"
                "Require Import Base PyPrims PyPrimsQ.\nDefinition translator_aborted : bool := true.\n" % str(e).replace("*)", "* )"))
    except (OSError, SyntaxError) as e:
        info.update(ok=False, error="%s: %s" % (type(e).__name__, e))
        text = ("(* GENERATED by harness/translate_coreopt.py -- source unreadable *)\nRequire Import Base PyPrims PyPrimsQ.\n"
                "Definition translator_aborted : bool := true.\n")
    info["text_sha1"] = hashlib.sha1(text.encode()).hexdigest()
    if write:
        old = open(OUT).read() if os.path.exists(OUT) else None
        if old != text:
            open(OUT, "w").write(text)
        json.dump(info, open(INFO, "w"), indent=1)
    info["text"] = text
    return info


if __name__ == "__main__":
    if "--pin" in sys.argv:
        _, pins = build([])
        json.dump(pins, open(PINS, "w"), indent=1)
        print("pinned", pins)
        sys.exit(0)
    r = translate(write="--dry" not in sys.argv)
    print(r["text"] if "--show" in sys.argv else ("ok" if r["ok"] else "ABORT: " + r["error"]))
    sys.exit(0 if r["ok"] else 1)
