#!/usr/bin/env python3
"""Translator (tracker layer): regenerates coq/generated/TrackerGen.v from /repo's source on every run.

It reads, with `ast`, the classes that hold the tracked new / current / best state and the evaluate methods built
on them -- search_tracker.SearchTracker (every method, property and decorator), CoreOptimizer.evaluate_init,
BaseOptimizer.evaluate, HillClimbingOptimizer.evaluate (+ the helper max_list_idx, whose AST is pinned),
Spiral.evaluate -- and emits one Gallina definition per method over a record `gst` whose fields are exactly the
attributes SearchTracker.__init__ creates (plus nth_init and n_neighbours).  Statement by statement, in a small
imperative subset (attribute assignment through the translated property setters, list append, if / early return,
calls of translated methods, comparisons on floats and ints, %, len, slices x[-n:], indexing); Python exceptions
are values of `res`.  Fail-closed: any shape outside the subset aborts, and the abort is reported as a broken tie.

proofs/TrackerTie.v then proves, for ALL states and arguments, that every generated definition refines the
hand-written model of theories/Tracker.v (abstraction function `abs : gst -> trk`); the property theorems about
the tracker are restated for the generated definitions in props/ (C15, C19)."""
import ast, os, sys, json, hashlib

REPO = os.environ.get("GFO_REPO", "/repo")
PKG = os.path.join(REPO, "src", "gradient_free_optimizers")
VERIF = os.path.dirname(os.path.dirname(os.path.abspath(__file__)))
OUT = os.path.join(VERIF, "coq", "generated", "TrackerGen.v")
INFO = os.path.join(VERIF, "coq", "generated", "tracker_gen.json")


class Abort(Exception):
    pass


COQTY = {"pos": "option pos", "score": "score", "int": "Z", "bool": "bool", "list_pos": "list (option pos)",
         "list_score": "list score"}
ELEM = {"list_pos": "pos", "list_score": "score"}

# attribute -> type.  The set of tracker attributes is CHECKED against SearchTracker.__init__ (both directions).
TRACKER_ATTRS = {
    "_pos_new": "pos", "_score_new": "score", "_pos_current": "pos", "_score_current": "score",
    "_pos_best": "pos", "_score_best": "score",
    "pos_new_list": "list_pos", "score_new_list": "list_score", "pos_current_list": "list_pos",
    "score_current_list": "list_score", "pos_best_list": "list_pos", "score_best_list": "list_score",
    "positions_valid": "list_pos", "scores_valid": "list_score", "nth_trial": "int", "best_since_iter": "int",
}
EXTRA_ATTRS = {"nth_init": "int", "n_neighbours": "int"}       # CoreOptimizer.__init__ / HillClimbingOptimizer.__init__
PARAM_TY = {"pos": "pos", "score": "score", "score_new": "score", "nth_iter": "int"}

FILES = {
    "SearchTracker": "optimizers/core_optimizer/search_tracker.py",
    "CoreOptimizer": "optimizers/core_optimizer/core_optimizer.py",
    "BaseOptimizer": "optimizers/base_optimizer.py",
    "HillClimbingOptimizer": "optimizers/local_opt/hill_climbing_optimizer.py",
    "Spiral": "optimizers/pop_opt/_spiral.py",
}
BASES = {"SearchTracker": [], "CoreOptimizer": ["SearchTracker"], "BaseOptimizer": ["CoreOptimizer"],
         "HillClimbingOptimizer": ["BaseOptimizer"], "Spiral": ["HillClimbingOptimizer"]}
MRO = {"SearchTracker": ["SearchTracker"], "CoreOptimizer": ["CoreOptimizer", "SearchTracker"],
       "BaseOptimizer": ["BaseOptimizer", "CoreOptimizer", "SearchTracker"],
       "HillClimbingOptimizer": ["HillClimbingOptimizer", "BaseOptimizer", "CoreOptimizer", "SearchTracker"],
       "Spiral": ["Spiral", "HillClimbingOptimizer", "BaseOptimizer", "CoreOptimizer", "SearchTracker"]}
PROPS = ["pos_new", "score_new", "pos_current", "score_current", "pos_best", "score_best"]
# emitted in this order (dependencies first)
METHODS = (
    [("SearchTracker", "get:" + p) for p in PROPS] + [("SearchTracker", "set:" + p) for p in PROPS] +
    [("SearchTracker", "deco:track_new_pos"), ("SearchTracker", "deco:track_new_score"),
     ("SearchTracker", "_eval2current"), ("SearchTracker", "_eval2best"), ("SearchTracker", "_evaluate_new2current"),
     ("SearchTracker", "_evaluate_current2best"), ("SearchTracker", "_current2best"), ("SearchTracker", "_new2current"),
     ("CoreOptimizer", "evaluate_init"), ("BaseOptimizer", "evaluate"), ("HillClimbingOptimizer", "evaluate"),
     ("Spiral", "evaluate")])

# the pinned helper: hill_climbing_optimizer.max_list_idx is modelled by PyPrims.py_max_list_idx
MAX_LIST_IDX_SRC = """def max_list_idx(list_):
    max_item = max(list_)
    max_item_idx = [i for i, j in enumerate(list_) if j == max_item]
    return max_item_idx[-1:][0]
"""


def coqname(attr):
    return "f_" + attr.lstrip("_") if attr.startswith("_") else "f_" + attr


class Tr:
    def __init__(self):
        self.trees = {}
        self.classes = {}
        for cls, rel in FILES.items():
            path = os.path.join(PKG, rel)
            tree = ast.parse(open(path).read(), path)
            self.trees[cls] = tree
            cds = [n for n in tree.body if isinstance(n, ast.ClassDef) and n.name == cls]
            if len(cds) != 1:
                raise Abort("%s: class %s not found exactly once" % (rel, cls))
            self.classes[cls] = cds[0]
            got = [ast.unparse(b).split(".")[-1] for b in cds[0].bases]
            if got != BASES[cls] and not (cls == "SearchTracker" and got == []):
                raise Abort("%s: bases %s, expected %s" % (cls, got, BASES[cls]))
        self.attrs = dict(TRACKER_ATTRS)
        self.attrs.update(EXTRA_ATTRS)
        self.out = []
        self.defined = set()

    # ---------------------------------------------------------------- lookup
    def fns(self, cls):
        return [n for n in self.classes[cls].body if isinstance(n, ast.FunctionDef)]

    def find(self, cls, name, deco=None):
        hit = []
        for f in self.fns(cls):
            if f.name != name:
                continue
            d = [ast.unparse(x) for x in f.decorator_list]
            if deco == "get" and d == ["property"]:
                hit.append(f)
            elif deco == "set" and d == [name + ".setter"]:
                hit.append(f)
            elif deco is None and not any(x == "property" or x.endswith(".setter") for x in d):
                hit.append(f)
        if len(hit) != 1:
            raise Abort("%s.%s (%s): found %d definitions" % (cls, name, deco, len(hit)))
        return hit[0]

    def resolve(self, cls, meth):
        """first class of cls's MRO that defines meth"""
        for c in MRO[cls]:
            if any(f.name == meth for f in self.fns(c)):
                g = "g_%s_%s" % (c, meth)
                if g not in self.defined:
                    raise Abort("%s: call of %s.%s, which is not translated (yet)" % (cls, c, meth))
                return g
        raise Abort("%s: method %s not found in the translated classes" % (cls, meth))

    # ---------------------------------------------------------------- expressions
    def expr(self, e, env, cls):
        """-> (binds [(var, monadic text)], pure text, type)"""
        if isinstance(e, ast.Constant):
            if e.value is None:
                return [], "None", "pos"
            if isinstance(e.value, bool):
                return [], ("true" if e.value else "false"), "bool"
            if isinstance(e.value, int):
                return [], "(%d)" % e.value, "int"
            raise Abort("constant %r" % (e.value,))
        if isinstance(e, ast.UnaryOp) and isinstance(e.op, ast.USub) and ast.unparse(e.operand) == "np.inf":
            return [], "SNInf", "score"
        if isinstance(e, ast.Name):
            if e.id not in env:
                raise Abort("unknown name %s" % e.id)
            return [], env[e.id][0], env[e.id][1]
        if isinstance(e, ast.Attribute) and isinstance(e.value, ast.Name) and e.value.id == "self":
            a = e.attr
            if a in PROPS:
                return [], "(g_SearchTracker_get_%s self)" % a, ("pos" if a.startswith("pos") else "score")
            if a in self.attrs:
                return [], "(%s self)" % coqname(a), self.attrs[a]
            raise Abort("attribute self.%s is not part of the modelled state" % a)
        if isinstance(e, ast.Compare) and len(e.ops) == 1:
            op, l, r = e.ops[0], e.left, e.comparators[0]
            if isinstance(op, (ast.Is, ast.IsNot)) and isinstance(r, ast.Constant) and r.value is None:
                b, t, ty = self.expr(l, env, cls)
                if ty != "pos":
                    raise Abort("`is None` on a %s" % ty)
                return b, ("(py_is_none %s)" if isinstance(op, ast.Is) else "(negb (py_is_none %s))") % t, "bool"
            b1, t1, ty1 = self.expr(l, env, cls)
            b2, t2, ty2 = self.expr(r, env, cls)
            if ty1 != ty2:
                raise Abort("comparison of %s with %s" % (ty1, ty2))
            if ty1 == "score":
                f = {ast.Gt: "sgt %s %s", ast.GtE: "sge %s %s", ast.LtE: "sle %s %s", ast.Lt: "slt %s %s",
                     ast.Eq: "seqb %s %s", ast.NotEq: "negb (seqb %s %s)"}.get(type(op))
            elif ty1 == "int":
                f = {ast.Gt: "Z.ltb %s %s", ast.GtE: "Z.leb %s %s", ast.LtE: "Z.leb %s %s", ast.Lt: "Z.ltb %s %s",
                     ast.Eq: "Z.eqb %s %s", ast.NotEq: "negb (Z.eqb %s %s)"}.get(type(op))
                if isinstance(op, (ast.Gt, ast.GtE)):
                    t1, t2 = t2, t1
            else:
                f = None
            if f is None:
                raise Abort("comparison %s on %s" % (type(op).__name__, ty1))
            return b1 + b2, "(" + f % (t1, t2) + ")", "bool"
        if isinstance(e, ast.BoolOp):
            parts = [self.expr(v, env, cls) for v in e.values]
            if any(p[0] for p in parts[1:]):
                raise Abort("an operand after the first of and/or may raise (short-circuit not modelled)")
            if any(p[2] != "bool" for p in parts):
                raise Abort("and/or on non-boolean operands")
            f = "andb" if isinstance(e.op, ast.And) else "orb"
            t = parts[-1][1]
            for p in reversed(parts[:-1]):
                t = "(%s %s %s)" % (f, p[1], t)
            return parts[0][0], t, "bool"
        if isinstance(e, ast.UnaryOp) and isinstance(e.op, ast.Invert) and isinstance(e.operand, ast.Call) \
                and ast.unparse(e.operand.func) in ("np.isinf", "np.isnan") and len(e.operand.args) == 1:
            b, t, ty = self.expr(e.operand.args[0], env, cls)
            if ty != "score":
                raise Abort("np.isinf/np.isnan on a %s" % ty)
            return b, "(negb (%s %s))" % ("s_isinf" if ast.unparse(e.operand.func) == "np.isinf" else "s_isnan", t), "bool"
        if isinstance(e, ast.UnaryOp) and isinstance(e.op, ast.Not):
            b, t, ty = self.expr(e.operand, env, cls)
            if ty != "bool":
                raise Abort("not on a %s" % ty)
            return b, "(negb %s)" % t, "bool"
        if isinstance(e, ast.BinOp) and isinstance(e.op, (ast.Mod, ast.Add, ast.Sub)):
            b1, t1, ty1 = self.expr(e.left, env, cls)
            b2, t2, ty2 = self.expr(e.right, env, cls)
            if ty1 != "int" or ty2 != "int":
                raise Abort("arithmetic on %s, %s" % (ty1, ty2))
            if isinstance(e.op, ast.Mod):
                v = self.fresh(env)
                return b1 + b2 + [(v, "py_mod %s %s" % (t1, t2))], v, "int"
            return b1 + b2, "(%s %s %s)" % (t1, "+" if isinstance(e.op, ast.Add) else "-", t2), "int"
        if isinstance(e, ast.Call) and isinstance(e.func, ast.Name) and e.func.id == "len" and len(e.args) == 1:
            b, t, ty = self.expr(e.args[0], env, cls)
            if ty not in ELEM:
                raise Abort("len of a %s" % ty)
            return b, "(zlen %s)" % t, "int"
        if isinstance(e, ast.Call) and isinstance(e.func, ast.Name) and e.func.id == "max_list_idx" and len(e.args) == 1:
            self.check_max_list_idx()
            b, t, ty = self.expr(e.args[0], env, cls)
            if ty != "list_score":
                raise Abort("max_list_idx of a %s" % ty)
            v = self.fresh(env)
            return b + [(v, "py_max_list_idx %s" % t)], v, "int"
        if isinstance(e, ast.Subscript):
            b, t, ty = self.expr(e.value, env, cls)
            if ty not in ELEM:
                raise Abort("subscript of a %s" % ty)
            s = e.slice
            if isinstance(s, ast.Slice):
                if s.upper is None and s.step is None and isinstance(s.lower, ast.UnaryOp) and isinstance(s.lower.op, ast.USub):
                    b2, t2, ty2 = self.expr(s.lower.operand, env, cls)
                    if ty2 != "int":
                        raise Abort("slice bound of type %s" % ty2)
                    return b + b2, "(py_slice_last %s %s)" % (t2, t), ty
                raise Abort("slice shape %s" % ast.unparse(s))
            b2, t2, ty2 = self.expr(s, env, cls)
            if ty2 != "int":
                raise Abort("index of type %s" % ty2)
            v = self.fresh(env)
            return b + b2 + [(v, "py_getitem %s %s" % (t, t2))], v, ELEM[ty]
        raise Abort("expression `%s`" % ast.unparse(e))

    def fresh(self, env):
        env["__n"] = (env.get("__n", (0,))[0] + 1,)
        return "tmp%d" % env["__n"][0]

    def check_max_list_idx(self):
        tree = self.trees["HillClimbingOptimizer"]
        fs = [n for n in tree.body if isinstance(n, ast.FunctionDef) and n.name == "max_list_idx"]
        if len(fs) != 1 or ast.dump(fs[0]) != ast.dump(ast.parse(MAX_LIST_IDX_SRC).body[0]):
            raise Abort("max_list_idx differs from the pinned source that PyPrims.py_max_list_idx transcribes")

    # ---------------------------------------------------------------- statements
    @staticmethod
    def binds(bs):
        return "".join("do %s <- %s; " % (v, m) for v, m in bs)

    def block(self, stmts, env, cls, func_param=None):
        """-> Coq text of type res gst; `self` is rebound along the way"""
        if not stmts:
            return "Ok self"
        s, rest = stmts[0], stmts[1:]
        env = dict(env)
        if isinstance(s, ast.Expr) and isinstance(s.value, ast.Constant) and isinstance(s.value.value, str):
            return self.block(rest, env, cls, func_param)
        if isinstance(s, ast.Return):
            if rest:
                raise Abort("statements after return")
            if s.value is None or (func_param and isinstance(s.value, ast.Name) and s.value.id == "_return_"):
                return "Ok self"
            raise Abort("return of a value: %s" % ast.unparse(s))
        if isinstance(s, ast.Assign) and len(s.targets) == 1:
            tg = s.targets[0]
            # _return_ = func(self, score)  inside a decorator wrapper
            if func_param and isinstance(s.value, ast.Call) and isinstance(s.value.func, ast.Name) and s.value.func.id == func_param:
                args = s.value.args
                if not args or ast.unparse(args[0]) != "self" or s.value.keywords:
                    raise Abort("call of the decorated function: %s" % ast.unparse(s))
                ts = []
                bs = []
                for a in args[1:]:
                    b, t, _ = self.expr(a, env, cls)
                    bs += b
                    ts.append(t)
                if not (isinstance(tg, ast.Name) and tg.id == "_return_"):
                    raise Abort("result of the decorated function bound to %s" % ast.unparse(tg))
                return "%sdo self <- func self %s; %s" % (self.binds(bs), " ".join(ts), self.block(rest, env, cls, func_param))
            b, t, ty = self.expr(s.value, env, cls)
            if isinstance(tg, ast.Name):
                env[tg.id] = (tg.id + "_v", ty)
                return "%slet %s_v := %s in %s" % (self.binds(b), tg.id, t, self.block(rest, env, cls, func_param))
            if isinstance(tg, ast.Attribute) and isinstance(tg.value, ast.Name) and tg.value.id == "self":
                a = tg.attr
                if a in PROPS:
                    want = "pos" if a.startswith("pos") else "score"
                    if ty != want:
                        raise Abort("self.%s = <%s>" % (a, ty))
                    return "%sdo self <- g_SearchTracker_set_%s self %s; %s" % (self.binds(b), a, t, self.block(rest, env, cls, func_param))
                if a in self.attrs:
                    if ty != self.attrs[a]:
                        raise Abort("self.%s = <%s>" % (a, ty))
                    return "%slet self := self <| %s := %s |> in %s" % (self.binds(b), coqname(a), t, self.block(rest, env, cls, func_param))
                raise Abort("assignment to self.%s, which is not part of the modelled state" % a)
            raise Abort("assignment target %s" % ast.unparse(tg))
        if isinstance(s, ast.AugAssign) and isinstance(s.op, ast.Add) and isinstance(s.target, ast.Attribute) \
                and isinstance(s.target.value, ast.Name) and s.target.value.id == "self" and self.attrs.get(s.target.attr) == "int" \
                and s.target.attr not in PROPS:
            b, t, ty = self.expr(s.value, env, cls)
            if ty != "int":
                raise Abort("+= of a %s" % ty)
            f = coqname(s.target.attr)
            return "%slet self := self <| %s := (%s self) + %s |> in %s" % (self.binds(b), f, f, t, self.block(rest, env, cls, func_param))
        if isinstance(s, ast.Expr) and isinstance(s.value, ast.Call):
            c = s.value
            if c.keywords:
                raise Abort("keyword arguments: %s" % ast.unparse(c))
            f = c.func
            # self.<list>.append(x)
            if isinstance(f, ast.Attribute) and f.attr == "append" and isinstance(f.value, ast.Attribute) \
                    and isinstance(f.value.value, ast.Name) and f.value.value.id == "self" and len(c.args) == 1:
                a = f.value.attr
                if self.attrs.get(a) not in ELEM:
                    raise Abort("append to self.%s" % a)
                b, t, ty = self.expr(c.args[0], env, cls)
                if ty != ELEM[self.attrs[a]]:
                    raise Abort("self.%s.append(<%s>)" % (a, ty))
                return "%slet self := self <| %s := (%s self) ++ [%s] |> in %s" % (self.binds(b), coqname(a), coqname(a), t, self.block(rest, env, cls, func_param))
            # self.method(args) / Class.method(self, args)
            target = None
            args = c.args
            if isinstance(f, ast.Attribute) and isinstance(f.value, ast.Name) and f.value.id == "self":
                target = self.resolve(cls, f.attr)
            elif isinstance(f, ast.Attribute) and isinstance(f.value, ast.Name) and f.value.id in MRO[cls][1:] \
                    and args and ast.unparse(args[0]) == "self":
                target = self.resolve(f.value.id, f.attr)
                args = args[1:]
            if target is None:
                raise Abort("call %s" % ast.unparse(c))
            bs, ts = [], []
            for a in args:
                b, t, _ = self.expr(a, env, cls)
                bs += b
                ts.append(t)
            return "%sdo self <- %s self %s; %s" % (self.binds(bs), target, " ".join(ts), self.block(rest, env, cls, func_param))
        if isinstance(s, ast.If):
            b, t, ty = self.expr(s.test, env, cls)
            if ty != "bool":
                raise Abort("if on a %s" % ty)
            if s.body and isinstance(s.body[-1], ast.Return) and s.body[-1].value is None and not s.orelse:
                return "%sif %s then (%s) else (%s)" % (self.binds(b), t, self.block(s.body[:-1], env, cls, func_param),
                                                       self.block(rest, env, cls, func_param))
            return "%sdo self <- (if %s then (%s) else (%s)); %s" % (
                self.binds(b), t, self.block(s.body, env, cls, func_param), self.block(s.orelse, env, cls, func_param),
                self.block(rest, env, cls, func_param))
        raise Abort("statement `%s`" % ast.unparse(s).split("\n")[0])

    # ---------------------------------------------------------------- definitions
    def params(self, fn, skip_self=True):
        a = fn.args
        if a.vararg or a.kwarg or a.posonlyargs or a.kwonlyargs or a.defaults:
            raise Abort("%s: parameter shape" % fn.name)
        ps = [x.arg for x in a.args]
        if ps[0] != "self":
            raise Abort("%s: first parameter is not self" % fn.name)
        out = []
        for p in ps[1:]:
            if p not in PARAM_TY:
                raise Abort("%s: parameter %s has no declared type" % (fn.name, p))
            out.append((p, PARAM_TY[p]))
        return out

    def emit(self, name, text):
        self.out.append(text)
        self.defined.add(name)

    def record(self):
        init = self.find("SearchTracker", "__init__")
        found = {}
        for s in init.body:
            if isinstance(s, ast.Expr) and ast.unparse(s) == "super().__init__()":
                continue
            if not (isinstance(s, ast.Assign) and len(s.targets) == 1 and isinstance(s.targets[0], ast.Attribute)
                    and ast.unparse(s.targets[0].value) == "self"):
                raise Abort("SearchTracker.__init__: statement `%s`" % ast.unparse(s))
            a = s.targets[0].attr
            v = ast.unparse(s.value)
            if a not in TRACKER_ATTRS:
                raise Abort("SearchTracker.__init__ creates self.%s, which the translator's attribute table does not know" % a)
            ty = TRACKER_ATTRS[a]
            want = {"pos": "None", "score": "-np.inf", "int": "0", "list_pos": "[]", "list_score": "[]"}[ty]
            if v != want:
                raise Abort("SearchTracker.__init__: self.%s = %s, expected %s" % (a, v, want))
            found[a] = {"pos": "None", "score": "SNInf", "int": "0", "list_pos": "[]", "list_score": "[]"}[ty]
        if set(found) != set(TRACKER_ATTRS):
            raise Abort("SearchTracker.__init__ no longer creates %s" % sorted(set(TRACKER_ATTRS) - set(found)))
        core_init = self.find("CoreOptimizer", "__init__")
        if not any(ast.unparse(s) == "self.nth_init = 0" for s in ast.walk(core_init) if isinstance(s, ast.Assign)):
            raise Abort("CoreOptimizer.__init__ no longer sets self.nth_init = 0")
        hc_init = self.find("HillClimbingOptimizer", "__init__")
        if not any(ast.unparse(s) == "self.n_neighbours = n_neighbours" for s in ast.walk(hc_init) if isinstance(s, ast.Assign)):
            raise Abort("HillClimbingOptimizer.__init__ no longer sets self.n_neighbours = n_neighbours")
        order = list(TRACKER_ATTRS) + list(EXTRA_ATTRS)
        fields = "; ".join("%s : %s" % (coqname(a), COQTY[self.attrs[a]]) for a in order)
        self.out.append("Record gst := mkGst { %s }." % fields)
        self.out.append("#[export] Instance eta_gst : Settable gst := settable! mkGst <%s>." % "; ".join(coqname(a) for a in order))
        vals = " ".join(found[a] for a in TRACKER_ATTRS)
        self.out.append("Definition g_init (n_neighbours : Z) : gst := mkGst %s 0 n_neighbours." % vals)

    def method(self, cls, spec):
        if spec.startswith("get:"):
            p = spec[4:]
            fn = self.find(cls, p, "get")
            if len(fn.body) != 1 or not isinstance(fn.body[0], ast.Return):
                raise Abort("getter %s: body" % p)
            b, t, ty = self.expr(fn.body[0].value, {}, cls)
            if b:
                raise Abort("getter %s may raise" % p)
            self.emit("g_%s_get_%s" % (cls, p), "Definition g_%s_get_%s (self : gst) : %s := %s." % (cls, p, COQTY[ty], t.strip("()") if False else t))
            return
        if spec.startswith("set:"):
            p = spec[4:]
            fn = self.find(cls, p, "set")
            ps = self.params(fn)
            env = {n: (n, t) for n, t in ps}
            body = self.block(fn.body, env, cls)
            sig = " ".join("(%s : %s)" % (n, COQTY[t]) for n, t in ps)
            self.emit("g_%s_set_%s" % (cls, p), "Definition g_%s_set_%s (self : gst) %s : res gst :=\n  %s." % (cls, p, sig, body))
            return
        if spec.startswith("deco:"):
            d = spec[5:]
            fn = self.find(cls, d)
            if [x.arg for x in fn.args.args] != ["func"] or len(fn.body) != 2 or not isinstance(fn.body[0], ast.FunctionDef) \
                    or ast.unparse(fn.body[1]) != "return wrapper":
                raise Abort("decorator %s: shape" % d)
            w = fn.body[0]
            if d == "track_new_score":
                ps = self.params(w)
                env = {n: (n, t) for n, t in ps}
                body = self.block(w.body, env, cls, func_param="func")
                if "func self" not in body:
                    raise Abort("track_new_score does not call the decorated function")
                sig = " ".join("(%s : %s)" % (n, COQTY[t]) for n, t in ps)
                fty = "gst -> " + " -> ".join(COQTY[t] for _, t in ps) + " -> res gst"
                self.emit("g_%s_%s" % (cls, d), "Definition g_%s_%s (func : %s) (self : gst) %s : res gst :=\n  %s." % (cls, d, fty, sig, body))
                return
            if d == "track_new_pos":
                # wrapper(self, *args, **kwargs): self.pos_new = func(self, *args, **kwargs); ...; return self.pos_new
                a = w.args
                if [x.arg for x in a.args] != ["self"] or not a.vararg or not a.kwarg:
                    raise Abort("track_new_pos wrapper: parameters")
                first, last = w.body[0], w.body[-1]
                if ast.unparse(first) != "self.pos_new = func(self, *args, **kwargs)" or ast.unparse(last) != "return self.pos_new":
                    raise Abort("track_new_pos wrapper: first/last statement")
                # the part after the decorated call, with its result as the parameter `ret`
                env = {"ret": ("(Some ret)", "pos")}
                mid = [ast.parse("self.pos_new = ret").body[0]] + w.body[1:-1]
                body = self.block(mid, env, cls)
                self.emit("g_%s_%s" % (cls, d), "Definition g_%s_%s (self : gst) (ret : pos) : res gst :=\n  %s." % (cls, d, body))
                return
            raise Abort("decorator %s" % d)
        fn = self.find(cls, spec)
        decos = [ast.unparse(x) for x in fn.decorator_list]
        ps = self.params(fn)
        env = {n: (n, t) for n, t in ps}
        body = self.block(fn.body, env, cls)
        sig = " ".join("(%s : %s)" % (n, COQTY[t]) for n, t in ps)
        name = "g_%s_%s" % (cls, spec)
        if not decos:
            self.emit(name, "Definition %s (self : gst) %s : res gst :=\n  %s." % (name, sig, body))
        elif len(decos) == 1 and decos[0].split(".")[-1] == "track_new_score" and decos[0].split(".")[0] in MRO[cls]:
            self.out.append("Definition %s__body (self : gst) %s : res gst :=\n  %s." % (name, sig, body))
            self.emit(name, "Definition %s := g_SearchTracker_track_new_score %s__body." % (name, name))
        else:
            raise Abort("%s.%s: decorators %s" % (cls, spec, decos))

    def run(self):
        self.out = [
            "(* GENERATED by harness/translate_core.py from %s -- do not edit. *)" % ", ".join(sorted(set(FILES.values()))),
            "Require Import Base PyPrims.",
            "From RecordUpdate Require Import RecordSet.",
            "Import RecordSetNotations.",
            "",
        ]
        self.record()
        for cls, spec in METHODS:
            try:
                self.method(cls, spec)
            except Abort as e:
                raise Abort("%s.%s: %s" % (cls, spec, e))
        return "\n".join(self.out) + "\n"


def source_digest():
    h = hashlib.sha1()
    for rel in sorted(set(FILES.values())):
        h.update(open(os.path.join(PKG, rel), "rb").read())
    return h.hexdigest()


def translate(write=True):
    """-> dict(ok, error, text, digest).  On abort a stub is written that makes the tie proofs fail to compile."""
    info = dict(ok=True, error=None, digest=source_digest(), methods=["%s.%s" % m for m in METHODS])
    try:
        text = Tr().run()
    except Abort as e:
        info.update(ok=False, error=str(e))
        text = ("(* GENERATED by harness/translate_core.py -- the translator ABORTED: %s *)\n"
                "Require Import Base PyPrims.\nDefinition translator_aborted : bool := true.\n" % str(e).replace("*)", "* )"))
    except (OSError, SyntaxError) as e:
        info.update(ok=False, error="%s: %s" % (type(e).__name__, e))
        text = ("(* GENERATED by harness/translate_core.py -- source unreadable *)\nRequire Import Base PyPrims.\n"
                "Definition translator_aborted : bool := true.\n")
    info["text_sha1"] = hashlib.sha1(text.encode()).hexdigest()
    if write:
        old = open(OUT).read() if os.path.exists(OUT) else None
        if old != text:
            open(OUT, "w").write(text)
        json.dump(info, open(INFO, "w"), indent=1)
    info["text"] = text
    return info


if __name__ == "__main__":
    r = translate(write="--dry" not in sys.argv)
    print(r["text"] if "--show" in sys.argv else ("ok" if r["ok"] else "ABORT: " + r["error"]))
    sys.exit(0 if r["ok"] else 1)
