"""Shared plumbing of the checks: environment, Coq literals, running Coq, evidence, verdict.

Every check is `python3 harness/check.py Cxx --tier quick|thorough` (see check.py).  The library
under test is always imported from /repo/src (never an installed copy)."""
import os, sys, json, re, time, subprocess, hashlib, math, fcntl, random, traceback
from fractions import Fraction

VERIF = os.path.dirname(os.path.dirname(os.path.abspath(__file__)))
REPO = os.environ.get("GFO_REPO", "/repo")
COQ = os.path.join(VERIF, "coq")
CASES = os.path.join(COQ, "cases")
EVID = os.path.join(VERIF, "evidence")
REPLAYS = os.path.join(EVID, "replays")
PY = "/venv/bin/python"
NPROC = max(1, min(16, os.cpu_count() or 1))

COQ_ARGS = ["-R", "theories", "GFO", "-R", "proofs", "GFO", "-R", "props", "GFO", "-R", "generated", "GFO"]


def ensure_env():
    """Re-exec under /venv/bin/python with a pinned environment (idempotent)."""
    want = {
        "PYTHONPATH": os.path.join(REPO, "src") + os.pathsep + os.path.join(VERIF, "harness"),
        "PYTHONHASHSEED": "0",
        "OMP_NUM_THREADS": "1", "OPENBLAS_NUM_THREADS": "1", "MKL_NUM_THREADS": "1",
        "GFO_VERIF_ENV": "1",
        "PYTHONWARNINGS": "ignore",
    }
    if os.environ.get("GFO_VERIF_ENV") == "1" and os.path.realpath(sys.executable) == os.path.realpath(PY):
        return
    env = dict(os.environ)
    env.update(want)
    os.execve(PY, [PY] + sys.argv, env)


# ------------------------------------------------------------------ Coq literals
def cz(n):
    n = int(n)
    return "(%d)" % n if n < 0 else "%d" % n


def cnat(n):
    return "%d%%nat" % int(n)


def cbool(b):
    return "true" if b else "false"


def clist(xs, f=cz):
    return "[" + "; ".join(f(x) for x in xs) + "]"


def copt(x, f=cz):
    return "None" if x is None else "(Some %s)" % f(x)


def cpair(a, b):
    return "(%s, %s)" % (a, b)


class Scaler:
    """Exact embedding of a finite set of doubles into Z: multiply by a common power of two."""

    def __init__(self, floats=()):
        self.den = 1
        for x in floats:
            self.add(x)

    def add(self, x):
        try:
            x = float(x)
        except (TypeError, ValueError):
            return
        if math.isfinite(x):
            d = Fraction(x).denominator
            if d > self.den:
                self.den = d

    def z(self, x):
        fr = Fraction(float(x)) * self.den
        assert fr.denominator == 1, (x, self.den)
        return int(fr)

    def score(self, x):
        x = float(x)
        if math.isnan(x):
            return "SNaN"
        if x == math.inf:
            return "SPInf"
        if x == -math.inf:
            return "SNInf"
        return "(SFin %s)" % cz(self.z(x))


def res_lit(kind, payload=None):
    """kind: 'ok' with payload literal, or an exception class name."""
    if kind == "ok":
        return "(Ok %s)" % payload
    return "(Err %s)" % ERRMAP.get(kind, "Unspecified")


ERRMAP = {
    "IndexError": "IndexError", "ValueError": "ValueError", "ZeroDivisionError": "ZeroDivisionError",
    "KeyError": "KeyError", "AttributeError": "AttributeError", "TypeError": "TypeError",
    "NotFittedError": "NotFitted",
}


# ------------------------------------------------------------------ running Coq
def sh(cmd, timeout, cwd=None, env=None):
    p = subprocess.run(cmd, cwd=cwd, env=env, stdout=subprocess.PIPE, stderr=subprocess.STDOUT,
                       timeout=timeout, text=True)
    return p.returncode, p.stdout


_built = False


def coq_build():
    """Full .vo build of the development (incremental), serialised across concurrent checks."""
    global _built
    if _built:
        return True, ""
    os.makedirs(CASES, exist_ok=True)
    lock = open(os.path.join(COQ, ".build.lock"), "w")
    fcntl.flock(lock, fcntl.LOCK_EX)
    try:
        rc, out = sh(["bash", "-c", "coq_makefile -f _CoqProject -o Makefile >/dev/null 2>&1 && timeout 1500 make -k -j%d 2>&1" % NPROC],
                     1600, cwd=COQ)
    finally:
        fcntl.flock(lock, fcntl.LOCK_UN)
        lock.close()
    _built = rc == 0
    return rc == 0, out


GATE = re.compile(r"\b(Admitted|admit|Axiom|Axioms|Parameter|Parameters|Conjecture|Conjectures|Hypothesis|Hypotheses|Variable|Variables)\b|Unset\s+Guard|bypass_check|type-in-type|impredicative-set|Admit Obligations")


def grep_gate():
    """No Admitted/admit/Axiom/Parameter/... anywhere; Variable/Hypothesis only inside a Section."""
    bad = []
    for sub in ("theories", "proofs", "props", "generated"):
        d = os.path.join(COQ, sub)
        if not os.path.isdir(d):
            continue
        for fn in sorted(os.listdir(d)):
            if not fn.endswith(".v"):
                continue
            depth = 0
            txt = open(os.path.join(d, fn)).read()
            txt = re.sub(r"\(\*.*?\*\)", lambda m: "\n" * m.group(0).count("\n"), txt, flags=re.S)
            for ln, line in enumerate(txt.split("\n"), 1):
                if re.match(r"\s*Section\b", line):
                    depth += 1
                if re.match(r"\s*End\b", line) and depth > 0:
                    depth -= 1
                m = GATE.search(line)
                if m:
                    w = m.group(0)
                    if w in ("Variable", "Variables", "Hypothesis", "Hypotheses") and depth > 0:
                        continue
                    bad.append("%s/%s:%d: %s" % (sub, fn, ln, line.strip()[:100]))
    return bad


def compile_prop(pid):
    """Re-check props/Prop_<pid>.v now; return dict(ok, theorems, assumptions, output)."""
    path = os.path.join("props", "Prop_%s.v" % pid)
    full = os.path.join(COQ, path)
    if not os.path.exists(full):
        return dict(ok=False, theorems=[], assumptions={}, output="missing " + path)
    src = open(full).read()
    theorems = re.findall(r"^\s*(?:Theorem|Example|Corollary)\s+(\w+)", src, flags=re.M)
    rc, out = sh(["timeout", "600", "coqc"] + COQ_ARGS + [path], 700, cwd=COQ)
    assumptions = {}
    # Print Assumptions output follows each theorem in file order
    printed = re.findall(r"^\s*Print Assumptions\s+(\w+)\s*\.", src, flags=re.M)
    blocks = re.split(r"(?=Closed under the global context|Axioms:)", out)
    blocks = [b for b in blocks if b.startswith("Closed under") or b.startswith("Axioms:")]
    for name, b in zip(printed, blocks):
        assumptions[name] = "closed" if b.startswith("Closed") else " ".join(b.split())[:2000]
    return dict(ok=(rc == 0), theorems=theorems, printed=printed, assumptions=assumptions, output=out[-4000:])


def _parse_nat_list(out):
    m = re.search(r"=\s*(\[.*?\])\s*:\s*list nat", out, flags=re.S)
    if not m:
        return None
    return [int(x) for x in re.findall(r"\d+", m.group(1))]


def coq_eval_cases(unit, header, case_type, case_lits, chk, shard=400, timeout=900):
    """Evaluate `failing chk cases` inside Coq (vm_compute) for the given case literals.

    header: Coq text (Require/Definition lines) placed before the cases; chk: a Coq term of type
    case_type -> bool.  Returns (failing_indices, error_text|None)."""
    os.makedirs(CASES, exist_ok=True)
    files = []
    for si in range(0, max(1, len(case_lits)), shard):
        part = case_lits[si:si + shard]
        name = "K_%s_%d_%d" % (re.sub(r"\W", "_", unit), os.getpid(), si // shard)
        body = ["Require Import Base.", header, "Open Scope Z_scope.",
                "Definition cases : list (%s) := [" % case_type,
                ";\n".join(part), "].",
                "Definition chk_fun : (%s) -> bool := %s." % (case_type, chk),
                "Definition bad := failing chk_fun cases.",
                "Eval vm_compute in bad."]
        path = os.path.join(CASES, name + ".v")
        with open(path, "w") as fh:
            fh.write("\n".join(body) + "\n")
        files.append((si, path))
    procs = []
    failing, errors = [], []
    running = []

    def reap(block):
        for ent in list(running):
            si, path, p, t0 = ent
            if p.poll() is None and not block:
                continue
            try:
                out, _ = p.communicate(timeout=timeout)
            except subprocess.TimeoutExpired:
                p.kill()
                out = "TIMEOUT"
            running.remove(ent)
            if p.returncode != 0:
                errors.append("%s: rc=%s %s" % (os.path.basename(path), p.returncode, out[-1500:]))
            else:
                idx = _parse_nat_list(out)
                if idx is None:
                    errors.append("%s: unparsable output %s" % (os.path.basename(path), out[-500:]))
                else:
                    failing.extend(si + i for i in idx)
            for ext in (".v", ".vo", ".vok", ".vos", ".glob"):
                try:
                    os.remove(path[:-2] + ext)
                except OSError:
                    pass
            try:
                os.remove(os.path.join(CASES, "." + os.path.basename(path)[:-2] + ".aux"))
            except OSError:
                pass

    for si, path in files:
        while len(running) >= NPROC:
            reap(False)
            time.sleep(0.05)
        p = subprocess.Popen(["timeout", str(timeout), "coqc"] + COQ_ARGS + [os.path.relpath(path, COQ)],
                             cwd=COQ, stdout=subprocess.PIPE, stderr=subprocess.STDOUT, text=True)
        running.append((si, path, p, time.time()))
    while running:
        reap(True)
    return sorted(failing), ("\n".join(errors) if errors else None)


# ------------------------------------------------------------------ units / context
class Unit:
    """One correspondence unit: the implementation and the model run on the same inputs."""

    def __init__(self, name, kind, rule):
        self.name, self.kind, self.rule = name, kind, rule
        self.evaluations = 0
        self.nontrivial = set()
        self.skipped = 0
        self.mismatches = []      # list of dict(case=..., note=...)
        self.samples = []
        self.hist = {}
        self.error = None         # infrastructure / model evaluation failure
        self.exhaustive = False

    def count(self, key, nontrivial=True):
        self.evaluations += 1
        if nontrivial:
            self.nontrivial.add(key if isinstance(key, (str, int, tuple)) else json.dumps(key, sort_keys=True, default=str))

    def bump(self, k):
        self.hist[k] = self.hist.get(k, 0) + 1

    def summary(self):
        return dict(name=self.name, kind=self.kind, rule=self.rule, evaluations=self.evaluations,
                    distinct_nontrivial=len(self.nontrivial), skipped_for_margin=self.skipped,
                    mismatches=len(self.mismatches), error=self.error, histogram=self.hist,
                    exhaustive=self.exhaustive, samples=jsonable(self.samples[:3]))


class Ctx:
    def __init__(self, pid, tier, seed):
        self.pid, self.tier, self.seed = pid, tier, seed
        self.rng = random.Random("%s-%s" % (pid, seed))
        self.units = []
        self.violations = []      # concrete failing cases found by the monitor: dict(sig=..., case=..., text=...)
        self.monitor_runs = 0
        self.monitor_nontrivial = set()
        self.monitor_rule = ""
        self.blocked = []
        self.notes = []
        self.assumptions = []
        self.t0 = time.time()

    @property
    def quick(self):
        return self.tier == "quick"

    def unit(self, name, kind, rule):
        u = Unit(name, kind, rule)
        self.units.append(u)
        return u

    def violation(self, sig, case, text):
        self.violations.append(dict(sig=sig, case=case, text=text))

    def sub_rng(self, tag):
        return random.Random("%s-%s-%s" % (self.pid, self.seed, tag))


def guarded(ctx, what, fn, *args, **kw):
    """runs one part of a property's check; a crash of that part (e.g. a unit that drives an internal class whose interface changed) is
    recorded as an error of that part and does not keep the remaining units and the monitor from running"""
    try:
        return fn(*args, **kw)
    except Exception:
        import traceback
        u = ctx.unit("harness:" + what, "infrastructure", "this part of the check could not run against the current source")
        u.error = traceback.format_exc()[-2500:]
        return None


def jsonable(x):
    try:
        import numpy as np
    except Exception:
        np = None
    if isinstance(x, dict):
        return {str(k): jsonable(v) for k, v in x.items()}
    if isinstance(x, (list, tuple, set)):
        return [jsonable(v) for v in x]
    if np is not None and isinstance(x, np.ndarray):
        return jsonable(x.tolist())
    if np is not None and isinstance(x, np.generic):
        return jsonable(x.item())
    if isinstance(x, float):
        if math.isnan(x):
            return "nan"
        if math.isinf(x):
            return "inf" if x > 0 else "-inf"
        return x
    if isinstance(x, Fraction):
        return "%d/%d" % (x.numerator, x.denominator)
    if isinstance(x, (int, str, bool)) or x is None:
        return x
    return repr(x)


# ------------------------------------------------------------------ known findings
def load_findings():
    p = os.path.join(VERIF, "known_findings.json")
    if not os.path.exists(p):
        return []
    return json.load(open(p))


def finding_matches(entry, pid, sig):
    if entry.get("kind") != "finding" or entry.get("property") != pid:
        return False
    for k, want in entry.get("match", {}).items():
        got = sig.get(k)
        if isinstance(want, list):
            if got not in want:
                return False
        elif got != want:
            return False
    return True


# ------------------------------------------------------------------ verdict
def finish(ctx, proof, write=True):
    """Decide exit status, print VIOLATION / KNOWN-FINDING lines, write the evidence file."""
    pid = ctx.pid
    os.makedirs(REPLAYS, exist_ok=True)
    findings = load_findings()
    lines = []
    new_violations = []
    known_hit = {}
    for v in ctx.violations:
        hit = None
        for e in findings:
            if finding_matches(e, pid, v["sig"]):
                hit = e
                break
        if hit is not None:
            known_hit.setdefault(hit["id"], (hit, v))
        else:
            new_violations.append(v)
    for fid, (e, v) in sorted(known_hit.items()):
        lines.append("KNOWN-FINDING: property=%s %s [%s]" % (pid, e["text"], fid))

    broken = []   # proof obligations / correspondence units that no longer check
    if not proof["build_ok"]:
        broken.append(dict(kind="coq-build", name="make", detail=proof["build_out"][-1500:]))
    if not proof["prop"]["ok"]:
        broken.append(dict(kind="theorem-file", name="props/Prop_%s.v" % pid, detail=proof["prop"]["output"][-1500:]))
    for n, a in proof["prop"].get("assumptions", {}).items():
        if a != "closed" and not proof.get("allowed_axioms_ok", lambda n, a: False)(n, a):
            broken.append(dict(kind="axiom", name=n, detail=a))
    if proof["gate"]:
        broken.append(dict(kind="grep-gate", name="Admitted/Axiom gate", detail="; ".join(proof["gate"][:5])))
    for u in ctx.units:
        if u.error:
            broken.append(dict(kind="unit-error", name=u.name, detail=u.error[-1500:]))
        elif u.mismatches:
            broken.append(dict(kind="correspondence", name=u.name, detail=jsonable(u.mismatches[:3])))

    # most of the monitor's runs could not be executed (they raised something the monitor does not judge): nothing was explored
    if ctx.monitor_runs >= 20 and len(ctx.blocked) * 2 > ctx.monitor_runs:
        broken.append(dict(kind="blocked-runs", name="monitor", detail="%d of %d monitor runs were blocked; first: %s"
                           % (len(ctx.blocked), ctx.monitor_runs, json.dumps(jsonable(ctx.blocked[:2]))[:800])))

    status = 0
    replay_paths = []
    if new_violations:
        status = 1
        seen = set()
        for v in new_violations:
            key = json.dumps(jsonable(v["sig"]), sort_keys=True)
            if key in seen:
                continue
            seen.add(key)
            if len(seen) > 5:
                break
            h = hashlib.sha1(json.dumps(jsonable(v["case"]), sort_keys=True).encode()).hexdigest()[:10]
            path = os.path.join(REPLAYS, "%s-%s.json" % (pid, h))
            json.dump(dict(property=pid, kind="failing-input", text=v["text"], sig=jsonable(v["sig"]),
                           case=jsonable(v["case"]), broken=jsonable(broken)), open(path, "w"), indent=1)
            replay_paths.append(path)
            lines.append("VIOLATION property=%s replay=%s" % (pid, path))
    elif broken:
        status = 1
        h = hashlib.sha1(json.dumps(jsonable(broken), sort_keys=True).encode()).hexdigest()[:10]
        path = os.path.join(REPLAYS, "%s-broken-%s.json" % (pid, h))
        json.dump(dict(property=pid, kind="no-failing-input-found",
                       text="a proof obligation or correspondence unit no longer checks; the monitor sweep found no concrete failing input",
                       broken=jsonable(broken)), open(path, "w"), indent=1)
        replay_paths.append(path)
        lines.append("VIOLATION property=%s replay=%s no-failing-input-found" % (pid, path))

    thms = proof["prop"].get("theorems", [])
    discharged = len(thms) if (proof["build_ok"] and proof["prop"]["ok"]) else 0
    ev_total = sum(u.evaluations for u in ctx.units) + ctx.monitor_runs
    dn = sum(len(u.nontrivial) for u in ctx.units) + len(ctx.monitor_nontrivial)
    samples = []
    for u in ctx.units:
        for s in u.samples[:2]:
            samples.append(dict(unit=u.name, case=jsonable(s)))
    samples.append(dict(obligations=thms))
    trusted = [
        "Coq 8.16.1 kernel (coqc); vm_compute for witness examples and for evaluating the model on the correspondence cases; no native_compute",
        "axioms per theorem (Print Assumptions): " + json.dumps(proof["prop"].get("assumptions", {})),
        "hand-written Gallina model (coq/theories) tied to /repo only through the executed correspondence units listed under coverage.units",
        "harness: generators, float->integer scaling, wrappers (clock, RNG, objective, constraints), comparators, monitors, finding matchers",
        "CPython 3.12 / numpy semantics as transcribed (DESIGN appendix A)",
    ] + list(ctx.assumptions)
    evidence = dict(
        property_id=pid, tier=ctx.tier, seed=int(ctx.seed), level="proof",
        coverage=dict(
            obligations=max(1, len(thms)), discharged=discharged,
            checker_cmd="cd /verif/coq && make && coqc %s props/Prop_%s.v" % (" ".join(COQ_ARGS), pid),
            trusted_base=trusted,
            evaluations=max(1, ev_total), distinct_nontrivial=dn,
            rule="units: " + " | ".join("%s: %s" % (u.name, u.rule) for u in ctx.units) + (" | monitor: " + ctx.monitor_rule if ctx.monitor_rule else ""),
            samples=samples,
            units=[u.summary() for u in ctx.units],
            monitor=dict(runs=ctx.monitor_runs, distinct_nontrivial=len(ctx.monitor_nontrivial), rule=ctx.monitor_rule,
                         violations=len(ctx.violations), known_findings=sorted(known_hit), blocked_total=len(ctx.blocked), blocked=jsonable(ctx.blocked[:10])),
            theorems=thms, broken=jsonable(broken), notes=ctx.notes,
            exhaustive=all(u.exhaustive for u in ctx.units) if ctx.units else False,
        ),
        assumptions=list(ctx.assumptions),
        wall_s=round(time.time() - ctx.t0, 2),
        violations=len(new_violations) if new_violations else (1 if broken else 0),
    )
    if write and os.environ.get("VERIF_NO_EVIDENCE") != "1":      # dev runs against seeded changes must not touch evidence/
        os.makedirs(EVID, exist_ok=True)
        json.dump(evidence, open(os.path.join(EVID, "%s.json" % pid), "w"), indent=1)
    for ln in lines:
        print(ln)
    print("%s: %s (%d theorems, %d units, %d evaluations, %d monitor runs, %.1fs)" % (
        pid, "OK" if status == 0 else "FAILED", len(thms), len(ctx.units), ev_total, ctx.monitor_runs, time.time() - ctx.t0))
    sys.stdout.flush()
    return status
