#!/usr/bin/env python3
"""Translator (C18): regenerates coq/generated/FacadeData.v from /repo's source on every run.

For every public class exported by gradient_free_optimizers/optimizer_search/__init__.py it reads, with `ast`
(fail-closed: any shape it does not know aborts), the class's bases, the parameter list of its __init__ with the
canonical text of each default, the keyword list of its single super().__init__(...) call; and from the
backend class it inherits from (found through the module's import alias; the __init__ is taken from the first
class in the backend's MRO that defines one) the parameter list with defaults.  Names and default texts are
numbered; the tables are written to generated/facade_tables.json for the replay messages."""
import ast, os, sys, json, importlib, inspect

REPO = os.environ.get("GFO_REPO", "/repo")
SRC = os.path.join(REPO, "src")
VERIF = os.path.dirname(os.path.dirname(os.path.abspath(__file__)))
OUT = os.path.join(VERIF, "coq", "generated", "FacadeData.v")
TAB = os.path.join(VERIF, "coq", "generated", "facade_tables.json")


class Abort(Exception):
    pass


def init_of(classdef):
    inits = [n for n in classdef.body if isinstance(n, ast.FunctionDef) and n.name == "__init__"]
    if len(inits) != 1:
        raise Abort("%s: expected exactly one __init__" % classdef.name)
    return inits[0]


def sig_of(fn, where, allow_kwarg=False):
    a = fn.args
    if a.vararg or (a.kwarg and not allow_kwarg) or a.posonlyargs or a.kwonlyargs:
        raise Abort("%s: *args/**kwargs/keyword-only parameters are not supported" % where)
    params = [x.arg for x in a.args]
    if not params or params[0] != "self":
        raise Abort("%s: first parameter is not self" % where)
    params = params[1:]
    defaults = [None] * (len(params) - len(a.defaults)) + [ast.unparse(d) for d in a.defaults]
    if len(defaults) != len(params):
        raise Abort("%s: defaults do not line up" % where)
    return list(zip(params, defaults))


def parse_facade(path, clsname):
    tree = ast.parse(open(path).read(), path)
    aliases = {}
    for n in tree.body:
        if isinstance(n, ast.ImportFrom):
            for al in n.names:
                aliases[al.asname or al.name] = (n.module, n.level, al.name)
    cds = [n for n in tree.body if isinstance(n, ast.ClassDef) and n.name == clsname]
    if len(cds) != 1:
        raise Abort("%s: class %s not found exactly once" % (path, clsname))
    cd = cds[0]
    if len(cd.bases) != 2 or not all(isinstance(b, ast.Name) for b in cd.bases):
        raise Abort("%s: bases are not two plain names" % clsname)
    backend_alias, mixin = cd.bases[0].id, cd.bases[1].id
    shape_ok = (mixin == "Search" and aliases.get("Search", (None,))[0] == "search" and backend_alias in aliases)
    init = init_of(cd)
    body = [s for s in init.body if not (isinstance(s, ast.Expr) and isinstance(s.value, ast.Constant) and isinstance(s.value.value, str))]
    for n in cd.body:
        if n is init:
            continue
        if isinstance(n, ast.Expr) and isinstance(n.value, ast.Constant) and isinstance(n.value.value, str):
            continue        # docstring
        shape_ok = False    # extra methods/attributes on a facade: not "forwarding only"
    if len(body) != 1 or not isinstance(body[0], ast.Expr) or not isinstance(body[0].value, ast.Call):
        raise Abort("%s.__init__: body is not a single call" % clsname)
    call = body[0].value
    f = call.func
    if not (isinstance(f, ast.Attribute) and f.attr == "__init__" and isinstance(f.value, ast.Call)
            and isinstance(f.value.func, ast.Name) and f.value.func.id == "super" and not f.value.args):
        raise Abort("%s.__init__: the call is not super().__init__(...)" % clsname)
    if call.args:
        raise Abort("%s.__init__: positional arguments in the super call" % clsname)
    forwards = []
    for kwd in call.keywords:
        if kwd.arg is None:
            raise Abort("%s.__init__: **kwargs in the super call" % clsname)
        forwards.append((kwd.arg, kwd.value.id if isinstance(kwd.value, ast.Name) else None, ast.unparse(kwd.value)))
    return dict(params=sig_of(init, clsname), forwards=forwards, backend_alias=aliases[backend_alias], shape_ok=shape_ok)


def backend_sig(backend_cls):
    for k in backend_cls.__mro__:
        if "__init__" in k.__dict__ and k is not object:
            path = inspect.getsourcefile(k)
            tree = ast.parse(open(path).read(), path)
            for n in ast.walk(tree):
                if isinstance(n, ast.ClassDef) and n.name == k.__name__:
                    return sig_of(init_of(n), "%s (backend)" % k.__name__, allow_kwarg=True), path  # a trailing **kwargs of the backend receives nothing on either path
            raise Abort("backend class %s not found in %s" % (k.__name__, path))
    raise Abort("no __init__ in the MRO of %s" % backend_cls)


def translate():
    sys.path.insert(0, SRC)
    pkg_init = os.path.join(SRC, "gradient_free_optimizers", "optimizer_search", "__init__.py")
    tree = ast.parse(open(pkg_init).read(), pkg_init)
    exports = []
    for n in tree.body:
        if isinstance(n, ast.ImportFrom) and n.level == 1:
            for al in n.names:
                exports.append((n.module, al.name))
    if not exports:
        raise Abort("no facade classes found")
    names, exprs = {}, {}

    def nid(s):
        return names.setdefault(s, len(names))

    def eid(s):
        return exprs.setdefault(s, len(exprs))
    out = []
    info = []
    backends_mod = importlib.import_module("gradient_free_optimizers.optimizers")
    for mod, cls in exports:
        path = os.path.join(SRC, "gradient_free_optimizers", "optimizer_search", mod + ".py")
        fa = parse_facade(path, cls)
        bmod, blevel, bname = fa["backend_alias"]
        if not (bmod == "optimizers" and blevel == 2):
            raise Abort("%s: backend is not imported from ..optimizers" % cls)
        bsig, bpath = backend_sig(getattr(backends_mod, bname))
        info.append(dict(facade=cls, backend=bname, params=fa["params"], forwards=fa["forwards"], backend_params=bsig,
                         shape_ok=fa["shape_ok"], file=path, backend_file=bpath))

        def sig_lit(sig):
            return "[" + "; ".join("(%d, %s)" % (nid(p), "None" if d is None else "Some %d" % eid(d)) for p, d in sig) + "]"
        fw = "[" + "; ".join("(%d, %s)" % (nid(k), "%d" % nid(v) if v is not None else "(-1)") for k, v, _ in fa["forwards"]) + "]"
        out.append("  (* %s(_%s, Search) *)\n  mkFacade %d %s\n    %s\n    %s %s" % (
            cls, bname, nid("class:" + cls), sig_lit(fa["params"]), fw, sig_lit(bsig), "true" if fa["shape_ok"] else "false"))
    text = ("(* GENERATED by harness/translate_facades.py from %s — do not edit. *)\n"
            "Require Import Base Facade.\nOpen Scope Z_scope.\n\n"
            "Definition facades : list facade := [\n%s\n].\n\nDefinition n_facades : nat := %d%%nat.\n" % (
                os.path.join(SRC, "gradient_free_optimizers", "optimizer_search"), ";\n".join(out), len(out)))
    os.makedirs(os.path.dirname(OUT), exist_ok=True)
    old = open(OUT).read() if os.path.exists(OUT) else None
    if old != text:
        open(OUT, "w").write(text)
    json.dump(dict(names={v: k for k, v in names.items()}, exprs={v: k for k, v in exprs.items()}, facades=info), open(TAB, "w"), indent=1)
    return info


if __name__ == "__main__":
    try:
        info = translate()
        print("translated %d facades" % len(info))
    except Abort as e:
        print("ABORT:", e)
        sys.exit(2)
