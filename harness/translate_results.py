#!/usr/bin/env python3
"""Translator (results manager): regenerates coq/generated/ResGen.v from /repo's _results_manager.py on every run.

  ResultsManager.score(objective_function) -> the inner `_wrapper(pos)`: position -> value -> para, the objective's result, one row
  appended to results_list, the score returned.

`_obj_func_results` (tuple results -> score + metrics dictionary, "score" key added) is pinned by a digest of its source text: its meaning
in the model is the `result` record (score, optional metrics).  Two expressions of `_wrapper` are pinned by their text as well:
`{**results_dict, **para}` is the model's row (metrics, score, parameter values; metric keys assumed disjoint from parameter names and
"score") and `results_dict['score']` is the result's score.  proofs/ResTie.v proves that the generated wrapper around the generated
memory wrapper (generated/MemGen.v) or around the raw objective is the model's inner_score.  Fail-closed."""
import ast, os, sys, json, hashlib

sys.path.insert(0, os.path.dirname(os.path.abspath(__file__)))
from pytrans import Abort, Unit, Fn, Tr, translate_function, coqty, params_of
from translate_driver import top_cls
from translate_memory import source_text

REPO = os.environ.get("GFO_REPO", "/repo")
PKG = os.path.join(REPO, "src", "gradient_free_optimizers")
VERIF = os.path.dirname(os.path.dirname(os.path.abspath(__file__)))
OUT = os.path.join(VERIF, "coq", "generated", "ResGen.v")
INFO = os.path.join(VERIF, "coq", "generated", "res_gen.json")
PINS = os.path.join(VERIF, "harness", "results_pins.json")

PRELUDE = '''
Section ResGen.
Variable sp : space.
Variable names : list Z.                                    (* conv.para_names *)
Variable RM : Type.                                         (* state behind objective_function: the memory wrapper's, or a call log *)
Variable obj_call : RM -> para -> res (RM * result).        (* objective_function(para) seen through _obj_func_results (pinned) *)

Record g_res := mkGRes { rg_results_list : list row; rg_inner : RM }.
#[export] Instance eta_g_res : Settable g_res := settable! mkGRes <rg_results_list; rg_inner>.

Definition rg_obj_func_results (self : g_res) (p : para) : res (g_res * result) :=
  do x <- obj_call (rg_inner self) p; Ok (self <| rg_inner := fst x |>, snd x).
'''


def build(out):
    path = os.path.join(PKG, "_results_manager.py")
    tree = ast.parse(open(path).read(), path)
    cls = top_cls(tree, "ResultsManager", [])
    meths = {f.name: f for f in cls.body if isinstance(f, ast.FunctionDef)}
    if set(meths) != {"__init__", "_obj_func_results", "score", "search_data"}:
        raise Abort("ResultsManager defines methods %s" % sorted(meths))
    sc = meths["score"]
    if [a.arg for a in sc.args.args] != ["self", "objective_function"] or len(sc.body) != 2 \
            or not isinstance(sc.body[0], ast.FunctionDef) or sc.body[0].name != "_wrapper" or ast.unparse(sc.body[1]) != "return _wrapper":
        raise Abort("ResultsManager.score is no longer `def _wrapper(pos): ...; return _wrapper`")
    w = sc.body[0]
    if [a.arg for a in w.args.args] != ["pos"] or w.args.vararg or w.args.kwarg:
        raise Abort("ResultsManager.score._wrapper: parameters")
    out.append(PRELUDE)
    u = Unit("res")
    u.fields = {"results_list": ("rg_results_list", "list:coq:row")}
    u.self_ty = "g_res"

    def ext(name, ret):
        def mk(tr, ts):
            v = tr.fresh()
            return v, "%s %s" % (name, " ".join(ts)), v
        return (mk, ret)
    u.call_exprs["self.conv.position2value"] = ext("position2value sp", "coq:values")

    def v2p(tr, ts):
        v = tr.fresh()
        return v, "Ok (value2para names %s)" % " ".join(ts), v
    u.call_exprs["self.conv.value2para"] = (v2p, "coq:para")

    def ofr(tr, ts):
        if ts[0] != "objective_function":
            raise Abort("_obj_func_results is not called with objective_function")
        v = tr.fresh()
        return "(self, %s)" % v, "rg_obj_func_results self %s" % " ".join(ts[1:]), v
    u.call_exprs["self._obj_func_results"] = (ofr, "coq:result")
    u.oracles["{**results_dict, **para}"] = ("(result_row results_dict_v value_v)", "coq:row")
    u.oracles["results_dict['score']"] = ("(r_score results_dict_v)", "score")
    fn = ast.FunctionDef(name="_wrapper", args=ast.arguments(posonlyargs=[], args=[ast.arg(arg="self"), ast.arg(arg="pos")], vararg=None,
                                                              kwonlyargs=[], kw_defaults=[], kwarg=None, defaults=[]),
                         body=w.body, decorator_list=[], returns=None, type_comment=None)
    tr_env_names = {"objective_function": ("objective_function", "coq:objective")}
    # `objective_function` is passed on as a name: give it a placeholder binding
    from pytrans import Tr as _Tr
    orig = _Tr.expr

    def expr(self, e, env):
        if isinstance(e, ast.Name) and e.id == "objective_function":
            return [], "objective_function", "coq:objective"
        return orig(self, e, env)
    _Tr.expr = expr
    try:
        out.append(translate_function(u, fn, Fn("g_ResultsManager_wrapper", ["pos"], "score", kind="method")))
    finally:
        _Tr.expr = orig
    out.append("End ResGen.")
    pins = {m: hashlib.sha1(source_text(path, meths[m]).encode()).hexdigest() for m in ("__init__", "_obj_func_results", "search_data")}
    return ["ResultsManager.score._wrapper"], pins


HEADER = ["(* GENERATED by harness/translate_results.py from _results_manager.py -- do not edit. *)",
          "Require Import Base PyPrims PyPrimsQ StopRun Converter Driver.",
          "From RecordUpdate Require Import RecordSet.",
          "Import RecordSetNotations.",
          "Open Scope Z_scope.",
          ""]


def translate(write=True):
    info = dict(ok=True, error=None)
    try:
        info["digest"] = hashlib.sha1(open(os.path.join(PKG, "_results_manager.py"), "rb").read()).hexdigest()
        out = list(HEADER)
        info["methods"], pins = build(out)
        info["pinned_bodies"] = pins
        if not os.path.exists(PINS):
            raise Abort("harness/results_pins.json is missing")
        want = json.load(open(PINS))
        for m, d in pins.items():
            if want.get(m) != d:
                raise Abort("ResultsManager.%s changed: it is modelled by hand (the `result` / `row` records of theories/Driver.v) and pinned by digest" % m)
        text = "\n".join(out) + "\n"
    except Abort as e:
        info.update(ok=False, error=str(e))
        text = ("(* GENERATED by harness/translate_results.py -- the translator ABORTED: %s *)\n"
                "Require Import Base PyPrims PyPrimsQ.\nDefinition translator_aborted : bool := true.\n" % str(e).replace("*)", "* )"))
    except (OSError, SyntaxError) as e:
        info.update(ok=False, error="%s: %s" % (type(e).__name__, e))
        text = ("(* GENERATED by harness/translate_results.py -- source unreadable *)\nRequire Import Base PyPrims PyPrimsQ.\n"
                "Definition translator_aborted : bool := true.\n")
    info["text_sha1"] = hashlib.sha1(text.encode()).hexdigest()
    if write:
        old = open(OUT).read() if os.path.exists(OUT) else None
        if old != text:
            open(OUT, "w").write(text)
        json.dump(info, open(INFO, "w"), indent=1)
    info["text"] = text
    return info


if __name__ == "__main__":
    if "--pin" in sys.argv:
        _, pins = build([])
        json.dump(pins, open(PINS, "w"), indent=1)
        print("pinned", pins)
        sys.exit(0)
    r = translate(write="--dry" not in sys.argv)
    print(r["text"] if "--show" in sys.argv else ("ok" if r["ok"] else "ABORT: " + r["error"]))
    sys.exit(0 if r["ok"] else 1)
