"""Generators: search spaces, objectives (tables / scripts), constraints, optimizer configs.
Every random choice comes from the random.Random instance passed in."""
import math, itertools
import numpy as np

FAST = [
    "HillClimbingOptimizer", "StochasticHillClimbingOptimizer", "RepulsingHillClimbingOptimizer",
    "SimulatedAnnealingOptimizer", "DownhillSimplexOptimizer", "RandomSearchOptimizer",
    "GridSearchOptimizer", "RandomRestartHillClimbingOptimizer", "PowellsMethod", "PatternSearch",
    "DirectAlgorithm", "RandomAnnealingOptimizer", "ParallelTemperingOptimizer",
    "ParticleSwarmOptimizer", "SpiralOptimization", "GeneticAlgorithmOptimizer",
    "EvolutionStrategyOptimizer", "DifferentialEvolutionOptimizer",
]
SLOW = ["LipschitzOptimizer", "BayesianOptimizer", "TreeStructuredParzenEstimators", "ForestOptimizer"]
ALL = FAST + SLOW
POPULATION = ["ParallelTemperingOptimizer", "ParticleSwarmOptimizer", "SpiralOptimization",
              "GeneticAlgorithmOptimizer", "EvolutionStrategyOptimizer", "DifferentialEvolutionOptimizer"]
SMBO = ["BayesianOptimizer", "TreeStructuredParzenEstimators", "ForestOptimizer", "LipschitzOptimizer"]


def rotate(names, i, quick):
    """the optimizer of case i: the given names in rotation; in the quick tier (whose rotation holds the fast optimizers only) every 23rd
    case is one of the model-based optimizers, so that no check runs without them"""
    if quick and i % 23 == 22:
        return SLOW[(i // 23) % len(SLOW)]
    return names[i % len(names)]


def opt_class(name):
    import gradient_free_optimizers as gfo
    return getattr(gfo, name)


def gen_space(rng, ndims=None, sizes=(1, 2, 3, 5, 8), kinds=("int", "float"), orders=("asc", "desc", "shuf"),
              max_points=None, dups=0.0):
    """-> (space dict name->np.array, meta). Values are dyadic so that integer scaling is exact."""
    nd = ndims if ndims is not None else rng.choice([1, 1, 2, 2, 3])
    space, meta = {}, []
    for d in range(nd):
        cur = int(np.prod([len(v) for v in space.values()] or [1]))
        fits = [s for s in sizes if max_points is None or s * cur <= max_points]
        n = rng.choice(fits) if fits else 1
        kind = rng.choice(list(kinds))
        order = rng.choice(list(orders))
        start = rng.randint(-6, 6)
        if kind == "int":
            vals = [start + i * rng.choice([1, 1, 2, 3]) for i in range(n)]
            step = rng.choice([1, 2, 3])
            vals = [start + i * step for i in range(n)]
        else:
            step = rng.choice([0.25, 0.5, 1.5, 0.125])
            vals = [start + i * step for i in range(n)]
        if order == "desc":
            vals = vals[::-1]
        elif order == "shuf":
            rng.shuffle(vals)
        if dups and n >= 2 and rng.random() < dups:
            # a dimension that holds the same value at two indices (np.logspace(...).astype(int), hand-written lists)
            i, j = rng.sample(range(n), 2)
            vals[j] = vals[i]
        arr = np.array(vals, dtype=(np.int64 if kind == "int" else np.float64))
        space["x%d" % d] = arr
        meta.append((kind, order, n))
    return space, meta


def all_positions(space):
    return list(itertools.product(*[range(len(v)) for v in space.values()]))


def pos_values(space, pos):
    return tuple(float(a[i]) for a, i in zip(space.values(), pos))


def gen_table(rng, space, kind=None, nonfinite=0.0, metrics=0, scalar="mix"):
    """Score table over all positions. kind: unimodal | plateau | random | negative | zero-mixed."""
    kind = kind or rng.choice(["unimodal", "plateau", "random", "negative", "mixed"])
    dims = [len(v) for v in space.values()]
    opt = [rng.randrange(d) for d in dims]
    table = {}
    for pos in all_positions(space):
        if kind == "unimodal":
            s = -float(sum((p - o) ** 2 for p, o in zip(pos, opt)))
        elif kind == "plateau":
            s = float(rng.choice([0, 0, 1, 1, 2]))
        elif kind == "random":
            s = float(rng.randint(-8, 8)) / rng.choice([1, 2, 4])
        elif kind == "negative":
            s = -1.0 - float(sum(abs(p - o) for p, o in zip(pos, opt)))
        else:
            s = float(sum(p - o for p, o in zip(pos, opt)))
        if nonfinite and rng.random() < nonfinite:
            s = rng.choice([math.nan, math.inf, -math.inf])
        m = None
        if metrics:
            m = {"m%d" % j: rng.randint(-5, 5) for j in range(metrics)}
        table[pos] = (s, m)
    return table, kind


CONSTRAINT_KINDS = ["halfspace", "parity", "band", "mask"]


def gen_constraint(rng, space, kind=None, min_frac=0.25):
    """-> (feasible set of positions, description). Feasible fraction >= min_frac enforced."""
    allp = all_positions(space)
    dims = [len(v) for v in space.values()]
    for _ in range(200):
        k = kind or rng.choice(CONSTRAINT_KINDS)
        if k == "halfspace":
            w = [rng.choice([-1, 0, 1, 1]) for _ in dims]
            c = rng.randint(-2, max(dims))
            feas = {p for p in allp if sum(a * b for a, b in zip(w, p)) <= c}
            desc = ("halfspace", w, c)
        elif k == "parity":
            m = rng.choice([2, 2, 3])
            r = rng.randrange(m)
            d = rng.randrange(len(dims))
            feas = {p for p in allp if (p[d] % m == r) or (len(dims) > 1 and sum(p) % m == r and rng.random() < 2)}
            feas = {p for p in allp if p[d] % m == r} if rng.random() < 0.5 else {p for p in allp if sum(p) % m == r}
            desc = ("parity", m, r, d)
        elif k == "band":
            d = rng.randrange(len(dims))
            w = rng.choice([2, 3, 4])
            feas = {p for p in allp if (p[d] // max(1, w // 2)) % 2 == 0}
            desc = ("band", d, w)
        else:
            frac = rng.choice([0.3, 0.5, 0.8])
            feas = {p for p in allp if rng.random() < frac}
            desc = ("mask", frac)
        if len(feas) >= max(1, math.ceil(min_frac * len(allp))):
            return feas, desc
    return set(allp), ("all",)


def gen_initialize(rng, space, small=True, warm=0):
    init = {}
    keys = rng.choice([["random"], ["grid", "random", "vertices"], ["vertices"], ["grid"], ["random", "vertices"],
                       ["grid", "random", "vertices"]])
    for k in keys:
        init[k] = rng.randint(0 if len(keys) > 1 else 1, 3 if small else 5)
    if sum(init.values()) == 0:
        init["random"] = 1
    if warm:
        names = list(space.keys())
        ws = []
        for _ in range(warm):
            d = {n: space[n][rng.randrange(len(space[n]))].item() for n in names}
            items = list(d.items())
            rng.shuffle(items)
            ws.append(dict(items))
        init["warm_start"] = ws
    return init


def gen_opt_config(rng, name, space):
    """Non-default hyper-parameters of an optimizer, kept cheap."""
    cfg = {}
    if name in ("HillClimbingOptimizer", "StochasticHillClimbingOptimizer", "RepulsingHillClimbingOptimizer",
                "SimulatedAnnealingOptimizer", "RandomRestartHillClimbingOptimizer", "RandomAnnealingOptimizer"):
        if rng.random() < 0.6:
            cfg["epsilon"] = rng.choice([0.01, 0.03, 0.3, 1.0, 2.5])
        if rng.random() < 0.5:
            cfg["distribution"] = rng.choice(["normal", "laplace", "logistic", "gumbel"])
        if rng.random() < 0.5:
            cfg["n_neighbours"] = rng.choice([1, 2, 3, 5])
    if name == "RandomRestartHillClimbingOptimizer" and rng.random() < 0.5:
        cfg["n_iter_restart"] = rng.choice([1, 2, 5])
    if name == "GridSearchOptimizer":
        cfg["direction"] = rng.choice(["diagonal", "orthogonal"])
    # algorithm-specific hyper-parameters, beyond their usual ranges too (the properties quantify over all settings)
    extra = {
        "ParticleSwarmOptimizer": dict(inertia=[0.5, 0.9, 1.5], cognitive_weight=[0.5, 1.5, 3.0], social_weight=[0.5, 1.5, 3.0], temp_weight=[0.2, 1.0]),
        "SpiralOptimization": dict(decay_rate=[0.99, 0.9, 1.1, 0.5]),
        "GeneticAlgorithmOptimizer": dict(mutation_rate=[0.0, 0.5, 1.0], crossover_rate=[0.0, 0.5, 1.0], offspring=[1, 5, 10], n_parents=[2]),
        "EvolutionStrategyOptimizer": dict(mutation_rate=[0.0, 0.7, 1.0], crossover_rate=[0.0, 0.3, 1.0], offspring=[1, 20], replace_parents=[False, True]),
        "DifferentialEvolutionOptimizer": dict(mutation_rate=[0.3, 0.9, 2.0], crossover_rate=[0.1, 0.5, 0.9]),
        "ParallelTemperingOptimizer": dict(n_iter_swap=[1, 2, 5, 3]),   # 0 is not a period (x % 0): outside the domain
        "DownhillSimplexOptimizer": dict(alpha=[1, 2.5], gamma=[2, 4], beta=[0.5, 0.9], sigma=[0.5, 0.1]),
        "PatternSearch": dict(n_positions=[1, 2, 4, 8], pattern_size=[0.25, 0.9, 2.0], reduction=[0.9, 0.5]),
        "PowellsMethod": dict(iters_p_dim=[1, 3, 10]),
        "SimulatedAnnealingOptimizer": dict(annealing_rate=[0.97, 0.5], start_temp=[1, 100, 0.01]),
        "StochasticHillClimbingOptimizer": dict(p_accept=[0.5, 0.0, 1.0]),
        "RepulsingHillClimbingOptimizer": dict(repulsion_factor=[5, 1, 50]),
        "RandomAnnealingOptimizer": dict(annealing_rate=[0.98, 0.5], start_temp=[10, 1000, 0.1]),
        "GridSearchOptimizer": dict(step_size=[1, 2, 3]),
        "ForestOptimizer": dict(tree_regressor=["random_forest", "extra_tree", "gradient_boost"], xi=[0.0, 0.3], tree_para=[{"n_estimators": 5}, {"n_estimators": 8}]),
        "TreeStructuredParzenEstimators": dict(gamma_tpe=[0.1, 0.5, 0.9]),
        "BayesianOptimizer": dict(xi=[0.0, 0.3]),
    }.get(name, {})
    for k, vals in extra.items():
        if rng.random() < 0.4:
            cfg[k] = rng.choice(vals)
    if name in POPULATION and rng.random() < 0.7:
        lo = {"GeneticAlgorithmOptimizer": 4, "DifferentialEvolutionOptimizer": 4}.get(name, 1)
        cfg["population"] = rng.choice([lo, lo + 1, 5, 8])
    if name in SMBO and name != "LipschitzOptimizer" and rng.random() < 0.3:
        cfg["replacement"] = rng.choice([True, False])
    if rng.random() < 0.3:
        cfg["rand_rest_p"] = rng.choice([0.1, 0.5, 1.0])
    import inspect
    ok = set(inspect.signature(opt_class(name).__init__).parameters)
    return {k: v for k, v in cfg.items() if k in ok}


def space_exhausted(spec, positions):
    """True when a model-based optimizer with replacement=False has already evaluated every point of the (unconstrained)
    space -- the situation of finding F-D17 (C03): nothing is left to propose.  positions: evaluated index tuples."""
    cfg = spec.get("cfg") or {}
    if spec["name"] not in SMBO or cfg.get("replacement") is not False:
        return False
    size = 1
    for v in spec["space"].values():
        size *= len(v)
    return len({tuple(int(x) for x in p) for p in positions}) >= size
