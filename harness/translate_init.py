#!/usr/bin/env python3
"""Translator (initial positions): regenerates coq/generated/InitGen.v from /repo's init_positions.py on every run.

  Initializer.__init__            n_inits = sum of the planned counts ("random", "grid", "vertices", len("warm_start"))
  Initializer.set_pos             the component lists in source order (random, grid, vertices, warm start), flattened, padded by
                                  _fill_rest_random up to n_inits
  Initializer._init_warm_start    para2value -> value2position per dictionary, then the constraint filter
  Initializer._init_random_search n_pos times: rejection sampling with move_random until not_in_constraint
  Initializer._fill_rest_random   n_inits - len(positions) more random positions
  Initializer.add_n_random_init_pos

`initialize` is a record of optional keys; the state is (initialize, n_inits, init_positions_l, random tape, ghost counter of
constraint evaluations).  _init_grid_search and _init_vertices (numpy meshgrid / for-else) are Section variables pinned by a digest of
their source text (their results are observables of the C10 / C02 units).  The flattening comprehension of set_pos is pinned by its text
to `concat`.  proofs/InitTie.v proves the generated _init_warm_start equal to Init.init_warm_start and the generated set_pos to be
Init.assemble of the parts, and restates C10's theorem for the generated code.  Fail-closed."""
import ast, os, sys, json, hashlib

sys.path.insert(0, os.path.dirname(os.path.abspath(__file__)))
from pytrans import Abort, Unit, Fn, Tr, translate_function, coqty
from translate_driver import top_cls, record
from translate_memory import source_text

REPO = os.environ.get("GFO_REPO", "/repo")
PKG = os.path.join(REPO, "src", "gradient_free_optimizers")
VERIF = os.path.dirname(os.path.dirname(os.path.abspath(__file__)))
OUT = os.path.join(VERIF, "coq", "generated", "InitGen.v")
INFO = os.path.join(VERIF, "coq", "generated", "init_gen.json")
PINS = os.path.join(VERIF, "harness", "init_pins.json")
REL = "optimizers/core_optimizer/init_positions.py"

PRELUDE = '''
(* the `initialize` dictionary: a key is absent (None) or present with its value *)
Record g_initz := mkGInitz { iz_random : option Z; iz_grid : option Z; iz_vertices : option Z; iz_warm_start : option (list para) }.
Record g_init := mkGInit { in_initialize : g_initz; in_n_inits : Z; in_init_positions_l : list pos; in_tape : tape; in_ncalls : Z }.
#[export] Instance eta_g_init : Settable g_init := settable! mkGInit <in_initialize; in_n_inits; in_init_positions_l; in_tape; in_ncalls>.

Section InitGen.
Variable sp : space.
Variable cons : values -> bool.            (* conjunction of the constraints on a decoded parameter set *)
Variable names : list Z.                   (* conv.para_names *)
(* pinned by digest: numpy meshgrid / for-else code, modelled as any functions of the state and the requested count *)
Variable init_grid_search : g_init -> Z -> res (g_init * list pos).
Variable init_vertices : g_init -> Z -> res (g_init * list pos).

Definition ig_draw_position (self : g_init) (dims : list Z) : res (g_init * pos) :=
  do pt <- draw_position dims (in_tape self); Ok (self <| in_tape := snd pt |>, fst pt).
Definition ig_not_in_constraint (self : g_init) (p : pos) : res (g_init * bool) :=
  do ok <- not_in_constraint sp cons p; Ok (self <| in_ncalls := in_ncalls self + 1 |>, ok).
'''

FLATTEN = "[item for sublist in init_positions_ll for item in sublist]"


class KwNorm(ast.NodeTransformer):
    """self.m(n_pos=x) -> self.m(x) when the keyword is the method's only parameter of that name"""

    def __init__(self, sigs):
        self.sigs = sigs

    def visit_Call(self, node):
        self.generic_visit(node)
        fn = ast.unparse(node.func)
        if node.keywords and fn.startswith("self.") and fn[5:] in self.sigs:
            ps = self.sigs[fn[5:]]
            if node.args or [k.arg for k in node.keywords] != ps:
                raise Abort("keyword call %s" % ast.unparse(node))
            return ast.copy_location(ast.Call(func=node.func, args=[k.value for k in node.keywords], keywords=[]), node)
        return node


def build(out):
    path = os.path.join(PKG, REL)
    tree = ast.parse(open(path).read(), path)
    if "from .utils import move_random" not in [ast.unparse(n) for n in tree.body]:
        raise Abort("init_positions.py no longer imports utils.move_random")
    cls = top_cls(tree, "Initializer", [])
    meths = {f.name: f for f in cls.body if isinstance(f, ast.FunctionDef)}
    want = {"__init__", "move_random", "add_n_random_init_pos", "get_n_inits", "set_pos", "_init_warm_start", "_init_random_search",
            "_fill_rest_random", "_init_grid_search", "_get_random_vertex", "_init_vertices"}
    if set(meths) != want:
        raise Abort("Initializer defines methods %s" % sorted(meths))
    for f in meths.values():
        if f.decorator_list:
            raise Abort("Initializer.%s is decorated" % f.name)
    sigs = {m: [a.arg for a in meths[m].args.args[1:]] for m in meths}
    norm = KwNorm(sigs)
    out.append(PRELUDE)
    u = Unit("init")
    u.join_ifs = True
    u.dict_keys["g_initz"] = {"random": ("iz_random", "Z"), "grid": ("iz_grid", "Z"), "vertices": ("iz_vertices", "Z"),
                              "warm_start": ("iz_warm_start", "list:coq:para")}
    u.fields = {"initialize": ("in_initialize", "rec:g_initz"), "n_inits": ("in_n_inits", "Z"), "init_positions_l": ("in_init_positions_l", "list:pos")}
    u.self_ty = "g_init"
    u.hints.update(positions="list:pos", positions_constr="list:pos", init_positions_ll="list:list:pos")
    u.oracles["self.conv.search_space_positions"] = ("(dim_sizes sp)", "list:Z")
    u.oracles[FLATTEN] = ("(concat init_positions_ll_v)", "list:pos")

    def mr(tr, ts):
        v = tr.fresh()
        return "(self, %s)" % v, "ig_draw_position self %s" % " ".join(ts), v
    u.call_exprs["move_random"] = (mr, "pos")

    def nic(tr, ts):
        v = tr.fresh()
        return "(self, %s)" % v, "ig_not_in_constraint self %s" % " ".join(ts), v
    u.call_exprs["self.conv.not_in_constraint"] = (nic, "bool")

    def pure(name, ret):
        def mk(tr, ts):
            v = tr.fresh()
            return v, "%s %s" % (name, " ".join(ts)), v
        return (mk, ret)
    u.call_exprs["self.conv.para2value"] = pure("para2value names", "coq:values")
    u.call_exprs["self.conv.value2position"] = pure("value2position sp", "pos")
    u.methods["_init_grid_search"] = Fn("init_grid_search", ["Z"], "list:pos", kind="method")
    u.methods["_init_vertices"] = Fn("init_vertices", ["Z"], "list:pos", kind="method")

    def tr_method(name, params, ret, fueled):
        f = norm.visit(meths[name])
        ast.fix_missing_locations(f)
        sig = Fn("g_Initializer_" + name.lstrip("_"), params, ret, kind="method", fueled=fueled)
        out.append(translate_function(u, f, sig))
        u.methods[name] = sig

    tr_method("_init_random_search", ["Z"], "list:pos", True)
    tr_method("_init_warm_start", ["list:coq:para"], "list:pos", False)
    tr_method("_fill_rest_random", ["list:pos"], "list:pos", True)
    tr_method("set_pos", [], "none", True)
    tr_method("add_n_random_init_pos", ["Z"], "none", True)
    # __init__(self, conv, initialize): conv is the Section context; the two plain attribute copies are pinned
    init = meths["__init__"]
    if ast.unparse(init.args) != "self, conv, initialize":
        raise Abort("Initializer.__init__: parameters")
    u.pinned["self.conv = conv"] = ""
    u.pinned["self.initialize = initialize"] = "let self := self <| in_initialize := initialize |> in "
    u.pinned["self.init_positions_l = None"] = ""
    f = ast.FunctionDef(name="__init__", args=ast.arguments(posonlyargs=[], args=[ast.arg(arg="self"), ast.arg(arg="initialize")], vararg=None,
                                                             kwonlyargs=[], kw_defaults=[], kwarg=None, defaults=[]),
                        body=init.body, decorator_list=[], returns=None, type_comment=None)
    out.append(translate_function(u, f, Fn("g_Initializer_init", ["rec:g_initz"], "none", kind="method", fueled=True)))
    out.append("End InitGen.")
    pins = {m: hashlib.sha1(source_text(path, meths[m]).encode()).hexdigest() for m in ("_init_grid_search", "_get_random_vertex", "_init_vertices", "move_random", "get_n_inits")}
    return ["Initializer.__init__", "Initializer.set_pos", "Initializer._init_warm_start", "Initializer._init_random_search",
            "Initializer._fill_rest_random", "Initializer.add_n_random_init_pos"], pins


HEADER = ["(* GENERATED by harness/translate_init.py from %s -- do not edit. *)" % REL,
          "Require Import Base PyPrims PyPrimsQ Converter CoreOpt.",
          "From RecordUpdate Require Import RecordSet.",
          "Import RecordSetNotations.",
          "Open Scope Z_scope.",
          ""]


def translate(write=True):
    info = dict(ok=True, error=None)
    try:
        info["digest"] = hashlib.sha1(open(os.path.join(PKG, REL), "rb").read()).hexdigest()
        out = list(HEADER)
        info["methods"], pins = build(out)
        info["pinned_bodies"] = pins
        if not os.path.exists(PINS):
            raise Abort("harness/init_pins.json is missing")
        want = json.load(open(PINS))
        for m, d in pins.items():
            if want.get(m) != d:
                raise Abort("Initializer.%s changed: it is not translated (Section variable / unused helper) and pinned by digest" % m)
        text = "\n".join(out) + "\n"
    except Abort as e:
        info.update(ok=False, error=str(e))
        text = ("(* GENERATED by harness/translate_init.py -- the translator ABORTED: %s *)\n"
                "Require Import Base PyPrims PyPrimsQ.\nDefinition translator_aborted : bool := true.\n" % str(e).replace("*)", "* )"))
    except (OSError, SyntaxError) as e:
        info.update(ok=False, error="%s: %s" % (type(e).__name__, e))
        text = ("(* GENERATED by harness/translate_init.py -- source unreadable *)\nRequire Import Base PyPrims PyPrimsQ.\n"
                "Definition translator_aborted : bool := true.\n")
    info["text_sha1"] = hashlib.sha1(text.encode()).hexdigest()
    if write:
        old = open(OUT).read() if os.path.exists(OUT) else None
        if old != text:
            open(OUT, "w").write(text)
        json.dump(info, open(INFO, "w"), indent=1)
    info["text"] = text
    return info


if __name__ == "__main__":
    if "--pin" in sys.argv:
        _, pins = build([])
        json.dump(pins, open(PINS, "w"), indent=1)
        print("pinned", pins)
        sys.exit(0)
    r = translate(write="--dry" not in sys.argv)
    print(r["text"] if "--show" in sys.argv else ("ok" if r["ok"] else "ABORT: " + r["error"]))
    sys.exit(0 if r["ok"] else 1)
