"""Driver-level runs of the real library under instrumentation (virtual clock, logging objective and
constraints), and their translation into model cases (Coq `dcase` literals)."""
import math, sys, os, io, contextlib, logging
import numpy as np
from common import cz, cnat, cbool, clist, copt, Scaler

logging.disable(logging.CRITICAL)


class VClock:
    """Stands in for the `time` module inside search / _stop_run / _times_tracker."""

    def __init__(self, read_cost=0):
        self.now = 0
        self.read_cost = read_cost
        self.log = []

    def time(self):
        t = self.now
        self.log.append(t)
        self.now += self.read_cost
        return t

    def advance(self, d):
        self.now += d


@contextlib.contextmanager
def patched_clock(clock):
    """the wall clock of the library = the name `time` in whichever of its modules import it (search, _stop_run, _times_tracker on the
    pinned tree; found by scanning, so that a module gaining or losing the import does not break the harness)"""
    import sys, time as _time
    import gradient_free_optimizers.search, gradient_free_optimizers._stop_run, gradient_free_optimizers._times_tracker   # noqa: F401
    mods = [m for n, m in list(sys.modules.items()) if n.startswith("gradient_free_optimizers") and m is not None
            and getattr(m, "time", None) is _time]
    for m in mods:
        m.time = clock
    try:
        yield
    finally:
        for m in mods:
            m.time = _time


class Objective:
    """Scripted objective: results by call index first, then by the table (keyed by value tuple)."""

    def __init__(self, space, table, script=(), durations=(), clock=None, scalar="float", default_duration=0):
        self.space = space
        self.names = list(space.keys())
        self.vtable = {}
        for pos, r in table.items():
            key = tuple(float(space[n][i]) for n, i in zip(self.names, pos))
            self.vtable[key] = r
        self.script = list(script)
        self.durations = list(durations)
        self.default_duration = default_duration
        self.clock = clock
        self.scalar = scalar
        self.calls = []          # (values tuple, para dict as received)
        self.bad_args = []
        self.__name__ = "objective"

    def conv(self, s):
        if self.scalar == "np":
            return np.float64(s)
        if self.scalar == "int" and float(s).is_integer():
            return int(s)
        return float(s)

    def __call__(self, para):
        k = len(self.calls)
        try:
            key = tuple(float(para[n]) for n in self.names)
        except Exception as e:   # wrong keys etc.
            self.bad_args.append(repr(para))
            key = None
        self.calls.append((key, dict(para)))
        if self.clock is not None:
            self.clock.advance(self.durations[k] if k < len(self.durations) else self.default_duration)
        if k < len(self.script):
            s, m = self.script[k]
        else:
            s, m = self.vtable[key]
        if m is None:
            return self.conv(s)
        if getattr(self, "alias_metrics", False):
            # an objective that keeps ONE running info dictionary and hands the same object back on every call: each row must still
            # record the contents it had when it was returned
            if not hasattr(self, "_shared"):
                self._shared = {}
            self._shared.clear()
            self._shared.update(m)
            return (self.conv(s), self._shared)
        return (self.conv(s), dict(m))

    def result_at(self, k, key):
        return self.script[k] if k < len(self.script) else self.vtable[key]


class Constraint:
    def __init__(self, space, feasible):
        self.space, self.names = space, list(space.keys())
        self.feasible_values = {tuple(float(space[n][i]) for n, i in zip(self.names, p)) for p in feasible}
        self.calls = 0
        self.args = []
        self.keep_args = False

    def __call__(self, para):
        self.calls += 1
        key = tuple(float(para[n]) for n in self.names)
        if self.keep_args:
            self.args.append(key)
        return key in self.feasible_values


def silence():
    return contextlib.redirect_stdout(io.StringIO())


def observe_opt(opt, obj, clock, names):
    """Everything the D-units compare after one search() call."""
    sd = opt.search_data
    rows = []
    for _, r in sd.iterrows():
        vals = [float(r[n]) for n in names]
        mets = {}
        for c in sd.columns:
            if c in names or c == "score":
                continue
            x = r[c]
            if not (isinstance(x, float) and math.isnan(x)):
                mets[c] = int(x)
        rows.append(dict(values=vals, score=float(r["score"]), metrics=mets))
    memd = []
    for k, v in dict(opt.memory_dict).items():
        if isinstance(v, tuple):
            memd.append(([int(x) for x in k], float(v[0]), {a: int(b) for a, b in v[1].items() if a != "score"}))
        else:
            memd.append(([int(x) for x in k], float(v), None))
    bv = None
    if opt.best_value is not None:
        bv = [float(x) for x in opt.best_value]
    return dict(
        rows=rows,
        pos_l=[[int(x) for x in p] for p in opt.pos_l],
        score_l=[float(s) for s in opt.score_l],
        counters=[int(opt.n_init_total), int(opt.n_iter_total), int(opt.n_init_search), int(opt.n_iter_search), len(clock.log)],
        eval_times=[int(t) for t in opt.eval_times],
        iter_times=[int(t) for t in opt.iter_times],
        fcalls=[list(k) for k, _ in obj.calls],
        best_score=float(opt.best_score),
        best_value=bv,
        best_para=None if opt.best_para is None else {k: float(v) for k, v in opt.best_para.items()},
        memory_dict=memd,
    )


def run_driver(opt, obj, clock, calls, steps_api=False):
    """calls: list of dict(n_iter, max_time, max_score, early_stopping, memory, memory_warm_start, verbosity).
    Returns (observations per call, exception or None)."""
    names = list(opt.conv.para_names)
    obs = []
    with patched_clock(clock), silence(), contextlib.redirect_stderr(io.StringIO()):
        for c in calls:
            kw = dict(max_time=c.get("max_time"), max_score=c.get("max_score"),
                      early_stopping=c.get("early_stopping"), memory=c.get("memory", True),
                      memory_warm_start=c.get("memory_warm_start"), verbosity=c.get("verbosity", False))
            try:
                if steps_api:
                    opt.init_search(obj, c["n_iter"], kw["max_time"], kw["max_score"], kw["early_stopping"],
                                    kw["memory"], kw["memory_warm_start"], kw["verbosity"])
                    for k in range(c["n_iter"]):
                        opt.search_step(k)
                    opt.finish_search()
                else:
                    opt.search(obj, n_iter=c["n_iter"], **kw)
            except Exception as e:     # noqa
                if type(e).__name__ == 'Hang':
                    raise
                import traceback
                return obs, (type(e).__name__, str(e)[:200], traceback.format_exc()[-1500:])
            obs.append(observe_opt(opt, obj, clock, names))
    return obs, None


# ----------------------------------------------------------------------------- to Coq
def _metric_ids(keys):
    return {k: i for i, k in enumerate(sorted(keys))}


class CaseWriter:
    """Builds the `dcase` literal for one recorded run."""

    def __init__(self, space, extra_floats=()):
        self.space = space
        self.names = list(space.keys())
        self.vs = Scaler()          # search-space values
        for a in space.values():
            for x in a:
                self.vs.add(x)
        for x in extra_floats:
            self.vs.add(x)
        self.ss = Scaler()          # scores (and tol_abs, max_score)
        self.mids = {}

    def mid(self, k):
        if k not in self.mids:
            self.mids[k] = len(self.mids)
        return self.mids[k]

    def values(self, v):
        return clist([self.vs.z(x) for x in v])

    def metrics(self, m):
        return clist(sorted((self.mid(k), int(v)) for k, v in m.items() if k != "score"),
                     lambda kv: "(%s, %s)" % (cz(kv[0]), cz(kv[1])))

    def result(self, s, m):
        return "(mkResult %s %s)" % (self.ss.score(s), "None" if m is None else "(Some %s)" % self.metrics(m))

    def row(self, r):
        return "(mkRow %s %s %s)" % (self.metrics(r["metrics"]), self.ss.score(r["score"]), self.values(r["values"]))

    def obs(self, o):
        return "(mkObs %s %s %s %s %s %s %s %s %s %s)" % (
            clist(o["rows"], self.row),
            clist(o["pos_l"], clist),
            clist(o["score_l"], self.ss.score),
            clist(o["counters"]),
            clist(o["eval_times"]), clist(o["iter_times"]),
            clist(o["fcalls"], self.values),
            self.ss.score(o["best_score"]),
            copt(o["best_value"], self.values),
            clist(o["memory_dict"], lambda e: "(%s, %s)" % (clist(e[0]), self.result(e[1], e[2]))),
        )

    def early(self, es):
        if not es:
            return "None"
        n = es.get("n_iter_no_change")
        ta = es.get("tol_abs")
        tr = es.get("tol_rel")
        from fractions import Fraction
        trl = "None"
        if tr is not None:
            fr = Fraction(float(tr))
            trl = "(Some (%s, %s))" % (cz(fr.numerator), cz(fr.denominator))
        return "(Some (mkEarly %s %s %s))" % (copt(n), copt(None if ta is None else self.ss.z(ta)), trl)

    def frame(self, df):
        if df is None:
            return "None"
        cols = []
        extra = 1000
        colids = []
        for c in df.columns:
            if c == "score":
                continue
            if c in self.names:
                colids.append(self.names.index(c))
            else:
                colids.append(extra)
                extra += 1
            cols.append(c)
        rows = []
        for _, r in df.iterrows():
            vals = []
            for c in cols:
                x = float(r[c])
                vals.append(self.vs.z(x) if c in self.names else 0)
            rows.append("(%s, %s)" % (clist(vals), self.ss.score(float(r["score"]))))
        return "(Some (mkFrame %s [%s]))" % (clist(colids), "; ".join(rows))

    def call(self, c):
        mt = c.get("max_time")
        ms = c.get("max_score")
        stop = "(mkStop %s %s %s)" % (copt(mt), "None" if ms is None else "(Some %s)" % self.ss.score(ms),
                                      self.early(c.get("early_stopping")))
        mem = c.get("memory", True)
        verb = c.get("verbosity", False)
        lvl1 = bool(verb) and "progress_bar" in verb
        return "(mkCall %s %s %s %s %s)" % (cz(c["n_iter"]), stop, cbool(mem not in (False, None)),
                                            self.frame(c.get("memory_warm_start")), cbool(lvl1))

    def prescan_scores(self, obj, calls, obs):
        for s, m in obj.script:
            self.ss.add(s)
        for s, m in obj.vtable.values():
            self.ss.add(s)
        for c in calls:
            if c.get("max_score") is not None:
                self.ss.add(c["max_score"])
            es = c.get("early_stopping") or {}
            if es.get("tol_abs") is not None:
                self.ss.add(es["tol_abs"])
            df = c.get("memory_warm_start")
            if df is not None and "score" in getattr(df, "columns", []):
                for x in df["score"]:
                    self.ss.add(x)
                for n in self.names:
                    if n in df.columns:
                        for x in df[n]:
                            self.vs.add(x)

    def dcase(self, n_inits, obj, clock_log, calls, obs, steps_api=False):
        self.prescan_scores(obj, calls, obs)
        props = obs[-1]["pos_l"] if obs else []
        sp = clist([clist([self.vs.z(x) for x in a]) for a in self.space.values()], lambda s: s)
        script = clist(obj.script, lambda r: self.result(r[0], r[1]))
        table = clist(sorted(obj.vtable.items()), lambda kv: "(%s, %s)" % (self.values(kv[0]), self.result(kv[1][0], kv[1][1])))
        return "(mkDcase %s %s %s %s %s %s %s %s %s)" % (
            sp, cz(n_inits), clist(props, clist), script, table, clist(clock_log),
            clist(calls, self.call), cbool(steps_api), clist(obs, self.obs))


D_HEADER = "Require Import StopRun Converter Driver DriverObs."
