#!/usr/bin/env python3
"""Translator (search driver): regenerates coq/generated/SearchGen.v from /repo's source on every run.

  search.py            Search._score, _initialization, _iteration (bodies), search_step, the loop of search()
                       (for nth_trial in range(n_iter): search_step; if stop.check(): break)
  _times_tracker.py    the eval_time / iter_time decorators (two clock readings around the call, one list append)
  _search_statistics.py  the init_stats decorator (resets the per-call counters before init_search)

The optimizer is the abstract record of theories/Driver.v (init_pos / iterate / evaluate_init / evaluate /
finish_initialization / init.n_inits); `self.score(pos)` (ResultsManager.score around Memory.memory) is a Section variable over an
abstract results state; p_bar and stop are the objects translated by translate_driver.py.  The statements of search() before
and after the loop and the bodies of init_search / finish_search are pinned by their source text (not translated).
proofs/SearchTie.v proves that the generated step functions and loop simulate theories/Driver.v.  Fail-closed."""
import ast, os, sys, json, hashlib

sys.path.insert(0, os.path.dirname(os.path.abspath(__file__)))
from pytrans import Abort, Unit, Fn, Tr, translate_function, coqty, params_of
from translate_driver import top_cls, record

REPO = os.environ.get("GFO_REPO", "/repo")
PKG = os.path.join(REPO, "src", "gradient_free_optimizers")
VERIF = os.path.dirname(os.path.dirname(os.path.abspath(__file__)))
OUT = os.path.join(VERIF, "coq", "generated", "SearchGen.v")
INFO = os.path.join(VERIF, "coq", "generated", "search_gen.json")
FILES = ["search.py", "_times_tracker.py", "_search_statistics.py"]

DECOS = {"_score": ["TimesTracker.eval_time"], "_initialization": ["TimesTracker.iter_time"], "_iteration": ["TimesTracker.iter_time"],
         "init_search": ["SearchStatistics.init_stats"], "search": [], "search_step": [], "finish_search": [], "__init__": []}

INIT_CALL = ("self.init_search(objective_function, n_iter, max_time, max_score, early_stopping, memory, memory_warm_start, verbosity)")

PRELUDE = '''
Section SearchGen.
Context {OP : optimizer}.
Variable RS : Type.                                        (* state of results_mang / mem (rows, memory dictionaries, call log) *)
Variable score_call : RS -> pos -> res (RS * score).       (* self.score(pos): ResultsManager.score around Memory.memory / the objective *)

Record g_search := mkGSearch { gs_opt : ost OP; gs_res : RS; gs_p_bar : g_pbar; gs_lvl1 : bool; gs_stop : g_stop;
  %(fields)s }.
#[export] Instance eta_g_search : Settable g_search := settable! mkGSearch <gs_opt; gs_res; gs_p_bar; gs_lvl1; gs_stop; %(names)s>.

(* the calls into the other objects (optimizer interface, progress bar, stop object, score wrapper) *)
Definition gs_init_pos (self : g_search) : res (g_search * pos) :=
  do op <- o_init_pos OP (gs_opt self); Ok (self <| gs_opt := fst op |>, snd op).
Definition gs_iterate (self : g_search) : res (g_search * pos) :=
  do op <- o_iterate OP (gs_opt self); Ok (self <| gs_opt := fst op |>, snd op).
Definition gs_evaluate_init (self : g_search) (s : score) : res g_search :=
  do o <- o_eval_init OP (gs_opt self) s; Ok (self <| gs_opt := o |>).
Definition gs_evaluate (self : g_search) (s : score) : res g_search :=
  do o <- o_evaluate OP (gs_opt self) s; Ok (self <| gs_opt := o |>).
Definition gs_finish_initialization (self : g_search) : res g_search :=
  do o <- o_finish_init OP (gs_opt self); Ok (self <| gs_opt := o |>).
Definition gs_score (self : g_search) (p : pos) : res (g_search * score) :=
  do rs <- score_call (gs_res self) p; Ok (self <| gs_res := fst rs |>, snd rs).
(* self.p_bar.update: ProgressBarLVL1 when "progress_bar" is in the verbosity list, else ProgressBarLVL0 *)
Definition gs_pbar_update (self : g_search) (s : score) (p : pos) (nth_iter : Z) : res g_search :=
  do pb <- (if gs_lvl1 self then g_pbar_update_lvl1 (gs_p_bar self) s p nth_iter else g_pbar_update_lvl0 (gs_p_bar self) s p nth_iter);
  Ok (self <| gs_p_bar := pb |>).
Definition gs_stop_update (self : g_search) (best : score) (sl : list score) : res g_search :=
  do st <- g_StopRun_update (gs_stop self) best sl; Ok (self <| gs_stop := st |>).
Definition gs_stop_check (clk : nat -> Z) (k : nat) (self : g_search) : res ((g_search * bool) * nat) :=
  do r <- g_StopRun_check clk k (gs_stop self); Ok ((self <| gs_stop := fst (fst r) |>, snd (fst r)), snd r).
'''


def parse(rel):
    path = os.path.join(PKG, rel)
    return ast.parse(open(path).read(), path)


def meth_any(cls, name):
    fs = [f for f in cls.body if isinstance(f, ast.FunctionDef) and f.name == name]
    if len(fs) != 1:
        raise Abort("%s.%s: found %d definitions" % (cls.name, name, len(fs)))
    return fs[0]


def wrapper_of(cls, name, extra_ok=()):
    """decorator `def name(func): def wrapper(self, *args, **kwargs): ...; return wrapper` -> the wrapper's FunctionDef"""
    fn = meth_any(cls, name)
    if [a.arg for a in fn.args.args] != ["func"] or len(fn.body) != 2 or not isinstance(fn.body[0], ast.FunctionDef) \
            or ast.unparse(fn.body[1]) != "return wrapper":
        raise Abort("decorator %s.%s: shape" % (cls.name, name))
    w = fn.body[0]
    a = w.args
    if [x.arg for x in a.args] != ["self"] or not a.vararg or not a.kwarg:
        raise Abort("decorator %s.%s: wrapper parameters" % (cls.name, name))
    return w


def translate_wrapped(u, wrapper, body_sig, params, name, ret, clocked):
    """the wrapper's body with `func(self, *args, **kwargs)` bound to the translated body function"""
    tr = Tr(u, clocked=clocked, is_method=True, ret=ret, truth_only=False, fueled=False)
    tr.wrap = (body_sig, [p for p, _ in params], ret)
    env = {p: (p, t) for p, t in params}
    body = tr.block(wrapper.body, env)
    args = " ".join("(%s : %s)" % (p, coqty(t)) for p, t in params)
    rty = "g_search" if ret == "none" else "(g_search * %s)" % coqty(ret)
    head = "(self : g_search) %s" % args
    if clocked:
        head = "(clk : nat -> Z) (k : nat) " + head
        rty = "(%s * nat)" % rty
    return "Definition %s %s : res %s :=\n  %s." % (name, head, rty, body)


def build(out):
    tree = parse("search.py")
    cls = top_cls(tree, "Search", ["TimesTracker", "SearchStatistics"])
    tt = top_cls(parse("_times_tracker.py"), "TimesTracker", [])
    ss = top_cls(parse("_search_statistics.py"), "SearchStatistics", [])
    for m, want in DECOS.items():
        got = [ast.unparse(d) for d in meth_any(cls, m).decorator_list]
        if got != want:
            raise Abort("Search.%s: decorators %s, expected %s" % (m, got, want))
    known = set(DECOS)
    have = {f.name for f in cls.body if isinstance(f, ast.FunctionDef)}
    if have != known:
        raise Abort("Search defines methods %s, the translator knows %s" % (sorted(have), sorted(known)))
    # the attribute table (plain attributes of the modelled state)
    fields = {"score_l": ("gs_score_l", "list:score"), "pos_l": ("gs_pos_l", "list:pos"), "best_score": ("gs_best_score", "score"),
              "nth_iter": ("gs_nth_iter", "Z"), "n_init_total": ("gs_n_init_total", "Z"), "n_iter_total": ("gs_n_iter_total", "Z"),
              "n_init_search": ("gs_n_init_search", "Z"), "n_iter_search": ("gs_n_iter_search", "Z"),
              "n_inits_norm": ("gs_n_inits_norm", "Z"), "n_iter": ("gs_n_iter", "Z"),
              "eval_times": ("gs_eval_times", "list:Z"), "iter_times": ("gs_iter_times", "list:Z")}
    order = list(fields)
    out.append(PRELUDE % dict(fields="; ".join("%s : %s" % (fields[a][0], coqty(fields[a][1])) for a in order),
                              names="; ".join(fields[a][0] for a in order)))
    u = Unit("search")
    u.fields = dict(fields)
    u.fields["p_bar.score_best"] = ("(fun s => g_pbar_get_score_best (gs_p_bar s))", "score")
    u.fields["init.n_inits"] = ("(fun s => o_n_inits OP (gs_opt s))", "Z")
    u.self_ty = "g_search"

    def lift(tr, text):
        return ("(do s1 <- %s; Ok (s1, k))" % text) if tr.clocked else text

    u.call_stmts["self.evaluate_init"] = lambda tr, ts: lift(tr, "gs_evaluate_init self %s" % " ".join(ts))
    u.call_stmts["self.evaluate"] = lambda tr, ts: lift(tr, "gs_evaluate self %s" % " ".join(ts))
    u.call_stmts["self.finish_initialization"] = lambda tr, ts: lift(tr, "gs_finish_initialization self")
    u.call_stmts["self.p_bar.update"] = lambda tr, ts: lift(tr, "gs_pbar_update self %s" % " ".join(ts))
    u.call_stmts["self.stop.update"] = lambda tr, ts: lift(tr, "gs_stop_update self %s" % " ".join(ts))

    def ex(name):
        def mk(tr, ts):
            v = tr.fresh()
            return "(self, %s)" % v, "%s self %s" % (name, " ".join(ts)), v
        return mk
    u.call_exprs["self.init_pos"] = (ex("gs_init_pos"), "pos")
    u.call_exprs["self.iterate"] = (ex("gs_iterate"), "pos")
    u.call_exprs["self.score"] = (ex("gs_score"), "score")

    def stop_check(tr, ts):
        if not tr.clocked:
            raise Abort("self.stop.check() in a function that is not clocked")
        v = tr.fresh()
        return "((self, %s), k)" % v, "gs_stop_check clk k self", v
    u.call_exprs["self.stop.check"] = (stop_check, "bool")

    done = []
    # _score = eval_time(self.score(pos))
    body = Fn("g_Search__score__body", ["pos"], "score", kind="method")
    out.append(translate_function(u, meth_any(cls, "_score"), body))
    out.append(translate_wrapped(u, wrapper_of(tt, "eval_time"), body, [("pos", "pos")], "g_Search__score", "score", True))
    u.methods["_score"] = Fn("g_Search__score", ["pos"], "score", kind="method", clocked=True)
    done += ["Search._score", "TimesTracker.eval_time"]
    # _initialization / _iteration = iter_time(body)
    for m in ("_initialization", "_iteration"):
        body = Fn("g_Search_%s__body" % m, [], "none", kind="method", clocked=True)
        out.append(translate_function(u, meth_any(cls, m), body))
        out.append(translate_wrapped(u, wrapper_of(tt, "iter_time"), body, [], "g_Search_%s" % m, "none", True))
        u.methods[m] = Fn("g_Search_%s" % m, [], "none", kind="method", clocked=True)
        done.append("Search." + m)
    done.append("TimesTracker.iter_time")
    sig = Fn("g_Search_search_step", ["Z"], "none", kind="method", clocked=True)
    out.append(translate_function(u, meth_any(cls, "search_step"), sig))
    u.methods["search_step"] = sig
    done.append("Search.search_step")
    # search(): init_search(...); the loop; finish_search()
    s_fn = meth_any(cls, "search")
    st = s_fn.body
    if len(st) != 3 or ast.unparse(st[0]) != INIT_CALL or ast.unparse(st[2]) != "self.finish_search()" or not isinstance(st[1], ast.For):
        raise Abort("Search.search is no longer init_search(...); for-loop; finish_search()")
    loop = ast.FunctionDef(name="search_loop", args=ast.arguments(posonlyargs=[], args=[ast.arg(arg="self"), ast.arg(arg="n_iter")], vararg=None,
                                                                   kwonlyargs=[], kw_defaults=[], kwarg=None, defaults=[]),
                           body=[st[1]], decorator_list=[], returns=None, type_comment=None)
    out.append(translate_function(u, loop, Fn("g_Search_search_loop", ["Z"], "none", kind="method", clocked=True)))
    done.append("Search.search (loop)")
    # init_stats: resets the per-call counters, then runs init_search (whose body is a Section variable here)
    out.append("Variable init_search_body : g_search -> res g_search.   (* Search.init_search's own statements (pinned, not translated) *)")
    isb = Fn("init_search_body", [], "none", kind="method")
    out.append(translate_wrapped(u, wrapper_of(ss, "init_stats"), isb, [], "g_Search_init_search", "none", False))
    done.append("SearchStatistics.init_stats")
    out.append("End SearchGen.")
    # pin the untranslated bodies by digest (a change there is reported as "outside the translated subset")
    pins = {}
    src_lines = open(os.path.join(PKG, "search.py")).read().split("\n")
    for m in ("init_search", "finish_search", "__init__"):
        fn = meth_any(cls, m)
        first = min([fn.lineno] + [d.lineno for d in fn.decorator_list])
        text = "\n".join(l.rstrip() for l in src_lines[first - 1:fn.end_lineno])
        pins[m] = hashlib.sha1(text.encode()).hexdigest()
    return done, pins


PINNED = {  # sha1 of ast.dump of the methods whose bodies are modelled by hand in theories/Driver.v (init_search, finish_search, __init__)
}

HEADER = ["(* GENERATED by harness/translate_search.py from %s -- do not edit. *)" % ", ".join(FILES),
          "Require Import Base PyPrims PyPrimsQ StopRun Converter Driver DriverGen.",
          "From RecordUpdate Require Import RecordSet.",
          "Import RecordSetNotations.",
          "Open Scope Z_scope.",
          ""]


def translate(write=True):
    info = dict(ok=True, error=None)
    try:
        h = hashlib.sha1()
        for rel in FILES:
            h.update(open(os.path.join(PKG, rel), "rb").read())
        info["digest"] = h.hexdigest()
        out = list(HEADER)
        info["methods"], pins = build(out)
        info["pinned_bodies"] = pins
        pin_file = os.path.join(VERIF, "harness", "search_pins.json")
        if os.path.exists(pin_file):
            want = json.load(open(pin_file))
            for m, d in pins.items():
                if want.get(m) != d:
                    raise Abort("Search.%s changed: its body is modelled by hand (theories/Driver.v) and pinned by digest" % m)
        else:
            raise Abort("harness/search_pins.json is missing")
        text = "\n".join(out) + "\n"
    except Abort as e:
        info.update(ok=False, error=str(e))
        text = ("(* GENERATED by harness/translate_search.py -- the translator ABORTED: %s *)\n"
                "Require Import Base PyPrims PyPrimsQ.\nDefinition translator_aborted : bool := true.\n" % str(e).replace("*)", "* )"))
    except (OSError, SyntaxError) as e:
        info.update(ok=False, error="%s: %s" % (type(e).__name__, e))
        text = ("(* GENERATED by harness/translate_search.py -- source unreadable *)\nRequire Import Base PyPrims PyPrimsQ.\n"
                "Definition translator_aborted : bool := true.\n")
    info["text_sha1"] = hashlib.sha1(text.encode()).hexdigest()
    if write:
        old = open(OUT).read() if os.path.exists(OUT) else None
        if old != text:
            open(OUT, "w").write(text)
        json.dump(info, open(INFO, "w"), indent=1)
    info["text"] = text
    return info


if __name__ == "__main__":
    if "--pin" in sys.argv:       # dev: record the digests of the hand-modelled bodies of the current tree
        out = []
        _, pins = build(out)
        json.dump(pins, open(os.path.join(VERIF, "harness", "search_pins.json"), "w"), indent=1)
        print("pinned", pins)
        sys.exit(0)
    r = translate(write="--dry" not in sys.argv)
    print(r["text"] if "--show" in sys.argv else ("ok" if r["ok"] else "ABORT: " + r["error"]))
    sys.exit(0 if r["ok"] else 1)
