#!/usr/bin/env python3
"""Translator (stochastic acceptance): regenerates coq/generated/ShcGen.v from /repo's local_opt/stochastic_hill_climbing.py and
core_optimizer/parameter_tracker/stochastic_hill_climbing.py on every run.

  ParameterTracker.transitions / considered_transitions   the decorators' wrappers (counters)
  StochasticHillClimbingOptimizer._execute_transition     _new2current()
  StochasticHillClimbingOptimizer._consider               if p_accept >= random(): _execute_transition()
  StochasticHillClimbingOptimizer._transition             p_accept = _p_accept_default(); _consider(p_accept)     (under track_new_score)
  StochasticHillClimbingOptimizer.evaluate                score_new <= score_current -> _transition, else HillClimbingOptimizer.evaluate

The acceptance probability (_p_accept_default: exp of a quotient of floats, with the zero / inf guards of _normalized_energy_state and
_exponent) is an oracle value read from the tape (pinned by digest), `p_accept >= random()` is pinned by text to the model's `accept`
on the next uniform draw; the tracker operations (_new2current, the track_new_score decorator, HillClimbingOptimizer.evaluate) are
theories/Tracker.v's, which generated/TrackerGen.v is proved to refine.  SimulatedAnnealingOptimizer.evaluate (the same evaluate, then
`temp *= annealing_rate`, which only shapes later oracle values) is checked by text.  proofs/ShcTie.v proves the generated evaluate equal
to the KStochastic / KAnnealing branch of Algos.algo_evaluate.  Fail-closed."""
import ast, os, sys, json, hashlib

sys.path.insert(0, os.path.dirname(os.path.abspath(__file__)))
from pytrans import Abort, Unit, Fn, Tr, translate_function, coqty
from translate_driver import top_cls
from translate_memory import source_text

REPO = os.environ.get("GFO_REPO", "/repo")
PKG = os.path.join(REPO, "src", "gradient_free_optimizers")
VERIF = os.path.dirname(os.path.dirname(os.path.abspath(__file__)))
OUT = os.path.join(VERIF, "coq", "generated", "ShcGen.v")
INFO = os.path.join(VERIF, "coq", "generated", "shc_gen.json")
PINS = os.path.join(VERIF, "harness", "shc_pins.json")
SHC = "optimizers/local_opt/stochastic_hill_climbing.py"
PT = "optimizers/core_optimizer/parameter_tracker/stochastic_hill_climbing.py"
SA = "optimizers/local_opt/simulated_annealing.py"

PRELUDE = '''
Record g_shc := mkGShc { sh_trk : trk; sh_tape : tape; sh_nn : Z (* n_neighbours *); sh_n_considered_transitions : Z; sh_n_transitions : Z }.
#[export] Instance eta_g_shc : Settable g_shc := settable! mkGShc <sh_trk; sh_tape; sh_nn; sh_n_considered_transitions; sh_n_transitions>.

(* the tracker operations: theories/Tracker.v (generated/TrackerGen.v refines them, proofs/TrackerTie.v) *)
Definition sh_new2current (self : g_shc) : res g_shc := Ok (self <| sh_trk := new2current (sh_trk self) |>).
Definition sh_hc_evaluate (self : g_shc) (s : score) : res g_shc := do k <- hc_evaluate (sh_nn self) (sh_trk self) s; Ok (self <| sh_trk := k |>).
Definition sh_track_new_score (body : g_shc -> score -> res g_shc) (self : g_shc) (s : score) : res g_shc :=
  let self := self <| sh_trk := set_score_new (sh_trk self) s |> in
  do self <- body self s; Ok (self <| sh_trk := (sh_trk self) <| t_nth_trial ::= Z.succ |> |>).
(* self._p_accept_default(): an oracle value (any draw, read as an extended real) *)
Definition sh_p_accept (self : g_shc) : res (g_shc * xreal) :=
  match sh_tape self with d :: t' => do p <- xreal_of_draw d; Ok (self <| sh_tape := t' |>, p) | [] => Err OutOfTape end.
(* p_accept >= random() *)
Definition sh_accept (self : g_shc) (p : xreal) : res (g_shc * bool) :=
  match sh_tape self with DF um ue :: t' => Ok (self <| sh_tape := t' |>, accept p um ue) | _ => Err OutOfTape end.
'''


def wrapper_of(cls, name):
    fs = [f for f in cls.body if isinstance(f, ast.FunctionDef) and f.name == name]
    if len(fs) != 1:
        raise Abort("ParameterTracker.%s: found %d definitions" % (name, len(fs)))
    fn = fs[0]
    if [a.arg for a in fn.args.args] != ["function"] or len(fn.body) != 2 or not isinstance(fn.body[0], ast.FunctionDef) \
            or ast.unparse(fn.body[1]) != "return wrapper" or ast.unparse(fn.body[0].args) != "self, *args, **kwargs":
        raise Abort("decorator ParameterTracker.%s: shape" % name)
    return fn.body[0]


def method(cls, name, decos, args):
    fs = [f for f in cls.body if isinstance(f, ast.FunctionDef) and f.name == name]
    if len(fs) != 1:
        raise Abort("%s.%s: found %d definitions" % (cls.name, name, len(fs)))
    f = fs[0]
    if [ast.unparse(d) for d in f.decorator_list] != decos or ast.unparse(f.args) != args:
        raise Abort("%s.%s: decorators %s / parameters `%s`" % (cls.name, name, [ast.unparse(d) for d in f.decorator_list], ast.unparse(f.args)))
    return ast.FunctionDef(name=name, args=f.args, body=f.body, decorator_list=[], returns=None, type_comment=None), f


def parse(rel):
    path = os.path.join(PKG, rel)
    return ast.parse(open(path).read(), path), path


def build(out):
    out.append(PRELUDE)
    ptree, ppath = parse(PT)
    pcls = top_cls(ptree, "ParameterTracker", [])
    u = Unit("shc")
    u.self_ty = "g_shc"
    u.fields = {"n_considered_transitions": ("sh_n_considered_transitions", "Z"), "n_transitions": ("sh_n_transitions", "Z"),
                "score_current": ("(fun s => t_score_cur (sh_trk s))", "score")}
    # --- the two counting decorators (arity 0 and arity 1 of the wrapped method)
    u.expr_hooks["function(self, *args, **kwargs)"] = lambda tr: ([("self", "function_f self")], "tt", "none")
    tr = Tr(u, is_method=True, ret="none")
    out.append("Definition g_PT_transitions (function_f : g_shc -> res g_shc) (self : g_shc) : res g_shc :=\n  %s."
               % tr.block(wrapper_of(pcls, "transitions").body, {}))
    u.expr_hooks["function(self, *args, **kwargs)"] = lambda tr: ([("self", "function_f self p_accept")], "tt", "none")
    tr = Tr(u, is_method=True, ret="none")
    out.append("Definition g_PT_considered_transitions (function_f : g_shc -> xreal -> res g_shc) (self : g_shc) (p_accept : xreal) : res g_shc :=\n  %s."
               % tr.block(wrapper_of(pcls, "considered_transitions").body, {"p_accept": ("p_accept", "coq:xreal")}))
    del u.expr_hooks["function(self, *args, **kwargs)"]
    # --- StochasticHillClimbingOptimizer
    stree, spath = parse(SHC)
    if "from random import random" not in [ast.unparse(n) for n in stree.body]:
        raise Abort("stochastic_hill_climbing.py no longer imports random.random")
    scls = top_cls(stree, "StochasticHillClimbingOptimizer", ["HillClimbingOptimizer", "ParameterTracker"])
    u.methods["_new2current"] = Fn("sh_new2current", [], "none", kind="method")
    f, _ = method(scls, "_execute_transition", ["ParameterTracker.transitions"], "self")
    out.append(translate_function(u, f, Fn("g_SHC_execute_transition_body", [], "none", kind="method")))
    out.append("Definition g_SHC_execute_transition : g_shc -> res g_shc := g_PT_transitions g_SHC_execute_transition_body.")
    u.methods["_execute_transition"] = Fn("g_SHC_execute_transition", [], "none", kind="method")

    def acc(tr):
        v = tr.fresh()
        return [("(self, %s)" % v, "sh_accept self p_accept")], v, "bool"
    u.expr_hooks["p_accept >= random()"] = acc
    f, _ = method(scls, "_consider", ["ParameterTracker.considered_transitions"], "self, p_accept")
    out.append(translate_function(u, f, Fn("g_SHC_consider_body", ["coq:xreal"], "none", kind="method")))
    out.append("Definition g_SHC_consider : g_shc -> xreal -> res g_shc := g_PT_considered_transitions g_SHC_consider_body.")
    u.methods["_consider"] = Fn("g_SHC_consider", ["coq:xreal"], "none", kind="method")

    def pacc(tr):
        v = tr.fresh()
        return [("(self, %s)" % v, "sh_p_accept self")], v, "coq:xreal"
    u.expr_hooks["self._p_accept_default()"] = pacc
    f, _ = method(scls, "_transition", ["HillClimbingOptimizer.track_new_score"], "self, score_new")
    out.append(translate_function(u, f, Fn("g_SHC_transition_body", ["score"], "none", kind="method")))
    out.append("Definition g_SHC_transition : g_shc -> score -> res g_shc := sh_track_new_score g_SHC_transition_body.")
    u.methods["_transition"] = Fn("g_SHC_transition", ["score"], "none", kind="method")
    u.pinned["HillClimbingOptimizer.evaluate(self, score_new)"] = "do self <- sh_hc_evaluate self score_new; "
    f, _ = method(scls, "evaluate", [], "self, score_new")
    out.append(translate_function(u, f, Fn("g_SHC_evaluate", ["score"], "none", kind="method")))
    # --- SimulatedAnnealingOptimizer.evaluate: the same evaluate, then the temperature update (shapes later oracle values only)
    atree, apath = parse(SA)
    acls = top_cls(atree, "SimulatedAnnealingOptimizer", ["StochasticHillClimbingOptimizer"])
    _, af = method(acls, "evaluate", [], "self, score_new")
    if [ast.unparse(b) for b in af.body] != ["StochasticHillClimbingOptimizer.evaluate(self, score_new)", "self.temp *= self.annealing_rate"]:
        raise Abort("SimulatedAnnealingOptimizer.evaluate is no longer SHC.evaluate followed by the temperature update")
    out.append("(* SimulatedAnnealingOptimizer.evaluate checked: StochasticHillClimbingOptimizer.evaluate(self, score_new); self.temp *= self.annealing_rate *)")
    out.append("Definition g_SA_evaluate : g_shc -> score -> res g_shc := g_SHC_evaluate.")
    pins = {}
    for cls_, path_, names in ((scls, spath, ["_normalized_energy_state", "_exponent", "_p_accept_default"]), (acls, apath, ["_p_accept_default"])):
        for m in names:
            fs = [x for x in cls_.body if isinstance(x, ast.FunctionDef) and x.name == m]
            if len(fs) != 1:
                raise Abort("%s.%s: found %d definitions" % (cls_.name, m, len(fs)))
            pins["%s.%s" % (cls_.name, m)] = hashlib.sha1(source_text(path_, fs[0]).encode()).hexdigest()
    have = {x.name for x in scls.body if isinstance(x, ast.FunctionDef)}
    if have != {"__init__", "_consider", "_execute_transition", "_normalized_energy_state", "_exponent", "_p_accept_default", "_transition", "evaluate"}:
        raise Abort("StochasticHillClimbingOptimizer defines methods %s" % sorted(have))
    return ["ParameterTracker.transitions", "ParameterTracker.considered_transitions", "SHC._execute_transition", "SHC._consider", "SHC._transition",
            "SHC.evaluate", "SA.evaluate (checked)"], pins


HEADER = ["(* GENERATED by harness/translate_shc.py from %s, %s -- do not edit. *)" % (SHC, PT),
          "Require Import Base PyPrims PyPrimsQ Converter CoreOpt Tracker Algos.",
          "From RecordUpdate Require Import RecordSet.",
          "Import RecordSetNotations.",
          "Open Scope Z_scope.",
          ""]


def translate(write=True):
    info = dict(ok=True, error=None)
    try:
        h = hashlib.sha1()
        for rel in (SHC, PT, SA):
            h.update(open(os.path.join(PKG, rel), "rb").read())
        info["digest"] = h.hexdigest()
        out = list(HEADER)
        info["methods"], pins = build(out)
        info["pinned_bodies"] = pins
        if not os.path.exists(PINS):
            raise Abort("harness/shc_pins.json is missing")
        want = json.load(open(PINS))
        for m, d in pins.items():
            if want.get(m) != d:
                raise Abort("%s changed: the acceptance probability is an oracle value of the model and its code is pinned by digest" % m)
        text = "\n".join(out) + "\n"
    except Abort as e:
        info.update(ok=False, error=str(e))
        text = ("(* GENERATED by harness/translate_shc.py -- the translator ABORTED: %s *)\n"
                "Require Import Base PyPrims PyPrimsQ.\nDefinition translator_aborted : bool := true.\n" % str(e).replace("*)", "* )"))
    except (OSError, SyntaxError) as e:
        info.update(ok=False, error="%s: %s" % (type(e).__name__, e))
        text = ("(* GENERATED by harness/translate_shc.py -- source unreadable *)\nRequire Import Base PyPrims PyPrimsQ.\n"
                "Definition translator_aborted : bool := true.\n")
    info["text_sha1"] = hashlib.sha1(text.encode()).hexdigest()
    if write:
        old = open(OUT).read() if os.path.exists(OUT) else None
        if old != text:
            open(OUT, "w").write(text)
        json.dump(info, open(INFO, "w"), indent=1)
    info["text"] = text
    return info


if __name__ == "__main__":
    if "--pin" in sys.argv:
        _, pins = build([])
        json.dump(pins, open(PINS, "w"), indent=1)
        print("pinned", len(pins))
        sys.exit(0)
    r = translate(write="--dry" not in sys.argv)
    print(r["text"] if "--show" in sys.argv else ("ok" if r["ok"] else "ABORT: " + r["error"]))
    sys.exit(0 if r["ok"] else 1)
