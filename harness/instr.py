"""Step-level instrumentation of real optimizers: every step of a search is run through the step API
with logging objective / constraints / RNG wrappers, and the tracked state of the optimizer and of all its
sub-optimizers is snapshotted after each step.  Used by the monitors of C01 C02 C08 C10 C15 C19 and by the
S-units (step refinement from observed states)."""
import math, random, io, contextlib, signal, types
import numpy as np
import gen, drive
from dunit import Hang, _alarm, build_opt


# ----------------------------------------------------------------------------- argument logging
class ArgLogConstraint:
    """A constraint given as a set of feasible positions; logs every parameter dict it receives."""

    def __init__(self, space, feasible, pred=None):
        self.space, self.names = space, list(space.keys())
        self.feasible_values = {tuple(float(space[n][i]) for n, i in zip(self.names, p)) for p in feasible}
        self.pred = pred          # (coefficients, bound): the constraint is sum(c_i * x_i) > bound on the VALUES (also off the grid)
        self.log = []

    def __call__(self, para):
        self.log.append(dict(para))
        try:
            key = tuple(float(para[n]) for n in self.names)
        except Exception:
            return False
        if self.pred is not None:
            return sum(c * x for c, x in zip(self.pred[0], key)) > self.pred[1]
        return key in self.feasible_values


class NumpyStyleConstraint(ArgLogConstraint):
    """A constraint written the way users write them with numpy: a reduction over the parameter values.  It works on scalars and -- silently,
    reducing over everything -- on whole columns, so code that hands it anything but one parameter set gets one answer for all of them."""

    def __init__(self, space, kind, bound):
        self.kind, self.bound = kind, bound
        names = list(space.keys())
        feas = set()
        import itertools
        for p in itertools.product(*[range(len(space[n])) for n in names]):
            if self.test({n: space[n][i] for n, i in zip(names, p)}, names):
                feas.add(tuple(p))
        super().__init__(space, feas)

    def test(self, para, names):
        xs = [para[n] for n in names]
        if self.kind == "sum":
            return np.sum(xs) <= self.bound
        if self.kind == "norm":
            return np.linalg.norm(xs) >= self.bound
        return bool(np.any(np.asarray(xs) > self.bound))

    def __call__(self, para):
        self.log.append(dict(para))
        return self.test(para, self.names)


class ArgLogObjective:
    def __init__(self, space, table, script=()):
        self.space, self.names = space, list(space.keys())
        self.vtable = {tuple(float(space[n][i]) for n, i in zip(self.names, pos)): r for pos, r in table.items()}
        self.script = list(script)
        self.log = []
        self.rng = None          # RngLog, to mark where in the draw sequence the objective was called
        self.marks = []
        self.__name__ = "objective"

    def __call__(self, para):
        k = len(self.log)
        self.log.append(dict(para))
        if self.rng is not None:
            self.marks.append(len(self.rng.log))
        if k < len(self.script):
            return self.script[k]
        key = tuple(float(para[n]) for n in self.names)
        if key in self.vtable:
            return self.vtable[key][0]
        return -float(sum(abs(x) for x in key))        # spaces too large to tabulate


def member_index(space, names, para):
    """-> list of indices i with space[n][i] is exactly the passed element, or None if not a genuine element."""
    idx = []
    for n in names:
        if n not in para:
            return None
        a = space[n]
        x = para[n]
        hit = [i for i in range(len(a)) if (a[i] == x and type(a[i]) == type(x))]
        if not hit:
            return None
        idx.append(hit)
    return idx


# ----------------------------------------------------------------------------- RNG logging
class RngLog:
    """Replaces the random / numpy.random functions reachable from the library's modules by logging wrappers."""

    RANDOM_FUNCS = ["random", "uniform", "randint", "choice", "sample"]
    NP_FUNCS = ["normal", "laplace", "logistic", "gumbel", "uniform", "choice", "randint", "random_sample"]

    def __init__(self):
        self.log = []
        self.saved = []
        self.entropy = []

    def _wrap(self, kind, name, fn):
        log = self.log

        def w(*a, **k):
            r = fn(*a, **k)
            v = _val(r)
            # selections from a sequence of objects (random.sample(individuals, 3), random.choice(worst_l)): the indices
            if kind == "random" and name in ("sample", "choice") and a and isinstance(a[0], (list, tuple)) \
                    and a[0] and not isinstance(a[0][0], (int, float, np.integer, np.floating)):
                seq = list(a[0])
                picked = r if name == "sample" else [r]
                try:
                    v = [next(i for i, x in enumerate(seq) if x is y) for y in picked]
                    if name == "choice":
                        v = v[0]
                except StopIteration:
                    pass
            log.append((kind, name, _summ(a), v))
            return r
        w.__wrapped_by_verif__ = True
        w.__name__ = getattr(fn, "__name__", name)
        return w

    def install(self):
        import sys
        for f in self.RANDOM_FUNCS:
            orig = getattr(random, f)
            self.saved.append((random, f, orig))
            setattr(random, f, self._wrap("random", f, orig))
        for f in self.NP_FUNCS:
            orig = getattr(np.random, f)
            self.saved.append((np.random, f, orig))
            setattr(np.random, f, self._wrap("np", f, orig))
        # names bound at import time (from random import random; from numpy.random import normal, ...; dist_dict)
        for mname, mod in list(sys.modules.items()):
            if not mname.startswith("gradient_free_optimizers"):
                continue
            for attr, val in list(vars(mod).items()):
                for owner, f, orig in list(self.saved):
                    if val is orig and not isinstance(val, types.ModuleType):
                        self.saved.append((mod, attr, orig))
                        setattr(mod, attr, getattr(owner, f))
            dd = getattr(mod, "dist_dict", None)
            if isinstance(dd, dict):
                for k, v in list(dd.items()):
                    for owner, f, orig in list(self.saved):
                        if v is orig:
                            self.saved.append((("dict", dd), k, orig))
                            dd[k] = getattr(owner, f)
        for owner, f in ((random, "seed"), (np.random, "seed")):
            orig = getattr(owner, f)
            self.saved.append((owner, f, orig))

            def mk(orig, nm):
                def s(*a, **k):
                    self.entropy.append((nm, _summ(a)))
                    return orig(*a, **k)
                return s
            setattr(owner, f, mk(orig, ("random" if owner is random else "np") + ".seed"))

    def install_oracles(self):
        """log the value of exp-based acceptance probabilities as draws (they are oracle inputs of the model)"""
        from gradient_free_optimizers.optimizers.local_opt.stochastic_hill_climbing import StochasticHillClimbingOptimizer as SHC
        from gradient_free_optimizers.optimizers.local_opt.simulated_annealing import SimulatedAnnealingOptimizer as SA
        for cls in (SHC, SA):
            orig = cls.__dict__["_p_accept_default"]
            self.saved.append((cls, "_p_accept_default", orig))

            def mk(orig):
                def w(this):
                    with np.errstate(all="ignore"):
                        r = orig(this)
                    self.log.append(("oracle", "p_accept", (), _val(r)))
                    return r
                return w
            setattr(cls, "_p_accept_default", mk(orig))

    def install_pop_oracles(self):
        """record the inputs of the float arithmetic in Particle.move_linear / Spiral.move_spiral at entry, as log
        entries of kind 'capture' (they are not draws: core_units turns them into the model's oracle vectors)"""
        from gradient_free_optimizers.optimizers.pop_opt._particle import Particle
        from gradient_free_optimizers.optimizers.pop_opt._spiral import Spiral

        def arr(x):
            return None if x is None else [float(v) for v in np.asarray(x, dtype=float).ravel()]

        from gradient_free_optimizers.optimizers.core_optimizer.core_optimizer import CoreOptimizer
        orig_c2p = CoreOptimizer.__dict__["conv2pos"]
        self.saved.append((CoreOptimizer, "conv2pos", orig_c2p))

        def c2p(this, pos_, *a, **k):
            self.log.append(("capture", "conv2pos", (), dict(vector=arr(pos_))))
            return orig_c2p(this, pos_, *a, **k)
        CoreOptimizer.conv2pos = c2p
        from gradient_free_optimizers.optimizers.core_optimizer.converter import Converter
        orig_nic = Converter.__dict__["not_in_constraint"]
        self.saved.append((Converter, "not_in_constraint", orig_nic))

        def nic(this, pos_, *a, **k):
            self.log.append(("capture", "not_in_constraint", (), dict(vector=arr(pos_), conv_id=id(this))))
            return orig_nic(this, pos_, *a, **k)
        Converter.not_in_constraint = nic
        orig_ml = Particle.__dict__["move_linear"]
        self.saved.append((Particle, "move_linear", orig_ml))

        def ml(this, *a, **k):
            self.log.append(("capture", "move_linear", (), dict(
                velo=arr(this.velo), pos_best=arr(this.pos_best), pos_current=arr(this.pos_current),
                global_pos_best=arr(this.global_pos_best), inertia=float(this.inertia), cw=float(this.cognitive_weight),
                sw=float(this.social_weight), rrp=float(this.rand_rest_p))))
            return orig_ml(this, *a, **k)
        Particle.move_linear = ml
        orig_ms = Spiral.__dict__["move_spiral"]
        self.saved.append((Spiral, "move_spiral", orig_ms))

        def ms(this, center_pos, *a, **k):
            self.log.append(("capture", "move_spiral", (), dict(
                center=arr(center_pos), pos_current=arr(this.pos_current), decay_factor=float(this.decay_factor),
                decay_rate=float(this.decay_rate), max_positions=arr(this.conv.max_positions), rrp=float(this.rand_rest_p))))
            return orig_ms(this, center_pos, *a, **k)
        Spiral.move_spiral = ms

    def uninstall(self):
        for owner, f, orig in reversed(self.saved):
            if isinstance(owner, tuple):
                owner[1][f] = orig
            else:
                setattr(owner, f, orig)
        self.saved = []


def _summ(a):
    out = []
    for x in a:
        if isinstance(x, (int, float, str)):
            out.append(x)
        elif isinstance(x, np.ndarray):
            out.append(("arr", x.shape))
        elif isinstance(x, (list, tuple, range)):
            out.append(("seq", len(x)))
        else:
            out.append(type(x).__name__)
    return tuple(out)


def _val(r):
    if isinstance(r, np.ndarray):
        return [float(x) for x in r.ravel()]
    if isinstance(r, (np.floating, float)):
        return float(r)
    if isinstance(r, (np.integer, int)):
        return int(r)
    if isinstance(r, list):
        return ("list", len(r))
    return type(r).__name__


# ----------------------------------------------------------------------------- tracked states
def sub_optimizers(opt):
    """The optimizer and every sub-optimizer with its own tracker (population members, grid back-end, Powell's
    inner hill climber)."""
    out = [("self", opt)]
    subs = getattr(opt, "optimizers", None) or []
    for i, o in enumerate(subs):
        if o is not opt:
            out.append(("member%d" % i, o))
    g = getattr(opt, "grid_search_opt", None)
    if g is not None:
        out.append(("grid", g))
    h = getattr(opt, "hill_climb", None)
    if h is not None:
        out.append(("powell_inner", h))
    return out


def tup(p):
    return None if p is None else tuple(int(x) for x in np.asarray(p).ravel())


def fl(x):
    return None if x is None else float(x)


def snapshot(o):
    return dict(pos_new=tup(o.pos_new), score_new=fl(o.score_new), pos_current=tup(o.pos_current),
                score_current=fl(o.score_current), pos_best=tup(o.pos_best), score_best=fl(o.score_best),
                nth_trial=int(o.nth_trial), n_valid=len(o.positions_valid),
                valid=list(zip([tup(p) for p in o.positions_valid], [fl(s) for s in o.scores_valid])))


# ----------------------------------------------------------------------------- running
def run_steps(spec, rnglog=False, per_step_s=20, keep_valid=False):
    """spec as in dunit.general_spec (one or more calls).  Returns dict(steps=[...], exc, opt, obj, cons, n_inits).
    Each step: dict(call, k, pos, obj_args (list of para dicts of this step), con_args, score, states, rng)."""
    space = spec["space"]
    names = list(space.keys())
    obj = ArgLogObjective(space, spec["table"], spec.get("script", ()))
    cons = None
    conlist = None
    if spec.get("np_constraint") is not None:
        cons = NumpyStyleConstraint(space, *spec["np_constraint"])
        conlist = [cons]
    elif spec.get("feasible") is not None:
        cons = ArgLogConstraint(space, spec["feasible"], spec.get("pred"))
        conlist = [cons]
    random.seed(spec.get("ambient", 12345))
    np.random.seed(spec.get("ambient", 12345))
    rl = RngLog() if rnglog else None
    obj.rng = rl
    steps = []
    out = dict(steps=steps, exc=None, opt=None, obj=obj, cons=cons, n_inits=None, phase="construct", rng_construct=None)
    old = signal.signal(signal.SIGALRM, _alarm)
    try:
        if rl:
            rl.install()
            rl.install_oracles()
            if spec.get("pop_oracles"):
                rl.install_pop_oracles()
        signal.alarm(per_step_s)
        try:
            opt = build_opt(spec["name"], space, spec.get("init"), conlist, spec.get("seed", 0), spec.get("cfg"))
        finally:
            signal.alarm(0)
        out["opt"] = opt
        out["n_inits"] = int(opt.init.n_inits)
        out["init_positions"] = [tup(p) for p in opt.init.init_positions_l]
        out["con_args_construct"] = list(cons.log) if cons else []
        if rl:
            out["rng_construct"] = list(rl.log)
        out["phase"] = "search"
        eval_marks = []
        if rl:
            for meth in ("evaluate", "evaluate_init"):
                orig_m = getattr(opt, meth)

                def mk(orig_m):
                    def w(score):
                        eval_marks.append(len(rl.log))
                        return orig_m(score)
                    return w
                setattr(opt, meth, mk(orig_m))
        with contextlib.redirect_stdout(io.StringIO()), contextlib.redirect_stderr(io.StringIO()):
            for ci, c in enumerate(spec["calls"]):
                opt.init_search(obj, c["n_iter"], c.get("max_time"), c.get("max_score"), c.get("early_stopping"),
                                c.get("memory", True), c.get("memory_warm_start"), c.get("verbosity", False))
                for k in range(c["n_iter"]):
                    o0 = len(obj.log)
                    e0 = len(eval_marks)
                    c0 = len(cons.log) if cons else 0
                    r0 = len(rl.log) if rl else 0
                    n_before = len(opt.pos_l)
                    out["at"] = (ci, k)
                    signal.alarm(per_step_s)
                    try:
                        opt.search_step(k)
                    finally:
                        signal.alarm(0)
                    st = dict(call=ci, k=k, pos=tup(opt.pos_l[-1]) if len(opt.pos_l) > n_before else None,
                              obj_args=obj.log[o0:], con_args=(cons.log[c0:] if cons else []),
                              score=fl(opt.score_l[-1]) if len(opt.score_l) > n_before else None,
                              is_init=(k < opt.n_inits_norm),
                              states={nm: snapshot(o) for nm, o in sub_optimizers(opt)},
                              rng=(rl.log[r0:] if rl else None),
                              rng_split=((eval_marks[-1] - r0) if (rl and len(eval_marks) > e0) else None))
                    pl = getattr(opt, "pattern_pos_l", None)
                    if pl is not None:
                        st["pattern_pos_l"] = [tup(p_) for p_ in pl]
                    ol = getattr(opt, "offspring_l", None)
                    if ol is not None:
                        st["offspring_l"] = [tup(p_) for p_ in ol]
                    ps = getattr(opt, "pop_sorted", None)
                    subs_ = list(getattr(opt, "optimizers", None) or [])
                    if ps is not None and subs_:
                        try:
                            st["pop_sorted"] = [next(i for i, x in enumerate(subs_) if x is y) for y in ps]
                        except StopIteration:
                            st["pop_sorted"] = None
                    if not keep_valid:
                        for s in st["states"].values():
                            s.pop("valid")
                    steps.append(st)
                opt.finish_search()
    except Hang as e:
        import traceback
        out["exc"] = ("Hang", str(e), traceback.format_exc()[-1200:])
    except Exception as e:      # noqa
        import traceback
        out["exc"] = (type(e).__name__, str(e)[:200], traceback.format_exc()[-1500:])
    finally:
        signal.alarm(0)
        signal.signal(signal.SIGALRM, old)
        if rl:
            rl.uninstall()
    return out
