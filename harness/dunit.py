import math
"""D-units: the real Search driver vs the model driver fed with the recorded proposals."""
import random, math, copy
import numpy as np
import gen, drive
from common import coq_eval_cases, jsonable


def build_opt(name, space, init=None, constraints=None, seed=0, cfg=None):
    cls = gen.opt_class(name)
    kw = dict(cfg or {})
    if init is not None:
        kw["initialize"] = init
    if constraints is not None:
        kw["constraints"] = constraints
    kw["random_state"] = seed
    return cls(space, **kw)


class Hang(BaseException):
    pass


def _alarm(signum, frame):
    raise Hang("step did not finish within the watchdog limit")


def run_case(spec, timeout_s=30):
    """Runs one spec under a wall-clock watchdog (SIGALRM): a livelock becomes exc=('Hang', ...)."""
    import signal
    old = signal.signal(signal.SIGALRM, _alarm)
    signal.alarm(int(spec.get("timeout_s", timeout_s)))
    try:
        return _run_case(spec)
    except Hang as e:
        import traceback
        return dict(obs=[], exc=("Hang", str(e), traceback.format_exc()[-1500:]), obj=None, clock=None, opt=None, lit=None, phase="hang")
    finally:
        signal.alarm(0)
        signal.signal(signal.SIGALRM, old)


def _run_case(spec):
    """spec: dict(name, space, table, script, durations, calls, init, feasible, cfg, seed, steps_api,
    read_cost, scalar, default_duration).  Returns dict(obs, exc, obj, clock, opt, lit)."""
    space = spec["space"]
    clock = drive.VClock(spec.get("read_cost", 0))
    obj = drive.Objective(space, spec["table"], spec.get("script", ()), spec.get("durations", ()), clock,
                          spec.get("scalar", "float"), spec.get("default_duration", 0))
    obj.alias_metrics = bool(spec.get("alias_metrics"))
    cons = None
    if spec.get("feasible") is not None:
        cons = [drive.Constraint(space, spec["feasible"])]
    random.seed(spec.get("ambient", 12345))
    np.random.seed(spec.get("ambient", 12345))
    try:
        opt = build_opt(spec["name"], space, spec.get("init"), cons, spec.get("seed", 0), spec.get("cfg"))
    except Exception as e:
        import traceback
        return dict(obs=[], exc=(type(e).__name__, str(e)[:200], traceback.format_exc()[-1500:]), obj=obj,
                    clock=clock, opt=None, lit=None, phase="construct")
    n_inits = int(opt.init.n_inits)
    obs, exc = drive.run_driver(opt, obj, clock, spec["calls"], spec.get("steps_api", False))
    lit = None
    if exc is None and not spec.get("monitor_only"):
        cw = drive.CaseWriter(space)
        lit = cw.dcase(n_inits, obj, clock.log, spec["calls"], obs, spec.get("steps_api", False))
    return dict(obs=obs, exc=exc, obj=obj, clock=clock, opt=opt, lit=lit, n_inits=n_inits, phase="search")


def spec_brief(spec):
    s = {k: v for k, v in spec.items() if k not in ("table", "space", "feasible")}
    s["space"] = {k: v.tolist() for k, v in spec["space"].items()}
    s["table"] = "<%d entries>" % len(spec["table"])
    if spec.get("feasible") is not None:
        s["feasible"] = sorted(spec["feasible"])
    calls = []
    for c in spec["calls"]:
        c2 = dict(c)
        if c2.get("memory_warm_start") is not None:
            c2["memory_warm_start"] = c2["memory_warm_start"].to_dict("list")
        calls.append(c2)
    s["calls"] = calls
    return jsonable(s)


def spec_full(spec):
    s = spec_brief(spec)
    s["table"] = [[list(k), v[0], v[1]] for k, v in sorted(spec["table"].items())]
    return jsonable(s)


def history_mismatch(o):
    """the score history the driver keeps (score_l: what the stopping rules and the optimizer see) against the scores of search_data"""
    a = [r["score"] for r in o["rows"]]
    b = o["score_l"]
    if len(a) != len(b):
        return "score_l has %d entries, search_data %d rows" % (len(b), len(a))
    for i, (x, y) in enumerate(zip(a, b)):
        if not (x == y or (math.isnan(x) and math.isnan(y))):
            return "step %d: search_data has score %r, the driver's score history has %r" % (i, x, y)
    return None


def eval_d_unit(unit, specs_results):
    """specs_results: list of (spec, result) with result['lit'] set.  Fills unit.mismatches."""
    lits, keep = [], []
    for spec, r in specs_results:
        if r["lit"] is not None:
            lits.append(r["lit"])
            keep.append((spec, r))
    if not lits:
        return
    failing, err = coq_eval_cases(unit.name, drive.D_HEADER, "dcase", lits, "case_ok", shard=60)
    if err:
        unit.error = err
    for i in failing:
        spec, r = keep[i]
        unit.mismatches.append(dict(case=spec_full(spec), note="model driver and Search disagree (see case_diff)",
                                    observed_last=jsonable(r["obs"][-1]) if r["obs"] else None))


# ----------------------------------------------------------------------------- general specs
def general_spec(rng, name, *, nonfinite=0.0, metrics=None, constraint=False, max_calls=3, memory=None,
                 verbosity=None, sizes=(1, 2, 3, 5, 8), max_points=120, n_max=14, warm=0, cfg=None, steps_api=None,
                 ndims=None, dups=0.0):
    space, meta = gen.gen_space(rng, ndims=ndims, sizes=sizes, max_points=max_points, dups=dups)
    m = rng.choice([0, 0, 1, 2]) if metrics is None else metrics
    table, kind = gen.gen_table(rng, space, nonfinite=nonfinite, metrics=m)
    feas = None
    if constraint:
        feas, desc = gen.gen_constraint(rng, space)
    init = gen.gen_initialize(rng, space, warm=warm)
    ncalls = rng.randint(1, max_calls)
    calls = []
    for _ in range(ncalls):
        c = dict(n_iter=rng.choice([1, 2, 3, 5, 8, n_max]))
        c["memory"] = (rng.random() < 0.6) if memory is None else memory
        v = verbosity if verbosity is not None else rng.choice([False, [], ["progress_bar"], ["print_results"],
                                                                 ["progress_bar", "print_results", "print_times"]])
        c["verbosity"] = v
        calls.append(c)
    c2 = cfg if cfg is not None else gen.gen_opt_config(rng, name, space)
    return dict(name=name, space=space, table=table, calls=calls, seed=rng.randrange(10 ** 6), init=init,
                feasible=feas, cfg=c2, scalar=rng.choice(["float", "np", "int"]),
                steps_api=(rng.random() < 0.2) if steps_api is None else steps_api,
                read_cost=rng.choice([0, 1]), default_duration=rng.choice([0, 1, 2]), meta=meta, table_kind=kind)
