#!/usr/bin/env python3
"""Translator (driver layer): regenerates coq/generated/DriverGen.v from /repo's source on every run.

Translated with harness/pytrans.py, statement by statement:
  _stop_run.py      time_exceeded, score_exceeded, no_change, class StopRun (update, check)
  _progress_bar.py  ProgressBarBase (property setters, _new2best), ProgressBarLVL0.update, ProgressBarLVL1.update
                    (tqdm calls are display only and skipped; their arguments must be plain names / str() of names)

proofs/DriverTie.v proves, for ALL arguments, that each generated definition refines the hand-written model
(theories/StopRun.v, the progress bar of theories/Driver.v).  Fail-closed: on any construct outside the subset a
stub is written and the tie cannot compile."""
import ast, os, sys, json, hashlib

sys.path.insert(0, os.path.dirname(os.path.abspath(__file__)))
from pytrans import Abort, Unit, Fn, Tr, translate_function, coqty, params_of

REPO = os.environ.get("GFO_REPO", "/repo")
PKG = os.path.join(REPO, "src", "gradient_free_optimizers")
VERIF = os.path.dirname(os.path.dirname(os.path.abspath(__file__)))
OUT = os.path.join(VERIF, "coq", "generated", "DriverGen.v")
INFO = os.path.join(VERIF, "coq", "generated", "driver_gen.json")
FILES = ["_stop_run.py", "_progress_bar.py"]


def parse(rel):
    path = os.path.join(PKG, rel)
    return ast.parse(open(path).read(), path)


def top_fn(tree, name):
    fs = [n for n in tree.body if isinstance(n, ast.FunctionDef) and n.name == name]
    if len(fs) != 1:
        raise Abort("function %s not found exactly once" % name)
    return fs[0]


def top_cls(tree, name, bases):
    cs = [n for n in tree.body if isinstance(n, ast.ClassDef) and n.name == name]
    if len(cs) != 1:
        raise Abort("class %s not found exactly once" % name)
    got = [ast.unparse(b) for b in cs[0].bases]
    if got != bases:
        raise Abort("class %s: bases %s, expected %s" % (name, got, bases))
    return cs[0]


def meth(cls, name, deco=None):
    hit = []
    for f in cls.body:
        if not isinstance(f, ast.FunctionDef) or f.name != name:
            continue
        d = [ast.unparse(x) for x in f.decorator_list]
        if deco == "get" and d == ["property"]:
            hit.append(f)
        elif deco == "set" and d == [name + ".setter"]:
            hit.append(f)
        elif deco is None and not d:
            hit.append(f)
    if len(hit) != 1:
        raise Abort("%s.%s (%s): found %d definitions" % (cls.name, name, deco, len(hit)))
    return hit[0]


def assigned_attrs(cls):
    """every attribute name assigned through `self.<a> = ...` / `self.<a> += ...` / `del self.<a>` anywhere in the class"""
    out = set()
    for n in ast.walk(cls):
        tgts = []
        if isinstance(n, ast.Assign):
            tgts = n.targets
        elif isinstance(n, (ast.AugAssign, ast.AnnAssign)):
            tgts = [n.target]
        elif isinstance(n, ast.Delete):
            tgts = n.targets
        for t in tgts:
            if isinstance(t, ast.Attribute) and isinstance(t.value, ast.Name) and t.value.id == "self":
                out.add(t.attr)
    return out


def record(name, ctor, fields, order):
    fl = "; ".join("%s : %s" % (fields[a][0], coqty(fields[a][1])) for a in order)
    return ["Record %s := %s { %s }." % (name, ctor, fl),
            "#[export] Instance eta_%s : Settable %s := settable! %s <%s>." % (name, name, ctor, "; ".join(fields[a][0] for a in order))]


# ---------------------------------------------------------------------------------------------- _stop_run.py
def stop_run(out):
    tree = parse("_stop_run.py")
    u = Unit("stop")
    u.dict_keys["g_early"] = {"n_iter_no_change": ("ge_n", "Z"), "tol_abs": ("ge_tol_abs", "opt:Q"), "tol_rel": ("ge_tol_rel", "opt:Q")}
    u.noop_calls.append(lambda c: ast.unparse(c.func) in ("logging.warning", "logging.info", "print"))
    out.append("(* the early_stopping dictionary: a key is absent (None) or present with its value *)")
    out.append("Record g_early := mkGEarly { ge_n : option Z; ge_tol_abs : option (option Q); ge_tol_rel : option (option Q) }.")
    out.append("Definition g_early_nonempty (d : g_early) : bool := negb (py_is_none (ge_n d)) || negb (py_is_none (ge_tol_abs d)) || negb (py_is_none (ge_tol_rel d)).")
    sigs = [
        ("time_exceeded", Fn("g_time_exceeded", ["Z", "opt:Z"], "bool", truth_only=True, clocked=True)),
        ("score_exceeded", Fn("g_score_exceeded", ["score", "opt:score"], "bool", truth_only=True)),
        ("no_change", Fn("g_no_change", ["list:Q", "rec:g_early"], "bool", truth_only=True)),
    ]
    for name, sig in sigs:
        out.append(translate_function(u, top_fn(tree, name), sig))
        u.funcs[name] = sig
    # every use of these functions' results must be a truth-value use: they are called only from StopRun.check's tests
    cls = top_cls(tree, "StopRun", [])
    fields = {"start_time": ("sr_start_time", "Z"), "max_time": ("sr_max_time", "opt:Z"), "max_score": ("sr_max_score", "opt:score"),
              "early_stopping": ("sr_early_stopping", "opt:rec:g_early"), "score_best": ("sr_score_best", "score"),
              "score_new_list": ("sr_score_new_list", "list:score")}
    got = assigned_attrs(cls)
    if got != set(fields):
        raise Abort("StopRun assigns attributes %s, the translator's table has %s" % (sorted(got), sorted(fields)))
    u.fields = fields
    u.self_ty = "g_stop"
    out.extend(record("g_stop", "mkGStop", fields, list(fields)))
    init = meth(cls, "__init__")
    want = ["self.start_time = start_time", "self.max_time = max_time", "self.max_score = max_score", "self.early_stopping = early_stopping"]
    if [ast.unparse(s) for s in init.body] != want or params_of(init, True) != ["start_time", "max_time", "max_score", "early_stopping"]:
        raise Abort("StopRun.__init__ is not the four plain assignments")
    out.append("Definition g_StopRun_new (start_time : Z) (max_time : option Z) (max_score : option score) (early_stopping : option g_early) : g_stop :=\n"
               "  mkGStop start_time max_time max_score early_stopping SNInf [].")
    for name, sig in [("update", Fn("g_StopRun_update", ["score", "list:score"], "none", kind="method")),
                      ("check", Fn("g_StopRun_check", [], "bool", kind="method", truth_only=True, clocked=True))]:
        out.append(translate_function(u, meth(cls, name), sig))
        u.methods[name] = sig
    return ["_stop_run." + n for n, _ in sigs] + ["StopRun.update", "StopRun.check"]


# ---------------------------------------------------------------------------------------------- _progress_bar.py
def progress_bar(out):
    tree = parse("_progress_bar.py")
    base = top_cls(tree, "ProgressBarBase", [])
    u = Unit("pbar")
    fields = {"pos_best": ("pb_pos_best", "opt:pos"), "_score_best": ("pb_score_best_", "score"),
              "score_best_list": ("pb_score_best_list", "list:score"), "convergence_data": ("pb_convergence_data", "list:score"),
              "_best_since_iter": ("pb_best_since_iter_", "Z"), "best_since_iter_list": ("pb_best_since_iter_list", "list:Z"),
              "n_iter_current": ("pb_n_iter_current", "Z")}
    display_only = {"objective_function", "_tqdm"}
    lvl0 = top_cls(tree, "ProgressBarLVL0", ["ProgressBarBase"])
    lvl1 = top_cls(tree, "ProgressBarLVL1", ["ProgressBarBase"])
    got = assigned_attrs(base) | assigned_attrs(lvl0) | assigned_attrs(lvl1)
    if got - display_only != set(fields) | {"score_best", "best_since_iter"}:
        raise Abort("progress bar classes assign attributes %s, the translator's table has %s" % (sorted(got), sorted(fields)))
    u.fields = fields
    u.self_ty = "g_pbar"
    out.extend(record("g_pbar", "mkGPbar", fields, list(fields)))
    init = meth(base, "__init__")
    want = {"pos_best": "None", "_score_best": "-np.inf", "score_best_list": "[]", "convergence_data": "[]", "_best_since_iter": "0",
            "best_since_iter_list": "[]", "n_iter_current": "0", "objective_function": "objective_function"}
    seen = {}
    for s in init.body:
        if not (isinstance(s, ast.Assign) and len(s.targets) == 1 and isinstance(s.targets[0], ast.Attribute)):
            raise Abort("ProgressBarBase.__init__: statement `%s`" % ast.unparse(s))
        seen[s.targets[0].attr] = ast.unparse(s.value)
    if seen != want:
        raise Abort("ProgressBarBase.__init__ initialises %s" % seen)
    out.append("Definition g_pbar_init : g_pbar := mkGPbar None SNInf [] [] 0 [] 0.")
    # properties
    for p, ty in (("score_best", "score"), ("best_since_iter", "Z")):
        g = meth(base, p, "get")
        if len(g.body) != 1 or not isinstance(g.body[0], ast.Return) or ast.unparse(g.body[0].value) != "self._" + p:
            raise Abort("getter %s" % p)
        gf = Fn("g_pbar_get_" + p, [], ty)
        out.append("Definition %s (self : g_pbar) : %s := %s self." % (gf.coq, coqty(ty), fields["_" + p][0]))
        sf = Fn("g_pbar_set_" + p, [ty], "none", kind="method")
        out.append(translate_function(u, meth(base, p, "set"), sf))
        u.props[p] = (gf, sf)
    u.noop_calls.append(lambda c: ast.unparse(c.func).startswith("self._tqdm.") and all(
        isinstance(a, ast.Constant) or isinstance(a, ast.Name) or ast.unparse(a).startswith("str(")
        for a in list(c.args) + [k.value for k in c.keywords]))
    sig = Fn("g_pbar_new2best", ["score", "pos", "Z"], "none", kind="method")
    out.append(translate_function(u, meth(base, "_new2best"), sig))
    u.methods["_new2best"] = sig
    for cls, nm in ((lvl0, "g_pbar_update_lvl0"), (lvl1, "g_pbar_update_lvl1")):
        i = meth(cls, "__init__")
        if ast.unparse(i.body[0]) != "super().__init__(nth_process, n_iter, objective_function)":
            raise Abort("%s.__init__ does not start with the base constructor" % cls.name)
        for s in i.body[1:]:
            if not ast.unparse(s).startswith("self._tqdm = "):
                raise Abort("%s.__init__: statement `%s`" % (cls.name, ast.unparse(s)))
        out.append(translate_function(u, meth(cls, "update"), Fn(nm, ["score", "pos", "Z"], "none", kind="method")))
    return ["ProgressBarBase.score_best", "ProgressBarBase.best_since_iter", "ProgressBarBase._new2best",
            "ProgressBarLVL0.update", "ProgressBarLVL1.update"]


def source_digest():
    h = hashlib.sha1()
    for rel in FILES:
        h.update(open(os.path.join(PKG, rel), "rb").read())
    return h.hexdigest()


HEADER = ["(* GENERATED by harness/translate_driver.py from %s -- do not edit. *)" % ", ".join(FILES),
          "Require Import Base PyPrims PyPrimsQ.",
          "From RecordUpdate Require Import RecordSet.",
          "Import RecordSetNotations.",
          "Open Scope Z_scope.",
          ""]


def translate(write=True):
    info = dict(ok=True, error=None)
    try:
        info["digest"] = source_digest()
        out = list(HEADER)
        info["methods"] = stop_run(out) + progress_bar(out)
        text = "\n".join(out) + "\n"
    except Abort as e:
        info.update(ok=False, error=str(e))
        text = ("(* GENERATED by harness/translate_driver.py -- the translator ABORTED: %s *)\n"
                "Require Import Base PyPrims PyPrimsQ.\nDefinition translator_aborted : bool := true.\n" % str(e).replace("*)", "* )"))
    except (OSError, SyntaxError) as e:
        info.update(ok=False, error="%s: %s" % (type(e).__name__, e))
        text = ("(* GENERATED by harness/translate_driver.py -- source unreadable *)\nRequire Import Base PyPrims PyPrimsQ.\n"
                "Definition translator_aborted : bool := true.\n")
    info["text_sha1"] = hashlib.sha1(text.encode()).hexdigest()
    if write:
        old = open(OUT).read() if os.path.exists(OUT) else None
        if old != text:
            open(OUT, "w").write(text)
        json.dump(info, open(INFO, "w"), indent=1)
    info["text"] = text
    return info


if __name__ == "__main__":
    r = translate(write="--dry" not in sys.argv)
    print(r["text"] if "--show" in sys.argv else ("ok" if r["ok"] else "ABORT: " + r["error"]))
    sys.exit(0 if r["ok"] else 1)
