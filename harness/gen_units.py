"""G-units: source translators that regenerate Gallina definitions from /repo before the Coq build.

pre_build(ctx, "translate_driver") re-runs the translator (so the generated .v reflects /repo's working tree now);
g_unit(ctx, ...) records in the evidence whether the translation went through.  The tie between the generated
definitions and the hand-written model is a proof obligation compiled with the property's theorem file."""
import importlib

DESCR = {
    "translate_driver": ("G:driver source translator",
                         "ast translation (harness/pytrans.py, fail-closed) of _stop_run.py (time_exceeded, score_exceeded, no_change, "
                         "StopRun.update/check) and _progress_bar.py (property setters, _new2best, both update paths) into "
                         "generated/DriverGen.v; the refinement generated code -> model (proofs/DriverTie.v, for all arguments) is "
                         "compiled with the property's theorem file; one case per translated function"),
    "translate_core": ("G:tracker source translator", "see core_units.g_unit"),
    "translate_seed": ("G:seeding source translator",
                       "ast translation (harness/pytrans.py, fail-closed) of utils.set_random_seed (core_optimizer/utils.py) into generated/SeedGen.v "
                       "over the two abstract global generators; numpy's draw expression pinned by text; proofs/SeedTie.v proves the generated "
                       "function equal to Rng.set_random_seed"),
    "translate_shc": ("G:stochastic-acceptance source translator",
                      "ast translation (harness/pytrans.py, fail-closed) of StochasticHillClimbingOptimizer.evaluate / _transition / _consider / "
                      "_execute_transition and the two counting decorators of ParameterTracker into generated/ShcGen.v; the acceptance probability "
                      "(_p_accept_default and its guards) is an oracle value pinned by digest, SimulatedAnnealingOptimizer.evaluate is checked by text; "
                      "proofs/ShcTie.v proves the generated evaluate equal to the stochastic branch of Algos.algo_evaluate"),
    "translate_conv": ("G:converter source translator",
                       "ast translation (harness/pytrans.py, fail-closed) of Converter.position2value, value2position, value2para, para2value "
                       "(converter.py; enumerate / zip loops, dictionary build and lookup by parameter name) into generated/ConvGen.v; the nearest-value "
                       "argmin expression is pinned by text to the model's nearest_index, the batched / dataframe conversions and not_in_constraint by "
                       "digest; proofs/ConvTie.v proves the four generated functions EQUAL to theories/Converter.v"),
    "translate_pop": ("G:population split source translator",
                      "ast translation (harness/pytrans.py, fail-closed) of split(positions_l, population) of pop_opt/base_population_optimizer.py "
                      "(two nested for loops, ceiling division pinned by text) into generated/PopGen.v; _create_population pinned by digest; "
                      "proofs/PopTie.v proves the round-robin schedule theorem for the generated code"),
    "translate_finish": ("G:finish_search source translator",
                         "ast translation (harness/pytrans.py, fail-closed) of Search.finish_search (search.py) into generated/FinishGen.v over the "
                         "record of what it reads and publishes; the converter calls are the model's functions behind returnNoneIfArgNone (pinned by "
                         "digest); proofs/FinishTie.v proves the generated finish_search equal to Driver.finish_search"),
    "translate_smbo": ("G:SMBO bookkeeping source translator",
                       "ast translation (harness/pytrans.py, fail-closed) of the wrappers of SMBO.track_X_sample / track_y_sample and of the "
                       "bodies of SMBO.evaluate / evaluate_init (smb_opt/smbo.py) into generated/SmboGen.v; the decorator lists of init_pos, "
                       "iterate, evaluate, evaluate_init are checked; np.isnan / np.isinf / `del X_sample[-1]` pinned by text, _remove_position by "
                       "digest; proofs/SmboTie.v proves one generated driver step equal to the model's smbo_step"),
    "translate_init": ("G:initializer source translator",
                       "ast translation (harness/pytrans.py, fail-closed) of Initializer.__init__, set_pos, _init_warm_start, _init_random_search, "
                       "_fill_rest_random and add_n_random_init_pos of init_positions.py into generated/InitGen.v (for loops, the nested "
                       "`while True ... break` rejection loop, dictionary membership of `initialize`); _init_grid_search / _init_vertices are "
                       "Section variables pinned by digest; proofs/InitTie.v proves _init_warm_start equal to Init.init_warm_start, set_pos to be "
                       "Init.assemble of the parts, and C10's theorem for the generated code"),
    "translate_coreopt": ("G:core-moves source translator",
                          "ast translation (harness/pytrans.py, fail-closed) of CoreOptimizer.move_random, conv2pos, move_climb and the "
                          "random_iteration wrapper of core_optimizer.py into generated/CoreGen.v: loops, the constraint test before every return, "
                          "the far-outside escape and the restart test are translated; the numpy float-vector arithmetic (sampler, rint, clip, "
                          "cdist threshold) is pinned by source text to the primitives of theories/CoreOpt.v, utils.move_random by digest; "
                          "proofs/CoreTie.v proves the generated move_random / conv2pos equal to the model and move_climb input/output-equivalent"),
    "translate_results": ("G:results-manager source translator",
                          "ast translation (harness/pytrans.py, fail-closed) of the closure ResultsManager.score(objective)._wrapper(pos) of "
                          "_results_manager.py into generated/ResGen.v; _obj_func_results, __init__ and search_data are pinned by digest, the row "
                          "expression `{**results_dict, **para}` and `results_dict['score']` by their text; proofs/ResTie.v proves that the "
                          "generated wrapper around the generated memory wrapper / the raw objective is the model's inner_score"),
    "translate_memory": ("G:memory source translator",
                         "ast translation (harness/pytrans.py, fail-closed) of the closure Memory.memory(objective).wrapper(para) of _memory.py "
                         "into generated/MemGen.v (dictionary membership / lookup / update on position-tuple keys, the converter calls are the "
                         "model's, the objective is a Section variable with a call log); Memory.__init__ is pinned by digest; the refinement "
                         "generated wrapper -> Driver.lookup (proofs/MemTie.v) is compiled with the property's theorem file"),
    "translate_grid": ("G:grid source translator",
                       "ast translation (harness/pytrans.py, fail-closed) of the grid-search position decoders and pointer update into "
                       "generated/GridGen.v; refinement to theories/Grid.v proved in proofs/GridTie.v; one case per translated function"),
    "translate_search": ("G:search source translator",
                         "ast translation (harness/pytrans.py, fail-closed) of search.py (_score, _initialization, _iteration, search_step, "
                         "the loop of search()) and of the TimesTracker / SearchStatistics decorators into generated/SearchGen.v over the "
                         "abstract optimizer; init_search / finish_search / __init__ are pinned by digest (modelled by hand); the "
                         "simulation generated code -> model driver (proofs/SearchTie.v: every step function and the loop, for every "
                         "optimizer, objective, clock and state) is compiled with the property's theorem file; one case per function"),
}


def pre_build(ctx, modname):
    mod = importlib.import_module(modname)
    if not hasattr(ctx, "_gen"):
        ctx._gen = {}
    ctx._gen[modname] = mod.translate()


def g_unit(ctx, modname):
    name, rule = DESCR[modname]
    u = ctx.unit(name, "translator", rule)
    info = getattr(ctx, "_gen", {}).get(modname)
    if info is None:
        u.error = "translator did not run (see pre-build)"
        return u
    for m in info.get("methods", []):
        u.count(m, nontrivial=True)
    u.exhaustive = True
    u.samples = [dict(source_digest=info.get("digest"), generated_sha1=info["text_sha1"], methods=len(info.get("methods", [])))]
    if not info["ok"]:
        u.mismatches.append(dict(case=dict(translator_abort=info["error"]),
                                 note="the source left the translated subset: the generated definitions could not be rebuilt, so "
                                      "the refinement proofs no longer speak about the current code"))
    return u


ALL_TRANSLATORS = ["translate_core", "translate_driver", "translate_grid", "translate_search", "translate_memory", "translate_results", "translate_coreopt", "translate_init", "translate_smbo", "translate_finish", "translate_pop", "translate_conv", "translate_shc", "translate_seed"]


def refresh_all(ctx):
    done = getattr(ctx, "_gen", {})
    if getattr(ctx, "_tracker_gen", None) is not None:
        done = dict(done, translate_core=ctx._tracker_gen)
    for m in ALL_TRANSLATORS:
        if m not in done:
            importlib.import_module(m).translate()
