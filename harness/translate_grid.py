#!/usr/bin/env python3
"""Translator (grid search): regenerates coq/generated/GridGen.v from /repo's source on every run.

  grid/diagonal_grid_search.py    get_direction (the float root guess is an oracle input d0), grid_move, iterate
                                  (constraint test, conv2pos and move_random are Section variables)
  grid/orthogonal_grid_search.py  grid_move, iterate

proofs/GridTie.v proves that the generated definitions refine theories/Grid.v (the model C16's coverage theorems are
about).  Fail-closed."""
import ast, os, sys, json, hashlib

sys.path.insert(0, os.path.dirname(os.path.abspath(__file__)))
from pytrans import Abort, Unit, Fn, translate_function, coqty
from translate_driver import top_cls, meth, record, assigned_attrs

REPO = os.environ.get("GFO_REPO", "/repo")
PKG = os.path.join(REPO, "src", "gradient_free_optimizers")
VERIF = os.path.dirname(os.path.dirname(os.path.abspath(__file__)))
OUT = os.path.join(VERIF, "coq", "generated", "GridGen.v")
INFO = os.path.join(VERIF, "coq", "generated", "grid_gen.json")
FILES = ["optimizers/grid/diagonal_grid_search.py", "optimizers/grid/orthogonal_grid_search.py", "optimizers/grid/grid_search.py"]
ROOT_GUESS = "int(np.round(np.power(search_space_size, 1 / n_dims)))"


def parse(rel):
    path = os.path.join(PKG, rel)
    return ast.parse(open(path).read(), path)


def strip_deco(fn, allowed):
    d = [ast.unparse(x) for x in fn.decorator_list]
    if d != allowed:
        raise Abort("%s: decorators %s, expected %s" % (fn.name, d, allowed))
    return fn


def method_any(cls, name):
    fs = [f for f in cls.body if isinstance(f, ast.FunctionDef) and f.name == name]
    if len(fs) != 1:
        raise Abort("%s.%s: found %d definitions" % (cls.name, name, len(fs)))
    return fs[0]


def diagonal(out):
    tree = parse(FILES[0])
    gcd_ok = any(isinstance(n, ast.Try) and "from math import gcd" in ast.unparse(n) for n in tree.body)
    if not gcd_ok:
        raise Abort("diagonal_grid_search.py: gcd is no longer math.gcd / fractions.gcd")
    cls = top_cls(tree, "DiagonalGridSearchOptimizer", ["BaseOptimizer"])
    u = Unit("diag")
    fields = {"initial_position": ("dg_initial_position", "pos"), "high_dim_pointer": ("dg_high_dim_pointer", "Z"),
              "direction_calc": ("dg_direction_calc", "opt:Z"), "step_size": ("dg_step_size", "Z"),
              "nth_trial": ("dg_nth_trial", "Z"),
              "conv.dim_sizes": ("dg_dim_sizes", "list:Z"), "conv.search_space_size": ("dg_search_space_size", "Z"),
              "conv.n_dimensions": ("dg_n_dimensions", "Z")}
    got = assigned_attrs(cls)
    if got != {"initial_position", "high_dim_pointer", "direction_calc", "step_size"}:
        raise Abort("DiagonalGridSearchOptimizer assigns %s" % sorted(got))
    init = method_any(cls, "__init__")
    tail = [ast.unparse(s) for s in init.body[1:]]
    want = ["self.initial_position = np.zeros((self.conv.n_dimensions,), dtype=int)", "self.high_dim_pointer = 0",
            "self.direction_calc = None", "self.step_size = step_size"]
    if tail != want:
        raise Abort("DiagonalGridSearchOptimizer.__init__ initialises %s" % tail)
    u.fields = fields
    u.self_ty = "g_diag"
    out.extend(record("g_diag", "mkGDiag", fields, list(fields)))
    out.append("Definition g_diag_init (dims : list Z) (step_size : Z) : g_diag :=\n"
               "  mkGDiag (map (fun _ => 0) dims) 0 None step_size 0 dims (zprod_l dims) (zlen dims).")
    out.append("Section DiagGen.")
    out.append("Variable d0 : Z.                         (* the float guess %s *)" % ROOT_GUESS)
    out.append("Variable not_in_constraint : pos -> bool.  (* self.conv.not_in_constraint *)")
    out.append("Variable conv2pos : pos -> pos.            (* CoreOptimizer.conv2pos (theories/CoreOpt.v) *)")
    out.append("Variable move_random : res pos.            (* self.move_random(): any feasible position or failure *)")
    u.oracles[ROOT_GUESS] = ("d0", "Z")
    u.externals["conv.not_in_constraint"] = Fn("(fun p => Ok (not_in_constraint p))", ["pos"], "bool")
    u.externals["conv2pos"] = Fn("(fun p => Ok (conv2pos p))", ["pos"], "pos")
    u.externals["move_random"] = Fn("move_random", [], "pos")
    u.hints["new_pos"] = "list:Z"
    sig = Fn("g_diag_get_direction", [], "Z", kind="method", fueled=True)
    out.append(translate_function(u, strip_deco(method_any(cls, "get_direction"), []), sig))
    u.methods["get_direction"] = sig
    sig = Fn("g_diag_grid_move", [], "pos", kind="method")
    out.append(translate_function(u, strip_deco(method_any(cls, "grid_move"), []), sig))
    u.methods["grid_move"] = sig
    sig = Fn("g_diag_iterate", [], "pos", kind="method", fueled=True)
    out.append(translate_function(u, strip_deco(method_any(cls, "iterate"), ["BaseOptimizer.track_new_pos"]), sig))
    out.append("End DiagGen.")
    return ["DiagonalGridSearchOptimizer.get_direction", "DiagonalGridSearchOptimizer.grid_move", "DiagonalGridSearchOptimizer.iterate"]


def orthogonal(out):
    tree = parse(FILES[1])
    cls = top_cls(tree, "OrthogonalGridSearchOptimizer", ["BaseOptimizer"])
    u = Unit("orth")
    fields = {"step_size": ("og_step_size", "Z"), "nth_trial": ("og_nth_trial", "Z"),
              "conv.dim_sizes": ("og_dim_sizes", "list:Z"), "conv.search_space_size": ("og_search_space_size", "Z")}
    if assigned_attrs(cls) != {"step_size"}:
        raise Abort("OrthogonalGridSearchOptimizer assigns %s" % sorted(assigned_attrs(cls)))
    u.fields = fields
    u.self_ty = "g_orth"
    out.extend(record("g_orth", "mkGOrth", fields, list(fields)))
    out.append("Section OrthGen.")
    out.append("Variable conv2pos : pos -> pos.")
    u.externals["conv2pos"] = Fn("(fun p => Ok (conv2pos p))", ["pos"], "pos")
    u.hints["flipped_new_pos"] = "list:Z"
    sig = Fn("g_orth_grid_move", [], "pos", kind="method")
    out.append(translate_function(u, strip_deco(method_any(cls, "grid_move"), []), sig))
    u.methods["grid_move"] = sig
    sig = Fn("g_orth_iterate", [], "pos", kind="method")
    out.append(translate_function(u, strip_deco(method_any(cls, "iterate"), ["BaseOptimizer.track_new_pos"]), sig))
    out.append("End OrthGen.")
    return ["OrthogonalGridSearchOptimizer.grid_move", "OrthogonalGridSearchOptimizer.iterate"]


def wrapper(out):
    """grid/grid_search.py: GridSearchOptimizer only delegates -- iterate() and evaluate() forward to the back-end translated above, so the
    back-end's nth_trial counts exactly the grid points issued; nothing else (no finish_initialization, no init_pos override) touches it.
    Checked here: the method set, the two delegating bodies with their decorators, and __init__ by digest."""
    tree = parse("optimizers/grid/grid_search.py")
    cls = top_cls(tree, "GridSearchOptimizer", ["BaseOptimizer"])
    meths = {f.name: f for f in cls.body if isinstance(f, ast.FunctionDef)}
    if set(meths) != {"__init__", "iterate", "evaluate"}:
        raise Abort("GridSearchOptimizer defines methods %s (expected __init__, iterate, evaluate: the wrapper only delegates)" % sorted(meths))
    want = {"iterate": (["BaseOptimizer.track_new_pos"], "self", ["return self.grid_search_opt.iterate()"]),
            "evaluate": (["BaseOptimizer.track_new_score"], "self, score_new", ["self.grid_search_opt.evaluate(score_new)"])}
    for m, (decos, args, body) in want.items():
        f = meths[m]
        if [ast.unparse(d) for d in f.decorator_list] != decos or ast.unparse(f.args) != args or [ast.unparse(b) for b in f.body] != body:
            raise Abort("GridSearchOptimizer.%s is no longer the plain delegation to the back-end" % m)
    import hashlib as _h
    lines = open(os.path.join(PKG, "optimizers/grid/grid_search.py")).read().split("\n")
    f = meths["__init__"]
    dig = _h.sha1("\n".join(l.rstrip() for l in lines[f.lineno - 1:f.end_lineno]).encode()).hexdigest()
    pin = os.path.join(VERIF, "harness", "grid_pins.json")
    if not os.path.exists(pin):
        raise Abort("harness/grid_pins.json is missing")
    if json.load(open(pin)).get("GridSearchOptimizer.__init__") != dig:
        raise Abort("GridSearchOptimizer.__init__ changed: the construction of the back-end is pinned by digest")
    out.append("(* grid/grid_search.py checked: GridSearchOptimizer = {__init__ (pinned), iterate, evaluate}, both plain delegations to the back-end *)")
    return ["GridSearchOptimizer (delegation checked)"]


HEADER = ["(* GENERATED by harness/translate_grid.py from %s -- do not edit. *)" % ", ".join(FILES),
          "Require Import Base PyPrims PyPrimsQ.",
          "From RecordUpdate Require Import RecordSet.",
          "Import RecordSetNotations.",
          "Open Scope Z_scope.",
          ""]


def translate(write=True):
    info = dict(ok=True, error=None)
    try:
        h = hashlib.sha1()
        for rel in FILES:
            h.update(open(os.path.join(PKG, rel), "rb").read())
        info["digest"] = h.hexdigest()
        out = list(HEADER)
        info["methods"] = diagonal(out) + orthogonal(out) + wrapper(out)
        text = "\n".join(out) + "\n"
    except Abort as e:
        info.update(ok=False, error=str(e))
        text = ("(* GENERATED by harness/translate_grid.py -- the translator ABORTED: %s *)\n"
                "Require Import Base PyPrims PyPrimsQ.\nDefinition translator_aborted : bool := true.\n" % str(e).replace("*)", "* )"))
    except (OSError, SyntaxError) as e:
        info.update(ok=False, error="%s: %s" % (type(e).__name__, e))
        text = ("(* GENERATED by harness/translate_grid.py -- source unreadable *)\nRequire Import Base PyPrims PyPrimsQ.\n"
                "Definition translator_aborted : bool := true.\n")
    info["text_sha1"] = hashlib.sha1(text.encode()).hexdigest()
    if write:
        old = open(OUT).read() if os.path.exists(OUT) else None
        if old != text:
            open(OUT, "w").write(text)
        json.dump(info, open(INFO, "w"), indent=1)
    info["text"] = text
    return info


if __name__ == "__main__":
    r = translate(write="--dry" not in sys.argv)
    print(r["text"] if "--show" in sys.argv else ("ok" if r["ok"] else "ABORT: " + r["error"]))
    sys.exit(0 if r["ok"] else 1)
