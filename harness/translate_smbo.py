#!/usr/bin/env python3
"""Translator (SMBO bookkeeping): regenerates coq/generated/SmboGen.v from /repo's smb_opt/smbo.py on every run.

  SMBO.track_X_sample   the decorator's wrapper: pos = iterate(...); X_sample.append(pos); return pos
  SMBO.track_y_sample   the decorator's wrapper: evaluate(self, score); a NaN / inf score deletes the last X, a finite one is appended to Y
  SMBO.evaluate         the undecorated body: tracker updates (TrackerGen's, abstract here), `if not self.replacement: _remove_position(pos_new)`
  SMBO.evaluate_init    the undecorated body

The decorator lists of init_pos / iterate / evaluate / evaluate_init are checked, and the decorated functions are the compositions written
below the Section (track_y_sample around the bodies).  `np.isnan(score)` / `np.isinf(score)` are pinned by text to the score type's tests,
`del self.X_sample[-1]` to dropping the last element (IndexError on an empty list), `_remove_position` (numpy mask) by digest to
Smbo.remove_position.  proofs/SmboTie.v proves the generated wrappers / evaluate equal to theories/Smbo.v (track_x, track_y,
smbo_evaluate, smbo_evaluate_init), so C17's alignment and no-repeat theorems hold for the generated code.  Fail-closed."""
import ast, os, sys, json, hashlib

sys.path.insert(0, os.path.dirname(os.path.abspath(__file__)))
from pytrans import Abort, Unit, Fn, Tr, translate_function, coqty
from translate_driver import top_cls
from translate_memory import source_text

REPO = os.environ.get("GFO_REPO", "/repo")
PKG = os.path.join(REPO, "src", "gradient_free_optimizers")
VERIF = os.path.dirname(os.path.dirname(os.path.abspath(__file__)))
OUT = os.path.join(VERIF, "coq", "generated", "SmboGen.v")
INFO = os.path.join(VERIF, "coq", "generated", "smbo_gen.json")
PINS = os.path.join(VERIF, "harness", "smbo_pins.json")
REL = "optimizers/smb_opt/smbo.py"

PRELUDE = '''
Record g_smbo := mkGSmbo { sg_X_sample : list pos; sg_Y_sample : list score; sg_all_pos_comb : list pos; sg_replacement : bool;
                           sg_pos_new : pos (* the tracker's pos_new: the position being scored *) }.
#[export] Instance eta_g_smbo : Settable g_smbo := settable! mkGSmbo <sg_X_sample; sg_Y_sample; sg_all_pos_comb; sg_replacement; sg_pos_new>.

Definition score_is_nan (s : score) : bool := match s with SNaN => true | _ => false end.
Definition score_is_inf (s : score) : bool := match s with SPInf | SNInf => true | _ => false end.
(* del self.X_sample[-1] *)
Definition sg_del_last_X (self : g_smbo) : res g_smbo :=
  match sg_X_sample self with [] => Err IndexError | _ => Ok (self <| sg_X_sample := removelast (sg_X_sample self) |>) end.
(* SMBO._remove_position (numpy mask over all_pos_comb; pinned by digest) *)
Definition sg_remove_position (self : g_smbo) (p : pos) : res g_smbo :=
  Ok (self <| sg_all_pos_comb := remove_position (sg_all_pos_comb self) p |>).

Section SmboGen.
Variable iterate_f : g_smbo -> res (g_smbo * pos).          (* the decorated init_pos / iterate: iterate(self, *args, **kwargs) *)
Variable evaluate_f : g_smbo -> score -> res g_smbo.        (* the decorated evaluate / evaluate_init: evaluate(self, score) *)
'''

POSTLUDE = '''End SmboGen.

(* the decorated methods, as the (checked) decorator lists compose them: @track_y_sample around the bodies *)
Definition g_SMBO_evaluate (self : g_smbo) (score : score) : res g_smbo := g_SMBO_track_y_sample g_SMBO_evaluate_body self score.
Definition g_SMBO_evaluate_init (self : g_smbo) (score : score) : res g_smbo := g_SMBO_track_y_sample g_SMBO_evaluate_init_body self score.
'''

DECOS = {"init_pos": ["track_X_sample"], "iterate": ["BaseOptimizer.track_new_pos", "track_X_sample"],
         "evaluate": ["BaseOptimizer.track_new_score", "track_y_sample"], "evaluate_init": ["BaseOptimizer.track_new_score", "track_y_sample"]}


def wrapper(fn, outer_param, inner_params):
    if [a.arg for a in fn.args.args] != [outer_param] or len(fn.body) != 2 or not isinstance(fn.body[0], ast.FunctionDef) \
            or ast.unparse(fn.body[1]) != "return wrapper":
        raise Abort("decorator SMBO.%s: shape" % fn.name)
    w = fn.body[0]
    if ast.unparse(w.args) != inner_params:
        raise Abort("decorator SMBO.%s: wrapper parameters `%s`" % (fn.name, ast.unparse(w.args)))
    return w


def build(out):
    path = os.path.join(PKG, REL)
    tree = ast.parse(open(path).read(), path)
    cls = top_cls(tree, "SMBO", ["BaseOptimizer"])
    meths = {}
    for f in cls.body:
        if isinstance(f, ast.FunctionDef):
            if f.name in meths:
                raise Abort("SMBO.%s defined twice" % f.name)
            meths[f.name] = f
    for m, want in DECOS.items():
        if m not in meths or [ast.unparse(d) for d in meths[m].decorator_list] != want:
            raise Abort("SMBO.%s: decorators %s, expected %s" % (m, [ast.unparse(d) for d in meths.get(m).decorator_list] if m in meths else None, want))
    if ast.unparse(meths["init_pos"].body[-1]) != "return super().init_pos()" or ast.unparse(meths["iterate"].body[-1]) != "return self._propose_location()":
        raise Abort("SMBO.init_pos / iterate bodies changed")
    out.append(PRELUDE)
    u = Unit("smbo")
    u.fields = {"X_sample": ("sg_X_sample", "list:pos"), "Y_sample": ("sg_Y_sample", "list:score"), "all_pos_comb": ("sg_all_pos_comb", "list:pos"),
                "replacement": ("sg_replacement", "bool"), "pos_new": ("sg_pos_new", "pos")}
    u.self_ty = "g_smbo"

    def hook(coq, ty):
        def mk(tr):
            v = tr.fresh()
            return [("(self, %s)" % v, coq)], v, ty
        return mk
    u.expr_hooks["iterate(self, *args, **kwargs)"] = hook("iterate_f self", "pos")
    u.pinned["evaluate(self, score)"] = "do self <- evaluate_f self score; "
    u.pinned["del self.X_sample[-1]"] = "do self <- sg_del_last_X self; "
    u.oracles["np.isnan(score)"] = ("(score_is_nan score)", "bool")
    u.oracles["np.isinf(score)"] = ("(score_is_inf score)", "bool")
    # the tracker updates belong to the tracker layer (generated/TrackerGen.v); they do not touch the SMBO bookkeeping
    u.pinned["self._evaluate_new2current(score_new)"] = ""
    u.pinned["self._evaluate_current2best()"] = ""
    u.methods["_remove_position"] = Fn("sg_remove_position", ["pos"], "none", kind="method")

    w = wrapper(meths["track_X_sample"], "iterate", "self, *args, **kwargs")
    tr = Tr(u, is_method=True, ret="pos")
    out.append("Definition g_SMBO_track_X_sample (self : g_smbo) : res (g_smbo * pos) :=\n  %s." % tr.block(w.body, {}))
    w = wrapper(meths["track_y_sample"], "evaluate", "self, score")
    tr = Tr(u, is_method=True, ret="none")
    out.append("Definition g_SMBO_track_y_sample (self : g_smbo) (score : score) : res g_smbo :=\n  %s." % tr.block(w.body, {"score": ("score", "score")}))
    out.append("End SmboGen_part.")       # placeholder replaced below

    def body(name):
        f = meths[name]
        if ast.unparse(f.args) != "self, score_new":
            raise Abort("SMBO.%s: parameters" % name)
        g = ast.FunctionDef(name=name, args=f.args, body=f.body, decorator_list=[], returns=None, type_comment=None)
        return translate_function(u, g, Fn("g_SMBO_%s_body" % name, ["score"], "none", kind="method"))
    bodies = [body("evaluate"), body("evaluate_init")]
    # the bodies do not use the Section variables: put them before the Section so that the compositions below can use them
    out.pop()
    idx = out.index(PRELUDE)
    pre, sec = PRELUDE.split("Section SmboGen.")
    out[idx] = pre + "\n".join(bodies) + "\n\nSection SmboGen." + sec
    out.append(POSTLUDE)
    known = {"__init__", "init_warm_start_smbo", "track_X_sample", "track_y_sample", "_sampling", "random_sampling", "_all_possible_pos",
             "memory_warning", "init_pos", "iterate", "_remove_position", "evaluate", "evaluate_init", "_propose_location"}
    if set(meths) != known:
        raise Abort("SMBO defines methods %s, the translator knows %s" % (sorted(set(meths) - known), sorted(known - set(meths))))
    # modelled by hand (Smbo.init_warm_start_smbo, the candidate set of the S-units, proposal_ok) or outside the model: pinned by digest
    pins = {m: hashlib.sha1(source_text(path, meths[m]).encode()).hexdigest()
            for m in ("_remove_position", "__init__", "init_warm_start_smbo", "_sampling", "random_sampling", "_all_possible_pos", "_propose_location")}
    return ["SMBO.track_X_sample.wrapper", "SMBO.track_y_sample.wrapper", "SMBO.evaluate", "SMBO.evaluate_init"], pins


HEADER = ["(* GENERATED by harness/translate_smbo.py from %s -- do not edit. *)" % REL,
          "Require Import Base PyPrims PyPrimsQ Converter CoreOpt Smbo.",
          "From RecordUpdate Require Import RecordSet.",
          "Import RecordSetNotations.",
          "Open Scope Z_scope.",
          ""]


def translate(write=True):
    info = dict(ok=True, error=None)
    try:
        info["digest"] = hashlib.sha1(open(os.path.join(PKG, REL), "rb").read()).hexdigest()
        out = list(HEADER)
        info["methods"], pins = build(out)
        info["pinned_bodies"] = pins
        if not os.path.exists(PINS):
            raise Abort("harness/smbo_pins.json is missing")
        want = json.load(open(PINS))
        for m, d in pins.items():
            if want.get(m) != d:
                raise Abort("SMBO.%s changed: it is modelled by hand (theories/Smbo.v, tied by the units of C17) and pinned by digest" % m)
        text = "\n".join(out) + "\n"
    except Abort as e:
        info.update(ok=False, error=str(e))
        text = ("(* GENERATED by harness/translate_smbo.py -- the translator ABORTED: %s *)\n"
                "Require Import Base PyPrims PyPrimsQ.\nDefinition translator_aborted : bool := true.\n" % str(e).replace("*)", "* )"))
    except (OSError, SyntaxError) as e:
        info.update(ok=False, error="%s: %s" % (type(e).__name__, e))
        text = ("(* GENERATED by harness/translate_smbo.py -- source unreadable *)\nRequire Import Base PyPrims PyPrimsQ.\n"
                "Definition translator_aborted : bool := true.\n")
    info["text_sha1"] = hashlib.sha1(text.encode()).hexdigest()
    if write:
        old = open(OUT).read() if os.path.exists(OUT) else None
        if old != text:
            open(OUT, "w").write(text)
        json.dump(info, open(INFO, "w"), indent=1)
    info["text"] = text
    return info


if __name__ == "__main__":
    if "--pin" in sys.argv:
        _, pins = build([])
        json.dump(pins, open(PINS, "w"), indent=1)
        print("pinned", pins)
        sys.exit(0)
    r = translate(write="--dry" not in sys.argv)
    print(r["text"] if "--show" in sys.argv else ("ok" if r["ok"] else "ABORT: " + r["error"]))
    sys.exit(0 if r["ok"] else 1)
