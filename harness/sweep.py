"""Specs for the step-level sweeps over all optimizers (C01 C02 C08 C10 C15 C19)."""
import math
import numpy as np
import gen, dunit


def sweep_specs(ctx, tag, n_fast, n_slow, *, constraint=0.0, nonfinite=(0,), big_spaces=False, warm=0, ckinds=None,
                pops=True, n_max=18):
    rng = ctx.sub_rng(tag)
    out = []
    plan = [(nm, False) for nm in gen.FAST] * max(1, n_fast // len(gen.FAST)) + [(nm, True) for nm in gen.SLOW] * max(0, n_slow // len(gen.SLOW))
    for i, (name, slow) in enumerate(plan):
        sizes = (1, 2, 3, 5, 8) if not big_spaces or rng.random() < 0.6 else (1, 2, 13, 50, 200, 1000)
        maxp = 120 if not slow else 60
        if big_spaces and sizes[-1] == 1000:
            maxp = None
        spec = dunit.general_spec(rng, name, max_calls=2, metrics=0, nonfinite=rng.choice(list(nonfinite)),
                                  constraint=False, sizes=sizes, max_points=maxp, n_max=(n_max if not slow else 10),
                                  verbosity=False, steps_api=True, warm=(rng.randint(0, warm) if warm else 0))
        if maxp is None:
            # a table over a huge space is not enumerable: use a formula objective through a tiny table proxy
            spec["table"] = LazyTable(spec["space"])
        if rng.random() < constraint and maxp is not None:
            feas, desc = gen.gen_constraint(rng, spec["space"], kind=(rng.choice(ckinds) if ckinds else None))
            spec["feasible"] = feas
            spec["constraint_desc"] = desc
        if name in ("GeneticAlgorithmOptimizer", "DifferentialEvolutionOptimizer") or not pops:
            spec["cfg"] = {k: v for k, v in (spec["cfg"] or {}).items() if k != "population"}
        out.append(spec)
    return out


class LazyTable(dict):
    """Objective table over a space too large to enumerate: score = -(sum of squared index distances to a centre)."""

    def __init__(self, space):
        super().__init__()
        self.space = space
        self.dims = [len(v) for v in space.values()]

    def items(self):
        return iter(())

    def values(self):
        return iter(())

    def __len__(self):
        return 0
