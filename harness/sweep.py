"""Specs for the step-level sweeps over all optimizers (C01 C02 C08 C10 C15 C19)."""
import math
import numpy as np
import gen, dunit


def sweep_specs(ctx, tag, n_fast, n_slow, *, constraint=0.0, nonfinite=(0,), big_spaces=False, warm=0, ckinds=None,
                pops=True, n_max=18):
    rng = ctx.sub_rng(tag)
    out = []
    plan = [(nm, False) for nm in gen.FAST] * max(1, n_fast // len(gen.FAST)) + [(nm, True) for nm in gen.SLOW] * max(0, n_slow // len(gen.SLOW))
    for i, (name, slow) in enumerate(plan):
        sizes = (1, 2, 3, 5, 8) if not big_spaces or rng.random() < 0.6 else (1, 2, 13, 50, 200, 1000)
        maxp = 120 if not slow else 60
        if big_spaces and sizes[-1] == 1000:
            maxp = None
        spec = dunit.general_spec(rng, name, max_calls=2, metrics=0, nonfinite=rng.choice(list(nonfinite)),
                                  constraint=False, sizes=sizes, max_points=maxp, n_max=(n_max if not slow else 10),
                                  verbosity=False, steps_api=True, warm=(rng.randint(0, warm) if warm else 0))
        if maxp is None:
            # a table over a huge space is not enumerable: use a formula objective through a tiny table proxy
            spec["table"] = LazyTable(spec["space"])
        if rng.random() < constraint and maxp is not None:
            feas, desc = gen.gen_constraint(rng, spec["space"], kind=(rng.choice(ckinds) if ckinds else None))
            spec["feasible"] = feas
            spec["constraint_desc"] = desc
        if name in ("GeneticAlgorithmOptimizer", "DifferentialEvolutionOptimizer") or not pops:
            spec["cfg"] = {k: v for k, v in (spec["cfg"] or {}).items() if k != "population"}
        out.append(spec)
    return out


class LazyTable(dict):
    """Objective table over a space too large to enumerate: score = -(sum of squared index distances to a centre)."""

    def __init__(self, space):
        super().__init__()
        self.space = space
        self.dims = [len(v) for v in space.values()]

    def items(self):
        return iter(())

    def values(self):
        return iter(())

    def __len__(self):
        return 0


# hyper-parameters at and beyond the ends of their usual ranges (the properties quantify over every setting): two variants per optimizer
EXTREME = {
    "HillClimbingOptimizer": [dict(epsilon=2.5, n_neighbours=1, distribution="laplace"), dict(epsilon=0.001, n_neighbours=10)],
    "StochasticHillClimbingOptimizer": [dict(epsilon=2.5, p_accept=1.0), dict(epsilon=0.3, p_accept=0.0, n_neighbours=5)],
    "RepulsingHillClimbingOptimizer": [dict(repulsion_factor=50, epsilon=0.3), dict(repulsion_factor=1, epsilon=2.5)],
    "SimulatedAnnealingOptimizer": [dict(annealing_rate=0.5, start_temp=1000), dict(annealing_rate=1.1, start_temp=0.001, epsilon=1.0)],
    "RandomSearchOptimizer": [dict(), dict()],
    "RandomRestartHillClimbingOptimizer": [dict(n_iter_restart=1), dict(n_iter_restart=2, epsilon=2.5)],
    "RandomAnnealingOptimizer": [dict(start_temp=1000, annealing_rate=0.5), dict(start_temp=0.1, annealing_rate=1.05)],
    "PatternSearch": [dict(n_positions=8, pattern_size=2.0, reduction=0.5), dict(n_positions=1, pattern_size=0.9, reduction=0.99)],
    "PowellsMethod": [dict(iters_p_dim=1), dict(iters_p_dim=3)],
    "GridSearchOptimizer": [dict(step_size=3, direction="orthogonal"), dict(step_size=2, direction="diagonal")],
    "DirectAlgorithm": [dict(), dict()],
    "DownhillSimplexOptimizer": [dict(alpha=2.5, gamma=4, beta=1.5, sigma=2.0), dict(alpha=0.5, gamma=1, beta=0.9, sigma=1.5)],
    "ParticleSwarmOptimizer": [dict(inertia=1.5, cognitive_weight=3.0, social_weight=3.0, population=4), dict(inertia=0.1, cognitive_weight=0.0, social_weight=4.0, population=3)],
    "SpiralOptimization": [dict(decay_rate=1.1, population=4), dict(decay_rate=0.5, population=3)],
    "ParallelTemperingOptimizer": [dict(n_iter_swap=1, population=3), dict(n_iter_swap=2, population=5)],
    "GeneticAlgorithmOptimizer": [dict(mutation_rate=0.0, crossover_rate=1.0, offspring=1, population=5), dict(mutation_rate=1.0, crossover_rate=0.0, population=4)],
    "EvolutionStrategyOptimizer": [dict(mutation_rate=0.0, crossover_rate=1.0, population=4), dict(mutation_rate=1.0, crossover_rate=0.0, replace_parents=True, population=3)],
    "DifferentialEvolutionOptimizer": [dict(mutation_rate=2.0, crossover_rate=0.9, population=5), dict(mutation_rate=0.3, crossover_rate=0.1, population=4)],
    "BayesianOptimizer": [dict(replacement=False, sampling={"random": 30}), dict(xi=1.0)],
    "TreeStructuredParzenEstimators": [dict(replacement=False, sampling={"random": 30}), dict(gamma_tpe=0.9)],
    "ForestOptimizer": [dict(replacement=False, sampling={"random": 30}), dict(xi=1.0)],
    "LipschitzOptimizer": [dict(sampling={"random": 30}), dict()],
}


def extreme_specs(ctx, tag, *, constraint=0.5, n_fast=60, n_slow=14, rounds=1):
    """per optimizer and extreme setting: one longer run (enough iterations to reach the rarer branches: shrink / contraction steps,
    pattern reduction, direction changes, swaps) on a 2-3 dimensional space with 7-40 values per dimension"""
    import inspect
    rng = ctx.sub_rng(tag + "-extreme")
    out = []
    for rd in range(rounds):
        for name in gen.ALL:
            slow = name in gen.SLOW
            for cfg in EXTREME.get(name, [dict()]):
                nd = rng.choice([2, 2, 3]) if not slow else 2
                sizes = [rng.choice([7, 12, 25, 40]) if not slow else rng.choice([6, 9]) for _ in range(nd)]
                space = {"x%d" % d: np.arange(sizes[d]) * rng.choice([1, 1, 2]) - rng.choice([0, 3]) for d in range(nd)}
                ok = set(inspect.signature(gen.opt_class(name).__init__).parameters)
                cfg2 = {k: v for k, v in cfg.items() if k in ok}
                if rng.random() < 0.4 or (name in gen.POPULATION and cfg is EXTREME[name][0]):
                    cfg2["rand_rest_p"] = rng.choice([0.05, 0.3]) if name not in gen.POPULATION else 0.3   # every population optimizer once with restarts
                spec = dict(name=name, space=space, table=LazyTable(space), calls=[dict(n_iter=(n_fast if not slow else n_slow), memory=False, verbosity=False)],
                            seed=rng.randrange(10 ** 6), init={"random": rng.choice([2, 4]), "vertices": rng.choice([0, 2])}, cfg=cfg2,
                            meta=[("int", "asc", n) for n in sizes], steps_api=True, feasible=None)
                if rng.random() < constraint and int(np.prod(sizes)) <= 4000:
                    allp = gen.all_positions(space)
                    kind = rng.choice(["sum-parity", "diag-band", "halfspace"])
                    if kind == "sum-parity":
                        feas = {p for p in allp if sum(p) % 2 == 0}
                    elif kind == "diag-band":
                        w = max(2, sizes[0] // 3)
                        feas = {p for p in allp if abs(p[0] - p[1]) <= w}
                    else:
                        c = sum(sizes) // 2
                        feas = {p for p in allp if sum(p) <= c}
                    if len(feas) * 4 >= len(allp):
                        spec["feasible"] = feas
                        spec["constraint_desc"] = (kind,)
                out.append(spec)
    return out


def dtype_edge_specs(ctx, tag, *, per=2, long1d=True):
    """per optimizer: short runs on spaces whose index range crosses an integer-width boundary (129..257 points next to a short dimension,
    and one 1-D space of ~33000 points): candidate arrays are built with the tightest integer type, so a wrong cast wraps there"""
    rng = ctx.sub_rng(tag + "-dtype-edge")
    out = []
    for name in gen.ALL:
        slow = name in gen.SLOW
        shapes = [[rng.choice([129, 150, 200, 254, 255, 256, 257, 300]), rng.choice([2, 3, 4])] for _ in range(per)]
        if long1d and (slow or rng.random() < 0.3):
            shapes.append([rng.choice([32769, 33000, 40000])])
        for sizes in shapes:
            if rng.random() < 0.5:
                sizes = list(reversed(sizes))
            space = {"x%d" % d: np.arange(sizes[d]) - rng.choice([0, 7]) for d in range(len(sizes))}
            spec = dict(name=name, space=space, table=LazyTable(space), calls=[dict(n_iter=(14 if not slow else 10), memory=False, verbosity=False)],
                        seed=rng.randrange(10 ** 6), init={"random": rng.choice([2, 3]), "vertices": rng.choice([0, 2])}, cfg={},
                        meta=[("int", "asc", n) for n in sizes], steps_api=True, feasible=None)
            out.append(spec)
    return out
