"""Re-execution of a replay file: rebuilds the recorded spec and runs the property's monitor on the implementation again.

  python3 harness/check.py Cxx --replay evidence/replays/Cxx-....json

exit 1 (and a VIOLATION line) when the recorded failure shows again on /repo's current working tree, exit 0 when it does not.
Replays whose case is not a self-contained spec (no-failing-input-found, correspondence-only cases, cases carrying data frames or
callables in their configuration) are printed instead."""
import json, math
import numpy as np


def _num(x):
    if x == "nan":
        return math.nan
    if x == "inf":
        return math.inf
    if x == "-inf":
        return -math.inf
    return x


def spec_from_json(s):
    if not isinstance(s, dict) or not isinstance(s.get("table"), list) or "space" not in s or "calls" not in s:
        return None
    spec = dict(s)
    spec["space"] = {k: np.array(v) for k, v in s["space"].items()}
    table = {}
    for k, sc, met in s["table"]:
        table[tuple(int(i) for i in k)] = (_num(sc), ({mk: _num(mv) for mk, mv in met.items()} if isinstance(met, dict) else met))
    spec["table"] = table
    if s.get("feasible") is not None:
        spec["feasible"] = {tuple(int(i) for i in p) for p in s["feasible"]}
    calls = []
    for c in s["calls"]:
        c2 = dict(c)
        if isinstance(c2.get("memory_warm_start"), dict):
            import pandas as pd
            c2["memory_warm_start"] = pd.DataFrame({k: [_num(x) for x in v] for k, v in c2["memory_warm_start"].items()})
        calls.append(c2)
    spec["calls"] = calls
    cfg = spec.get("cfg") or {}
    if any(isinstance(v, str) and v.startswith("<") or (isinstance(v, str) and "\n" in v) for v in cfg.values()):
        return None                       # an object that was only recorded by its repr (data frame, estimator)
    if isinstance(spec.get("init"), dict) and isinstance(spec["init"].get("warm_start"), list):
        spec["init"] = dict(spec["init"], warm_start=[{k: _num(v) for k, v in w.items()} for w in spec["init"]["warm_start"]])
    if spec.get("meta") is not None:
        spec["meta"] = [tuple(m) for m in spec["meta"]]
    if spec.get("np_constraint") is not None:
        spec["np_constraint"] = tuple(spec["np_constraint"])
    if spec.get("pred") is not None:
        spec["pred"] = (tuple(spec["pred"][0]), spec["pred"][1])
    return spec


def rerun(ctx, mod, data):
    """-> exit status, or None when the replay cannot be re-executed generically"""
    how = getattr(mod, "REPLAY", None)
    case = data.get("case") or {}
    spec = spec_from_json(case.get("spec")) if isinstance(case, dict) else None
    if how is None or spec is None or data.get("kind") != "failing-input":
        return None
    kind, monitor = how
    import instr, dunit
    if kind == "steps":
        out = instr.run_steps(spec)
        monitor(ctx, spec, out)
    elif kind == "masked":
        out = mod.run_with_mask(spec, [_num(m) for m in spec.get("mask", [])])
        spec["mask"] = [_num(m) for m in spec.get("mask", [])]
        monitor(ctx, spec, out)
    else:
        r = dunit.run_case(spec)
        monitor(ctx, spec, r)
    want = data.get("sig", {}).get("kind")
    hits = [v for v in ctx.violations if want is None or v["sig"].get("kind") == want] if hasattr(ctx, "violations") else []
    print("replay of %s on the current working tree: %s" % (data.get("property"), "REPRODUCED" if hits else "not reproduced"))
    for v in hits[:3]:
        print("  " + v["text"][:400])
    if hits:
        print("VIOLATION property=%s replay=%s" % (data.get("property"), ctx.replay_path if hasattr(ctx, "replay_path") else "(given file)"))
        return 1
    return 0
