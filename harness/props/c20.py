"""C20 — position / value / parameter / memory conversions are mutually inverse."""
import math, itertools
import numpy as np
import pandas as pd
import gen
from common import coq_eval_cases, cz, cnat, clist, copt, cbool, Scaler, jsonable, res_lit


def spaces(ctx):
    """Exhaustive small spaces (every order of 1..4 distinct values, 1-2 dims) + random larger ones."""
    out = []
    base = [[3], [1, 2], [2, 5, 9], [-1.5, 0.25, 2.0, 7.0]]
    perms1 = []
    for b in base:
        for p in itertools.permutations(b):
            perms1.append(list(p))
    for p in perms1:
        out.append({"a": np.array(p)})
    small = [p for p in perms1 if len(p) <= 3]
    for p in small:
        for q in small:
            if (len(p) + len(q)) % 2 == 0 or ctx.tier == "thorough":
                out.append({"a": np.array(p), "b": np.array(q, dtype=float)})
    # pairwise distinct values that need the full double precision to be told apart (large magnitudes with a small step): a lookup done
    # in a narrower float type collapses them
    for arr in (np.arange(2 ** 24, 2 ** 24 + 6), np.arange(1_700_000_000, 1_700_000_012)[::-1].copy(), 2400.0 + np.arange(10) / 16384.0,
                np.array([2.0 ** 40 + k for k in (3, 0, 2, 1)]), -1.0e9 + np.arange(7) * 0.5):
        out.append({"a": np.array(arr)})
    out.append({"a": 1.0e6 + np.arange(5) / 4096.0, "b": np.arange(3)})
    # values very far apart (integer differences beyond 2**32: a squared distance leaves int64) and, in floats, exactly representable powers of two
    out.append({"a": np.array([0, 2 ** 33, 2 ** 34, 3 * 2 ** 33]), "b": np.arange(3)})
    out.append({"a": np.array([-2 ** 40, 7, 2 ** 41]), "b": np.array([2.0 ** 60, 2.0 ** 61, -2.0 ** 62])})
    # dimensions holding one value at several indices (outside C20's quantifier: only the K-units run on them, the model and the code
    # must still agree -- both take the FIRST index of a repeated value)
    for arr in ([4, 2, 5, 2, 1, 3], [1, 1], [1, 1, 2, 2, 3, 4, 6, 10], [3.0, 1.5, 3.0], [7, 7, 7]):
        out.append({"a": np.array(arr)})
    out.append({"a": np.array([2, 1, 2]), "b": np.array([0.5, 0.5, 1.0, 0.25])})
    rng = ctx.sub_rng("spaces")
    for _ in range(8 if ctx.quick else 60):
        sp, _ = gen.gen_space(rng, ndims=rng.choice([1, 2, 3]), sizes=(2, 3, 5, 8), max_points=None, dups=0.8)
        out.append(sp)
    for _ in range(40 if ctx.quick else 300):
        sp, _ = gen.gen_space(rng, ndims=rng.choice([1, 2, 3, 4, 5]), sizes=(1, 2, 3, 5, 8, 13, 50) if not ctx.quick else (1, 2, 3, 5, 8, 13),
                              max_points=None)
        out.append(sp)
    return out


def outcome(fn):
    try:
        return ("ok", fn())
    except Exception as e:
        return (type(e).__name__, None)


def pre_build(ctx):
    import gen_units
    gen_units.pre_build(ctx, "translate_conv")


def run(ctx, only=None):
    if only is None:
        import gen_units
        gen_units.g_unit(ctx, "translate_conv")
    from gradient_free_optimizers.optimizers.core_optimizer.converter import Converter
    rng = ctx.sub_rng("k")
    units = {}

    def unit(name, rule):
        units[name] = dict(u=ctx.unit("K:Converter." + name, "K", rule), lits=[], cases=[])
        return units[name]

    U_p2v = unit("position2value", "every position of every generated space (+ out-of-range and negative indices); distinct by (space, position)")
    U_v2p = unit("value2position", "member values and off-grid values (midpoints, beyond the ends) per dimension; distinct by (space, value)")
    U_vs2ps = unit("values2positions", "batches of member and off-grid value vectors; non-trivial = space not ascending; distinct by (space, batch)")
    U_ps2vs = unit("positions2values", "batches of positions; distinct by (space, batch)")
    U_para = unit("value2para/para2value", "value vectors through value2para and back, parameter dicts in shuffled key order; distinct by (space, vector)")
    U_md = unit("memory_dict<->dataframe", "random memory dictionaries -> dataframe -> dictionary, frames with extra columns, duplicate rows, shuffled columns; distinct by (space, dict)")
    ctx.monitor_rule = ("direct round trips on the implementation: p -> value -> p, p -> para -> value -> p, batched == single, "
                        "dict -> frame -> dict, for spaces with pairwise distinct values in any order")
    all_spaces = spaces(ctx)
    for si, space in enumerate(all_spaces):
        conv = Converter(space)
        names = list(space.keys())
        vs = Scaler()
        for a in space.values():
            for x in a:
                vs.add(x)
                vs.add(float(x) + 0.5)
                vs.add(float(x) - 0.25)
        sp_lit = clist([clist([vs.z(x) for x in a]) for a in space.values()], lambda s: s)
        dims = [len(a) for a in space.values()]
        asc = all(list(a) == sorted(a) for a in space.values())
        distinct = all(len(set(float(x) for x in a)) == len(a) for a in space.values())
        allpos = list(itertools.product(*[range(d) for d in dims]))
        if len(allpos) > 60:
            allpos = [tuple(rng.randrange(d) for d in dims) for _ in range(40)]
        key = tuple(tuple(float(x) for x in a) for a in space.values())

        # --- position2value (incl. bad indices) and the monitor round trip
        extra = [tuple(rng.choice([-1, -d, d, d + 1, -d - 1]) if rng.random() < 0.6 else rng.randrange(d) for d in dims) for _ in range(3)]
        for p in allpos + extra:
            o = outcome(lambda: [float(x) for x in conv.position2value(np.array(p))])
            exp = res_lit("ok", clist([vs.z(x) for x in o[1]])) if o[0] == "ok" else res_lit(o[0])
            U_p2v["lits"].append("(%s, %s, %s)" % (sp_lit, clist(p), exp))
            U_p2v["cases"].append(dict(space=jsonable(space), pos=p, impl=o))
            U_p2v["u"].count((key, p), nontrivial=len(allpos) > 1)
            if p in allpos and distinct:
                ctx.monitor_runs += 1
                ctx.monitor_nontrivial.add((key, p))
                val = conv.position2value(np.array(p))
                back = [int(x) for x in conv.value2position(val)]
                para = conv.value2para(val)
                items = list(para.items())
                rng.shuffle(items)
                back2 = [int(x) for x in conv.value2position(conv.para2value(dict(items)))]
                if back != list(p) or back2 != list(p):
                    ctx.violation(dict(kind="roundtrip-single", ascending=asc), dict(space=jsonable(space), pos=p, back=back, back_para=back2),
                                  "position -> value/para -> position returns %r / %r for %r" % (back, back2, list(p)))
        # --- value2position on members and off-grid values
        vals = []
        for p in allpos[:25]:
            vals.append([float(space[n][i]) for n, i in zip(names, p)])
        for _ in range(6):
            v = []
            for n in names:
                a = space[n]
                x = float(a[rng.randrange(len(a))]) + rng.choice([0.5, -0.25, 0.0])
                v.append(x)
            vals.append(v)
        for v in vals:
            o = outcome(lambda: [int(x) for x in conv.value2position(v)])
            exp = res_lit("ok", clist(o[1])) if o[0] == "ok" else res_lit(o[0])
            U_v2p["lits"].append("(%s, %s, %s)" % (sp_lit, clist([vs.z(x) for x in v]), exp))
            U_v2p["cases"].append(dict(space=jsonable(space), value=v, impl=o))
            U_v2p["u"].count((key, tuple(v)), nontrivial=not asc)
        # --- batched
        for _ in range(3):
            batch = [vals[rng.randrange(len(vals))] for _ in range(rng.randint(1, 6))]
            o = outcome(lambda: [[int(x) for x in r] for r in conv.values2positions(batch)])
            exp = res_lit("ok", clist(o[1], clist)) if o[0] == "ok" else res_lit(o[0])
            U_vs2ps["lits"].append("(%s, %s, %s)" % (sp_lit, clist(batch, lambda r: clist([vs.z(x) for x in r])), exp))
            U_vs2ps["cases"].append(dict(space=jsonable(space), batch=batch, impl=o))
            U_vs2ps["u"].count((key, tuple(map(tuple, batch))), nontrivial=not asc)
            ctx.monitor_runs += 1
            ctx.monitor_nontrivial.add((key, tuple(map(tuple, batch))))
            single = [[int(x) for x in conv.value2position(r)] for r in batch]
            members = all(any(float(x) == r[j] for x in space[n]) for r in batch for j, n in enumerate(names))
            if members and (o[0] != "ok" or o[1] != single):
                ctx.violation(dict(kind="batched-v2p", ascending=asc), dict(space=jsonable(space), batch=batch, batched=o, single=single),
                              "values2positions %r differs from the element-wise value2position %r" % (o, single))
            pb = [list(allpos[rng.randrange(len(allpos))]) for _ in range(rng.randint(1, 5))]
            o2 = outcome(lambda: [[float(x) for x in r] for r in conv.positions2values(pb)])
            exp2 = res_lit("ok", clist(o2[1], lambda r: clist([vs.z(x) for x in r]))) if o2[0] == "ok" else res_lit(o2[0])
            U_ps2vs["lits"].append("(%s, %s, %s)" % (sp_lit, clist(pb, clist), exp2))
            U_ps2vs["cases"].append(dict(space=jsonable(space), batch=pb, impl=o2))
            U_ps2vs["u"].count((key, tuple(map(tuple, pb))), nontrivial=True)
            single2 = [[float(x) for x in conv.position2value(np.array(r))] for r in pb]
            if o2[0] != "ok" or o2[1] != single2:
                ctx.violation(dict(kind="batched-p2v"), dict(space=jsonable(space), batch=pb), "positions2values differs from element-wise position2value")
        # --- para
        for v in vals[:4]:
            para = conv.value2para(v)
            items = list(para.items())
            rng.shuffle(items)
            o = outcome(lambda: [float(x) for x in conv.para2value(dict(items))])
            ids = {n: i for i, n in enumerate(names)}
            plit = clist([(ids[k], vs.z(x)) for k, x in items], lambda kv: "(%s, %s)" % (cz(kv[0]), cz(kv[1])))
            exp = res_lit("ok", clist([vs.z(x) for x in o[1]])) if o[0] == "ok" else res_lit(o[0])
            U_para["lits"].append("(%s, %s, %s, %s)" % (clist(range(len(names))), clist([vs.z(x) for x in v]), plit, exp))
            U_para["cases"].append(dict(space=jsonable(space), value=v, items=items, impl=o))
            U_para["u"].count((key, tuple(v)), nontrivial=len(names) > 1)
        # --- memory dict <-> dataframe
        for _ in range(2):
            ks = list({allpos[rng.randrange(len(allpos))] for _ in range(rng.randint(1, 6))})
            # scores as a memory dictionary holds them: any float, NaN and +-inf included (a NaN score is a stored result like any other)
            md = {tuple(k): (float(rng.randint(-9, 9)) if rng.random() < 0.7 else rng.choice([math.nan, math.inf, -math.inf])) for k in ks}
            o = outcome(lambda: conv.memory_dict2dataframe(md))
            ss = Scaler([0.5])
            if o[0] == "ok":
                df = o[1]
                back = outcome(lambda: {tuple(int(x) for x in k): float(v) for k, v in conv.dataframe2memory_dict(df).items()})
                ctx.monitor_runs += 1
                ctx.monitor_nontrivial.add((key, tuple(sorted(md))))
                def same_md(a, b):
                    return set(a) == set(b) and all((a[k] == b[k]) or (math.isnan(a[k]) and math.isnan(b[k])) for k in a)
                if distinct and (back[0] != "ok" or not same_md(back[1], md)):
                    ctx.violation(dict(kind="memdict-roundtrip", ascending=asc), dict(space=jsonable(space), memory_dict=jsonable(sorted(md.items())), back=jsonable(back)),
                                  "memory_dict -> dataframe -> memory_dict does not return the same keys and scores")
                # frames with an extra column, shuffled columns, a duplicated row
                df2 = df.copy()
                df2["extra"] = 1.0
                df2 = df2[list(rng.sample(list(df2.columns), len(df2.columns)))]
                if rng.random() < 0.5:
                    df2 = pd.concat([df2, df2.iloc[[0]].assign(score=99.0)], ignore_index=True)
                ri = rng.random()
                if ri < 0.3 and len(df2) > 1:
                    order = list(range(len(df2)))
                    rng.shuffle(order)
                    df2 = df2.iloc[order]                      # rows shuffled, index labels permuted
                elif ri < 0.5 and len(df2) > 1:
                    df2 = df2.iloc[1:]                         # index starts at 1
                elif ri < 0.6:
                    df2 = pd.concat([df2, df2.iloc[[0]]])      # duplicate index label
                o3 = outcome(lambda: [([int(x) for x in k], float(v)) for k, v in conv.dataframe2memory_dict(df2).items()])
                cols = [c for c in df2.columns if c != "score"]
                colids = [names.index(c) if c in names else 1000 for c in cols]
                rows = []
                for _, r in df2.iterrows():
                    rows.append("(%s, %s)" % (clist([vs.z(float(r[c])) if c in names else 0 for c in cols]), ss.score(float(r["score"]))))
                exp = res_lit("ok", clist(o3[1], lambda kv: "(%s, %s)" % (clist(kv[0]), ss.score(kv[1])))) if o3[0] == "ok" else res_lit(o3[0])
                U_md["lits"].append("(%s, %s, (mkFrame %s [%s]), %s)" % (sp_lit, clist(range(len(names))), clist(colids), "; ".join(rows), exp))
                U_md["cases"].append(dict(space=jsonable(space), frame=df2.to_dict("list"), impl=jsonable(o3)))
                U_md["u"].count((key, tuple(sorted(md)), tuple(cols)), nontrivial=len(md) > 1)

    hdr = ("Require Import Converter.\n"
           "Definition zl_eqb := list_eqb Z.eqb.\n"
           "Definition res_eqb {A} (e : A -> A -> bool) (a b : res A) := match a, b with Ok x, Ok y => e x y | Err x, Err y => err_eqb x y | _, _ => false end.\n"
           "Definition md_eqb (a b : list (pos * score)) := list_eqb (fun x y => zl_eqb (fst x) (fst y) && score_same (snd x) (snd y)) a b.")
    specs = {
        "position2value": ("space * pos * res values", "fun c => let '(sp, p, e) := c in res_eqb zl_eqb (position2value sp p) e"),
        "value2position": ("space * values * res pos", "fun c => let '(sp, v, e) := c in res_eqb zl_eqb (value2position sp v) e"),
        "values2positions": ("space * list values * res (list pos)", "fun c => let '(sp, v, e) := c in res_eqb (list_eqb zl_eqb) (values2positions sp v) e"),
        "positions2values": ("space * list pos * res (list values)", "fun c => let '(sp, v, e) := c in res_eqb (list_eqb zl_eqb) (positions2values sp v) e"),
        "value2para/para2value": ("list Z * values * para * res values",
                                  "fun c => let '(nm, v, p, e) := c in res_eqb zl_eqb (para2value nm p) e && res_eqb zl_eqb (para2value nm (value2para nm v)) e"),
        "memory_dict<->dataframe": ("space * list Z * frame score * res (list (pos * score))",
                                    "fun c => let '(sp, nm, fr, e) := c in res_eqb md_eqb (dataframe2memory_dict sp nm fr) e"),
    }
    for name, d in units.items():
        u = d["u"]
        if only is not None and name not in only:
            ctx.units.remove(u)
            continue
        u.samples = d["cases"][:2]
        ctype, chk = specs[name]
        failing, err = coq_eval_cases(u.name, hdr, ctype, d["lits"], chk, shard=600)
        u.error = err
        for i in failing[:8]:
            u.mismatches.append(dict(case=d["cases"][i], note="Converter.%s differs from the model" % name))


def replay(ctx, data):
    import json
    print(json.dumps(data, indent=1)[:6000])
    return 0
