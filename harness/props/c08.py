"""C08 — every search step terminates under satisfiable constraints (no livelock)."""
import math
import numpy as np
import gen, instr, sweep, dunit
from common import jsonable
from props import core_units, c02

BOUND = 5000     # constraint evaluations per step; a healthy rejection loop with >= 25% feasible needs a handful


def monitor(ctx, spec, out):
    name = spec["name"]
    cfg = spec.get("cfg") or {}
    desc = spec.get("constraint_desc") or ("none",)
    sig = dict(optimizer=name, direction=cfg.get("direction"), constraint=desc[0])
    if out["exc"] is not None and out["exc"][0] == "Hang":
        at = out.get("at")
        ctx.violation(dict(sig, kind="livelock"),
                      dict(spec=dunit.spec_full(spec), at=at, steps_done=len(out["steps"]),
                           constraint_calls_in_hung_step=(len(out["cons"].log) - sum(len(s["con_args"]) for s in out["steps"]) - len(out.get("con_args_construct") or [])) if out.get("cons") else None),
                      "%s: a search step did not finish (watchdog) with %s constraints of feasible fraction >= 25%%" % (name, desc[0]))
        return
    if out["exc"] is not None:
        ctx.blocked.append(dict(spec=dunit.spec_brief(spec), exc=out["exc"][:2]))
    for st in out["steps"]:
        if len(st["con_args"]) > BOUND:
            ctx.violation(dict(sig, kind="unbounded-step"), dict(spec=dunit.spec_full(spec), step=[st["call"], st["k"]], calls=len(st["con_args"])),
                          "%s: one step made %d constraint evaluations" % (name, len(st["con_args"])))
            return


def directed_specs(ctx, n):
    """geometries in which a retry loop may not change its candidate: lattice constraints around a swarm's best,
    an infeasible restart point of a diagonal grid pass"""
    rng = ctx.sub_rng("c08-directed")
    out = []
    edge = [("SpiralOptimization", dict(decay_rate=1.0)), ("SpiralOptimization", dict(decay_rate=1.1)), ("SpiralOptimization", dict(decay_rate=1.0)),
            ("SpiralOptimization", dict(decay_rate=1.05)), ("SpiralOptimization", dict(decay_rate=1.0)), ("SpiralOptimization", dict(decay_rate=2.0)),
            ("GeneticAlgorithmOptimizer", dict(mutation_rate=0.0, crossover_rate=1.0)), ("GeneticAlgorithmOptimizer", dict(mutation_rate=0.0)),
            ("GeneticAlgorithmOptimizer", dict(mutation_rate=0.0, crossover_rate=1.0)), ("GeneticAlgorithmOptimizer", dict(mutation_rate=0.0)),
            ("GeneticAlgorithmOptimizer", dict(mutation_rate=0.0, crossover_rate=1.0)), ("GeneticAlgorithmOptimizer", dict(mutation_rate=0.0)),
            ("ParticleSwarmOptimizer", dict(inertia=1.2, cognitive_weight=0.0, social_weight=3.0)),
            ("DifferentialEvolutionOptimizer", dict(mutation_rate=2.0)), ("EvolutionStrategyOptimizer", dict(mutation_rate=0.0, crossover_rate=1.0)),
            ("DownhillSimplexOptimizer", dict(alpha=2.5, gamma=4)), ("SpiralOptimization", dict(decay_rate=1.3)),
            ("PatternSearch", dict(pattern_size=2.0, reduction=0.99)), ("GeneticAlgorithmOptimizer", dict(mutation_rate=0.0, crossover_rate=1.0)),
            ("ParallelTemperingOptimizer", dict(n_iter_swap=2)), ("PowellsMethod", dict(iters_p_dim=3)), ("DirectAlgorithm", dict())]
    for i in range(n):
        if i % 3 == 2:
            # the unconstrained optimum lies outside a half-space, so the search is pulled onto the edge of the feasible region; no random
            # restarts, expansion / decay parameters at or above 1: a fallback that re-proposes the same candidate never leaves its loop
            name, cfg = edge[(i // 3) % len(edge)]
            sz = rng.choice([25, 40]) if name != "GeneticAlgorithmOptimizer" else 25
            space = {"x0": np.arange(sz), "x1": np.arange(sz)}
            c = sz + sz // 4 - 1
            allp = gen.all_positions(space)
            feas = {p for p in allp if p[0] + p[1] <= c}
            table = {p: (-float((p[0] - (sz - 1)) ** 2 + (p[1] - (sz - 1)) ** 2), None) for p in allp}
            import inspect
            ok = set(inspect.signature(gen.opt_class(name).__init__).parameters)
            cfg2 = {k: v for k, v in cfg.items() if k in ok}
            npop = rng.choice([6, 8, 10]) if name != "SpiralOptimization" else rng.choice([10, 12])
            if "population" in ok:
                cfg2["population"] = npop
            spec = dict(name=name, space=space, table=table, feasible=feas, constraint_desc=("halfspace-edge", c),
                        calls=[dict(n_iter=60, memory=False, verbosity=False)], seed=rng.randrange(10 ** 6),
                        init=(rng.choice([{"random": npop}, {"random": npop // 2, "vertices": npop - npop // 2}]) if name != "GeneticAlgorithmOptimizer" else {"random": npop}), cfg=cfg2,
                        meta=[("int", "asc", sz), ("int", "asc", sz)])
        elif i % 3 == 0:
            nd = rng.choice([1, 2])
            space = {"x%d" % d: np.arange(rng.choice([8, 10, 13])) for d in range(nd)}
            allp = gen.all_positions(space)
            m = 2
            feas = {p for p in allp if p[0] % m == 0}
            table, _ = gen.gen_table(rng, space, kind="unimodal")
            spec = dict(name="ParticleSwarmOptimizer", space=space, table=table, feasible=feas, constraint_desc=("parity", m, 0, 0),
                        calls=[dict(n_iter=40, memory=False, verbosity=False)], seed=rng.randrange(10 ** 6),
                        init={"random": rng.choice([3, 4])}, cfg=dict(population=rng.choice([3, 4, 5])), meta=[("int", "asc", len(v)) for v in space.values()])
        else:
            dims = rng.choice([[4, 3], [3, 4], [6, 2], [2, 2, 3], [5, 2]])
            S = int(np.prod(dims))
            step = rng.choice([d for d in (2, 3, 4, 6) if S % d == 0])
            space = {"x%d" % d: np.arange(n_) for d, n_ in enumerate(dims)}
            allp = gen.all_positions(space)
            # exclude the restart point of the second pass (pointer 1) and a few random points; keep >= 25% feasible
            restart = tuple(int(x) for x in np.unravel_index(1, dims))
            feas = {p for p in allp if p != restart and rng.random() < 0.85}
            table, _ = gen.gen_table(rng, space)
            spec = dict(name="GridSearchOptimizer", space=space, table=table, feasible=feas, constraint_desc=("mask-restart", restart),
                        calls=[dict(n_iter=3 + S, memory=False, verbosity=False)], seed=rng.randrange(10 ** 6),
                        init={"random": 3}, cfg=dict(direction="diagonal", step_size=step), meta=[("int", "asc", n_) for n_ in dims])
        out.append(spec)
    return out


def pre_build(ctx):
    import gen_units
    gen_units.pre_build(ctx, "translate_grid")
    gen_units.pre_build(ctx, "translate_coreopt")


def run(ctx):
    import gen_units
    gen_units.g_unit(ctx, "translate_grid")
    gen_units.g_unit(ctx, "translate_coreopt")
    import common as _common
    _common.guarded(ctx, "K/S-units", core_units.run, ctx, which="C08")
    ctx.assumptions.append("the quantitative bound is probabilistic (it needs the generators' distributions): proved are exit-at-first-feasible, "
                           "one evaluation per candidate, every feasible point being an immediate exit and the move_random escape of move_climb")
    ctx.monitor_rule = ("every step finishes within the watchdog and makes <= %d constraint evaluations, for all 22 optimizers, tiny and "
                        "unsorted spaces, half-space / parity / band / mask constraints with feasible fraction >= 25%%; "
                        "distinct by (optimizer, seed, constraint)" % BOUND)
    n_fast, n_slow = (72, 4) if ctx.quick else (540, 40)
    specs = sweep.sweep_specs(ctx, "c08", n_fast, n_slow, constraint=1.0, ckinds=["parity", "band", "mask", "halfspace", "parity"]) \
        + c02.special_specs(ctx, 16 if ctx.quick else 120) + directed_specs(ctx, 54 if ctx.quick else 200) \
        + sweep.extreme_specs(ctx, "c08", constraint=1.0, rounds=(1 if ctx.quick else 4))
    for spec in specs:
        if spec.get("feasible") is None:
            continue
        out = instr.run_steps(spec, per_step_s=6 if ctx.quick else 12)
        ctx.monitor_runs += 1
        ctx.monitor_nontrivial.add((spec["name"], spec["seed"], repr(spec.get("constraint_desc"))))
        monitor(ctx, spec, out)


REPLAY = ("steps", monitor)      # harness/replay.py re-executes a recorded spec through this monitor


def replay(ctx, data):
    import json
    print(json.dumps(data, indent=1)[:6000])
    return 0
