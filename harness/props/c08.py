"""C08 — every search step terminates under satisfiable constraints (no livelock)."""
import math
import numpy as np
import gen, instr, sweep, dunit
from common import jsonable
from props import core_units, c02

BOUND = 5000     # constraint evaluations per step; a healthy rejection loop with >= 25% feasible needs a handful


def monitor(ctx, spec, out):
    name = spec["name"]
    cfg = spec.get("cfg") or {}
    desc = spec.get("constraint_desc") or ("none",)
    sig = dict(optimizer=name, direction=cfg.get("direction"), constraint=desc[0])
    if out["exc"] is not None and out["exc"][0] == "Hang":
        at = out.get("at")
        ctx.violation(dict(sig, kind="livelock"),
                      dict(spec=dunit.spec_full(spec), at=at, steps_done=len(out["steps"]),
                           constraint_calls_in_hung_step=(len(out["cons"].log) - sum(len(s["con_args"]) for s in out["steps"]) - len(out.get("con_args_construct") or [])) if out.get("cons") else None),
                      "%s: a search step did not finish (watchdog) with %s constraints of feasible fraction >= 25%%" % (name, desc[0]))
        return
    if out["exc"] is not None:
        ctx.blocked.append(dict(spec=dunit.spec_brief(spec), exc=out["exc"][:2]))
    for st in out["steps"]:
        if len(st["con_args"]) > BOUND:
            ctx.violation(dict(sig, kind="unbounded-step"), dict(spec=dunit.spec_full(spec), step=[st["call"], st["k"]], calls=len(st["con_args"])),
                          "%s: one step made %d constraint evaluations" % (name, len(st["con_args"])))
            return


def directed_specs(ctx, n):
    """geometries in which a retry loop may not change its candidate: lattice constraints around a swarm's best,
    an infeasible restart point of a diagonal grid pass"""
    rng = ctx.sub_rng("c08-directed")
    out = []
    for i in range(n):
        if i % 2 == 0:
            nd = rng.choice([1, 2])
            space = {"x%d" % d: np.arange(rng.choice([8, 10, 13])) for d in range(nd)}
            allp = gen.all_positions(space)
            m = 2
            feas = {p for p in allp if p[0] % m == 0}
            table, _ = gen.gen_table(rng, space, kind="unimodal")
            spec = dict(name="ParticleSwarmOptimizer", space=space, table=table, feasible=feas, constraint_desc=("parity", m, 0, 0),
                        calls=[dict(n_iter=40, memory=False, verbosity=False)], seed=rng.randrange(10 ** 6),
                        init={"random": rng.choice([3, 4])}, cfg=dict(population=rng.choice([3, 4, 5])), meta=[("int", "asc", len(v)) for v in space.values()])
        else:
            dims = rng.choice([[4, 3], [3, 4], [6, 2], [2, 2, 3], [5, 2]])
            S = int(np.prod(dims))
            step = rng.choice([d for d in (2, 3, 4, 6) if S % d == 0])
            space = {"x%d" % d: np.arange(n_) for d, n_ in enumerate(dims)}
            allp = gen.all_positions(space)
            # exclude the restart point of the second pass (pointer 1) and a few random points; keep >= 25% feasible
            restart = tuple(int(x) for x in np.unravel_index(1, dims))
            feas = {p for p in allp if p != restart and rng.random() < 0.85}
            table, _ = gen.gen_table(rng, space)
            spec = dict(name="GridSearchOptimizer", space=space, table=table, feasible=feas, constraint_desc=("mask-restart", restart),
                        calls=[dict(n_iter=3 + S, memory=False, verbosity=False)], seed=rng.randrange(10 ** 6),
                        init={"random": 3}, cfg=dict(direction="diagonal", step_size=step), meta=[("int", "asc", n_) for n_ in dims])
        out.append(spec)
    return out


def pre_build(ctx):
    import gen_units
    gen_units.pre_build(ctx, "translate_grid")
    gen_units.pre_build(ctx, "translate_coreopt")


def run(ctx):
    import gen_units
    gen_units.g_unit(ctx, "translate_grid")
    gen_units.g_unit(ctx, "translate_coreopt")
    core_units.run(ctx, which="C08")
    ctx.assumptions.append("the quantitative bound is probabilistic (it needs the generators' distributions): proved are exit-at-first-feasible, "
                           "one evaluation per candidate, every feasible point being an immediate exit and the move_random escape of move_climb")
    ctx.monitor_rule = ("every step finishes within the watchdog and makes <= %d constraint evaluations, for all 22 optimizers, tiny and "
                        "unsorted spaces, half-space / parity / band / mask constraints with feasible fraction >= 25%%; "
                        "distinct by (optimizer, seed, constraint)" % BOUND)
    n_fast, n_slow = (72, 4) if ctx.quick else (540, 40)
    specs = sweep.sweep_specs(ctx, "c08", n_fast, n_slow, constraint=1.0, ckinds=["parity", "band", "mask", "halfspace", "parity"]) \
        + c02.special_specs(ctx, 16 if ctx.quick else 120) + directed_specs(ctx, 12 if ctx.quick else 80) \
        + sweep.extreme_specs(ctx, "c08", constraint=1.0, rounds=(1 if ctx.quick else 4))
    for spec in specs:
        if spec.get("feasible") is None:
            continue
        out = instr.run_steps(spec, per_step_s=6 if ctx.quick else 12)
        ctx.monitor_runs += 1
        ctx.monitor_nontrivial.add((spec["name"], spec["seed"], repr(spec.get("constraint_desc"))))
        monitor(ctx, spec, out)


def replay(ctx, data):
    import json
    print(json.dumps(data, indent=1)[:6000])
    return 0
