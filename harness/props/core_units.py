"""Correspondence units for the move operators and the single-solution optimizers (model: CoreOpt.v, Tracker.v,
Algos.v).  K: conv2pos / move_random / move_climb called directly on boundary inputs.  S: iterate / evaluate of
the hill-climbing family and random search, from the observed pre-state with the observed draws."""
import math, random
import numpy as np
import gen, instr, dunit, sweep
from common import coq_eval_cases, cz, cnat, clist, copt, cbool, Scaler, jsonable

KINDS = {
    "HillClimbingOptimizer": "KHill", "StochasticHillClimbingOptimizer": "KStochastic", "SimulatedAnnealingOptimizer": "KAnnealing",
    "RepulsingHillClimbingOptimizer": "KRepulsing", "RandomRestartHillClimbingOptimizer": "KRestart",
    "RandomAnnealingOptimizer": "KRandAnneal", "RandomSearchOptimizer": "KRandomSearch",
}


def dyadic(x):
    x = float(x)
    n, d = x.as_integer_ratio()
    return n, -(d.bit_length() - 1)


def draw_lit(kind, name, val):
    """one logged RNG call -> list of draw literals"""
    out = []
    vals = val if isinstance(val, list) else [val]
    for v in vals:
        if isinstance(v, bool):
            out.append("DZ %d" % int(v))
        elif isinstance(v, int):
            out.append("DZ %s" % cz(v))
        elif isinstance(v, float):
            if math.isnan(v):
                out.append("DNaN")
            elif v == math.inf:
                out.append("DPInf")
            elif v == -math.inf:
                out.append("DNInf")
            else:
                m, e = dyadic(v)
                out.append("DF %s %s" % (cz(m), cz(e)))
        else:
            out.append("DNaN")
    return out


def tape_lit(rng_entries):
    ds = []
    for kind, name, args, val in rng_entries:
        ds.extend(draw_lit(kind, name, val))
    return "[" + "; ".join(ds) + "]"


def space_lits(space, feasible):
    vs = Scaler()
    for a in space.values():
        for x in a:
            vs.add(x)
    sp = clist([clist([vs.z(x) for x in a]) for a in space.values()], lambda s: s)
    names = list(space.keys())
    if feasible is None:
        cons = "(fun _ => true)"
    else:
        fv = [[vs.z(float(space[n][i])) for n, i in zip(names, p)] for p in sorted(feasible)]
        cons = "(fun v => existsb (list_eqb Z.eqb v) %s)" % clist(fv, clist)
    return sp, cons, vs


HDR = ("Require Import Converter CoreOpt Tracker Algos Driver.\n"
       "Definition pe := list_eqb Z.eqb.\n"
       "Definition ope := option_eqb pe.\n"
       "Definition trk_eqb (a b : trk) : bool := ope (t_pos_new a) (t_pos_new b) && score_same (t_score_new a) (t_score_new b) && "
       "ope (t_pos_cur a) (t_pos_cur b) && score_same (t_score_cur a) (t_score_cur b) && ope (t_pos_best a) (t_pos_best b) && "
       "score_same (t_score_best a) (t_score_best b) && (t_nth_trial a =? t_nth_trial b) && "
       "list_eqb (fun x y => ope (fst x) (fst y) && score_same (snd x) (snd y)) (t_valid a) (t_valid b).\n"
       "Definition move_ok (r : res (pos * tape * Z)) (p : pos) (n : Z) : bool := match r with Ok (q, [], m) => pe q p && (m =? n) | _ => false end.\n")


# ----------------------------------------------------------------------------- K: the move operators
def k_units(ctx):
    import gradient_free_optimizers as gfo
    u = ctx.unit("K:conv2pos/move_random/move_climb", "K",
                 "direct calls of CoreOptimizer.conv2pos (samples at and beyond every box corner, half-integers, huge values, "
                 "+-inf), move_random and move_climb (logged draws) on spaces incl. size-1 dims and sizes up to 1000, with and "
                 "without constraints; compared: returned position, draws consumed, constraint evaluations; "
                 "non-trivial = some sample leaves the box; distinct by (space, samples)")
    rng = ctx.sub_rng("k")
    lits, cases = [], []
    n = 160 if ctx.quick else 1200
    for it in range(n):
        space, meta = gen.gen_space(rng, ndims=rng.choice([1, 2, 3, 4]), sizes=(1, 2, 3, 5, 8, 13, 50, 1000),
                                    max_points=(None if rng.random() < 0.3 else 400))
        dims = [len(a) for a in space.values()]
        feas = None
        if int(np.prod(dims)) <= 400 and rng.random() < 0.5:
            feas, _ = gen.gen_constraint(rng, space)
        cons = instr.ArgLogConstraint(space, feas) if feas is not None else None
        opt = gfo.HillClimbingOptimizer(space, constraints=[cons] if cons else [], random_state=rng.randrange(1000),
                                        epsilon=rng.choice([0.03, 0.5, 2.0]), distribution=rng.choice(["normal", "laplace", "logistic", "gumbel"]))
        sp, cl, vs = space_lits(space, feas)
        op = rng.choice(["conv2pos", "conv2pos", "conv2pos", "move_random", "move_climb"])
        rl = instr.RngLog()
        rl.install()
        try:
            if cons:
                cons.log.clear()
            if op == "conv2pos":
                xs = []
                for d in dims:
                    r = rng.random()
                    if r < 0.25:
                        x = rng.choice([-0.5, 0.5, 1.5, 2.5, d - 1.5, d - 0.5, d - 1 + 0.5])
                    elif r < 0.5:
                        x = float(rng.choice([-1, 0, d - 1, d, d + 1, -d, 2 * d]))
                    elif r < 0.7:
                        x = rng.uniform(-2 * d - 3, 3 * d + 3)
                    elif r < 0.85:
                        x = rng.choice([1e6, -1e6, 1e18, -1e18, 12345.5, d * 1000.0])
                    else:
                        x = rng.choice([math.inf, -math.inf, float(d) / 2])
                    xs.append(x)
                try:
                    res = [int(v) for v in opt.conv2pos(np.array(xs, dtype=float))]
                    out = ("ok", res)
                except Exception as e:
                    out = (type(e).__name__, None)
                call = "conv2pos %s %s 2000 %s %%TAPE%% 0" % (sp, cl, clist(xs, lambda x: xr_lit(x)))
                inbox = all(0 <= x <= d - 1 for x, d in zip(xs, dims))
            elif op == "move_random":
                xs = None
                try:
                    out = ("ok", [int(v) for v in opt.move_random()])
                except Exception as e:
                    out = (type(e).__name__, None)
                call = "move_random %s %s 2000 %%TAPE%% 0" % (sp, cl)
                inbox = False
            else:
                xs = None
                start = np.array([rng.randrange(d) for d in dims])
                try:
                    out = ("ok", [int(v) for v in opt.move_climb(start, epsilon=opt.epsilon, distribution=opt.distribution)])
                except Exception as e:
                    out = (type(e).__name__, None)
                call = "move_climb %s %s 2000 %%TAPE%% 0" % (sp, cl)
                inbox = False
        finally:
            rl.uninstall()
        ncons = len(cons.log) if cons else 0
        if cons is None:
            # without constraints not_in_constraint is still evaluated once per candidate
            ncons = None
        if out[0] != "ok":
            ctx.violation(dict(kind="move-raises", op=op, exception=out[0]), dict(space=jsonable(space), samples=xs), "%s raised %s" % (op, out[0]))
            continue
        tape = tape_lit(rl.log)
        if ncons is None:
            lits.append("(match %s with Ok (q, [], _) => pe q %s | _ => false end)" % (call.replace("%TAPE%", tape), clist(out[1])))
        else:
            lits.append("(move_ok (%s) %s %s)" % (call.replace("%TAPE%", tape), clist(out[1]), cz(ncons)))
        cases.append(dict(op=op, space=jsonable(space), feasible=sorted(feas) if feas else None, samples=xs, impl=out[1], draws=len(rl.log)))
        u.count((op, tuple(dims), tuple(xs) if xs else it), nontrivial=not inbox)
        u.bump(op)
    u.samples = cases[:3]
    failing, err = coq_eval_cases(u.name, HDR, "bool", lits, "fun b => b", shard=80)
    u.error = err
    for i in failing[:10]:
        u.mismatches.append(dict(case=cases[i], note="move operator differs from the model"))


def k_move_part(ctx):
    import gradient_free_optimizers as gfo
    u = ctx.unit("K:Particle._move_part / Spiral._move_part", "K",
                 "direct calls of _move_part(pos, velo) on a particle and on a spiral member: velocities from tiny to several times "
                 "the dimension size in both directions, multiples of 1/8 (exact float sums), +-inf, NaN, on spaces with size-1 "
                 "dimensions; non-trivial = pos + velo leaves the box; distinct by (space, pos, velo)")
    rng = ctx.sub_rng("mp")
    lits, cases = [], []
    for it in range(120 if ctx.quick else 800):
        space, meta = gen.gen_space(rng, ndims=rng.choice([1, 2, 3, 4]), sizes=(1, 2, 3, 5, 8, 13, 50), max_points=None)
        dims = [len(a) for a in space.values()]
        cls, attr = rng.choice([(gfo.ParticleSwarmOptimizer, "particles"), (gfo.SpiralOptimization, "particles")])
        opt = cls(space, random_state=1, population=2, initialize={"random": 2})
        member = getattr(opt, attr)[0]
        pos = np.array([rng.randrange(d) for d in dims])
        velo = []
        for d in dims:
            r = rng.random()
            if r < 0.5:
                v = rng.randint(-8 * 3 * d, 8 * 3 * d) / 8.0
            elif r < 0.8:
                v = float(rng.choice([-d, d, -2 * d, 2 * d, -(d - 1), d - 1, -0.5, 0.5, -0.875]))
            elif r < 0.9:
                v = rng.choice([1e12, -1e12, 123456.75])
            else:
                v = rng.choice([math.inf, -math.inf, math.nan])
            velo.append(v)
        with np.errstate(all="ignore"):
            try:
                out = ("ok", [int(x) for x in member._move_part(pos, np.array(velo, dtype=float))])
            except Exception as e:
                out = (type(e).__name__, None)
        sp, _, _ = space_lits(space, None)
        if out[0] != "ok":
            ctx.violation(dict(kind="move-raises", op="_move_part", exception=out[0]), dict(space=jsonable(space), pos=pos.tolist(), velo=velo), "_move_part raised %s" % out[0])
            continue
        lits.append("(pe (move_part %s %s %s) %s)" % (sp, clist(pos.tolist()), clist(velo, xr_lit), clist(out[1])))
        cases.append(dict(cls=cls.__name__, space=jsonable(space), pos=pos.tolist(), velo=velo, impl=out[1]))
        outside = any(not (0 <= p + v <= d - 1) for p, v, d in zip(pos.tolist(), velo, dims) if not math.isnan(v))
        u.count((tuple(dims), tuple(pos.tolist()), tuple(map(repr, velo))), nontrivial=outside)
        # monitor: the property itself
        if any(not (0 <= x < d) for x, d in zip(out[1], dims)):
            ctx.violation(dict(kind="move-part-out-of-box", cls=cls.__name__), dict(space=jsonable(space), pos=pos.tolist(), velo=velo, result=out[1]),
                          "%s member: _move_part(%r, %r) = %r leaves [0, len-1]" % (cls.__name__, pos.tolist(), velo, out[1]))
    u.samples = cases[:3]
    failing, err = coq_eval_cases(u.name, HDR, "bool", lits, "fun b => b", shard=200)
    u.error = err
    for i in failing[:10]:
        u.mismatches.append(dict(case=cases[i], note="_move_part differs from the model"))


def xr_lit(x):
    if math.isnan(x):
        return "XNaN"
    if x == math.inf:
        return "XPInf"
    if x == -math.inf:
        return "XNInf"
    m, e = dyadic(x)
    return "(XF %s %s)" % (cz(m), cz(e))


# ----------------------------------------------------------------------------- S: iterate / evaluate from observed states
def trk_lit(s, ss, nth_init=0):
    def op(p):
        return "None" if p is None else "(Some %s)" % clist(p)
    valid = clist(s["valid"], lambda ps: "(%s, %s)" % (op(ps[0]), ss.score(ps[1])))
    return "(mkTrk %s %s %s %s %s %s %s %s %s)" % (op(s["pos_new"]), ss.score(s["score_new"]), op(s["pos_current"]), ss.score(s["score_current"]),
                                                    op(s["pos_best"]), ss.score(s["score_best"]), valid, cz(s["nth_trial"]), cz(nth_init))


def s_units(ctx, which):
    ui = ctx.unit("S:iterate (hill-climbing family, random search)", "S",
                  "every iteration step of real runs: the model's algo_iterate from the observed nth_trial with the step's "
                  "logged draws must return the observed position, consume exactly the draws and make the same number of "
                  "constraint evaluations; spaces with size-1 dims, constraints (lattice / half-space / mask), rand_rest_p in "
                  "{0, .1, .5, 1}, epsilon up to 2.5, every distribution; non-trivial = a rejection or random restart happened; "
                  "distinct by (optimizer, seed, step)")
    ue = ctx.unit("S:evaluate (hill-climbing family, random search)", "S",
                  "every evaluate / evaluate_init of the same runs: the model from the observed tracker state (new/current/best "
                  "pairs, valid lists, nth_trial) with the observed score (finite, NaN, +-inf) and acceptance draws must reach "
                  "the observed post-state; non-trivial = current or best changed; distinct by (optimizer, seed, step)")
    rng = ctx.sub_rng("s")
    names = list(KINDS)
    ilits, icases, elits, ecases = [], [], [], []
    n = 56 if ctx.quick else 420
    for it in range(n):
        name = names[it % len(names)]
        spec = dunit.general_spec(rng, name, max_calls=2, metrics=0, nonfinite=rng.choice([0, 0, 0.2, 0.5]),
                                  constraint=rng.random() < 0.5, sizes=(1, 2, 3, 5, 8), max_points=100, n_max=18,
                                  verbosity=False, steps_api=True)
        if "rand_rest_p" in (spec["cfg"] or {}) and name in ("RandomSearchOptimizer",):
            spec["cfg"].pop("rand_rest_p")
        out = instr.run_steps(spec, rnglog=True, keep_valid=True)
        if out["exc"] is not None or out["opt"] is None:
            ctx.blocked.append(dict(spec=dunit.spec_brief(spec), exc=out["exc"][:2] if out["exc"] else None))
            continue
        opt = out["opt"]
        sp, cl, vs = space_lits(spec["space"], spec.get("feasible"))
        ss = Scaler()
        for st in out["steps"]:
            for s in st["states"].values():
                for v in (s["score_new"], s["score_current"], s["score_best"]):
                    ss.add(v)
                for _, v in s["valid"]:
                    ss.add(v)
            ss.add(st["score"])
        rrp = dyadic(getattr(opt, "rand_rest_p", 0) or 0)
        cfg = "(mkAlgoCfg %s %s %s (%s, %s) %s %s 3000)" % (sp, cl, KINDS[name], cz(rrp[0]), cz(rrp[1]), cz(getattr(opt, "n_neighbours", 1)),
                                                              cz(getattr(opt, "n_iter_restart", 1)))
        prev = None
        inits = clist(out["init_positions"], clist)
        for st in out["steps"]:
            cur = st["states"]["self"]
            if prev is None:
                prev = dict(pos_new=None, score_new=-math.inf, pos_current=None, score_current=-math.inf, pos_best=None,
                            score_best=-math.inf, valid=[], nth_trial=0)
            split = st["rng_split"] if st["rng_split"] is not None else len(st["rng"])
            r_it, r_ev = st["rng"][:split], st["rng"][split:]
            key = (name, spec["seed"], st["call"], st["k"])
            if not st["is_init"]:
                ncon = len(st["con_args"]) if spec.get("feasible") is not None else None
                pre = trk_lit(prev, ss)
                stl = "(mkAlgoState %s %s %s 0)" % (pre, inits, tape_lit(r_it))
                if ncon is None:
                    ilits.append("(match algo_iterate %s %s with Ok (s', p) => pe p %s && match h_tape s' with [] => true | _ => false end | Err _ => false end)"
                                 % (cfg, stl, clist(st["pos"])))
                else:
                    ilits.append("(match algo_iterate %s %s with Ok (s', p) => pe p %s && (h_ccalls s' =? %s) && match h_tape s' with [] => true | _ => false end | Err _ => false end)"
                                 % (cfg, stl, clist(st["pos"]), cz(ncon)))
                icases.append(dict(optimizer=name, spec=dunit.spec_brief(spec), step=(st["call"], st["k"]), draws=jsonable(r_it), pos=st["pos"], ncon=ncon))
                ui.count(key, nontrivial=(len(r_it) > len(spec["space"]) + 1) or (ncon or 0) > 1)
                ui.bump(name)
            # evaluate / evaluate_init from the pre-state with pos_new := the step's position
            pre2 = dict(prev, pos_new=st["pos"])
            stl = "(mkAlgoState %s %s %s 0)" % (trk_lit(pre2, ss), inits, tape_lit(r_ev))
            fn = "algo_evaluate_init" if st["is_init"] else "algo_evaluate %s" % cfg
            post = trk_lit(cur, ss)
            elits.append("(match %s %s %s with Ok s' => trk_eqb (h_trk s' <| t_nth_init := 0 |>) %s && match h_tape s' with [] => true | _ => false end | Err _ => false end)"
                         % (fn, stl, ss.score(st["score"]), post))
            ecases.append(dict(optimizer=name, spec=dunit.spec_brief(spec), step=(st["call"], st["k"]), init=st["is_init"], score=st["score"],
                               pre=jsonable(pre2), post=jsonable(cur), draws=jsonable(r_ev)))
            changed = (cur["pos_current"], cur["score_current"], cur["pos_best"], cur["score_best"]) != \
                      (prev["pos_current"], prev["score_current"], prev["pos_best"], prev["score_best"])
            ue.count(key, nontrivial=changed)
            ue.bump(name)
            prev = cur
    ui.samples = icases[:2]
    ue.samples = ecases[:2]
    hdr = HDR + "From RecordUpdate Require Import RecordSet.\nImport RecordSetNotations.\n"
    if which in ("C01", "C02", "C08", "ALL"):
        failing, err = coq_eval_cases(ui.name, hdr, "bool", ilits, "fun b => b", shard=60)
        ui.error = err
        for i in failing[:10]:
            ui.mismatches.append(dict(case=icases[i], note="iterate differs from the model"))
    else:
        ctx.units.remove(ui)
    if which in ("C19", "C15", "C09", "ALL"):
        failing, err = coq_eval_cases(ue.name, hdr, "bool", elits, "fun b => b", shard=60)
        ue.error = err
        for i in failing[:10]:
            ue.mismatches.append(dict(case=ecases[i], note="evaluate differs from the model"))
    else:
        ctx.units.remove(ue)


MEMBER_KIND = {"ParticleSwarmOptimizer": "KHill", "GeneticAlgorithmOptimizer": "KHill", "EvolutionStrategyOptimizer": "KHill",
               "DifferentialEvolutionOptimizer": "KHill", "SpiralOptimization": "KSpiral", "ParallelTemperingOptimizer": "KAnnealing"}


def s_units_population(ctx):
    """every evaluate / evaluate_init of a population MEMBER (its own tracker) against the model of its class,
    with pos_new := the position the driver really evaluated (so a member that recorded another position shows up)"""
    u = ctx.unit("S:member evaluate (population optimizers)", "S",
                 "every step of ParticleSwarm / Spiral / ParallelTempering / GeneticAlgorithm / EvolutionStrategy / "
                 "DifferentialEvolution runs (populations 3-6, lattice and half-space constraints to force the fallback paths, "
                 "non-finite scores): the member that evaluated must go from its observed tracker state, with pos_new = the "
                 "position the driver evaluated, to its observed post-state under the model of its class (hill climbing / "
                 "spiral / simulated annealing evaluate); non-trivial = the member's current or best changed; "
                 "distinct by (optimizer, seed, step)")
    rng = ctx.sub_rng("pop")
    lits, cases = [], []
    names = list(MEMBER_KIND)
    n = 24 if ctx.quick else 180
    for it in range(n):
        name = names[it % len(names)]
        spec = dunit.general_spec(rng, name, max_calls=1, metrics=0, nonfinite=rng.choice([0, 0, 0.15]), constraint=rng.random() < 0.6,
                                  sizes=(3, 5, 8), max_points=80, n_max=24, verbosity=False, steps_api=True, ndims=rng.choice([1, 2]),
                                  cfg=dict(population=rng.choice([4, 5, 6])))
        spec["calls"][0]["n_iter"] = 24
        spec["calls"][0]["memory"] = False
        out = instr.run_steps(spec, rnglog=True, keep_valid=True, per_step_s=10)
        if out["opt"] is None:
            ctx.blocked.append(dict(spec=dunit.spec_brief(spec), exc=out["exc"][:2] if out["exc"] else None))
            continue
        opt = out["opt"]
        members = list(opt.optimizers)
        P = len(members)
        ss = Scaler()
        for st in out["steps"]:
            for s_ in st["states"].values():
                for v in (s_["score_new"], s_["score_current"], s_["score_best"]):
                    ss.add(v)
                for _, v in s_["valid"]:
                    ss.add(v)
            ss.add(st["score"])
        sp, cl, vs = space_lits(spec["space"], spec.get("feasible"))
        prev = None
        for st in out["steps"]:
            cur = st["states"]
            if prev is None:
                blank = dict(pos_new=None, score_new=-math.inf, pos_current=None, score_current=-math.inf, pos_best=None,
                             score_best=-math.inf, valid=[], nth_trial=0)
                prev = {k: blank for k in cur}
            moved = [k for k in cur if k.startswith("member") and cur[k]["nth_trial"] == prev[k]["nth_trial"] + 1]
            if len(moved) != 1:
                u.mismatches.append(dict(case=dict(optimizer=name, spec=dunit.spec_brief(spec), step=(st["call"], st["k"]), moved=moved),
                                         note="not exactly one member evaluated in this step"))
                prev = cur
                continue
            who = moved[0]
            mem = members[int(who[6:])]
            split = st["rng_split"] if st["rng_split"] is not None else len(st["rng"])
            r_ev = st["rng"][split:]
            if name == "ParallelTemperingOptimizer" and not st["is_init"]:
                outer_trial = prev["self"]["nth_trial"]
                if opt.n_iter_swap != 0 and outer_trial % opt.n_iter_swap == 0:
                    r_ev = r_ev[2 * P:]                      # _swap_pos: uniform + choice per system
            kind = MEMBER_KIND[name]
            cfg = "(mkAlgoCfg %s %s %s (0, 0) %s 1 100)" % (sp, cl, kind, cz(getattr(mem, "n_neighbours", 3)))
            pre = dict(prev[who], pos_new=st["pos"])
            stl = "(mkAlgoState %s [] %s 0)" % (trk_lit(pre, ss), tape_lit(r_ev))
            fn = "algo_evaluate_init" if st["is_init"] else "algo_evaluate %s" % cfg
            lits.append("(match %s %s %s with Ok s' => trk_eqb (h_trk s' <| t_nth_init := 0 |>) %s && match h_tape s' with [] => true | _ => false end | Err _ => false end)"
                        % (fn, stl, ss.score(st["score"]), trk_lit(cur[who], ss)))
            cases.append(dict(optimizer=name, spec=dunit.spec_brief(spec), step=(st["call"], st["k"]), member=who, init=st["is_init"], evaluated=st["pos"],
                              score=st["score"], pre=jsonable(prev[who]), post=jsonable(cur[who]), draws=jsonable(r_ev)))
            changed = (cur[who]["pos_current"], cur[who]["score_current"], cur[who]["pos_best"], cur[who]["score_best"]) != \
                      (prev[who]["pos_current"], prev[who]["score_current"], prev[who]["pos_best"], prev[who]["score_best"])
            u.count((name, spec["seed"], st["k"]), nontrivial=changed)
            u.bump(name)
            prev = cur
    u.samples = cases[:2]
    hdr = HDR + "From RecordUpdate Require Import RecordSet.\nImport RecordSetNotations.\n"
    failing, err = coq_eval_cases(u.name, hdr, "bool", lits, "fun b => b", shard=60)
    u.error = err
    for i in failing[:10]:
        u.mismatches.append(dict(case=cases[i], note="a population member's evaluate differs from the model (or the member recorded another position than the one evaluated)"))


POP_ITER = ["ParticleSwarmOptimizer", "SpiralOptimization", "DifferentialEvolutionOptimizer", "EvolutionStrategyOptimizer", "GeneticAlgorithmOptimizer", "ParallelTemperingOptimizer", "PatternSearch", "DownhillSimplexOptimizer", "PowellsMethod", "DirectAlgorithm"]
POP_HDR = ("Require Import Converter CoreOpt Pop.\n"
           "Definition pe := list_eqb Z.eqb.\n"
           "Definition it_ok (r : res (pos * tape * Z)) (p : pos) (n : option Z) : bool := match r with Ok (q, [], m) => pe q p && "
           "match n with Some k => m =? k | None => true end | _ => false end.\n"
           "Definition ga_ok (r : res (pos * tape * Z * list pos)) (p : pos) (n : option Z) (q : list pos) : bool := match r with Ok (q0, [], m, qs) => pe q0 p && "
           "match n with Some k => m =? k | None => true end && list_eqb pe qs q | _ => false end.\n")


def _rot(vec):
    """pop_opt/_spiral.roation, re-implemented: 1-D gives the scalar -1, otherwise the cyclic shift matrix with a -1 corner"""
    n = len(vec)
    if n == 1:
        return -1
    R = np.zeros((n, n))
    for i in range(1, n):
        R[i, i - 1] = 1.0
    R[0, n - 1] = -1.0
    return np.matmul(R, vec)


def xr_list(v):
    return clist([float(x) for x in np.asarray(v, dtype=float).ravel()], xr_lit)


def s_units_pop_iterate(ctx):
    """every iteration step of ParticleSwarm / Spiral / DifferentialEvolution runs against theories/Pop.v: from the observed
    pre-state, the logged draws and the float vector recomputed by the harness (the model's oracle), the model must return
    the observed position, consume every draw and make the same number of constraint evaluations"""
    u = ctx.unit("S:iterate (particle swarm, spiral, differential evolution, evolution strategy, genetic algorithm, parallel tempering, pattern search, downhill simplex, Powell, DIRECT)", "S",
                 "every iteration step of real runs (populations 4-6, coupled constraints -- parity / band / half-space -- to "
                 "force the fallback paths, rand_rest_p up to 0.5, varied hyper-parameters): the model's pso_iterate / "
                 "spiral_iterate / de_iterate / es_iterate / ga_iterate (population order after the unstable argsort observed; GA's offspring queue before / after) with the logged draws and the harness-recomputed float vector (new velocity, spiral "
                 "point, mutant) must return the observed position, leave no draw and count the same constraint evaluations; "
                 "non-trivial = the first candidate was infeasible or a random restart happened; distinct by (optimizer, seed, step)")
    from props import c02
    rng = ctx.sub_rng("popit")
    lits, cases = [], []
    n = 30 if ctx.quick else 200
    specs = c02.coupled_specs(ctx, 4 * n)
    specs = [sp_ for sp_ in specs if sp_["name"] in POP_ITER][:n]
    for spec in specs:
        name = spec["name"]
        spec = dict(spec, pop_oracles=True, steps_api=True)
        spec["calls"] = [dict(spec["calls"][0], n_iter=rng.choice([24, 36]))]
        cfg = dict(spec.get("cfg") or {})
        cfg.update({k: v for k, v in gen.gen_opt_config(rng, name, spec["space"]).items() if k not in ("population",)})
        if rng.random() < 0.5:
            cfg["rand_rest_p"] = rng.choice([0.1, 0.5])
        spec["cfg"] = cfg
        if rng.random() < 0.25:
            spec["feasible"] = None
        out = instr.run_steps(spec, rnglog=True, keep_valid=False, per_step_s=10)
        if out["opt"] is None or out["exc"] is not None:
            ctx.blocked.append(dict(spec=dunit.spec_brief(spec), exc=out["exc"][:2] if out["exc"] else None))
            continue
        opt = out["opt"]
        members = list(opt.optimizers)
        P = len(members)
        sp, cl, vs = space_lits(spec["space"], spec.get("feasible"))
        nd = len(spec["space"])
        prev = None
        prev_extra = {}
        for st in out["steps"]:
            cur = st["states"]
            if st["is_init"] or prev is None:
                prev = cur
                prev_extra = st
                continue
            split = st["rng_split"] if st["rng_split"] is not None else len(st["rng"])
            r_it = list(st["rng"][:split])
            i = prev["self"]["nth_trial"] % P
            who = "member%d" % i
            mem = members[i]
            rrp = dyadic(float(mem.rand_rest_p))
            ncon = len(st["con_args"]) if spec.get("feasible") is not None else None
            caps = [e for e in r_it if e[0] == "capture"]
            draws = [e for e in r_it if e[0] != "capture"]
            call = None
            try:
                if name == "ParticleSwarmOptimizer":
                    c = caps[0][3]
                    # tape: uniform; [r1; r2; velocity oracle] unless the random restart was taken; then the fallback's draws
                    tape = draw_lit(*draws[0][:2], draws[0][3])
                    rest = draws[1:]
                    if len(rest) >= 2 and rest[0][1] == "random" and rest[1][1] == "random" and not (c["rrp"] > draws[0][3]):
                        r1, r2 = rest[0][3], rest[1][3]
                        A = c["inertia"] * np.array(c["velo"])
                        B = c["cw"] * r1 * np.subtract(np.array(c["pos_best"]), np.array(c["pos_current"]))
                        C = c["sw"] * r2 * np.subtract(np.array(c["global_pos_best"]), np.array(c["pos_current"]))
                        with np.errstate(all="ignore"):
                            velo = A + B + C
                        tape += draw_lit("", "", r1) + draw_lit("", "", r2) + [x for v in velo for x in draw_lit("", "", float(v))]
                        rest = rest[2:]
                    for e in rest:
                        tape += draw_lit(e[0], e[1], e[3])
                    call = "pso_iterate %s %s 3000 (%s, %s) %s [%s]" % (sp, cl, cz(rrp[0]), cz(rrp[1]), clist([int(x) for x in c["pos_current"]]), "; ".join(tape))
                elif name == "SpiralOptimization":
                    c = caps[0][3]
                    tape = draw_lit(*draws[0][:2], draws[0][3])
                    rest = draws[1:]
                    if not (c["rrp"] > draws[0][3]):
                        df = c["decay_factor"] * c["decay_rate"]
                        with np.errstate(all="ignore"):
                            step_rate = df * np.array(c["max_positions"]) / 1000
                            rot = _rot(np.subtract(np.array(c["pos_current"]), np.array(c["center"])))
                            new_pos = np.array(c["center"]) + np.multiply(step_rate, rot)
                        tape += [x for v in new_pos for x in draw_lit("", "", float(v))]
                    for e in rest:
                        tape += draw_lit(e[0], e[1], e[3])
                    call = "spiral_iterate %s %s 3000 (%s, %s) [%s]" % (sp, cl, cz(rrp[0]), cz(rrp[1]), "; ".join(tape))
                elif name == "GeneticAlgorithmOptimizer":
                    order = st.get("pop_sorted")
                    if P > 1 and (order is None or len(order) != P):
                        raise ValueError("pop_sorted was not observable after the step: %r" % (order,))
                    news = [prev["member%d" % j]["pos_new"] for j in (order if P > 1 else [0])]
                    if any(c_ is None for c_ in news):
                        raise ValueError("an individual has no pos_new yet")
                    queue_pre = prev_extra.get("offspring_l")
                    queue_post = st.get("offspring_l")
                    if queue_pre is None or queue_post is None:
                        raise ValueError("offspring_l was not observable")
                    mut = dyadic(float(opt.mutation_rate))
                    tape = []
                    for e in draws:
                        tape += draw_lit(e[0], e[1], e[3])
                    rrp = dyadic(float(members[0].rand_rest_p))
                    call = "ga_iterate %s %s 3000 (%s, %s) (%s, %s) %s %s %s %s [%s]" % (
                        sp, cl, cz(rrp[0]), cz(rrp[1]), cz(mut[0]), cz(mut[1]), cz(int(opt.n_parents)), cnat(int(opt.offspring)),
                        clist(news, clist), clist(queue_pre, clist), "; ".join(tape))
                    lits.append("(ga_ok (%s) %s %s %s)" % (call, clist(st["pos"]), copt(ncon), clist(queue_post, clist)))
                    cases.append(dict(optimizer=name, spec=dunit.spec_brief(spec), step=(st["call"], st["k"]), pos=st["pos"], ncon=ncon,
                                      queue_pre=queue_pre, queue_post=queue_post, draws=jsonable(draws)))
                    u.count((name, spec["seed"], st["call"], st["k"]), nontrivial=(ncon or 0) > 1 or len(draws) > 3)
                    u.bump(name)
                    prev = cur
                    prev_extra = st
                    continue
                elif name == "PatternSearch":
                    queue_pre = prev_extra.get("pattern_pos_l")
                    queue_post = st.get("pattern_pos_l")
                    if queue_pre is None or queue_post is None:
                        raise ValueError("pattern_pos_l was not observable")
                    if prev_extra.get("is_init"):
                        # finish_initialization runs generate_pattern between the last init step and the first iterate: the list
                        # the iterate pops from is the observed remainder plus the popped head (checked: head in box by the model)
                        queue_pre = None
                    tape = []
                    for e in draws:
                        tape += draw_lit(e[0], e[1], e[3])
                    rrp = dyadic(float(opt.rand_rest_p))
                    if queue_pre is None:
                        prev = cur
                        prev_extra = st
                        continue
                    # evaluate() of the previous step may have regenerated the list after the snapshot? no: the snapshot is taken after
                    # the whole step (iterate + evaluate), so queue_pre is what this iterate sees
                    call = "pattern_iterate %s %s 3000 (%s, %s) %s [%s]" % (sp, cl, cz(rrp[0]), cz(rrp[1]), clist(queue_pre, clist), "; ".join(tape))
                    # queue_post is observed after this step's evaluate, which may regenerate the list: compare the remainder only when it
                    # was not regenerated (evaluate regenerates at nth_trial % (2 n_positions_) == 0 or on an empty list)
                    n2 = int(opt.n_positions_ * 2)
                    regenerated = (cur["self"]["nth_trial"] - 1) % n2 == 0 or len(queue_pre) <= 1 or cur["self"]["n_valid"] == 0
                    if regenerated or prev["self"]["n_valid"] == 0 and False:
                        # (the step's constraint calls then include those of generate_pattern's conv2pos -> move_random: not compared)
                        lits.append("(match %s with Ok (q0, [], m, _) => pe q0 %s | _ => false end)" % (call, clist(st["pos"])))
                    else:
                        lits.append("(ga_ok (%s) %s %s %s)" % (call, clist(st["pos"]), copt(ncon), clist(queue_post, clist)))
                    cases.append(dict(optimizer=name, spec=dunit.spec_brief(spec), step=(st["call"], st["k"]), pos=st["pos"], ncon=ncon,
                                      queue_pre=queue_pre, queue_post=queue_post, regenerated=regenerated, draws=jsonable(draws)))
                    u.count((name, spec["seed"], st["call"], st["k"]), nontrivial=(ncon or 0) > 1)
                    u.bump(name)
                    prev = cur
                    prev_extra = st
                    continue
                elif name == "DownhillSimplexOptimizer":
                    # the float vector the step handed to conv2pos (captured) -> conv2pos -> constraint test -> move_climb fallback;
                    # a step that emits a position without passing it through conv2pos has no such capture
                    c2 = [e for e in caps if e[1] == "conv2pos"]
                    if not c2:
                        raise ValueError("the step emitted a position without calling conv2pos")
                    vec = c2[0][3]["vector"]
                    tape = []
                    for e in draws:
                        tape += draw_lit(e[0], e[1], e[3])
                    call = "vec_iterate %s %s 3000 %s [%s]" % (sp, cl, clist(vec, xr_lit), "; ".join(tape))
                elif name in ("PowellsMethod", "DirectAlgorithm"):
                    # the candidate is the first position the step tests against the constraints (a point of Powell's inner line
                    # search / the centre of a DIRECT sub-space): it must be in the box (checked in Coq) and is returned or repaired
                    nic_ = [e for e in caps if e[1] == "not_in_constraint" and e[3].get("conv_id") == id(opt.conv)]
                    if not nic_:
                        raise ValueError("the step emitted a position without testing it against the constraints")
                    vec = nic_[0][3]["vector"]
                    if any(float(v) != int(v) for v in vec):
                        raise ValueError("the tested candidate %r is not an integer position" % (vec,))
                    cand = [int(v) for v in vec]
                    restart = name == "PowellsMethod" and bool(draws) and draws[0][1] == "uniform" and float(opt.rand_rest_p) > draws[0][3]
                    use = draws
                    if name == "PowellsMethod" and not restart:
                        # the draws of the inner 1-D hill climber (its construction, its init / iterate) happen before the candidate is
                        # tested and are not part of this model: keep the decorator's uniform and everything after the first test
                        i_nic = next(i for i, e in enumerate(r_it) if e[0] == "capture" and e[1] == "not_in_constraint" and e[3].get("conv_id") == id(opt.conv))
                        use = draws[:1] + [e for e in r_it[i_nic:] if e[0] != "capture"]
                    if name == "DirectAlgorithm":
                        # sub-space bookkeeping (random.randint on ties of the biggest dimension) precedes the test and is not modelled
                        i_nic = next(i for i, e in enumerate(r_it) if e[0] == "capture" and e[1] == "not_in_constraint" and e[3].get("conv_id") == id(opt.conv))
                        use = [e for e in r_it[i_nic:] if e[0] != "capture"]
                    tape = []
                    for e in use:
                        tape += draw_lit(e[0], e[1], e[3])
                    if name == "PowellsMethod":
                        rrp = dyadic(float(opt.rand_rest_p))
                        call = "powell_iterate %s %s 3000 (%s, %s) %s [%s]" % (sp, cl, cz(rrp[0]), cz(rrp[1]), clist(cand), "; ".join(tape))
                        if not restart:
                            call = "(if in_box_b %s %s then %s else Err BadOracle)" % (sp, clist(cand), call)
                    else:
                        call = "(if in_box_b %s %s then cand_iterate %s %s 3000 %s [%s] else Err BadOracle)" % (sp, clist(cand), sp, cl, clist(cand), "; ".join(tape))
                elif name == "ParallelTemperingOptimizer":
                    # iterate = the current system's (a simulated-annealing optimizer's) hill-climbing iterate
                    tape = []
                    for e in draws:
                        tape += draw_lit(e[0], e[1], e[3])
                    call = "hill_iterate %s %s 3000 (%s, %s) [%s]" % (sp, cl, cz(rrp[0]), cz(rrp[1]), "; ".join(tape))
                elif name == "EvolutionStrategyOptimizer":
                    order = st.get("pop_sorted")
                    if P > 1 and (order is None or len(order) != P):
                        raise ValueError("pop_sorted was not observable after the step: %r" % (order,))
                    curs = [prev["member%d" % j]["pos_current"] for j in (order if P > 1 else [0])]
                    if any(c_ is None for c_ in curs):
                        raise ValueError("an individual has no current position yet")
                    mut = dyadic(float(opt.mutation_rate))
                    tape = []
                    for e in draws:
                        tape += draw_lit(e[0], e[1], e[3])
                    rrp = dyadic(float(members[0].rand_rest_p))
                    call = "es_iterate %s %s 3000 (%s, %s) (%s, %s) %s [%s]" % (sp, cl, cz(rrp[0]), cz(rrp[1]), cz(mut[0]), cz(mut[1]),
                                                                               clist(curs, clist), "; ".join(tape))
                    who = "self"
                else:
                    samp = draws[0]
                    idx = samp[3]
                    if not (samp[1] == "sample" and isinstance(idx, list) and len(idx) == 3):
                        raise ValueError("first draw of DE.iterate is not random.sample(individuals, 3): %r" % (samp,))
                    xs = [np.array(prev["member%d" % j]["pos_best"]) for j in idx]
                    with np.errstate(all="ignore"):
                        mutant = xs[0] + opt.mutation_rate * np.subtract(xs[1], xs[2])
                    tape = ["DZ %d" % j for j in idx] + [x for v in mutant for x in draw_lit("", "", float(v))]
                    for e in draws[1:]:
                        tape += draw_lit(e[0], e[1], e[3])
                    target = prev[who]["pos_new"]
                    call = "de_iterate %s %s 3000 %s %s [%s]" % (sp, cl, cz(P), clist(target), "; ".join(tape))
            except Exception as e:       # the pre-state does not have the shape the model assumes: a correspondence failure
                u.mismatches.append(dict(case=dict(optimizer=name, spec=dunit.spec_brief(spec), step=(st["call"], st["k"])),
                                         note="cannot build the model's input from the observed step: %s: %s" % (type(e).__name__, e)))
                prev = cur
                prev_extra = st
                continue
            lits.append("(it_ok (%s) %s %s)" % (call, clist(st["pos"]), copt(ncon)))
            cases.append(dict(optimizer=name, spec=dunit.spec_brief(spec), step=(st["call"], st["k"]), member=who, pos=st["pos"], ncon=ncon,
                              draws=jsonable([e for e in r_it if e[0] != "capture"]), capture=jsonable(caps[0][3]) if caps else None))
            u.count((name, spec["seed"], st["call"], st["k"]), nontrivial=(ncon or 0) > 1 or len(draws) > (3 + nd))
            u.bump(name)
            prev = cur
            prev_extra = st
    u.samples = cases[:3]
    failing, err = coq_eval_cases(u.name, POP_HDR, "bool", lits, "fun b => b", shard=60)
    u.error = err
    for i in failing[:10]:
        u.mismatches.append(dict(case=cases[i], note="the population optimizer's iterate differs from the model (theories/Pop.v)"))


def pre_build_tracker(ctx):
    """Regenerate generated/TrackerGen.v from /repo's source before the Coq build (C15, C19)."""
    import translate_core
    ctx._tracker_gen = translate_core.translate()


def g_unit(ctx):
    """The source translator of the tracker layer: reports whether the translation went through; the tie between the
    generated definitions and the model is a proof obligation (proofs/TrackerTie.v), re-checked by the build."""
    u = ctx.unit("G:tracker source translator", "translator",
                 "ast translation of search_tracker.SearchTracker (all methods, properties, decorators), CoreOptimizer.evaluate_init, "
                 "BaseOptimizer.evaluate, HillClimbingOptimizer.evaluate (+ pinned max_list_idx), Spiral.evaluate into "
                 "generated/TrackerGen.v (fail-closed); the refinement generated code -> model (proofs/TrackerTie.v, for all states) "
                 "and the grounding theorem for the generated code (proofs/SourceTracker.v) are compiled with the property's "
                 "theorem file; one case per translated method")
    info = getattr(ctx, "_tracker_gen", None)
    if info is None:
        u.error = "translator did not run (see pre-build)"
        return
    for m in info["methods"]:
        u.count(m, nontrivial=not m.split(".")[1].startswith(("get:", "set:")))
    u.exhaustive = True
    u.samples = [dict(source_digest=info["digest"], generated_sha1=info["text_sha1"], methods=len(info["methods"]))]
    if not info["ok"]:
        u.mismatches.append(dict(case=dict(translator_abort=info["error"]),
                                 note="the source of the tracker layer left the translated subset: the generated model could not be rebuilt"))


def run(ctx, which="ALL"):
    if which in ("C15", "C19"):
        g_unit(ctx)
    if which in ("C01", "C02", "C08", "ALL"):
        k_units(ctx)
    if which in ("C01", "ALL"):
        k_move_part(ctx)
    s_units(ctx, which)
    if which in ("C19", "ALL"):
        s_units_population(ctx)
    if which in ("C01", "C02", "C08", "ALL"):
        s_units_pop_iterate(ctx)
