"""C12 — max_score stops the search exactly when the target is reached."""
import math, itertools
import numpy as np
import gen, drive, dunit
from common import coq_eval_cases, cz, clist, copt, cbool, Scaler, jsonable

NAN, INF = math.nan, math.inf


def _truth(x):
    return bool(x) if x is not None else False


def k_unit(ctx):
    from gradient_free_optimizers._stop_run import StopRun
    u = ctx.unit("K:StopRun.check(max_score)", "K",
                 "all (best, max_score, scalar type) over boundary alphabets incl. +-0.0, +-inf, NaN, None; "
                 "non-trivial = max_score is not None; distinct by (best, m, type)")
    bests = [-INF, -2.0, -1.0, -0.0, 0.0, 0.5, 1.0, 2.0, INF, NAN]
    ms = [None, -2.0, -1.0, -0.0, 0.0, 0.5, 1.0, 2.0, INF, -INF, NAN]
    types = ["float", "np", "int"]
    lits, cases = [], []
    sc = Scaler([0.5])
    for b in bests:
        for m in ms:
            for ty in types:
                def conv(x):
                    if x is None:
                        return None
                    if ty == "np":
                        return np.float64(x)
                    if ty == "int" and math.isfinite(x) and float(x).is_integer():
                        return int(x)
                    return float(x)
                st = StopRun(0, None, conv(m), None)
                st.update(conv(b), [])
                try:
                    out = ("ok", _truth(st.check()))
                except Exception as e:
                    out = (type(e).__name__, None)
                exp = "(Ok %s)" % cbool(out[1]) if out[0] == "ok" else "(Err Unspecified)"
                lits.append("(%s, %s, %s)" % (sc.score(b), "None" if m is None else "(Some %s)" % sc.score(m), exp))
                cases.append(dict(best=b, max_score=m, type=ty, impl=out))
                u.count((repr(b), repr(m), ty), nontrivial=m is not None)
                u.bump("m=%r" % (m,))
    u.exhaustive = True
    u.samples = cases[:2] + cases[100:101]
    hdr = "Require Import StopRun.\nDefinition rb_eqb (a b : res bool) := match a, b with Ok x, Ok y => Bool.eqb x y | Err _, Err _ => true | _, _ => false end."
    failing, err = coq_eval_cases(u.name, hdr, "score * option score * res bool", lits,
                                  "fun c => let '(b, m, e) := c in rb_eqb (check (mkStop None m None) 0 0 b []) e")
    u.error = err
    for i in failing:
        u.mismatches.append(dict(case=cases[i], note="StopRun.check differs from the model"))
    return u


def monitor_call(scores, n_iter, m, rows, best):
    """The property, stated directly. scores: this call's score list. Returns None or a message."""
    k = next((i for i, s in enumerate(scores) if s >= m), None)
    expect = (k + 1) if k is not None else n_iter
    if rows != expect:
        return "rows=%d but expected %d (first step with score >= %r is %r, n_iter=%d)" % (rows, expect, m, k, n_iter)
    if (best >= m) != (k is not None):
        return "best_score=%r >= m=%r is %r but a step reached m: %r" % (best, m, best >= m, k is not None)
    return None


def specs(ctx, n):
    rng = ctx.sub_rng("d")
    names = gen.FAST if ctx.quick else gen.ALL
    out = []
    alphabet = [-2.0, -1.0, -0.5, 0.0, 0.5, 1.0, 2.0]
    for i in range(n):
        name = gen.rotate(names, i, ctx.quick)
        space, meta = gen.gen_space(rng, sizes=(2, 3, 5, 8), max_points=200)
        table, _ = gen.gen_table(rng, space)
        n_iter = rng.choice([1, 2, 3, 5, 8, 12, 15])
        use_script = rng.random() < 0.8
        script = [(rng.choice(alphabet), None) for _ in range(n_iter)] if use_script else []
        pool = [s for s, _ in script] or [v[0] for v in table.values()]
        # non-finite scores never count as "reached" (NaN) / count like any number (+-inf): also as the very first score
        if use_script and rng.random() < 0.35:
            for j in range(len(script)):
                if j == 0 or rng.random() < 0.2:
                    script[j] = (rng.choice([math.nan, math.nan, -INF, INF]), None)
        r = rng.random()
        if r < 0.25:
            m = rng.choice([0.0, -0.0, 0])
        elif r < 0.8:
            m = rng.choice(pool) + rng.choice([0, 0, 0.25, -0.25])
        else:
            m = rng.choice([-INF, INF, 5.0, -5.0])
        if use_script and rng.random() < 0.2 and math.isfinite(float(m)) and float(m) != 0.0 and len(script) >= 2:
            # a score a hair below the threshold (relative 1e-10, an exact double) before anything reaches it: not reached is not reached
            j_ = rng.randrange(len(script) - 1)
            script[j_] = (float(m) - abs(float(m)) * 2.0 ** -33, None)
            for k_ in range(j_):
                if math.isfinite(script[k_][0]) and script[k_][0] >= float(m):
                    script[k_] = (float(m) - 1.0, None)
        if rng.random() < 0.3:
            m = np.float64(m)
        calls = [dict(n_iter=n_iter, max_score=m, memory=rng.random() < 0.5)]
        # together with other criteria that cannot fire here: the threshold still decides
        # (no early_stopping next to non-finite scores: no_change is modelled for finite histories only, C13's quantifier)
        r2 = rng.random()
        if any(not math.isfinite(x) for x, _ in script) and r2 >= 0.15:
            r2 = 1.0
        if r2 < 0.15:
            calls[0]["max_time"] = 10 ** 6
        elif r2 < 0.3:
            calls[0]["early_stopping"] = {"n_iter_no_change": n_iter + 20}
        elif r2 < 0.35:
            calls[0]["max_time"] = 10 ** 6
            calls[0]["early_stopping"] = {"n_iter_no_change": n_iter + 20, "tol_abs": 0.5}
        if rng.random() < 0.25:
            n2 = rng.choice([1, 3, 6])
            calls.append(dict(n_iter=n2, max_score=rng.choice(pool), memory=rng.random() < 0.5))
            if use_script:
                script += [(rng.choice(alphabet), None) for _ in range(n2)]
        spec = dict(name=name, space=space, table=table, script=script, calls=calls, seed=rng.randrange(10 ** 6),
                    init=gen.gen_initialize(rng, space), scalar=rng.choice(["float", "np", "int"]),
                    steps_api=False)
        if use_script and rng.random() < 0.15:
            # the objective returns (score, metrics) and one of its metrics happens to be called "score": the threshold is about the
            # returned score, not about that entry (memory off: one objective call per step, so step k's score is the k-th scripted one)
            spec["script"] = [(sc_, {"score": rng.choice(alphabet), "aux": 1.0}) for sc_, _ in spec["script"]]
            for c_ in calls:
                c_["memory"] = False
            spec["metric_named_score"] = True
        out.append(spec)
    return out


def d_unit_and_monitor(ctx, n):
    u = ctx.unit("D:search(max_score)", "D",
                 "real search() of rotating optimizers with scripted score sequences and thresholds "
                 "(incl. 0, -0.0, values equal to a score, +-inf) vs the model driver on the recorded proposals; "
                 "non-trivial = the run has >= 2 steps; distinct by (scores, m, n_iter)")
    ctx.monitor_rule = ("per call: rows == (first k with score_k >= m) + 1 else n_iter, and (best_score >= m) == reached; "
                        "objectives returning (score, metrics) with a metric that is itself called \"score\" (the threshold is about the returned score); "
                        "distinct by (optimizer, scores, m)")
    results = []
    for spec in specs(ctx, n):
        r = dunit.run_case(spec)
        results.append((spec, r))
        key = (tuple(x[0] for x in spec["script"]), repr(spec["calls"][0]["max_score"]), spec["calls"][0]["n_iter"])
        u.count(key, nontrivial=spec["calls"][0]["n_iter"] >= 2)
        u.bump(spec["name"])
        if r["exc"] is not None:
            ctx.blocked.append(dict(spec=dunit.spec_brief(spec), exc=r["exc"][:2]))
            continue
        if spec.get("metric_named_score"):
            r["lit"] = None          # the model's rows assume metric names disjoint from "score": monitor only
        # monitor
        prev_rows = 0
        prev_scores = 0
        for c, o in zip(spec["calls"], r["obs"]):
            hm = dunit.history_mismatch(o)
            if hm:
                ctx.violation(dict(kind="history-mismatch", optimizer=spec["name"]), dict(spec=dunit.spec_full(spec), call=jsonable(c)),
                              "%s: %s" % (spec["name"], hm))
                break
            scores = o["score_l"][prev_scores:]
            if spec.get("metric_named_score"):
                scores = [float(x[0]) for x in spec["script"][prev_scores:prev_scores + len(scores)]]      # what the objective returned as score
            rows = len(o["rows"]) - prev_rows
            ctx.monitor_runs += 1
            ctx.monitor_nontrivial.add((spec["name"], tuple(scores), repr(c["max_score"])))
            # the property speaks of real thresholds; +-inf thresholds are still compared with the model by the D-unit
            msg = monitor_call(scores, c["n_iter"], float(c["max_score"]), rows, o["best_score"]) if math.isfinite(float(c["max_score"])) else None
            if msg:
                ctx.violation(dict(kind="max_score", max_score=float(c["max_score"]), optimizer=spec["name"]),
                              dict(spec=dunit.spec_full(spec), call=jsonable(c), scores=scores), msg)
            prev_rows, prev_scores = len(o["rows"]), len(o["score_l"])
    u.samples = [dunit.spec_brief(s) for s, _ in results[:2]]
    dunit.eval_d_unit(u, results)


def pre_build(ctx):
    import gen_units
    gen_units.pre_build(ctx, "translate_driver")


def run(ctx):
    import gen_units
    gen_units.g_unit(ctx, "translate_driver")
    import common as _common
    _common.guarded(ctx, "K-unit", k_unit, ctx)
    d_unit_and_monitor(ctx, 90 if ctx.quick else 600)


def replay(ctx, data):
    case = data.get("case") or {}
    print(json_dump(data))
    return 0


def json_dump(x):
    import json
    return json.dumps(x, indent=1)[:4000]
