"""C09 — score-using optimizers are directed towards higher scores."""
import math, io, contextlib, random, os
import numpy as np
import gen, dunit
from common import jsonable, NPROC
from props import core_units

BLIND = ["RandomSearchOptimizer", "GridSearchOptimizer"]

# non-default settings under which the optimizer still has to be directed (settings that switch the use of scores off by design --
# n_iter_restart=1, p_accept=1, mutation only ... -- are not in this table)
ALT_CFG = {
    "HillClimbingOptimizer": [dict(epsilon=0.3, n_neighbours=5)],
    "RepulsingHillClimbingOptimizer": [dict(repulsion_factor=10)],
    "RandomRestartHillClimbingOptimizer": [dict(n_iter_restart=20)],
    "RandomAnnealingOptimizer": [dict(start_temp=100)],
    "PatternSearch": [dict(n_positions=2), dict(pattern_size=0.5)],
    "PowellsMethod": [dict(iters_p_dim=1), dict(iters_p_dim=3)],
    "DownhillSimplexOptimizer": [dict(alpha=2.5, gamma=3)],
    "DirectAlgorithm": [],
    "ParticleSwarmOptimizer": [dict(inertia=0.9, social_weight=1.5, population=5)],
    "SpiralOptimization": [dict(decay_rate=0.9, population=5)],
    "GeneticAlgorithmOptimizer": [dict(population=6, offspring=5)],
    "EvolutionStrategyOptimizer": [dict(population=5, mutation_rate=0.3, crossover_rate=0.7)],
    "DifferentialEvolutionOptimizer": [dict(population=6, mutation_rate=0.5)],
}


def landscape(seed, ndim, size, offset_kind):
    r = random.Random(seed)
    opt = [r.choice([r.randint(0, size // 6), size - 1 - r.randint(0, size // 6)]) for _ in range(ndim)]
    maxd = sum(max(o, size - 1 - o) ** 2 for o in opt)
    off = {"neg": 0.0, "pos": float(maxd + 10), "mixed": float(maxd) / 2}[offset_kind]
    return opt, off


def one_pair(task):
    name, seed, ndim, size, offset_kind, n_iter, cfg = task
    cfg = dict(cfg)
    scale = cfg.pop("__scale", 1.0)       # the objective handed to the optimizer is scale * f: direction must not depend on the unit of the score
    chunk = cfg.pop("__chunk", None)      # the run is cut into search() calls of `chunk` steps on the same object (a continued search)
    import gradient_free_optimizers as gfo
    opt_pt, off = landscape(seed, ndim, size, offset_kind)
    space = {"x%d" % i: np.arange(size) for i in range(ndim)}
    names = list(space.keys())

    def f(para):
        return off - float(sum((float(para[n]) - o) ** 2 for n, o in zip(names, opt_pt)))
    res = {}
    for sign in (1, -1):
        def obj(para, sign=sign):
            return sign * scale * f(para)
        try:
            o = getattr(gfo, name)(space, random_state=seed, **cfg)
            with contextlib.redirect_stdout(io.StringIO()), contextlib.redirect_stderr(io.StringIO()):
                if chunk is None:
                    o.search(obj, n_iter=n_iter, verbosity=False, memory=False)
                else:
                    left = n_iter
                    while left > 0:
                        o.search(obj, n_iter=min(chunk, left), verbosity=False, memory=False)
                        left -= min(chunk, left)
        except Exception as e:
            return dict(task=task, error="%s: %s" % (type(e).__name__, str(e)[:80]))
        pos = [tuple(int(x) for x in p) for p in o.pos_l]
        fvals = [f({n: space[n][i] for n, i in zip(names, p)}) for p in pos]
        half = fvals[len(fvals) // 2:]
        res[sign] = (pos, sum(half) / len(half))
    return dict(task=task, same_points=(res[1][0] == res[-1][0]), mean_pos=res[1][1], mean_neg=res[-1][1])


def pre_build(ctx):
    import gen_units
    gen_units.pre_build(ctx, "translate_shc")


def run(ctx):
    import gen_units
    gen_units.g_unit(ctx, "translate_shc")
    import common as _common
    _common.guarded(ctx, "K/S-units", core_units.run, ctx, which="C09")
    ctx.assumptions.append("the first sentence of the property is statistical: it is decided by the paired sign test below (monitor), not by a theorem")
    ctx.monitor_rule = ("per optimizer: unimodal landscapes f with the optimum near a corner (1-3 dims, negative / positive / mixed score "
                        "ranges); for each seed the mean f-value of the second half of the run maximising f must exceed that of the "
                        "run maximising -f; the optimizer passes if this holds for at least 3/4 of the seeds; random and grid search "
                        "must evaluate identical points in both runs; non-default settings that keep the optimizer directed (Powell iters_p_dim 1 / 3, "
                        "pattern sizes, simplex coefficients, swarm / evolution parameters) and the same landscapes with the score multiplied by 1e-12 / 1e6 are tested as separate groups; distinct by (optimizer, seed, range)")
    import multiprocessing as mp
    seeds = list(range(1, 7)) if ctx.quick else list(range(1, 13))
    tasks = []
    for name in gen.ALL:
        slow = name in gen.SLOW
        for i, sd in enumerate(seeds):
            if slow and ctx.quick and i >= 4:
                continue
            ndim = [2, 1, 3][i % 3] if not slow else 2
            size = 40 if not slow else 14
            kind = ["neg", "pos", "mixed"][i % 3]
            n_iter = 30 if slow else (120 if ndim > 1 else 60)
            cfg = {}
            if name in gen.SMBO and name != "LipschitzOptimizer":
                cfg = {}
            tasks.append((name, sd + 1000 * (ctx.seed % 7), ndim, size, kind, n_iter, cfg))
            for alt in ALT_CFG.get(name, []):
                if alt.get("iters_p_dim", 9) < 5 and ndim == 1:
                    continue        # one dimension and fewer than 5 iterations per direction: only the inner start points are ever evaluated (score-blind by construction)
                tasks.append((name, sd + 1000 * (ctx.seed % 7), ndim, size, kind, n_iter, dict(alt)))
            # the same landscapes in other units: scores of the order 1e-10 and 1e+9 (first four seeds)
            if i < 4 and name not in BLIND:
                for sc_ in (1e-12, 1e6):
                    tasks.append((name, sd + 1000 * (ctx.seed % 7), ndim, size, kind, n_iter, {"__scale": sc_}))
            # model-based optimizers also with candidate sub-sampling switched on (sampling={"random": k} below the space size):
            # the proposal then goes through the per-iteration candidate subset
            if name in gen.SMBO and name != "LipschitzOptimizer":
                tasks.append((name, sd + 1000 * (ctx.seed % 7), ndim, size, kind, n_iter, {"sampling": {"random": 40}}))
    with mp.get_context("fork").Pool(min(NPROC, 16)) as pool:
        results = pool.map(one_pair, tasks, chunksize=1)
    by = {}
    for r in results:
        name = r["task"][0]
        ctx.monitor_runs += 2
        ctx.monitor_nontrivial.add(tuple(r["task"][:5]))
        if "error" in r:
            ctx.blocked.append(dict(task=jsonable(r["task"]), exc=r["error"]))
            continue
        by.setdefault(name if not r["task"][6] else "%s %r" % (name, r["task"][6]), []).append(r)
    for name, rs in by.items():
        if name.split(" ")[0] in BLIND:
            bad = [r for r in rs if not r["same_points"]]
            if bad:
                ctx.violation(dict(kind="score-blind-differs", optimizer=name), dict(optimizer=name, tasks=[jsonable(r["task"]) for r in bad[:3]]),
                              "%s evaluates different points when the objective is negated" % name)
            continue
        wins = sum(1 for r in rs if r["mean_pos"] > r["mean_neg"])
        if wins * 4 < len(rs) * 3:
            ctx.violation(dict(kind="not-directed", optimizer=name.split(" ")[0]),
                          dict(optimizer=name, wins=wins, seeds=len(rs), runs=[dict(task=jsonable(r["task"]), mean_f_when_maximising_f=r["mean_pos"],
                                                                                  mean_f_when_maximising_minus_f=r["mean_neg"]) for r in rs]),
                          "%s: maximising f gives higher second-half f-values than maximising -f in only %d of %d paired runs" % (name, wins, len(rs)))


def replay(ctx, data):
    import json
    print(json.dumps(data, indent=1)[:6000])
    return 0
