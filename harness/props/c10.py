"""C10 — warm-start points are always evaluated during initialisation."""
import math, random
import numpy as np
import gen, instr, sweep, dunit
from common import coq_eval_cases, cz, cnat, clist, copt, cbool, Scaler, jsonable, res_lit


def k_units(ctx):
    from gradient_free_optimizers.optimizers.core_optimizer.converter import Converter
    from gradient_free_optimizers.optimizers.core_optimizer.init_positions import Initializer
    from gradient_free_optimizers.optimizers.pop_opt.base_population_optimizer import split
    u = ctx.unit("K:Initializer._init_warm_start / split", "K",
                 "Initializer._init_warm_start on lists of 1-8 parameter dicts in shuffled key order (in-space values, off-grid "
                 "values, duplicates) with and without constraints; split(list, P) for every list length 0..12 and P 1..8; "
                 "non-trivial = a dict's key order differs from the search space's; distinct by (space, dicts)")
    rng = ctx.sub_rng("k")
    lits, cases = [], []
    for it in range(120 if ctx.quick else 900):
        space, meta = gen.gen_space(rng, ndims=rng.choice([1, 2, 3, 4]), sizes=(1, 2, 3, 5, 8), max_points=300)
        names = list(space.keys())
        feas = None
        if rng.random() < 0.5:
            feas, _ = gen.gen_constraint(rng, space)
        cons = [instr.ArgLogConstraint(space, feas)] if feas is not None else []
        conv = Converter(space, cons)
        vs = Scaler()
        ws, shuffled = [], False
        for _ in range(rng.randint(1, 8)):
            d = {}
            for n in names:
                a = space[n]
                x = a[rng.randrange(len(a))].item()
                if rng.random() < 0.15:
                    x = float(x) + rng.choice([0.25, -0.5])
                d[n] = x
            items = list(d.items())
            if rng.random() < 0.6:
                rng.shuffle(items)
                shuffled = shuffled or [k for k, _ in items] != names
            ws.append(dict(items))
        for a in space.values():
            for x in a:
                vs.add(x)
        for w in ws:
            for x in w.values():
                vs.add(x)
        init = Initializer.__new__(Initializer)
        init.conv = conv
        try:
            out = ("ok", [[int(x) for x in p] for p in init._init_warm_start(ws)])
        except Exception as e:
            out = (type(e).__name__, None)
        sp = clist([clist([vs.z(x) for x in a]) for a in space.values()], lambda s: s)
        if feas is None:
            cl = "(fun _ => true)"
        else:
            fv = [[vs.z(float(space[n][i])) for n, i in zip(names, p)] for p in sorted(feas)]
            cl = "(fun v => existsb (list_eqb Z.eqb v) %s)" % clist(fv, clist)
        wl = clist(ws, lambda w: clist([(names.index(k), vs.z(x)) for k, x in w.items()], lambda kv: "(%s, %s)" % (cz(kv[0]), cz(kv[1]))))
        exp = res_lit("ok", clist(out[1], clist)) if out[0] == "ok" else res_lit(out[0])
        lits.append("(res_eqb (list_eqb (list_eqb Z.eqb)) (init_warm_start %s %s %s %s) %s)" % (sp, cl, clist(range(len(names))), wl, exp))
        cases.append(dict(space=jsonable(space), warm_start=jsonable(ws), feasible=sorted(feas) if feas else None, impl=out))
        u.count((tuple(map(tuple, [a.tolist() for a in space.values()])), repr(ws)), nontrivial=shuffled)
    for n in range(0, 13):
        for P in range(1, 9):
            l = list(range(100, 100 + n))
            out = split(l, P)
            lits.append("(list_eqb (list_eqb Z.eqb) (split %s %s) %s)" % (clist(l), cnat(P), clist(out, clist)))
            cases.append(dict(list=l, P=P, impl=out))
            u.count(("split", n, P), nontrivial=n % P != 0)
    u.samples = cases[:2]
    hdr = ("Require Import Converter Init.\nDefinition res_eqb {A} (e : A -> A -> bool) (a b : res A) := match a, b with Ok x, Ok y => e x y "
           "| Err x, Err y => err_eqb x y | _, _ => false end.")
    failing, err = coq_eval_cases(u.name, hdr, "bool", lits, "fun b => b", shard=200)
    u.error = err
    for i in failing[:10]:
        u.mismatches.append(dict(case=cases[i], note="_init_warm_start / split differs from the model"))


def s_unit_and_monitor(ctx):
    us = ctx.unit("S:init schedule (all optimizers)", "S",
                  "real runs of all 22 optimizers with warm starts (1-6 dicts, shuffled keys, duplicates) mixed with grid / vertices "
                  "/ random counts, population sizes smaller, equal and larger than the number of initial positions, constraints: "
                  "the positions evaluated in the first n_inits steps must be init_positions_l in order = the model's "
                  "pop_init_pos (split l P) schedule (P = 1 for single-solution optimizers); non-trivial = population does not "
                  "divide the number of initial positions; distinct by (optimizer, seed)")
    ctx.monitor_rule = ("every warm-start dict lying in the space and satisfying the constraints is evaluated within the first n_inits "
                        "rows when n_iter >= n_inits; best_score >= objective(w); chaining best_para of one run into the warm_start "
                        "of the next never yields a worse best score (model-based optimizers: also with the first run's search_data as warm_start_smbo)")
    rng = ctx.sub_rng("s")
    lits, cases = [], []
    names_all = gen.ALL if not ctx.quick else gen.FAST + gen.SLOW[:2]
    n = 88 if ctx.quick else 600
    for it in range(n):
        name = names_all[it % len(names_all)]
        spec = dunit.general_spec(rng, name, max_calls=1, metrics=0, sizes=(2, 3, 5, 8), max_points=100, n_max=10, verbosity=False,
                                  steps_api=True, warm=rng.randint(1, 6), constraint=rng.random() < 0.4, ndims=rng.choice([1, 2, 3]))
        if it % 5 == 4:
            # degenerate warm-start geometry: only warm starts, all on one line (the best_para of runs that ended on the same border) -- three
            # or four of them, i.e. no padding is needed even for the simplex
            spec = dunit.general_spec(rng, name, max_calls=1, metrics=0, sizes=(5, 8), max_points=100, n_max=10, verbosity=False,
                                      steps_api=True, warm=1, constraint=False, ndims=rng.choice([2, 2, 3]))
            nm_ = list(spec["space"].keys())
            fixed = {n_: spec["space"][n_][rng.randrange(len(spec["space"][n_]))] for n_ in nm_[1:]}
            idx_ = rng.sample(range(len(spec["space"][nm_[0]])), rng.choice([3, 4]))
            spec["init"] = {"warm_start": [dict({nm_[0]: spec["space"][nm_[0]][i_]}, **fixed) for i_ in idx_]}
        if rng.random() < 0.4:
            # grid counts that are not perfect powers of the dimension count, together with warm starts (the warm-start
            # positions come last in init_positions_l: a section that returns more than it was asked for pushes them out)
            if it % 5 != 4:
                spec["init"]["grid"] = rng.choice([3, 4, 5, 7, 8, 9, 13, 16])
        if rng.random() < 0.3 and len(spec["init"]["warm_start"]) > 1:
            spec["init"]["warm_start"].append(dict(spec["init"]["warm_start"][0]))     # a duplicate
        cfg = dict(spec["cfg"] or {})
        if name in gen.POPULATION:
            lo = 4 if name in ("GeneticAlgorithmOptimizer", "DifferentialEvolutionOptimizer") else 1
            cfg["population"] = rng.choice([lo, lo + 1, 5, 7, 11])
        spec["cfg"] = cfg
        space = spec["space"]
        names = list(space.keys())
        # build once to learn n_inits, then search for n_inits + a few steps
        probe = instr.run_steps(dict(spec, calls=[dict(n_iter=1, memory=False, verbosity=False)]))
        if probe["opt"] is None:
            ctx.blocked.append(dict(spec=dunit.spec_brief(spec), exc=probe["exc"][:2] if probe["exc"] else None))
            continue
        n_inits = probe["n_inits"]
        spec["calls"] = [dict(n_iter=n_inits + rng.choice([0, 1, 3]), memory=False, verbosity=False)]
        out = instr.run_steps(spec)
        key = (name, spec["seed"])
        if out["exc"] is not None:
            ctx.blocked.append(dict(spec=dunit.spec_brief(spec), exc=out["exc"][:2]))
            continue
        opt = out["opt"]
        l = out["init_positions"]
        P = len(opt.optimizers) if name in gen.POPULATION else 1
        got = [st["pos"] for st in out["steps"][:n_inits]]
        lits.append("(list_eqb (option_eqb (list_eqb Z.eqb)) (map (pop_init_pos (split %s %s) %s) (seq 0 %s)) %s)"
                    % (clist(l, clist), cnat(P), cnat(P), cnat(n_inits), clist(got, lambda p: "(Some %s)" % clist(p))))
        cases.append(dict(optimizer=name, spec=dunit.spec_brief(spec), init_positions=l, population=P, evaluated=got))
        # the model's o_n_inits is the length of the initial-position list: the implementation's counter must agree
        lits.append("(Z.eqb (zlen %s) %s)" % (clist(l, clist), n_inits))
        cases.append(dict(optimizer=name, spec=dunit.spec_brief(spec), init_positions=l, n_inits=n_inits,
                          note="n_inits differs from the number of initial positions"))
        us.count(key, nontrivial=(P > 1 and len(l) % P != 0))
        us.bump(name)
        # monitor
        ctx.monitor_runs += 1
        ctx.monitor_nontrivial.add(key)
        feas = spec.get("feasible")
        first = [st["pos"] for st in out["steps"][:n_inits]]
        scores = [st["score"] for st in out["steps"]]
        for w in spec["init"]["warm_start"]:
            pos = []
            inspace = True
            for nme in names:
                a = space[nme]
                hit = [i for i in range(len(a)) if a[i] == w[nme]]
                if not hit:
                    inspace = False
                    break
                pos.append(hit[0])
            if not inspace:
                continue
            pos = tuple(pos)
            if feas is not None and pos not in feas:
                continue
            if pos not in first:
                ctx.violation(dict(kind="warm-start-not-evaluated", optimizer=name), dict(spec=dunit.spec_full(spec), warm=jsonable(w), position=pos, first_rows=first),
                              "%s: warm-start point %r (position %r) is not among the first n_inits=%d evaluated positions %r"
                              % (name, jsonable(w), pos, n_inits, first))
                break
            fw = out["obj"].vtable[tuple(float(space[nme][i]) for nme, i in zip(names, pos))][0]
            if not (float(opt.best_score) >= fw):
                ctx.violation(dict(kind="best-below-warm-start", optimizer=name), dict(spec=dunit.spec_full(spec), warm=jsonable(w)),
                              "%s: best_score %r < objective(warm start) %r" % (name, float(opt.best_score), fw))
                break
        # chaining: best_para of this run as warm start of the next
        import inspect
        takes_frame = "warm_start_smbo" in inspect.signature(gen.opt_class(name).__init__).parameters
        if opt.best_para is not None and (it % 3 == 0 or takes_frame):
            spec2 = dict(spec, init=dict(warm_start=[dict(opt.best_para)]), seed=spec["seed"] + 1)
            if takes_frame:
                # "continue run 1": its best_para as warm start AND its search_data as the surrogate's warm_start_smbo
                spec2["cfg"] = dict(spec["cfg"] or {}, warm_start_smbo=opt.search_data.copy())
            p2 = instr.run_steps(dict(spec2, calls=[dict(n_iter=1, memory=False, verbosity=False)]))
            if p2["opt"] is not None:
                spec2["calls"] = [dict(n_iter=p2["n_inits"] + 2, memory=False, verbosity=False)]
                o2 = instr.run_steps(spec2)
                ctx.monitor_runs += 1
                if o2["exc"] is None and takes_frame:
                    wpos = tuple(int(np.nonzero(np.asarray(space[nme]) == opt.best_para[nme])[0][0]) for nme in names)
                    first2 = [st["pos"] for st in o2["steps"][:p2["n_inits"]]]
                    if (feas is None or wpos in feas) and wpos not in first2:
                        ctx.violation(dict(kind="warm-start-not-evaluated", optimizer=name, chained=True),
                                      dict(spec=dunit.spec_full(spec), warm=jsonable(opt.best_para), position=wpos, first_rows=first2, warm_start_smbo_rows=len(opt.search_data)),
                                      "%s: continuing with best_para as warm start and search_data as warm_start_smbo, the warm-start point %r is not among the first n_inits=%d evaluated positions"
                                      % (name, jsonable(opt.best_para), p2["n_inits"]))
                if o2["exc"] is None and not (float(o2["opt"].best_score) >= float(opt.best_score)):
                    ctx.violation(dict(kind="chaining-worse", optimizer=name), dict(spec=dunit.spec_full(spec), best_para=jsonable(opt.best_para)),
                                  "%s: warm-starting with the previous best_para gives best_score %r < %r" % (name, float(o2["opt"].best_score), float(opt.best_score)))
    us.samples = cases[:2]
    hdr = "Require Import Converter Init."
    failing, err = coq_eval_cases(us.name, hdr, "bool", lits, "fun b => b", shard=100)
    us.error = err
    for i in failing[:10]:
        us.mismatches.append(dict(case=cases[i], note="the initialisation steps do not serve init_positions_l in the model's order"))


def pre_build(ctx):
    import gen_units
    gen_units.pre_build(ctx, "translate_init")
    gen_units.pre_build(ctx, "translate_pop")


def run(ctx):
    import gen_units
    gen_units.g_unit(ctx, "translate_init")
    gen_units.g_unit(ctx, "translate_pop")
    import common as _common
    _common.guarded(ctx, "K-units", k_units, ctx)
    _common.guarded(ctx, "S-unit and monitor", s_unit_and_monitor, ctx)


def replay(ctx, data):
    import json
    print(json.dumps(data, indent=1)[:6000])
    return 0
