"""C17 — model-based proposals maximise the acquisition over sound training data."""
import math, io, contextlib, random
import numpy as np
import pandas as pd
import gen, dunit
from common import coq_eval_cases, cz, cnat, clist, copt, cbool, Scaler, jsonable
from props.core_units import dyadic

SMBO4 = ["BayesianOptimizer", "ForestOptimizer", "TreeStructuredParzenEstimators", "LipschitzOptimizer"]


def xr(x):
    x = float(x)
    if math.isnan(x):
        return "XNaN"
    if x == math.inf:
        return "XPInf"
    if x == -math.inf:
        return "XNInf"
    m, e = dyadic(x)
    return "(XF %s %s)" % (cz(m), cz(e))


def tup(p):
    return tuple(int(x) for x in np.asarray(p).ravel())


def fin(s):
    return math.isfinite(float(s))


def sk_patch(log):
    """log, at the level of the sklearn estimators behind the surrogate wrappers, what every estimator object was last fitted on
    and which estimator objects predict"""
    from gradient_free_optimizers.optimizers.smb_opt import surrogate_models as sm
    saved = []
    for c in (sm.GaussianProcessRegressor, sm.BayesianRidge, sm._ExtraTreesRegressor_, sm._RandomForestRegressor_, sm._GradientBoostingRegressor_):
        had = ("fit" in c.__dict__, "predict" in c.__dict__)
        ofit, opred = c.fit, c.predict

        def fit(self, X, y, *a, _o=ofit, **k):
            log["fit"][id(self)] = (np.array(X, dtype=float).copy(), np.ravel(np.array(y, dtype=float)).copy())
            return _o(self, X, y, *a, **k)

        def predict(self, X, *a, _o=opred, **k):
            log["pred"].append(id(self))
            return _o(self, X, *a, **k)
        c.fit, c.predict = fit, predict
        saved.append((c, had, ofit, opred))
    return saved


def sk_unpatch(saved):
    for c, had, ofit, opred in saved:
        if had[0]:
            c.fit = ofit
        else:
            del c.fit
        if had[1]:
            c.predict = opred
        else:
            del c.predict


def run_smbo(name, space, fobj, seed, n_iter, cfg, init):
    """runs one SMBO optimizer step by step, capturing acquisition vectors / candidate sets / X,Y samples"""
    import gradient_free_optimizers as gfo
    from gradient_free_optimizers.optimizers.global_opt import lipschitz_optimization as lipmod
    opt = getattr(gfo, name)(space, random_state=seed, initialize=init, **cfg)
    cap = dict(acq=None, comb=None, trained=None)
    if name != "LipschitzOptimizer":
        orig_ei = opt._expected_improvement

        def ei():
            r = orig_ei()
            cap["acq"] = [float(x) for x in np.asarray(r).ravel()]
            cap["comb"] = [tup(p) for p in opt.pos_comb]
            return r
        opt._expected_improvement = ei
        orig_tr = opt._training

        def tr():
            try:
                r = orig_tr()
                cap["trained"] = True
                return r
            except ValueError:
                cap["trained"] = False
                raise
        opt._training = tr
    else:
        orig_calc = lipmod.LipschitzFunction.calculate

        def calc(this, X, Y, sb):
            r = orig_calc(this, X, Y, sb)
            flat = np.ma.asarray(r).ravel()
            cap["acq"] = [math.nan if (np.ma.is_masked(v)) else float(v) for v in flat]
            cap["comb"] = [tup(p) for p in this.position_l]
            cap["trained"] = True
            return r
        lipmod.LipschitzFunction.calculate = calc
    splits = []
    if name == "TreeStructuredParzenEstimators":
        orig_gs = opt._get_samples

        def gs():
            best, worst = orig_gs()
            X = list(opt.X_sample)

            def idx(samples):
                out = []
                for smp in samples:
                    hit = [i for i, x in enumerate(X) if x is smp]
                    out.append(hit[0] if len(hit) == 1 else -1)
                return out
            splits.append(dict(Y=[float(y) for y in opt.Y_sample], best=idx(best), worst=idx(worst),
                               n_best=max(round(len(X) * opt.gamma_tpe), 1), X=[tup(x) for x in X]))
            return best, worst
        opt._get_samples = gs
    steps = []
    sklog = dict(fit={}, pred=[])
    saved = sk_patch(sklog)
    try:
        with contextlib.redirect_stdout(io.StringIO()), contextlib.redirect_stderr(io.StringIO()):
            opt.init_search(fobj, n_iter, None, None, None, False, None, False)
            for k in range(n_iter):
                pre = dict(X=[tup(p) for p in opt.X_sample], Y=[float(y) for y in opt.Y_sample],
                           comb=([tup(p) for p in opt.all_pos_comb] if hasattr(opt, "all_pos_comb") else None))
                cap.update(acq=None, comb=None, trained=None)
                del sklog["pred"][:]
                opt.search_step(k)
                train = None
                if cap["acq"] is not None and cap["trained"] is not False and sklog["pred"]:
                    # every sklearn estimator that predicted for this proposal must have been fitted last on exactly the samples
                    # the optimizer held before the step
                    wantX = np.array(pre["X"], dtype=float).reshape(len(pre["X"]), -1)
                    wantY = np.array(pre["Y"], dtype=float)
                    train = True
                    for eid in set(sklog["pred"]):
                        got = sklog["fit"].get(eid)
                        # (the scores may be rescaled before fitting: the fitted targets must be an order-preserving image of Y_sample)
                        def same_order(a, b):
                            if len(a) != len(b):
                                return False
                            if len(set(a.tolist())) <= 1:      # a constant score vector is replaced by random targets (normalize: den == 0)
                                return True
                            return all((a[i] < a[j]) == (b[i] < b[j]) for i in range(len(a)) for j in range(len(a)))
                        if got is None or got[0].shape != wantX.shape or not np.array_equal(got[0], wantX) or not same_order(wantY, got[1]):
                            train = dict(fitted_on_X=(None if got is None else got[0].tolist()), fitted_on_y=(None if got is None else got[1].tolist()),
                                         X_sample=wantX.tolist(), Y_sample=wantY.tolist())
                            break
                post = dict(X=[tup(p) for p in opt.X_sample], Y=[float(y) for y in opt.Y_sample],
                            comb=([tup(p) for p in opt.all_pos_comb] if hasattr(opt, "all_pos_comb") else None))
                steps.append(dict(k=k, is_init=(k < opt.n_inits_norm), pos=tup(opt.pos_l[-1]), score=float(opt.score_l[-1]), pre=pre, post=post,
                                  acq=cap["acq"], pos_comb=cap["comb"], trained=cap["trained"], train=train))
            opt.finish_search()
        exc = None
    except Exception as e:
        import traceback
        exc = (type(e).__name__, str(e)[:150], traceback.format_exc()[-1200:])
    finally:
        sk_unpatch(saved)
        if name == "LipschitzOptimizer":
            lipmod.LipschitzFunction.calculate = orig_calc
    opt._verif_splits = splits
    return opt, steps, exc


def pre_build(ctx):
    import gen_units
    gen_units.pre_build(ctx, "translate_smbo")


def run(ctx):
    import gen_units
    gen_units.g_unit(ctx, "translate_smbo")
    ctx.assumptions.append("surrogate fitting and the acquisition functions (sklearn / scipy numerics) are oracles: the acquisition vector the "
                           "implementation computed is captured and the proposal rule is checked against it")
    ut = ctx.unit("S:SMBO tracking (X_sample / Y_sample / all_pos_comb)", "S",
                  "every step of Bayesian / Forest / TPE / Lipschitz runs on enumerable spaces with non-finite objective regions, "
                  "replacement in {True, False}, sampling on/off: the model's smbo_step from the observed (X, Y, candidates) with the "
                  "step's (position, score) must reach the observed post-state; non-trivial = a non-finite score or a removal "
                  "happened; distinct by (optimizer, seed, step)")
    up = ctx.unit("S:SMBO proposal rule", "S",
                  "every model-based proposal: with the acquisition vector captured from the fitted model over the current candidate "
                  "set, the proposed position must be a candidate whose value no other candidate exceeds (model: proposal_ok) and every "
                  "candidate must lie in the box and satisfy the constraints (emit_b; 40% of the runs are constrained); "
                  "non-trivial = >= 2 distinct acquisition values; distinct by (optimizer, seed, step)")
    usp = ctx.unit("S:TPE best/worst split", "S",
                   "every call of TreeStructuredParzenEstimators._get_samples in the runs (objectives with plateaus, so that equal scores "
                   "straddle the cut): the observed (index_best, index_worst) must be the last n_best / first n - n_best entries of ONE "
                   "argsort of Y_sample (model: tpe_split_ok: a permutation of range(n), Y non-decreasing along worst ++ best, "
                   "|best| = max(round(n * gamma), 1)); non-trivial = Y_sample has a tie; distinct by (seed, call)")
    uw = ctx.unit("K:init_warm_start_smbo", "K",
                  "warm_start_smbo frames with in-space, out-of-space and non-finite rows in ascending / descending / shuffled spaces: "
                  "X_sample / Y_sample after construction vs the model; non-trivial = some row is filtered; distinct by (space, frame)")
    ctx.monitor_rule = ("X_sample / Y_sample == finite-scored evaluations in order (after the valid warm-start rows); every model-based "
                        "proposal attains the maximum of the captured acquisition vector; with replacement=False no position is "
                        "proposed twice in the iteration phase by the model path; TPE's two densities are fitted on a partition of the training points; every "
                        "sklearn estimator that predicts for a proposal was last fitted on exactly X_sample / Y_sample (also for back-to-back runs of two "
                        "instances sharing the default surrogate object); "
                        "distinct by (optimizer, seed)")
    rng = ctx.sub_rng("c17")
    tl, tc, pl, pc, wl, wc, spl, spc = [], [], [], [], [], [], [], []
    n_runs = 16 if ctx.quick else 84
    # back-to-back pairs (same class, same space, the second run's first training matrix has the shape of the first run's last one):
    # a surrogate object shared between instances must be refitted on the second optimizer's own samples
    pairs = []
    for pname in ("BayesianOptimizer", "ForestOptimizer", "BayesianOptimizer") if ctx.quick else ("BayesianOptimizer", "ForestOptimizer") * 4:
        a = rng.choice([2, 3, 4])
        k = rng.choice([2, 3])
        psp = {"p0": np.arange(rng.choice([5, 7])), "p1": np.arange(rng.choice([3, 4]))}
        for (ni, nt) in ((a, a + k), (a + k - 1, a + k + 2)):
            pairs.append(dict(name=pname, space=psp, init={"random": ni}, n_iter=nt))
    # the no-repeat clause with candidate sub-sampling: replacement=False and sampling["random"] below the pool -- the row removed after
    # each evaluation must be the evaluated position's, whichever subset the proposal was chosen from
    for pname in ("BayesianOptimizer", "TreeStructuredParzenEstimators", "ForestOptimizer") * (1 if ctx.quick else 3):
        psp = {"q0": np.arange(5), "q1": np.arange(rng.choice([4, 5]))}
        pairs.append(dict(name=pname, space=psp, init={"random": 2}, n_iter=2 + rng.choice([10, 12]),
                          cfg={"replacement": False, "sampling": {"random": rng.choice([5, 7])}}))
    for it in range(n_runs + len(pairs)):
        plan = pairs[it - n_runs] if it >= n_runs else None
        name = SMBO4[it % 4]
        space, meta = gen.gen_space(rng, ndims=rng.choice([1, 2]), sizes=(3, 5, 8), max_points=40)
        names = list(space.keys())
        table, _ = gen.gen_table(rng, space, kind=rng.choice(["unimodal", "random", "negative"] if name != "TreeStructuredParzenEstimators"
                                                               else ["plateau", "plateau", "random", "unimodal"]), nonfinite=rng.choice([0, 0.15, 0.3]))
        vt = {tuple(float(space[n][i]) for n, i in zip(names, p)): r[0] for p, r in table.items()}

        def fobj(para, vt=vt, names=names):
            return vt[tuple(float(para[n]) for n in names)]
        cfg = {}
        if it >= n_runs - 4:
            # one run per optimizer aimed at the no-repeat clause: replacement=False, a small space, half of the points non-finite
            space, meta = gen.gen_space(rng, ndims=1, sizes=(8,), max_points=40) if rng.random() < 0.5 else gen.gen_space(rng, ndims=2, sizes=(3, 5), max_points=15)
            names = list(space.keys())
            table, _ = gen.gen_table(rng, space, kind="unimodal", nonfinite=0.5)
            vt = {tuple(float(space[n][i]) for n, i in zip(names, p)): r[0] for p, r in table.items()}

            def fobj(para, vt=vt, names=names):
                return vt[tuple(float(para[n]) for n in names)]
            cfg["replacement"] = False
        elif rng.random() < 0.5:
            cfg["replacement"] = False
        if rng.random() < 0.3:
            cfg["sampling"] = {"random": rng.choice([5, 10])}
        if name == "BayesianOptimizer" and rng.random() < 0.3:
            cfg["xi"] = rng.choice([0.0, 0.3])
        if name == "BayesianOptimizer" and rng.random() < 0.4:
            from gradient_free_optimizers.optimizers.smb_opt import surrogate_models as _sm
            cfg["gpr"] = _sm.GPR_linear() if rng.random() < 0.5 else _sm.GPR()       # the gpr variants: a private object instead of the shared default
        if name == "TreeStructuredParzenEstimators" and rng.random() < 0.5:
            cfg["gamma_tpe"] = rng.choice([0.1, 0.5])
        if name == "ForestOptimizer":
            cfg["tree_para"] = {"n_estimators": 5}
            if rng.random() < 0.5:
                cfg["tree_regressor"] = rng.choice(["random_forest", "extra_tree", "gradient_boost"])
        feas = None
        if rng.random() < 0.4:
            feas, _ = gen.gen_constraint(rng, space, kind=rng.choice(["halfspace", "mask", "parity"]))
            fvals = {tuple(float(space[n][i]) for n, i in zip(names, p_)) for p_ in feas}
            cfg["constraints"] = [lambda para, fvals=fvals, names=names: tuple(float(para[n]) for n in names) in fvals]
        from props.core_units import space_lits
        sp_lit, cons_lit, _vs = space_lits(space, feas)
        init = {"random": rng.choice([2, 3, 4])}
        seed = rng.randrange(10 ** 6)
        n_iter = init["random"] + (8 if ctx.quick else 12)
        if plan is not None:
            name, space, init, n_iter, cfg, feas = plan["name"], plan["space"], plan["init"], plan["n_iter"], dict(plan.get("cfg") or {}), None
            names = list(space.keys())
            if name == "ForestOptimizer":
                cfg["tree_para"] = {"n_estimators": 5}
            sp_lit, cons_lit, _vs = space_lits(space, None)

            def fobj(para, names=names):
                return -float(sum((float(para[n]) - 1.0) ** 2 for n in names))
        opt, steps, exc = run_smbo(name, space, fobj, seed, n_iter, cfg, init)
        ctx.monitor_runs += 1
        ctx.monitor_nontrivial.add((name, seed))
        if exc is not None:
            ctx.blocked.append(dict(optimizer=name, cfg=jsonable(cfg), exc=exc[:2]))
        ss = Scaler()
        for st in steps:
            for y in st["pre"]["Y"] + st["post"]["Y"] + [st["score"]]:
                ss.add(y)
        for ci, sp_ in enumerate(getattr(opt, "_verif_splits", [])):
            n = len(sp_["Y"])
            if n == 0:
                continue            # nothing to train on: the fit raises and the step falls back to a random move
            both = sorted(sp_["best"] + sp_["worst"])
            if both != list(range(n)) or len(sp_["best"]) != sp_["n_best"]:
                ctx.violation(dict(kind="tpe-split-not-partition", optimizer=name),
                              dict(optimizer=name, cfg=jsonable(cfg), seed=seed, call=ci, Y_sample=sp_["Y"], index_best=sp_["best"], index_worst=sp_["worst"], n_best=sp_["n_best"]),
                              "TPE: the two kernel densities are not fitted on a partition of the %d training points (best %r, worst %r)" % (n, sp_["best"], sp_["worst"]))
            if all(i >= 0 for i in sp_["best"] + sp_["worst"]):
                spl.append("(tpe_split_ok %s %s %s %s)" % (clist(sp_["Y"], ss.score), cnat(sp_["n_best"]), clist(sp_["best"], cnat), clist(sp_["worst"], cnat)))
                spc.append(dict(cfg=jsonable(cfg), seed=seed, call=ci, Y_sample=sp_["Y"], index_best=sp_["best"], index_worst=sp_["worst"], n_best=sp_["n_best"]))
                usp.count((seed, ci), nontrivial=len(set(sp_["Y"])) < n)
        hist = []
        proposed_iter = []
        for st in steps:
            key = (name, seed, st["k"])
            if fin(st["score"]):
                hist.append((st["pos"], st["score"]))
            # ---- monitor
            if [tuple(x) for x in st["post"]["X"]] != [p for p, _ in hist] or st["post"]["Y"] != [s for _, s in hist]:
                ctx.violation(dict(kind="xy-misaligned", optimizer=name), dict(optimizer=name, cfg=jsonable(cfg), seed=seed, step=st["k"], X=st["post"]["X"], Y=st["post"]["Y"], finite_history=hist),
                              "%s: X_sample / Y_sample are not the finite-scored evaluations in order after step %d" % (name, st["k"]))
                break
            model_path = (not st["is_init"]) and st["acq"] is not None and st["trained"] is not False
            if model_path and isinstance(st.get("train"), dict):
                ctx.violation(dict(kind="surrogate-trained-on-other-data", optimizer=name),
                              dict(optimizer=name, cfg=jsonable({k_: v_ for k_, v_ in cfg.items() if k_ != "constraints"}), seed=seed, step=st["k"], initialize=init, n_iter=n_iter,
                                   space=jsonable(space), detail=st["train"]),
                              "%s: the estimator predicting for the proposal of step %d was last fitted on other data than X_sample / Y_sample" % (name, st["k"]))
                break
            if model_path:
                acq, comb = st["acq"], st["pos_comb"]
                if st["pos"] not in comb:
                    ctx.violation(dict(kind="proposal-not-candidate", optimizer=name), dict(optimizer=name, cfg=jsonable(cfg), seed=seed, step=st["k"]),
                                  "%s: the proposal %r is not in the candidate set" % (name, st["pos"]))
                    break
                if not any(math.isnan(a) for a in acq):
                    best = max(acq)
                    idxs = [i for i, p in enumerate(comb) if p == st["pos"]]
                    if not any(acq[i] == best for i in idxs):
                        ctx.violation(dict(kind="proposal-not-argmax", optimizer=name), dict(optimizer=name, cfg=jsonable(cfg), seed=seed, step=st["k"], chosen=st["pos"], value=[acq[i] for i in idxs], best=best),
                                      "%s: the proposal %r has acquisition value %r but the maximum over the candidates is %r" % (name, st["pos"], [acq[i] for i in idxs], best))
                        break
                    i0 = next(i for i in idxs if acq[i] == best)
                    pl.append("(proposal_ok %s %s %s %s && forallb (emit_b %s %s) %s)" % (clist(comb, clist), clist(acq, xr), cnat(i0), clist(st["pos"]),
                                                                                           sp_lit, cons_lit, clist(comb, clist)))
                    pc.append(dict(optimizer=name, cfg=jsonable({k_: v_ for k_, v_ in cfg.items() if k_ != "constraints"}), constrained=feas is not None, seed=seed, step=st["k"], chosen=st["pos"], n_candidates=len(comb)))
                    up.count(key, nontrivial=len(set(acq)) >= 2)
                    up.bump(name)
                if cfg.get("replacement") is False:
                    if st["pos"] in proposed_iter:
                        ctx.violation(dict(kind="repeat-without-replacement", optimizer=name), dict(optimizer=name, cfg=jsonable(cfg), seed=seed, step=st["k"], pos=st["pos"]),
                                      "%s(replacement=False): position %r is proposed twice in the iteration phase" % (name, st["pos"]))
                        break
            if not st["is_init"]:
                proposed_iter.append(st["pos"])
            # ---- tracking case for the model
            pre, post = st["pre"], st["post"]
            comb_pre = pre["comb"] if pre["comb"] is not None else []
            comb_post = post["comb"] if post["comb"] is not None else []
            if st["is_init"] or pre["comb"] is not None:
                repl = cfg.get("replacement", True)
                tl.append("(let s := smbo_step (mkSmbo %s %s %s %s) %s %s %s in list_eqb pe (sm_X s) %s && list_eqb score_same (sm_Y s) %s && list_eqb pe (sm_comb s) %s)"
                          % (clist(pre["X"], clist), clist(pre["Y"], ss.score), clist(comb_pre, clist), cbool(repl), cbool(st["is_init"]), clist(st["pos"]), ss.score(st["score"]),
                             clist(post["X"], clist), clist(post["Y"], ss.score), clist(comb_post if not st["is_init"] else comb_pre, clist)))
                tc.append(dict(optimizer=name, cfg=jsonable(cfg), seed=seed, step=st["k"], init=st["is_init"], pos=st["pos"], score=st["score"]))
                ut.count(key, nontrivial=(not fin(st["score"])) or (repl is False and not st["is_init"]))
                ut.bump(name)
    # ---- warm_start_smbo
    import gradient_free_optimizers as gfo
    for it in range(30 if ctx.quick else 200):
        space, meta = gen.gen_space(rng, ndims=rng.choice([1, 2, 3]), sizes=(2, 3, 5, 8), max_points=200)
        names = list(space.keys())
        rows = []
        for _ in range(rng.randint(1, 8)):
            row = {}
            for n in names:
                a = space[n]
                x = float(a[rng.randrange(len(a))])
                if rng.random() < 0.15:
                    x += 0.3125                         # out of space
                row[n] = x
            row["score"] = float(rng.choice([-3.0, 0.5, 2.0, 7.25, math.nan, math.inf, -math.inf]))
            rows.append(row)
        df = pd.DataFrame(rows)
        try:
            o = gfo.BayesianOptimizer(space, warm_start_smbo=df, random_state=1)
            out = ("ok", [tup(p) for p in o.X_sample], [float(y) for y in o.Y_sample])
        except Exception as e:
            out = (type(e).__name__, str(e)[:100])
        vs, ss = Scaler(), Scaler()
        for a in space.values():
            for x in a:
                vs.add(x)
                vs.add(float(x) + 0.3125)
        for r in rows:
            ss.add(r["score"])
        if out[0] != "ok":
            ctx.violation(dict(kind="warm-start-smbo-raises", exception=out[0]), dict(space=jsonable(space), frame=jsonable(rows), error=out[1]),
                          "constructing with warm_start_smbo raised %s: %s" % (out[0], out[1]))
            continue
        # monitor: exactly the finite rows whose values are members, in order, with their own scores
        want = []
        for r in rows:
            if not math.isfinite(r["score"]):
                continue
            pos = []
            for n in names:
                hit = [i for i in range(len(space[n])) if float(space[n][i]) == r[n]]
                if not hit:
                    pos = None
                    break
                pos.append(hit[0])
            if pos is not None:
                want.append((tuple(pos), r["score"]))
        ctx.monitor_runs += 1
        if [tuple(p) for p in out[1]] != [p for p, _ in want] or out[2] != [s for _, s in want]:
            ctx.violation(dict(kind="warm-start-smbo-filter"), dict(space=jsonable(space), frame=jsonable(rows), X=out[1], Y=out[2], want=jsonable(want)),
                          "warm_start_smbo: X_sample / Y_sample are not the finite in-space rows with their own scores")
        sp = clist([clist([vs.z(x) for x in a]) for a in space.values()], lambda s: s)
        rl = clist(rows, lambda r: "(%s, %s)" % (clist([vs.z(r[n]) for n in names]), ss.score(r["score"])))
        wl.append("(match init_warm_start_smbo %s %s with Ok (ps, ys) => list_eqb pe ps %s && list_eqb score_same ys %s | Err _ => false end)"
                  % (sp, rl, clist(out[1], clist), clist(out[2], ss.score)))
        wc.append(dict(space=jsonable(space), frame=jsonable(rows), X=out[1], Y=out[2]))
        uw.count((repr(jsonable(space)), repr(rows)), nontrivial=len(out[1]) < len(rows))
    ut.samples, up.samples, uw.samples = tc[:2], pc[:2], wc[:2]
    hdr = "Require Import Converter CoreOpt Smbo Pop C17_proofs.\nDefinition pe := list_eqb Z.eqb."
    usp.samples = spc[:2]
    for u, lits, cases, note in ((ut, tl, tc, "X/Y/candidate tracking differs from the model"), (up, pl, pc, "the proposal is not an acquisition maximiser of the model's rule"),
                                 (usp, spl, spc, "TPE's best / worst split is not the split of one argsort of Y_sample"),
                                 (uw, wl, wc, "init_warm_start_smbo differs from the model")):
        failing, err = coq_eval_cases(u.name, hdr, "bool", lits, "fun b => b", shard=60)
        u.error = err
        for i in failing[:10]:
            u.mismatches.append(dict(case=cases[i], note=note))


def replay(ctx, data):
    import json
    print(json.dumps(data, indent=1)[:6000])
    return 0
