"""C11 — memory_warm_start rows are trusted verbatim and never re-evaluated."""
import math
import numpy as np
import pandas as pd
import gen, drive, dunit
from common import jsonable
from props import c20


def make_frame(rng, space, table, kind, prev=None):
    names = list(space.keys())
    allp = gen.all_positions(space)
    if kind == "prev" and prev is not None and len(prev):
        df = prev.copy()
    else:
        k = rng.randint(1, max(1, min(len(allp), 8)))
        ps = [allp[rng.randrange(len(allp))] for _ in range(k)]          # duplicates allowed
        rows = []
        for p in ps:
            row = {n: space[n][i] for n, i in zip(names, p)}
            row["score"] = float(rng.choice([-7.5, -1.0, 0.0, 3.25, 100.0, math.nan, math.inf]))   # NOT the objective's value
            rows.append(row)
        df = pd.DataFrame(rows)
    # realistic frames are filtered / shuffled / concatenated pieces of earlier search_data: their index is
    # NOT 0..n-1 (labels kept from the original frame, permuted, or repeated)
    r = rng.random()
    if r < 0.25 and len(df) > 1:
        keep = [i for i in range(len(df)) if rng.random() < 0.7] or [len(df) - 1]
        df = df.iloc[keep]                                   # subset, original labels kept
    elif r < 0.5 and len(df) > 1:
        order = list(range(len(df)))
        rng.shuffle(order)
        df = df.iloc[order]                                  # shuffled rows, labels permuted
    elif r < 0.65:
        df = pd.concat([df, df.iloc[[0]]])                    # duplicate label
    elif r < 0.75:
        df = df.copy()
        df.index = [100 + 3 * i for i in range(len(df))]     # unrelated labels
    if rng.random() < 0.4:
        df = df.copy()
        df["extra_col"] = 1.0
    if rng.random() < 0.4:
        cols = list(df.columns)
        rng.shuffle(cols)
        df = df[cols]
    return df


def monitor(ctx, spec, r):
    name = spec["name"]
    sig = dict(optimizer=name)
    if r["exc"] is not None:
        # C11 says nothing about exceptions; a crash here (e.g. the known C15 crashes when the frame supplies only
        # non-finite scores during initialisation) belongs to another property: the run is blocked, not a violation
        ctx.blocked.append(dict(spec=dunit.spec_brief(spec), exc=r["exc"][:2]))
        return
    space = spec["space"]
    names = list(space.keys())
    obj = r["obj"]
    row0, call0 = 0, 0
    for ci, (c, o) in enumerate(zip(spec["calls"], r["obs"])):
        df = c.get("memory_warm_start")
        rows = o["rows"][row0:]
        calls = [tuple(x) for x in o["fcalls"][call0:]]
        row0, call0 = len(o["rows"]), len(o["fcalls"])
        if df is None or not c.get("memory", True):
            continue
        frame = {}
        for _, fr in df.iterrows():
            frame[tuple(float(fr[n]) for n in names)] = float(fr["score"])        # last row wins
        case = dict(spec=dunit.spec_full(spec), call=ci)
        for v in calls:
            if v in frame:
                ctx.violation(dict(sig, kind="warm-row-evaluated"), dict(case, values=v),
                              "parameter set %r is in the memory_warm_start frame but was passed to the objective" % (v,))
                return
        for row in rows:
            v = tuple(row["values"])
            if v in frame:
                want = frame[v]
                if not (row["score"] == want or (math.isnan(want) and math.isnan(row["score"]))):
                    ctx.violation(dict(sig, kind="warm-score"), dict(case, values=v, row_score=row["score"], frame_score=want),
                                  "row for %r reports %r but the frame says %r" % (v, row["score"], want))
                    return
            else:
                want = obj.vtable[v][0]
                if not (row["score"] == want or (math.isnan(want) and math.isnan(row["score"]))):
                    ctx.violation(dict(sig, kind="cold-score"), dict(case, values=v, row_score=row["score"], objective=want),
                                  "row for %r (not in the frame) reports %r but objective(parameters) = %r" % (v, row["score"], want))
                    return


def pre_build(ctx):
    import gen_units
    gen_units.pre_build(ctx, "translate_memory")


def run(ctx):
    import gen_units
    gen_units.g_unit(ctx, "translate_memory")
    import common as _common
    _common.guarded(ctx, "K-units", c20.run, ctx, only={"memory_dict<->dataframe", "values2positions", "value2position"})
    u = ctx.unit("D:search(memory_warm_start)", "D",
                 "search() with memory_warm_start frames: arbitrary subsets of the space with scores that differ from the "
                 "objective's, duplicate rows, extra and shuffled columns, frames taken from the previous call's search_data "
                 "(chained), the memory given as True or as a multiprocessing.Manager().dict(); spaces in ascending/descending/shuffled order, int and float; the model driver loads the same "
                 "frame; non-trivial = a frame position is visited; distinct by spec")
    ctx.monitor_rule = ("no parameter set of the frame is ever passed to the objective; its rows report the frame's score "
                        "(last such row); all other rows report objective(parameters)")
    rng = ctx.sub_rng("d")
    names = gen.FAST if ctx.quick else gen.ALL
    results = []
    mgr = None
    for i in range(100 if ctx.quick else 700):
        name = gen.rotate(names, i, ctx.quick)
        spec = dunit.general_spec(rng, name, max_calls=3, metrics=0, sizes=(2, 3, 5), max_points=30, n_max=14, memory=True, dups=0.25,
                                  verbosity=False, ndims=rng.choice([1, 2, 2, 3]), steps_api=False)
        if name in ("GeneticAlgorithmOptimizer", "DifferentialEvolutionOptimizer"):
            spec["cfg"] = {k: v for k, v in (spec["cfg"] or {}).items() if k != "population"}
        # chained: run call by call so that later frames can be earlier search_data
        prev = None
        spec["calls"][0]["memory_warm_start"] = make_frame(rng, spec["space"], spec["table"], "subset")
        if i < 4 or rng.random() < 0.12:
            # the memory given as a shared dictionary (multiprocessing.Manager().dict()) together with the frame: the frame's rows must be
            # loaded into THAT dictionary
            if mgr is None:
                import multiprocessing as _mp
                mgr = _mp.get_context("fork").Manager()
            spec["shared_memory_call0"] = True
        r = None
        for ci in range(len(spec["calls"])):
            if ci > 0:
                kind = rng.choice(["prev", "subset", "none"])
                if kind != "none":
                    spec["calls"][ci]["memory_warm_start"] = make_frame(rng, spec["space"], spec["table"], kind, prev)
            part = dict(spec, calls=[dict(c_) for c_ in spec["calls"][:ci + 1]])
            if spec.get("shared_memory_call0"):
                part["calls"][0]["memory"] = mgr.dict()        # a fresh shared dictionary for every (re-)run of the call sequence
            r = dunit.run_case(part)
            if r["exc"] is not None or r["opt"] is None:
                break
            prev = r["opt"].search_data
        results.append((part, r))
        spec_used = results[-1][0]
        key = (spec["name"], spec["seed"], tuple(c["n_iter"] for c in spec["calls"]))
        visited = False
        if r["obs"]:
            df0 = spec["calls"][0]["memory_warm_start"]
            nm = list(spec["space"].keys())
            fr = {tuple(float(x[n]) for n in nm) for _, x in df0.iterrows()}
            visited = any(tuple(row["values"]) in fr for row in r["obs"][0]["rows"])
        u.count(key, nontrivial=visited)
        u.bump(spec["name"])
        ctx.monitor_runs += 1
        ctx.monitor_nontrivial.add(key)
        monitor(ctx, spec_used, r)
    if mgr is not None:
        try:
            mgr.shutdown()
        except Exception:
            pass
    u.samples = [dunit.spec_brief(s) for s, _ in results[:2]]
    dunit.eval_d_unit(u, results)


def replay(ctx, data):
    import json
    print(json.dumps(data, indent=1)[:6000])
    return 0
