"""C18 — step API and public facades are equivalent to search() / the backend classes."""
import math, io, contextlib, json, os
import numpy as np
import gen, drive, dunit
import translate_facades as tf
from common import jsonable, COQ

NONDEFAULT = {
    "alpha": 1.5, "annealing_rate": 0.9, "beta": 0.7, "cognitive_weight": 0.9, "crossover_rate": 0.2, "decay_rate": 0.9,
    "direction": "orthogonal", "distribution": "laplace", "epsilon": 0.4, "gamma": 3, "gamma_tpe": 0.5, "inertia": 0.9,
    "initialize": {"random": 3, "vertices": 1}, "iters_p_dim": 3, "max_sample_size": 50, "mutation_rate": 0.2,
    "n_iter_restart": 3, "n_iter_swap": 2, "n_neighbours": 1, "n_parents": 3, "n_positions": 2, "offspring": 4,
    "p_accept": 0.1, "pattern_size": 0.5, "population": 6, "rand_rest_p": 0.3, "reduction": 0.5, "replace_parents": True,
    "replacement": False, "repulsion_factor": 2, "sampling": {"random": 20}, "sigma": 0.1, "social_weight": 0.1,
    "start_temp": 3, "step_size": 2, "temp_weight": 0.5, "tree_para": {"n_estimators": 5}, "tree_regressor": "random_forest",
    "xi": 0.3, "nth_process": 2, "crossover": "discrete-recombination",
}
SLOW_CLASSES = {"BayesianOptimizer", "TreeStructuredParzenEstimators", "ForestOptimizer", "LipschitzOptimizer", "EnsembleOptimizer"}


def pre_build(ctx):
    import gen_units
    gen_units.pre_build(ctx, "translate_search")
    """Regenerate generated/FacadeData.v from /repo's source before the Coq build."""
    ctx._facade_info = tf.translate()


def run_pair(cls_a, cls_b, space, kwargs, n_iter, seed):
    outs = []
    for cls in (cls_a, cls_b):
        def objective(para):
            return -float(sum((float(v) - 1.0) ** 2 for v in para.values()))
        np.random.seed(7)
        import random
        random.seed(7)
        try:
            opt = cls(space, random_state=seed, **kwargs)
            with contextlib.redirect_stdout(io.StringIO()), contextlib.redirect_stderr(io.StringIO()):
                opt.search(objective, n_iter=n_iter, verbosity=False)
            outs.append(("ok", opt.search_data.to_dict("list"), float(opt.best_score), jsonable(opt.best_para)))
        except Exception as e:
            outs.append((type(e).__name__, str(e)[:100]))
    return outs


def facade_behaviour(ctx):
    import gradient_free_optimizers as gfo
    from gradient_free_optimizers import optimizers as backends
    from gradient_free_optimizers.search import Search
    u = ctx.unit("X:facade vs (backend, Search)", "support",
                 "every public class against `class T(backend, Search)` with the same constructor arguments: defaults, and each "
                 "parameter set to a non-default value (one at a time, and all jointly) and to an explicit falsy value (initialize={}, "
                 "constraints=[], rand_rest_p=0, nth_process=0), same seed; compared: search_data, best; "
                 "non-trivial = a non-default parameter; distinct by (class, parameter)")
    info = getattr(ctx, "_facade_info", None) or json.load(open(os.path.join(COQ, "generated", "facade_tables.json")))["facades"]
    space = {"x": np.arange(0, 6), "y": np.array([0.0, 0.5, 1.0, 1.5, 2.0])}
    for fa in info:
        name = fa["facade"]
        if ctx.quick and name in SLOW_CLASSES and ctx.seed % 2 == 0 and name != "LipschitzOptimizer":
            n_iter = 14
        else:
            n_iter = 22
        facade = getattr(gfo, name)
        backend = getattr(backends, fa["backend"])
        T = type("T_" + name, (backend, Search), {})
        plist = [p for p, d in fa["params"] if p in NONDEFAULT]
        trials = [dict()] + [{p: NONDEFAULT[p]} for p in plist] + [{p: NONDEFAULT[p] for p in plist}]
        # explicit FALSY arguments (an `x or default` in a facade would replace them): empty initialize / constraints, zeros
        pnames = [p for p, d in fa["params"]]
        for fk, fv in (("initialize", {}), ("constraints", []), ("rand_rest_p", 0), ("nth_process", 0)):
            if fk in pnames:
                trials.append({fk: fv})
        if ctx.quick and name in SLOW_CLASSES:
            trials = trials[:1] + [t_ for t_ in trials[1:] if set(t_) <= {"initialize", "constraints", "rand_rest_p", "nth_process"} and len(t_) == 1][:2] + trials[-5:-4]
        for kw in trials:
            if "population" in kw and name in ("GeneticAlgorithmOptimizer", "DifferentialEvolutionOptimizer"):
                kw = dict(kw, population=6)
            a, b = run_pair(facade, T, space, kw, n_iter, seed=3)
            u.count((name, tuple(sorted(kw))), nontrivial=bool(kw))
            ctx.monitor_runs += 1
            ctx.monitor_nontrivial.add((name, tuple(sorted(kw))))
            if jsonable(a) != jsonable(b):
                ctx.violation(dict(kind="facade-differs", facade=name, params=sorted(kw)),
                              dict(facade=name, backend=fa["backend"], kwargs=jsonable(kw), facade_run=jsonable(a)[:2], backend_run=jsonable(b)[:2]),
                              "%s(%s) behaves differently from its backend class combined with Search" % (name, ", ".join(sorted(kw))))
    u.samples = [dict(facade=info[0]["facade"], params=[p for p, _ in info[0]["params"]])]
    # the data the theorem is about: name the offending parameter if a facade is not well forwarded
    for fa in info:
        P = dict(fa["params"])
        B = dict(fa["backend_params"])
        fw = {k: v for k, v, _ in fa["forwards"]}
        bad = []
        for k, v, txt in fa["forwards"]:
            if v != k:
                bad.append("keyword %s is given `%s`" % (k, txt))
            if k not in B:
                bad.append("keyword %s is not a backend parameter" % k)
        for p in P:
            if p not in fw:
                bad.append("parameter %s is not forwarded" % p)
            elif p in B and B[p] != P[p]:
                bad.append("default of %s is %s in the facade but %s in the backend" % (p, P[p], B[p]))
        if not fa["shape_ok"]:
            bad.append("class shape is not `class X(_X, Search)` with a forwarding-only __init__")
        for msg in bad:
            ctx.violation(dict(kind="facade-forwarding", facade=fa["facade"]), dict(facade=fa["facade"], file=fa["file"], detail=msg),
                          "%s: %s" % (fa["facade"], msg))


def run(ctx):
    import gen_units
    gen_units.g_unit(ctx, "translate_search")
    ut = ctx.unit("T:facade translator", "translator",
                  "ast translation of optimizer_search/*.py and the backend signatures into generated/FacadeData.v (fail-closed); "
                  "one case per public class; non-trivial = the class has algorithm-specific parameters")
    info = getattr(ctx, "_facade_info", None)
    if info is None:
        ut.error = "translator did not run (see pre-build)"
    else:
        for fa in info:
            ut.count(fa["facade"], nontrivial=len(fa["params"]) > 6)
        ut.samples = [dict(facade=info[0]["facade"], params=info[0]["params"], forwards=info[0]["forwards"])]
        ut.exhaustive = True
    u = ctx.unit("D:search vs step API", "D",
                 "the same spec driven once through search() and once through init_search / search_step(0..N-1) / finish_search "
                 "(no stopping criterion, or one that cannot trigger), rotating optimizers; both runs are replayed in the model "
                 "driver (search vs search_by_steps); non-trivial = N > n_inits; distinct by spec")
    ctx.monitor_rule = ("paired runs: search() and the step API give identical search_data, best_score, best_para; every facade "
                        "behaves like (backend, Search) for default and non-default parameters")
    rng = ctx.sub_rng("d")
    names = gen.FAST if ctx.quick else gen.ALL
    results = []
    for i in range(72 if ctx.quick else 500):
        name = gen.rotate(names, i, ctx.quick)
        spec = dunit.general_spec(rng, name, max_calls=2, metrics=rng.choice([0, 1]), sizes=(2, 3, 5), max_points=60, n_max=14,
                                  verbosity=False, steps_api=False)
        if name in ("GeneticAlgorithmOptimizer", "DifferentialEvolutionOptimizer"):
            spec["cfg"] = {k: v for k, v in (spec["cfg"] or {}).items() if k != "population"}
        if rng.random() < 0.3:
            for c in spec["calls"]:
                c["max_score"] = 1e9           # a criterion that cannot trigger
        r1 = dunit.run_case(spec)
        spec2 = dict(spec, steps_api=True)
        r2 = dunit.run_case(spec2)
        results.append((spec, r1))
        results.append((spec2, r2))
        key = (spec["name"], spec["seed"], tuple(c["n_iter"] for c in spec["calls"]))
        u.count(key + ("search",), nontrivial=True)
        u.count(key + ("steps",), nontrivial=True)
        u.bump(spec["name"])
        ctx.monitor_runs += 2
        ctx.monitor_nontrivial.add(key)
        if r1["exc"] is None and r2["exc"] is None:
            a, b = r1["obs"][-1], r2["obs"][-1]
            for fld in ("rows", "best_para", "best_score", "memory_dict"):
                if jsonable(a[fld]) != jsonable(b[fld]):
                    ctx.violation(dict(kind="step-api", optimizer=name, field=fld), dict(spec=dunit.spec_full(spec)),
                                  "search() and the step API differ in %s" % fld)
                    break
        elif (r1["exc"] is None) != (r2["exc"] is None):
            ctx.violation(dict(kind="step-api", optimizer=name, field="exception"), dict(spec=dunit.spec_full(spec), exc=[jsonable(r1["exc"]), jsonable(r2["exc"])]),
                          "only one of search() / step API raised")
    u.samples = [dunit.spec_brief(s) for s, _ in results[:2]]
    dunit.eval_d_unit(u, results)
    import common as _common
    _common.guarded(ctx, "facade behaviour", facade_behaviour, ctx)


def replay(ctx, data):
    print(json.dumps(data, indent=1)[:6000])
    return 0
