"""C03 — search(n_iter=N) performs exactly N steps; step accounting is exact."""
import math
import numpy as np
import gen, drive, dunit
from common import jsonable


def monitor(ctx, spec, r):
    name = spec["name"]
    cfg = spec.get("cfg") or {}
    sig = dict(optimizer=name, population=cfg.get("population"), replacement=cfg.get("replacement"))
    if r["exc"] is not None:
        done = list(getattr(r.get("opt"), "pos_l", None) or [])
        sig.update(kind="raises", exception=r["exc"][0], phase=r.get("phase"),
                   exhausted=(gen.space_exhausted(spec, done) and spec.get("feasible") is None))
        ctx.violation(sig, dict(spec=dunit.spec_full(spec), traceback=r["exc"][2]),
                      "%s: search() raised %s: %s" % (name, r["exc"][0], r["exc"][1]))
        return
    n_inits = r["n_inits"]
    tot = 0
    prev = dict(rows=0, evalt=0, itert=0)
    for c, o in zip(spec["calls"], r["obs"]):
        N = c["n_iter"]
        tot += N
        ni, nt, nis, nts, _ = o["counters"]
        msgs = []
        if len(o["rows"]) != tot:
            msgs.append("rows=%d after %d requested steps" % (len(o["rows"]), tot))
        if len(o["eval_times"]) != tot or len(o["iter_times"]) != tot:
            msgs.append("eval_times/iter_times have %d/%d entries for %d steps" % (len(o["eval_times"]), len(o["iter_times"]), tot))
        if ni != min(n_inits, tot):
            msgs.append("n_init_total=%d but min(n_inits=%d, steps=%d)" % (ni, n_inits, tot))
        if ni + nt != tot:
            msgs.append("init+iter counters %d+%d != rows %d" % (ni, nt, tot))
        if nis + nts != N:
            msgs.append("per-call counters %d+%d != N=%d" % (nis, nts, N))
        if any(not (0 <= e <= i) for e, i in zip(o["eval_times"], o["iter_times"])):
            msgs.append("not 0 <= eval_time <= iter_time")
        if len(o["pos_l"]) != tot or len(o["score_l"]) != tot:
            msgs.append("pos_l/score_l length")
        for m in msgs:
            ctx.violation(dict(sig, kind="accounting"), dict(spec=dunit.spec_full(spec), call=jsonable(c)), "%s: %s" % (name, m))


def specs(ctx, n):
    rng = ctx.sub_rng("d")
    names = gen.FAST if ctx.quick else gen.ALL
    out = []
    for i in range(n):
        name = gen.rotate(names, i, ctx.quick)
        sp = dunit.general_spec(rng, name, max_calls=4, memory=None, verbosity=False, metrics=0, n_max=12)
        r = rng.random()
        if name in gen.POPULATION and r < 0.5:
            lo = 1
            sp["cfg"] = dict(sp["cfg"] or {}, population=rng.choice([1, 2, 3, 4, 5, 7, 12]))
        if r > 0.85:      # degenerate spaces
            sp2 = dunit.general_spec(rng, name, max_calls=3, verbosity=False, metrics=0, sizes=(1, 1, 2), n_max=6)
            sp2["cfg"] = sp["cfg"]
            sp = sp2
        for c in sp["calls"]:
            c["memory"] = rng.random() < 0.5
            # every verbosity setting incl. the library default (printing paths divide by the summed times), and N = 0
            c["verbosity"] = rng.choice([False, False, [], ["progress_bar"], ["print_results"], ["print_times"],
                                         ["progress_bar", "print_results", "print_times"]])
            if rng.random() < 0.12:
                c["n_iter"] = 0
        sp["steps_api"] = False
        out.append(sp)
    return out


def smbo_warm_specs(ctx):
    """the model-based optimizers with a warm_start_smbo frame mixing in-space, out-of-space and non-finite rows, searched beyond the
    initialisation (the first model-based step is where the frame's rows are used)"""
    import inspect
    import pandas as pd
    rng = ctx.sub_rng("smbo-warm")
    out = []
    names = [n for n in gen.ALL if "warm_start_smbo" in inspect.signature(gen.opt_class(n).__init__).parameters]
    for rd in range(1 if ctx.quick else 5):
        for name in names:
            sp = dunit.general_spec(rng, name, max_calls=2, memory=None, verbosity=False, metrics=0, sizes=(3, 5, 8), max_points=60, n_max=8, ndims=rng.choice([1, 2]))
            space = sp["space"]
            pnames = list(space.keys())
            rows = []
            for _ in range(rng.randint(3, 7)):
                row = {n_: float(space[n_][rng.randrange(len(space[n_]))]) for n_ in pnames}
                kind = rng.choice(["in", "in", "out", "out", "nonfinite"])
                if kind == "out":
                    row[rng.choice(pnames)] += 0.3125
                row["score"] = float(rng.choice([-2.0, 0.5, 3.0])) if kind != "nonfinite" else rng.choice([math.nan, math.inf, -math.inf])
                rows.append(row)
            sp["cfg"] = dict({k: v for k, v in (sp["cfg"] or {}).items() if k != "warm_start_smbo"}, warm_start_smbo=pd.DataFrame(rows))
            sp["init"] = {"random": rng.choice([2, 3])}
            n_inits = sum(v for v in sp["init"].values())
            sp["calls"] = [dict(n_iter=n_inits + rng.choice([2, 4]), memory=rng.random() < 0.5, verbosity=False)] + \
                          ([dict(n_iter=3, memory=False, verbosity=False)] if rng.random() < 0.5 else [])
            sp["feasible"] = None
            sp["steps_api"] = False
            out.append(sp)
    return out


def pre_build(ctx):
    import gen_units
    gen_units.pre_build(ctx, "translate_search")


def run(ctx):
    import gen_units
    gen_units.g_unit(ctx, "translate_search")
    u = ctx.unit("D:search(call histories)", "D",
                 "1-4 consecutive search() calls (N from 0 to 14, smaller/larger than n_inits and population; every verbosity setting), all "
                 "optimizers in rotation, populations 1..12, degenerate (single-point / size-1) spaces, memory on/off, "
                 "virtual clock with optional read cost; model-based optimizers with warm_start_smbo frames (in-space, out-of-space, non-finite rows) searched past "
                 "the initialisation; the model driver replays the recorded proposals; "
                 "non-trivial = >= 2 steps in total; distinct by (optimizer, config, space shape, call sizes, seed)")
    ctx.monitor_rule = ("after every call: rows == sum N, n_init_total == min(n_inits, sum N), init+iter counters == rows, "
                        "one eval_time/iter_time per step with 0 <= eval <= iter, no exception")
    results = []
    for spec in specs(ctx, 150 if ctx.quick else 900) + smbo_warm_specs(ctx):
        r = dunit.run_case(spec)
        results.append((spec, r))
        key = (spec["name"], repr(spec["cfg"]), tuple(m[2] for m in spec["meta"]), tuple(c["n_iter"] for c in spec["calls"]), spec["seed"])
        u.count(key, nontrivial=sum(c["n_iter"] for c in spec["calls"]) >= 2)
        u.bump(spec["name"])
        ctx.monitor_runs += 1
        ctx.monitor_nontrivial.add(key)
        monitor(ctx, spec, r)
    u.samples = [dunit.spec_brief(s) for s, _ in results[:2]]
    dunit.eval_d_unit(u, results)


REPLAY = ("case", monitor)      # harness/replay.py re-executes a recorded spec through this monitor


def replay(ctx, data):
    import json
    print(json.dumps(data, indent=1)[:6000])
    return 0
