"""Correspondence units of the move operators (filled in as the Coq core grows)."""


def run_units(ctx):
    try:
        from props import core_units
    except ImportError:
        return
    core_units.run(ctx, which=ctx.pid)
