"""C19 — tracked best / current states are grounded in real evaluations."""
import math
import numpy as np
import gen, instr, sweep, dunit
from common import jsonable
from props import core_units, c02

GREEDY = {"HillClimbingOptimizer", "RepulsingHillClimbingOptimizer", "RandomRestartHillClimbingOptimizer", "RandomAnnealingOptimizer"}


def same(a, b):
    return (a == b) or (isinstance(a, float) and isinstance(b, float) and math.isnan(a) and math.isnan(b))


def monitor(ctx, spec, out):
    name = spec["name"]
    sig = dict(optimizer=name)
    if out["exc"] is not None:
        ctx.blocked.append(dict(spec=dunit.spec_brief(spec), exc=out["exc"][:2]))
    hist = []          # evaluated (position, score) pairs so far
    prev = {}
    for st in out["steps"]:
        if st["pos"] is None:
            continue
        hist.append((st["pos"], st["score"]))
        for who, s in st["states"].items():
            if who in ("powell_inner",):
                continue        # a helper optimizer on a different (1-D position) space
            for label in ("current", "best"):
                p, sc = s["pos_" + label], s["score_" + label]
                if p is None:
                    continue
                if not any(p == hp and same(sc, hs) for hp, hs in hist):
                    ctx.violation(dict(sig, kind="ungrounded-" + label, member=(who != "self")),
                                  dict(spec=dunit.spec_full(spec), step=[st["call"], st["k"]], who=who, pair=[p, sc], step_pos=st["pos"], step_score=st["score"]),
                                  "%s (%s): tracked %s pair (%r, %r) was never evaluated (step evaluated %r with score %r)"
                                  % (name, who, label, p, sc, st["pos"], st["score"]))
                    return
            old = prev.get(who)
            if old is not None:
                if old["score_best"] is not None and s["score_best"] is not None and old["score_best"] > s["score_best"]:
                    ctx.violation(dict(sig, kind="best-decreased", member=(who != "self")),
                                  dict(spec=dunit.spec_full(spec), step=[st["call"], st["k"]], who=who, before=old["score_best"], after=s["score_best"]),
                                  "%s (%s): tracked best score decreased from %r to %r" % (name, who, old["score_best"], s["score_best"]))
                    return
                if name in GREEDY and who == "self" and old["score_current"] > s["score_current"]:
                    ctx.violation(dict(sig, kind="current-decreased"),
                                  dict(spec=dunit.spec_full(spec), step=[st["call"], st["k"]], before=old["score_current"], after=s["score_current"]),
                                  "%s: current score decreased from %r to %r" % (name, old["score_current"], s["score_current"]))
                    return
            prev[who] = s


def pre_build(ctx):
    core_units.pre_build_tracker(ctx)


def run(ctx):
    import common as _common
    _common.guarded(ctx, "K/S-units", core_units.run, ctx, which="C19")
    ctx.monitor_rule = ("after every step, for the optimizer and each population member / grid back-end: the tracked current and best "
                        "(position, score) pairs are among the pairs evaluated so far; best never decreases; current never "
                        "decreases for the four greedy variants; ties, non-finite scores (also long runs over tables that are 25-40% non-finite), constraints (fallback moves); "
                        "distinct by (optimizer, seed)")
    n_fast, n_slow = (90, 8) if ctx.quick else (720, 60)
    specs = sweep.sweep_specs(ctx, "c19", n_fast, n_slow, constraint=0.6, nonfinite=(0, 0, 0.15), ckinds=["parity", "band", "mask", "halfspace"])
    rng = ctx.sub_rng("c19-pop")
    for i in range(18 if ctx.quick else 120):       # populations under lattice constraints: the fallback paths
        name = gen.POPULATION[i % len(gen.POPULATION)]
        spec = dunit.general_spec(rng, name, max_calls=1, metrics=0, sizes=(5, 8), max_points=100, n_max=30, verbosity=False,
                                  steps_api=True, ndims=2, cfg=dict(population=rng.choice([4, 5, 6])))
        spec["calls"][0]["n_iter"] = 30
        feas, desc = gen.gen_constraint(rng, spec["space"], kind=rng.choice(["parity", "band"]))
        spec["feasible"], spec["constraint_desc"] = feas, desc
        specs.append(spec)
    # per optimizer a longer run over a table with a large non-finite part (-inf / NaN / +inf): the look-backs over the "valid" history
    # (best of the last n neighbours, pattern positions, simplex / Powell bookkeeping) must keep positions and scores aligned
    rng2 = ctx.sub_rng("c19-nonfinite")
    lookback = ["PatternSearch", "HillClimbingOptimizer", "StochasticHillClimbingOptimizer", "RepulsingHillClimbingOptimizer", "SimulatedAnnealingOptimizer",
                "RandomRestartHillClimbingOptimizer", "RandomAnnealingOptimizer", "DownhillSimplexOptimizer", "PowellsMethod", "PatternSearch", "PatternSearch"]
    for rd in range(1 if ctx.quick else 4):
        plus = sorted(set(lookback)) * 2        # and, per look-back optimizer, two runs whose only non-finite value is +inf (the one that wins `>`)
        for ix_, name in enumerate(gen.ALL + lookback + lookback + plus):
            only_plus_inf = ix_ >= len(gen.ALL) + 2 * len(lookback)
            slow = name in gen.SLOW
            spec = dunit.general_spec(rng2, name, max_calls=1, metrics=0, sizes=(5, 8, 12), max_points=150, n_max=40, verbosity=False,
                                      steps_api=True, ndims=2, nonfinite=rng2.choice([0.25, 0.4]))
            if only_plus_inf:
                spec["table"] = {p_: ((math.inf, None) if rng2.random() < 0.25 else (v_[0] if math.isfinite(v_[0]) else -1.0, None)) for p_, v_ in spec["table"].items()}
            elif rng2.random() < 0.5:
                # a contiguous penalty region (score -inf / NaN beyond a diagonal) instead of scattered non-finite points
                dims_ = [len(v) for v in spec["space"].values()]
                cut = int(sum(dims_) * rng2.choice([0.45, 0.6]))
                pen = rng2.choice([-math.inf, -math.inf, math.nan, math.inf])
                spec["table"] = {p_: ((pen, None) if sum(p_) > cut else (-float((p_[0] - dims_[0] + 1) ** 2 + (p_[1] - dims_[1] + 1) ** 2), None)) for p_ in spec["table"]}
            if name in ("GeneticAlgorithmOptimizer", "DifferentialEvolutionOptimizer"):
                spec["cfg"] = {k: v for k, v in (spec["cfg"] or {}).items() if k != "population"}
            spec["calls"][0]["n_iter"] = 14 if slow else 45
            spec["calls"][0]["memory"] = False
            spec["feasible"] = None
            specs.append(spec)
    # per optimizer two longer runs with hyper-parameters at / beyond the ends of their ranges (rand_rest_p > 0 in part of them)
    specs += sweep.extreme_specs(ctx, "c19", rounds=(1 if ctx.quick else 4))
    for spec in specs:
        out = instr.run_steps(spec, per_step_s=8)
        ctx.monitor_runs += 1
        ctx.monitor_nontrivial.add((spec["name"], spec["seed"]))
        monitor(ctx, spec, out)


REPLAY = ("steps", monitor)      # harness/replay.py re-executes a recorded spec through this monitor


def replay(ctx, data):
    import json
    print(json.dumps(data, indent=1)[:6000])
    return 0
