"""C15 — non-finite scores never crash a search nor become the reported best."""
import math, itertools
import numpy as np
import gen, instr, sweep, dunit
from common import jsonable
from props import core_units, c01

NAN, INF = math.nan, math.inf


def mask_specs(ctx):
    """per optimizer: masks over the first k steps with NaN / +inf / -inf (covering 'no finite score during initialisation')"""
    rng = ctx.sub_rng("c15-mask")
    out = []
    k = 4 if ctx.quick else 6
    names = gen.ALL
    kinds = [None, NAN, INF, -INF]
    for name in names:
        slow = name in gen.SLOW
        masks = []
        # all-invalid prefixes of every length, single kinds and mixtures; then random masks
        for ln in range(1, k + 1):
            for kind in (NAN, INF, -INF):
                masks.append([kind] * ln)
        if ctx.quick:
            masks = masks[:: (3 if slow else 2)]
        nrand = (2 if slow else 5) if ctx.quick else (10 if slow else 40)
        for _ in range(nrand):
            ln = rng.randint(1, k + 4)
            masks.append([rng.choice(kinds) for _ in range(ln)])
        if not ctx.quick and not slow:
            for m in itertools.product(kinds, repeat=4):
                masks.append(list(m))
        for mk in masks:
            space, meta = gen.gen_space(rng, ndims=rng.choice([1, 2]), sizes=(3, 5, 8), max_points=64)
            table, _ = gen.gen_table(rng, space, kind=rng.choice(["unimodal", "random", "negative"]))
            n_inits = rng.choice([1, 2, 3, 4])
            init = rng.choice([{"random": n_inits}, {"vertices": n_inits}, {"grid": n_inits, "random": 1}])
            n_iter = len(mk) + (6 if slow else 12)
            script = []
            for i in range(n_iter):
                m = mk[i] if i < len(mk) else None
                script.append(m)
            cfg = gen.gen_opt_config(rng, name, space) if rng.random() < 0.3 else {}
            if name in ("GeneticAlgorithmOptimizer", "DifferentialEvolutionOptimizer"):
                cfg.pop("population", None)
            feas_, desc_ = None, None
            if rng.random() < (0.7 if slow else 0.25) and int(np.prod([len(v) for v in space.values()])) >= 6 and name != "GridSearchOptimizer":   # grid search under constraints: findings F-D5 / F-D7 of C08 / C02
                # under constraints too: "legal points afterwards" includes satisfying them (the fallbacks taken while no finite score exists)
                feas_, desc_ = gen.gen_constraint(rng, space, kind=rng.choice(["halfspace", "band", "parity"]))
                init = {"random": n_inits}
            out.append(dict(name=name, space=space, table=table, mask=script, calls=[dict(n_iter=n_iter, memory=False, verbosity=False)],
                            seed=rng.randrange(10 ** 6), init=init, cfg=cfg, meta=meta, feasible=feas_, constraint_desc=desc_))
    # population optimizers: an all-invalid prefix covering the whole initialisation of a small population (every member's first score)
    # and the first iteration steps, for each kind
    for name in gen.POPULATION:
        pop = 4 if name in ("GeneticAlgorithmOptimizer", "DifferentialEvolutionOptimizer") else 3
        for kind in (NAN, -INF, INF):
            space, meta = gen.gen_space(rng, ndims=2, sizes=(3, 5, 8), max_points=64)
            table, _ = gen.gen_table(rng, space, kind="unimodal")
            n_iter = pop + 12
            script = [kind] * (pop + 2) + [None] * (n_iter - pop - 2)
            out.append(dict(name=name, space=space, table=table, mask=script, calls=[dict(n_iter=n_iter, memory=False, verbosity=False)],
                            seed=rng.randrange(10 ** 6), init={"random": 2}, cfg=dict(population=pop), meta=meta, feasible=None, constraint_desc=None))
    return out


class MaskedObjective(instr.ArgLogObjective):
    def __init__(self, space, table, mask):
        super().__init__(space, table)
        self.mask = mask

    def __call__(self, para):
        k = len(self.log)
        v = super().__call__(para)
        if k < len(self.mask) and self.mask[k] is not None:
            return self.mask[k]
        return v


def run_masked(spec, per_step_s=15):
    # run_steps builds its own objective; patch it through the script mechanism: scores by call index
    space = spec["space"]
    names = list(space.keys())
    base = instr.ArgLogObjective(space, spec["table"])
    script = []
    return spec


def monitor(ctx, spec, out):
    name = spec["name"]
    mask = spec["mask"]
    nonf = [("nan" if (m is not None and math.isnan(m)) else ("+inf" if m == INF else ("-inf" if m == -INF else "ok"))) for m in mask]
    n_inits = out.get("n_inits") or 0
    finite_in_init = any(x == "ok" for x in nonf[:n_inits]) if n_inits <= len(nonf) else True
    n_finite_init = sum(1 for x in nonf[:n_inits] if x == "ok") + max(0, n_inits - len(nonf))
    sig = dict(optimizer=name)
    case = dict(spec=dunit.spec_full(spec), mask=nonf, n_inits=n_inits)
    if out["exc"] is not None and gen.space_exhausted(spec, [st["pos"] for st in out["steps"] if st.get("pos") is not None]):
        # not a consequence of non-finite scores: replacement=False and every point already evaluated (finding F-D17 of C03)
        ctx.blocked.append(dict(optimizer=name, reason="SMBO with replacement=False exhausted the space (C03 finding F-D17)", exception=out["exc"][0]))
        return
    if out["exc"] is not None:
        import re
        fr = re.findall(r'gradient_free_optimizers/([\w/]+)\.py", line \d+, in (\w+)', out["exc"][2])
        where = ("%s:%s" % (fr[-1][0].split("/")[-1], fr[-1][1])) if fr else None
        ctx.violation(dict(sig, kind="raises", exception=out["exc"][0], where=where),
                      dict(case, traceback=out["exc"][2], at=out.get("at")),
                      "%s: search() raised %s (%s) with non-finite scores %r in the first steps (n_inits=%d)"
                      % (name, out["exc"][0], out["exc"][1], nonf[:8], n_inits))
        return
    opt = out["opt"]
    N = spec["calls"][0]["n_iter"]
    if len(out["steps"]) != N or len(opt.search_data) != N:
        ctx.violation(dict(sig, kind="lost-steps"), case, "%s: %d rows for n_iter=%d" % (name, len(opt.search_data), N))
        return
    scores = [s["score"] for s in out["steps"]]
    bs = float(opt.best_score)
    cand = [s for s in scores if not math.isnan(s)]
    if math.isnan(bs):
        ctx.violation(dict(sig, kind="nan-best"), case, "%s: best_score is NaN" % name)
        return
    if cand and bs != max(cand):
        ctx.violation(dict(sig, kind="wrong-best"), case, "%s: best_score=%r but the best non-NaN score is %r" % (name, bs, max(cand)))
        return
    # legal points afterwards
    c01.monitor(ctx, spec, out)
    if spec.get("feasible") is not None:
        from props import c02 as _c02
        _c02.monitor(ctx, spec, out)


def interleaved(ctx):
    """two optimizers of one class on spaces of different dimension, searched in turns (A, B, A, B, ...), the last score(s) of every call
    non-finite: state shared between instances (a module-level surrogate, class attributes) must not make a later call raise or lose steps"""
    import contextlib, io, traceback
    import gradient_free_optimizers as gfo
    rng = ctx.sub_rng("c15-interleaved")
    names = list(gen.SLOW) + (rng.sample([n for n in gen.ALL if n not in gen.SLOW], 6) if ctx.quick else [n for n in gen.ALL if n not in gen.SLOW])
    for rd in range(1 if ctx.quick else 4):
        for name in names:
            kind = rng.choice([NAN, -INF, INF, NAN])
            seed = rng.randrange(10 ** 6)
            spA = {"a0": np.arange(rng.choice([7, 9, 12]))}
            spB = {"b0": np.arange(rng.choice([4, 5])), "b1": np.arange(rng.choice([4, 6]))}
            turns = [rng.choice([4, 5, 6]) for _ in range(rng.choice([4, 5, 6]))]
            logs = {"A": [], "B": []}

            def mk(tag, names_):
                def f(para):
                    st = logs[tag]
                    k = st[-1]["k"]
                    st[-1]["k"] = k + 1
                    v = -float(sum((float(para[n]) - 2.0) ** 2 for n in names_))
                    if k >= st[-1]["n"] - st[-1]["tail"]:
                        v = kind
                    st[-1]["scores"].append(v)
                    return v
                return f
            fA, fB = mk("A", list(spA)), mk("B", list(spB))
            case = dict(optimizer=name, kind=repr(kind), seed=seed, turns=turns, dims_A=[len(v) for v in spA.values()], dims_B=[len(v) for v in spB.values()])
            ctx.monitor_runs += 1
            ctx.monitor_nontrivial.add((name, "interleaved", seed))
            try:
                with contextlib.redirect_stdout(io.StringIO()), contextlib.redirect_stderr(io.StringIO()):
                    cls = getattr(gfo, name)
                    A = cls(spA, random_state=seed, initialize={"random": 2})
                    B = cls(spB, random_state=seed + 1, initialize={"random": 3})
                    for i, n in enumerate(turns):
                        tag, o, f = ("A", A, fA) if i % 2 == 0 else ("B", B, fB)
                        logs[tag].append(dict(k=0, n=n, tail=rng.choice([1, 1, 2]), scores=[]))
                        o.search(f, n_iter=n, verbosity=False, memory=False)
                        sc = logs[tag][-1]["scores"]
                        if len(o.search_data) != sum(c["n"] for c in logs[tag]) or len(sc) != n:
                            ctx.violation(dict(optimizer=name, kind="lost-steps", scenario="interleaved"), dict(case, turn=i),
                                          "%s: turn %d (%s): %d rows after calls of %r steps" % (name, i, tag, len(o.search_data), [c["n"] for c in logs[tag]]))
                            break
                        bs = float(o.best_score)
                        cand = [x for x in sc if not math.isnan(x)]
                        if math.isnan(bs) or (cand and bs != max(cand)):
                            ctx.violation(dict(optimizer=name, kind="wrong-best", scenario="interleaved"), dict(case, turn=i, scores=[repr(x) for x in sc]),
                                          "%s: turn %d (%s): best_score=%r, scores %r" % (name, i, tag, bs, sc))
                            break
            except Exception as e:
                allpos = None
                tb = traceback.format_exc()[-1500:]
                if "replacement" in tb or "exhaust" in tb.lower():
                    ctx.blocked.append(dict(optimizer=name, reason="interleaved: space exhausted", exception=type(e).__name__))
                    continue
                ctx.violation(dict(optimizer=name, kind="raises", exception=type(e).__name__, scenario="interleaved"), dict(case, traceback=tb),
                              "%s: interleaved searches of two instances with trailing %r scores raised %s: %s" % (name, kind, type(e).__name__, str(e)[:200]))


def pre_build(ctx):
    core_units.pre_build_tracker(ctx)


def run(ctx):
    import common as _common
    _common.guarded(ctx, "K/S-units", core_units.run, ctx, which="C15")
    ctx.monitor_rule = ("per optimizer (all 22): scores of the first k steps replaced by NaN / +inf / -inf following masks (all-invalid "
                        "prefixes of every length up to k for each kind, random mixtures; thorough: all 4^4 masks): search() must not "
                        "raise, must produce n_iter rows, best_score must be the best non-NaN score, and every later point must "
                        "still be a genuine point (C01 monitor); plus two instances of one class on spaces of different dimension searched in turns with "
                        "non-finite trailing scores (shared module-level state); distinct by (optimizer, mask, seed)")
    for spec in mask_specs(ctx):
        # scores by objective-call index: memory is off so call index == step index
        tab_scores = spec["table"]
        script = [m for m in spec["mask"]]
        spec2 = dict(spec)
        # instr.ArgLogObjective's script returns the scripted value when not None-masked
        out = run_with_mask(spec2, script)
        ctx.monitor_runs += 1
        ctx.monitor_nontrivial.add((spec["name"], tuple("x" if m is None else repr(m) for m in script), spec["seed"]))
        monitor(ctx, spec, out)
    _common.guarded(ctx, "interleaved runs", interleaved, ctx)


def run_with_mask(spec, script):
    orig = instr.ArgLogObjective

    class Obj(orig):
        def __call__(self, para):
            k = len(self.log)
            v = orig.__call__(self, para)
            if k < len(script) and script[k] is not None:
                return script[k]
            return v
    instr.ArgLogObjective = Obj
    try:
        return instr.run_steps(spec, per_step_s=20)
    finally:
        instr.ArgLogObjective = orig


REPLAY = ("masked", monitor)      # harness/replay.py re-executes a recorded spec through this monitor


def replay(ctx, data):
    import json
    print(json.dumps(data, indent=1)[:6000])
    return 0
