"""C15 — non-finite scores never crash a search nor become the reported best."""
import math, itertools
import numpy as np
import gen, instr, sweep, dunit
from common import jsonable
from props import core_units, c01

NAN, INF = math.nan, math.inf


def mask_specs(ctx):
    """per optimizer: masks over the first k steps with NaN / +inf / -inf (covering 'no finite score during initialisation')"""
    rng = ctx.sub_rng("c15-mask")
    out = []
    k = 4 if ctx.quick else 6
    names = gen.ALL
    kinds = [None, NAN, INF, -INF]
    for name in names:
        slow = name in gen.SLOW
        masks = []
        # all-invalid prefixes of every length, single kinds and mixtures; then random masks
        for ln in range(1, k + 1):
            for kind in (NAN, INF, -INF):
                masks.append([kind] * ln)
        if ctx.quick:
            masks = masks[:: (3 if slow else 2)]
        nrand = (2 if slow else 5) if ctx.quick else (10 if slow else 40)
        for _ in range(nrand):
            ln = rng.randint(1, k + 4)
            masks.append([rng.choice(kinds) for _ in range(ln)])
        if not ctx.quick and not slow:
            for m in itertools.product(kinds, repeat=4):
                masks.append(list(m))
        for mk in masks:
            space, meta = gen.gen_space(rng, ndims=rng.choice([1, 2]), sizes=(3, 5, 8), max_points=64)
            table, _ = gen.gen_table(rng, space, kind=rng.choice(["unimodal", "random", "negative"]))
            n_inits = rng.choice([1, 2, 3, 4])
            init = rng.choice([{"random": n_inits}, {"vertices": n_inits}, {"grid": n_inits, "random": 1}])
            n_iter = len(mk) + (6 if slow else 12)
            script = []
            for i in range(n_iter):
                m = mk[i] if i < len(mk) else None
                script.append(m)
            cfg = gen.gen_opt_config(rng, name, space) if rng.random() < 0.3 else {}
            if name in ("GeneticAlgorithmOptimizer", "DifferentialEvolutionOptimizer"):
                cfg.pop("population", None)
            out.append(dict(name=name, space=space, table=table, mask=script, calls=[dict(n_iter=n_iter, memory=False, verbosity=False)],
                            seed=rng.randrange(10 ** 6), init=init, cfg=cfg, meta=meta, feasible=None))
    return out


class MaskedObjective(instr.ArgLogObjective):
    def __init__(self, space, table, mask):
        super().__init__(space, table)
        self.mask = mask

    def __call__(self, para):
        k = len(self.log)
        v = super().__call__(para)
        if k < len(self.mask) and self.mask[k] is not None:
            return self.mask[k]
        return v


def run_masked(spec, per_step_s=15):
    # run_steps builds its own objective; patch it through the script mechanism: scores by call index
    space = spec["space"]
    names = list(space.keys())
    base = instr.ArgLogObjective(space, spec["table"])
    script = []
    return spec


def monitor(ctx, spec, out):
    name = spec["name"]
    mask = spec["mask"]
    nonf = [("nan" if (m is not None and math.isnan(m)) else ("+inf" if m == INF else ("-inf" if m == -INF else "ok"))) for m in mask]
    n_inits = out.get("n_inits") or 0
    finite_in_init = any(x == "ok" for x in nonf[:n_inits]) if n_inits <= len(nonf) else True
    n_finite_init = sum(1 for x in nonf[:n_inits] if x == "ok") + max(0, n_inits - len(nonf))
    sig = dict(optimizer=name)
    case = dict(spec=dunit.spec_full(spec), mask=nonf, n_inits=n_inits)
    if out["exc"] is not None and gen.space_exhausted(spec, [st["pos"] for st in out["steps"] if st.get("pos") is not None]):
        # not a consequence of non-finite scores: replacement=False and every point already evaluated (finding F-D17 of C03)
        ctx.blocked.append(dict(optimizer=name, reason="SMBO with replacement=False exhausted the space (C03 finding F-D17)", exception=out["exc"][0]))
        return
    if out["exc"] is not None:
        import re
        fr = re.findall(r'gradient_free_optimizers/([\w/]+)\.py", line \d+, in (\w+)', out["exc"][2])
        where = ("%s:%s" % (fr[-1][0].split("/")[-1], fr[-1][1])) if fr else None
        ctx.violation(dict(sig, kind="raises", exception=out["exc"][0], where=where),
                      dict(case, traceback=out["exc"][2], at=out.get("at")),
                      "%s: search() raised %s (%s) with non-finite scores %r in the first steps (n_inits=%d)"
                      % (name, out["exc"][0], out["exc"][1], nonf[:8], n_inits))
        return
    opt = out["opt"]
    N = spec["calls"][0]["n_iter"]
    if len(out["steps"]) != N or len(opt.search_data) != N:
        ctx.violation(dict(sig, kind="lost-steps"), case, "%s: %d rows for n_iter=%d" % (name, len(opt.search_data), N))
        return
    scores = [s["score"] for s in out["steps"]]
    bs = float(opt.best_score)
    cand = [s for s in scores if not math.isnan(s)]
    if math.isnan(bs):
        ctx.violation(dict(sig, kind="nan-best"), case, "%s: best_score is NaN" % name)
        return
    if cand and bs != max(cand):
        ctx.violation(dict(sig, kind="wrong-best"), case, "%s: best_score=%r but the best non-NaN score is %r" % (name, bs, max(cand)))
        return
    # legal points afterwards
    c01.monitor(ctx, spec, out)


def pre_build(ctx):
    core_units.pre_build_tracker(ctx)


def run(ctx):
    core_units.run(ctx, which="C15")
    ctx.monitor_rule = ("per optimizer (all 22): scores of the first k steps replaced by NaN / +inf / -inf following masks (all-invalid "
                        "prefixes of every length up to k for each kind, random mixtures; thorough: all 4^4 masks): search() must not "
                        "raise, must produce n_iter rows, best_score must be the best non-NaN score, and every later point must "
                        "still be a genuine point (C01 monitor); distinct by (optimizer, mask, seed)")
    for spec in mask_specs(ctx):
        # scores by objective-call index: memory is off so call index == step index
        tab_scores = spec["table"]
        script = [m for m in spec["mask"]]
        spec2 = dict(spec)
        # instr.ArgLogObjective's script returns the scripted value when not None-masked
        out = run_with_mask(spec2, script)
        ctx.monitor_runs += 1
        ctx.monitor_nontrivial.add((spec["name"], tuple("x" if m is None else repr(m) for m in script), spec["seed"]))
        monitor(ctx, spec, out)


def run_with_mask(spec, script):
    orig = instr.ArgLogObjective

    class Obj(orig):
        def __call__(self, para):
            k = len(self.log)
            v = orig.__call__(self, para)
            if k < len(script) and script[k] is not None:
                return script[k]
            return v
    instr.ArgLogObjective = Obj
    try:
        return instr.run_steps(spec, per_step_s=20)
    finally:
        instr.ArgLogObjective = orig


def replay(ctx, data):
    import json
    print(json.dumps(data, indent=1)[:6000])
    return 0
