"""C06 — memory is a transparent cache: at most one objective call per point (+ shared dictionary)."""
import math, threading, random, itertools
from multiprocessing.managers import DictProxy
import numpy as np
import gen, drive, dunit
from common import coq_eval_cases, cz, cnat, clist, copt, cbool, jsonable


# ----------------------------------------------------------------------------- single process
def monitor_pair(ctx, spec, r_on, r_off):
    name = spec["name"]
    sig = dict(optimizer=name)
    if r_on["exc"] is not None or r_off["exc"] is not None:
        ctx.blocked.append(dict(spec=dunit.spec_brief(spec), exc=(r_on["exc"] or r_off["exc"])[:2]))
        return
    a, b = r_on["obs"][-1], r_off["obs"][-1]
    case = dict(spec=dunit.spec_full(spec))
    if jsonable(a["rows"]) != jsonable(b["rows"]) or jsonable(a["best_para"]) != jsonable(b["best_para"]) \
            or jsonable(a["best_score"]) != jsonable(b["best_score"]):
        ctx.violation(dict(sig, kind="not-transparent"), case, "search_data / best differ between memory=True and memory=False (same seed)")
        return
    # per call: at most one objective call per distinct parameter set, revisits answered from memory
    space = spec["space"]
    names = list(space.keys())
    calls = [k for k, _ in r_on["obj"].calls]
    row0, call0 = 0, 0
    for ci, (c, o) in enumerate(zip(spec["calls"], r_on["obs"])):
        rows = o["rows"][row0:]
        ncalls = len(o["fcalls"]) - call0
        these = [tuple(x) for x in o["fcalls"][call0:]]
        distinct = len({tuple(x["values"]) for x in rows})
        if len(set(these)) != len(these):
            ctx.violation(dict(sig, kind="called-twice"), dict(case, call=ci), "the objective was called twice for one parameter set within one search call")
            return
        if ncalls != distinct:
            ctx.violation(dict(sig, kind="call-count"), dict(case, call=ci), "%d objective calls for %d distinct parameter sets" % (ncalls, distinct))
            return
        # memory_dict maps exactly the evaluated positions of this call to their results
        md = {tuple(k): (s, m) for k, s, m in o["memory_dict"]}
        want = {}
        for p, row in zip(o["pos_l"][row0:], rows):
            want.setdefault(tuple(p), (row["score"], row["metrics"] or None))
        got = {k: (v[0], v[1] or None) for k, v in md.items()}
        if jsonable(got) != jsonable({k: (v[0], v[1]) for k, v in want.items()}):
            ctx.violation(dict(sig, kind="memory-dict"), dict(case, call=ci, got=jsonable(sorted(got.items())), want=jsonable(sorted(want.items()))),
                          "memory_dict is not exactly {evaluated position: result}")
            return
        row0, call0 = len(o["rows"]), len(o["fcalls"])


# ----------------------------------------------------------------------------- scheduled shared dictionary
class Sched:
    def __init__(self, n):
        self.cv = threading.Condition()
        self.state = ["running"] * n
        self.turn = None
        self.ops = []

    def op_begin(self, tid):
        with self.cv:
            self.state[tid] = "waiting"
            self.cv.notify_all()
            self.cv.wait_for(lambda: self.turn == tid)
            self.turn = None
            self.state[tid] = "running"

    def finish(self, tid):
        with self.cv:
            self.state[tid] = "finished"
            self.cv.notify_all()

    def run(self, sched):
        for i in sched:
            with self.cv:
                self.cv.wait_for(lambda: self.state[i] != "running")
                if self.state[i] == "finished":
                    continue
                self.turn = i
                self.cv.notify_all()
                self.cv.wait_for(lambda: self.turn is None and self.state[i] != "running")

    def all_finished(self):
        with self.cv:
            return all(s == "finished" for s in self.state)


class SchedDict(DictProxy):
    """A dictionary that passes Memory's isinstance(memory, DictProxy) test; every operation on it is one
    atomic step granted by the scheduler to the calling thread."""

    def __init__(self, sched, initial):
        self._d = dict(initial)
        self._s = sched
        self._tid = threading.local()

    def _gate(self, op, key):
        tid = getattr(self._tid, "v", None)
        if tid is not None:
            self._s.op_begin(tid)
            self._s.ops.append((tid, op, key))

    def __contains__(self, k):
        self._gate("contains", k)
        return k in self._d

    def __getitem__(self, k):
        self._gate("get", k)
        return self._d[k]

    def __setitem__(self, k, v):
        self._gate("set", k)
        self._d[k] = v

    def update(self, other):
        self._d.update(other)

    def __del__(self):
        pass


def p_unit(ctx):
    from gradient_free_optimizers._memory import Memory
    from gradient_free_optimizers.optimizers.core_optimizer.converter import Converter
    u = ctx.unit("P:Memory.memory on one shared dict under scheduled interleavings", "P",
                 "2-3 threads each looking up 1-3 keys through the real Memory.memory wrapper on ONE shared dictionary whose "
                 "contains/get/set operations are released one at a time by a scheduler following a random schedule "
                 "(then round-robin to completion); the model's small-step semantics (Shared.exec) runs the same schedule; "
                 "compared: every value returned per thread in order, the final dictionary, the multiset of objective evaluations; non-trivial = two threads share "
                 "a key; distinct by (keys, schedule)")
    rng = ctx.sub_rng("p")
    n = 60 if ctx.quick else 400
    size = 5
    space = {"x": np.arange(size)}
    conv = Converter(space)
    table = [int(3 * k * k - 7 * k + 1) for k in range(size)]
    lits, cases = [], []
    for it in range(n):
        nthreads = rng.choice([2, 2, 3])
        keys = [[rng.randrange(size) for _ in range(rng.randint(1, 3))] for _ in range(nthreads)]
        initial = {(k,): table[k] for k in range(size) if rng.random() < 0.15}
        total_ops = 2 * sum(len(k) for k in keys)
        sched = [rng.randrange(nthreads) for _ in range(rng.randint(0, total_ops))]
        sched += [i for _ in range(total_ops) for i in range(nthreads)]
        S = Sched(nthreads)
        sd = SchedDict(S, initial)
        outs = [[] for _ in range(nthreads)]
        calls = []

        def objective(para):
            calls.append(int(para["x"]))
            return table[int(para["x"])]

        def work(tid):
            sd._tid.v = tid
            mem = Memory(None, conv, memory=sd)
            wrapped = mem.memory(objective)
            try:
                for k in keys[tid]:
                    outs[tid].append((k, wrapped({"x": space["x"][k]})))
            except Exception as e:  # KeyError etc.
                outs[tid].append(("EXC", type(e).__name__))
            S.finish(tid)

        ths = [threading.Thread(target=work, args=(t,), daemon=True) for t in range(nthreads)]
        for t in ths:
            t.start()
        S.run(sched)
        for t in ths:
            t.join(timeout=10)
        final = sorted((k[0], v) for k, v in sd._d.items())
        shared = len(set(itertools.chain.from_iterable(keys))) < sum(len(k) for k in keys)
        u.count((tuple(map(tuple, keys)), tuple(sched[:12]), tuple(sorted(initial))), nontrivial=shared)
        case = dict(keys=keys, initial=sorted((k[0], v) for k, v in initial.items()), schedule=sched, outs=outs, final=final, calls=calls)
        cases.append(case)
        bad = any(o and o[-1][0] == "EXC" for o in outs)
        # monitor: every reported score equals objective(key); final dict = initial U evaluated; no crash
        ctx.monitor_runs += 1
        ctx.monitor_nontrivial.add((tuple(map(tuple, keys)), tuple(sched[:12])))
        if bad or any(v != table[k] for o in outs for k, v in o if k != "EXC"):
            ctx.violation(dict(kind="shared-dict-score"), case, "a lookup on the shared dictionary crashed or returned a score != objective(parameters)")
        want_keys = set(k[0] for k in initial) | set(itertools.chain.from_iterable(keys))
        if set(k for k, _ in final) != want_keys or any(v != table[k] for k, v in final):
            ctx.violation(dict(kind="shared-dict-final"), case, "the shared dictionary is not the union of all evaluated points")
        procs = clist(keys, lambda ks: "(mkProc Z Z %s AtContains [])" % clist(ks))
        m0 = clist(case["initial"], lambda kv: "(%s, %s)" % (cz(kv[0]), cz(kv[1])))
        exp_outs = clist(outs, lambda o: clist(list(reversed([x for x in o if x[0] != "EXC"])), lambda kv: "(%s, %s)" % (cz(kv[0]), cz(kv[1]))))
        lits.append("(%s, %s, %s, %s, %s, %s)" % (procs, m0, clist(sched, cnat), exp_outs, clist(final, lambda kv: "(%s, %s)" % (cz(kv[0]), cz(kv[1]))), clist(calls)))
    u.samples = cases[:2]
    hdr = ("Require Import Shared.\nFrom Coq Require Import Sorting.Mergesort.\n"
           "Definition tab : list Z := %s.\nDefinition fobj (k : Z) : Z := nth (Z.to_nat k) tab 0.\n"
           "Definition cnt (k : Z) (l : list Z) : nat := length (filter (Z.eqb k) l).\n"
           "Definition pair_eqb (a b : Z * Z) := (fst a =? fst b) && (snd a =? snd b).\n"
           "Definition has (m : list (Z * Z)) (kv : Z * Z) := match lookup Z Z.eqb Z m (fst kv) with Some v => v =? snd kv | None => false end.\n"
           "Definition same_map (m fin : list (Z * Z)) := forallb (has m) fin && forallb (fun kv => existsb (fun kv' => fst kv =? fst kv') fin) m."
           % clist(table))
    chk = ("fun c => let '(ps, m0, sched, eouts, fin, evals) := c in match exec Z Z.eqb Z fobj ps m0 sched with "
           "Some (ps', m) => list_eqb (list_eqb pair_eqb) (map (outs Z Z) ps') eouts && same_map m fin && "
           "forallb (fun k => Nat.eqb (cnt k (map fst (firstn (length m - length m0) m))) (cnt k evals)) [0; 1; 2; 3; 4] && "
           "forallb (fun p => match todo Z Z p with [] => true | _ => false end) ps' | None => false end")
    failing, err = coq_eval_cases(u.name, hdr, "list (proc Z Z) * list (Z * Z) * list nat * list (list (Z * Z)) * list (Z * Z) * list Z", lits, chk, shard=100)
    u.error = err
    for i in failing[:10]:
        u.mismatches.append(dict(case=cases[i], note="the scheduled run of Memory.memory differs from Shared.exec"))


# ----------------------------------------------------------------------------- real processes (support)
def _proc_worker(args):
    name, space_l, seed, n_iter, shared = args
    import gradient_free_optimizers as gfo
    import io, contextlib
    space = {k: np.array(v) for k, v in space_l.items()}
    calls = []

    def objective(para):
        calls.append(tuple(float(para[k]) for k in space))
        return -float(sum((float(para[k]) - 2.0) ** 2 for k in space))
    opt = getattr(gfo, name)(space, random_state=seed, nth_process=seed % 3)
    with contextlib.redirect_stdout(io.StringIO()), contextlib.redirect_stderr(io.StringIO()):
        opt.search(objective, n_iter=n_iter, memory=shared, verbosity=False)
    rows = [(tuple(float(r[k]) for k in space), float(r["score"])) for _, r in opt.search_data.iterrows()]
    pos = [tuple(int(x) for x in p) for p in opt.pos_l]
    return rows, pos, calls


def real_processes(ctx, n_runs):
    import multiprocessing as mp
    u = ctx.unit("X:real processes on a multiprocessing.Manager().dict()", "support",
                 "2-4 real processes searching concurrently with one manager dict as memory; checked: every row's score == "
                 "objective(parameters) and the final dict == union of all evaluated positions; supporting evidence only "
                 "(the OS chooses the interleaving); distinct by (optimizers, seeds)")
    rng = ctx.sub_rng("x")
    mpctx = mp.get_context("fork")
    for it in range(n_runs):
        nproc = rng.choice([2, 3, 4])
        space_l = {"a": list(range(6)), "b": [0.5 * i for i in range(5)]}
        jobs = []
        with mpctx.Manager() as man:
            shared = man.dict()
            names = [rng.choice(["RandomSearchOptimizer", "HillClimbingOptimizer", "ParticleSwarmOptimizer", "GridSearchOptimizer"]) for _ in range(nproc)]
            args = [(names[i], space_l, rng.randrange(1000), rng.choice([10, 20]), shared) for i in range(nproc)]
            with mpctx.Pool(nproc) as pool:
                res = pool.map(_proc_worker, args)
            final = {tuple(k): v for k, v in dict(shared).items()}
        u.count((tuple(names), tuple(a[2] for a in args)), nontrivial=True)
        allpos = set()
        for rows, pos, calls in res:
            allpos |= set(pos)
            for vals, s in rows:
                want = -float(sum((x - 2.0) ** 2 for x in vals))
                if s != want:
                    ctx.violation(dict(kind="mp-score"), dict(names=names, row=[vals, s]), "a row's score differs from objective(parameters) under real concurrency")
        if set(final) != allpos:
            ctx.violation(dict(kind="mp-final"), dict(names=names, missing=sorted(allpos - set(final)), extra=sorted(set(final) - allpos)),
                          "the manager dict is not the union of all evaluated positions")
        ctx.monitor_runs += 1
    u.samples = [dict(names=names, nproc=nproc, final_size=len(final))]


def pre_build(ctx):
    import gen_units
    gen_units.pre_build(ctx, "translate_memory")


def run(ctx):
    import gen_units
    gen_units.g_unit(ctx, "translate_memory")
    ctx.assumptions.append("each DictProxy operation (contains / getitem / setitem) is atomic; nobody deletes from the shared dictionary")
    u = ctx.unit("D:search(memory)", "D",
                 "search() with memory=True of rotating optimizers on small spaces (many revisits), bare and (score, dict) "
                 "results, 1-3 calls, a few spaces with an infinite value in a dimension (monitor only); the model driver replays the proposals and must reproduce rows, objective call log and "
                 "memory_dict; each spec is also run with memory=False under the same seed; "
                 "non-trivial = a position is revisited; distinct by spec")
    ctx.monitor_rule = ("pair memory=True/False: identical search_data and best; per call: objective calls == distinct parameter "
                        "sets, none twice; memory_dict == {position: result} of this call; shared dict: scores == objective, "
                        "final == union")
    rng = ctx.sub_rng("d")
    names = gen.FAST if ctx.quick else gen.ALL
    results = []
    for i in range(90 if ctx.quick else 600):
        name = gen.rotate(names, i, ctx.quick)
        spec = dunit.general_spec(rng, name, max_calls=3, metrics=rng.choice([0, 0, 2]), sizes=(2, 3, 5), max_points=30,
                                  n_max=16, memory=True, verbosity=False,
                                  ndims=rng.choice([1, 2]))
        if name in ("GeneticAlgorithmOptimizer", "DifferentialEvolutionOptimizer"):
            spec["cfg"] = {k: v for k, v in (spec["cfg"] or {}).items() if k != "population"}
        if i < 4 or rng.random() < 0.06:
            # a dimension holding an infinite value (e.g. max_leaf_nodes: [8, 32, 128, inf]): a legal, distinct element with its own memory key
            # (the model's values are finite integers: these specs go through the monitor only)
            n0 = list(spec["space"].keys())[rng.randrange(len(spec["space"]))]
            vals = [float(x) for x in spec["space"][n0]]
            if len(vals) >= 2:
                vals[rng.choice([0, len(vals) - 1])] = rng.choice([math.inf, math.inf, -math.inf])
                spec["space"] = dict(spec["space"], **{n0: np.array(vals)})
                spec["monitor_only"] = True
                spec["calls"][0]["n_iter"] = max(spec["calls"][0]["n_iter"], 12)
        r_on = dunit.run_case(spec)
        spec_off = dict(spec, calls=[dict(c, memory=False) for c in spec["calls"]])
        r_off = dunit.run_case(spec_off)
        results.append((spec, r_on))
        key = (spec["name"], spec["seed"], tuple(c["n_iter"] for c in spec["calls"]))
        revisit = bool(r_on["obs"]) and len(set(map(tuple, r_on["obs"][-1]["pos_l"]))) < len(r_on["obs"][-1]["pos_l"])
        u.count(key, nontrivial=revisit)
        u.bump(spec["name"])
        ctx.monitor_runs += 2
        ctx.monitor_nontrivial.add(key)
        monitor_pair(ctx, spec, r_on, r_off)
    u.samples = [dunit.spec_brief(s) for s, _ in results[:2]]
    dunit.eval_d_unit(u, results)
    import common as _common
    _common.guarded(ctx, "P-unit", p_unit, ctx)
    _common.guarded(ctx, "real processes", real_processes, ctx, 2 if ctx.quick else 12)


def replay(ctx, data):
    import json
    print(json.dumps(data, indent=1)[:6000])
    return 0
