"""C01 — every evaluated point is a genuine point of the search space."""
import math
import numpy as np
import gen, instr, sweep, dunit
from common import jsonable


def check_args(space, names, para):
    """None if para consists, per dimension, of the element of that dimension's array at some integer index."""
    if set(para.keys()) != set(names):
        return "parameter names %r differ from the search space's %r" % (sorted(para.keys()), names)
    idx = instr.member_index(space, names, para)
    if idx is None:
        return "a value is not an element of its dimension's array (%r)" % ({k: repr(v) for k, v in para.items()},)
    return None


def monitor(ctx, spec, out):
    name = spec["name"]
    sig = dict(optimizer=name)
    space = spec["space"]
    names = list(space.keys())
    dims = [len(space[n]) for n in names]
    brief = dunit.spec_brief(spec)
    for para in out.get("con_args_construct") or []:
        msg = check_args(space, names, para)
        if msg:
            ctx.violation(dict(sig, kind="constraint-arg", phase="construct"), dict(spec=brief, para=jsonable(para)), "constraint received " + msg)
            return
    opt = out["opt"]
    for st in out["steps"]:
        p = st["pos"]
        if p is None:
            continue
        where = "call %d step %d (%s)" % (st["call"], st["k"], "init" if st["is_init"] else "iter")
        if len(p) != len(dims) or any((not 0 <= i < d) for i, d in zip(p, dims)):
            ctx.violation(dict(sig, kind="index-range", init=st["is_init"]), dict(spec=brief, step=jsonable(st)),
                          "%s: reported position %r is outside [0, len-1] for dims %r" % (where, p, dims))
            return
        if len(st["obj_args"]) > 1:
            ctx.violation(dict(sig, kind="multi-eval"), dict(spec=brief, step=jsonable(st)), "%s: objective called %d times in one step" % (where, len(st["obj_args"])))
            return
        for para in st["obj_args"]:
            msg = check_args(space, names, para)
            if msg:
                ctx.violation(dict(sig, kind="objective-arg", init=st["is_init"]), dict(spec=brief, step=jsonable(st)), "%s: objective received %s" % (where, msg))
                return
            want = {n: space[n][i] for n, i in zip(names, p)}
            if any(not (para[n] == want[n]) for n in names):
                ctx.violation(dict(sig, kind="pos-mismatch", init=st["is_init"]), dict(spec=brief, step=jsonable(st)),
                              "%s: the reported position %r decodes to %r but %r was passed" % (where, p, jsonable(want), jsonable(para)))
                return
        for para in st["con_args"]:
            msg = check_args(space, names, para)
            if msg:
                ctx.violation(dict(sig, kind="constraint-arg", init=st["is_init"]), dict(spec=brief, step=jsonable(st)), "%s: constraint received %s" % (where, msg))
                return
    # raw pos_l entries must be integer typed (a float index would be truncated silently by numpy)
    if opt is not None:
        for p in opt.pos_l:
            a = np.asarray(p)
            if not np.issubdtype(a.dtype, np.integer):
                ctx.violation(dict(sig, kind="index-dtype"), dict(spec=brief, pos=jsonable(a.tolist()), dtype=str(a.dtype)),
                              "a reported position has non-integer dtype %s" % a.dtype)
                return


def pre_build(ctx):
    import gen_units
    gen_units.pre_build(ctx, "translate_coreopt")


def run(ctx):
    import gen_units
    gen_units.g_unit(ctx, "translate_coreopt")
    from props import c01_units
    import common as _common
    _common.guarded(ctx, "K/S-units", c01_units.run_units, ctx)
    ctx.monitor_rule = ("every parameter dict handed to the objective or to a constraint consists of genuine elements of the "
                        "dimension arrays; the position reported for the step is an integer vector in [0, len-1] decoding to "
                        "exactly the passed values; sweep over all 22 optimizers, spaces 1-4 dims incl. size-1 dims and "
                        "sizes up to 1000, unsorted/descending/float arrays, random hyper-parameters, with/without "
                        "constraints, repeated calls; plus, per optimizer, two longer runs with every hyper-parameter at or beyond the end of its "
                        "usual range (simplex sigma > 1, swarm weights 3-4, pattern size 2, ...) and short runs on spaces whose index range crosses an "
                        "integer-width boundary (129-300 points next to a short dimension, ~33000 points in one dimension); distinct by (optimizer, seed, shape)")
    n_fast, n_slow = (108, 8) if ctx.quick else (720, 80)
    specs = sweep.sweep_specs(ctx, "c01", n_fast, n_slow, constraint=0.4, big_spaces=True) \
        + sweep.extreme_specs(ctx, "c01", rounds=(1 if ctx.quick else 4)) \
        + sweep.dtype_edge_specs(ctx, "c01", per=(2 if ctx.quick else 6))
    for spec in specs:
        out = instr.run_steps(spec)
        ctx.monitor_runs += 1
        ctx.monitor_nontrivial.add((spec["name"], spec["seed"], tuple(m[2] for m in spec["meta"])))
        if out["exc"] is not None:
            if out["exc"][0] == "IndexError":
                ctx.violation(dict(optimizer=spec["name"], kind="index-error"), dict(spec=dunit.spec_full(spec), traceback=out["exc"][2]),
                              "%s: IndexError during the search (a past-the-end index was used): %s" % (spec["name"], out["exc"][1]))
            else:
                ctx.blocked.append(dict(spec=dunit.spec_brief(spec), exc=out["exc"][:2]))
        monitor(ctx, spec, out)


REPLAY = ("steps", monitor)      # harness/replay.py re-executes a recorded spec through this monitor


def replay(ctx, data):
    import json
    print(json.dumps(data, indent=1)[:6000])
    return 0
