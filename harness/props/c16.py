"""C16 — grid search enumerates the whole space without repetition."""
import math, itertools, io, contextlib
import numpy as np
import gen, drive, dunit
from common import coq_eval_cases, cz, cnat, clist, copt, cbool, jsonable


def shapes(ctx):
    out = []
    bound = 24 if ctx.quick else 120
    for nd in (1, 2, 3, 4):
        for dims in itertools.product(range(1, 9), repeat=nd):
            S = int(np.prod(dims))
            if S <= bound:
                out.append(list(dims))
    rng = ctx.sub_rng("shapes")
    for _ in range(15 if ctx.quick else 80):
        nd = rng.choice([1, 2, 3, 4])
        dims = [rng.choice([1, 2, 3, 4, 5, 6, 7, 9, 10, 12]) for _ in range(nd)]
        if int(np.prod(dims)) <= (400 if ctx.quick else 2000):
            out.append(dims)
    return out


def divisors(n):
    return [d for d in range(1, n + 1) if n % d == 0]


def guess(S, n):
    return int(np.round(np.power(S, 1 / n)))


def run_split(opt, total, rng, memory):
    """the search of `total` steps, in about half of the cases continued over 2-3 search() calls (the first |S| iteration steps are
    the optimizer's, however the calls are cut); returns the cut"""
    chunks = [total]
    if total >= 2 and rng.random() < 0.5:
        cuts = sorted(set(rng.randrange(1, total) for _ in range(rng.choice([1, 2]))))
        chunks = [b - a for a, b in zip([0] + cuts, cuts + [total])]
    with contextlib.redirect_stdout(io.StringIO()):
        for n in chunks:
            opt.search(lambda para: 0.0, n_iter=n, verbosity=False, memory=memory)
    return chunks


def pre_build(ctx):
    import gen_units
    gen_units.pre_build(ctx, "translate_grid")


def run(ctx):
    import gen_units
    gen_units.g_unit(ctx, "translate_grid")
    import gradient_free_optimizers as gfo
    from gradient_free_optimizers.optimizers.grid.diagonal_grid_search import DiagonalGridSearchOptimizer
    from gradient_free_optimizers.optimizers.grid.orthogonal_grid_search import OrthogonalGridSearchOptimizer
    ctx.assumptions.append("get_direction's float guess round(|S| ** (1/n)) is an oracle input d0 of the model (recomputed by the harness); the theorem holds for every d0 >= 1")
    uk = ctx.unit("K:grid_move/get_direction", "K",
                  "DiagonalGridSearchOptimizer.grid_move for every pointer, OrthogonalGridSearchOptimizer.grid_move for every "
                  "nth_trial < 2|S|, get_direction; all shapes with |S| <= bound in 1-4 dims x every step dividing |S|; plus the trials "
                  "around every pass boundary for pass lengths 25..400 with steps 2-5; "
                  "distinct by (shape, step, pointer)")
    us = ctx.unit("S:GridSearchOptimizer.iterate", "S",
                  "real GridSearchOptimizer runs (both directions, every step dividing |S|, random initialize) for n_inits + |S| "
                  "steps, half of them continued over 2-3 search() calls; the iteration positions are compared with the model's diag_run / orth_run; "
                  "non-trivial = |S| > 1; distinct by (shape, step, direction)")
    ctx.monitor_rule = "len(set(pos_l[n_inits : n_inits + |S|])) == |S| and every point of the space is among them"
    rng = ctx.sub_rng("s")
    klits, kcases, slits, scases = [], [], [], []
    for dims in shapes(ctx):
        S = int(np.prod(dims))
        space = {"x%d" % i: np.arange(d) for i, d in enumerate(dims)}
        steps = divisors(S)
        if len(steps) > 4:
            steps = [1, steps[1], steps[-2], S] if ctx.quick else steps
        # K: grid moves
        dg = DiagonalGridSearchOptimizer(space, random_state=0)
        d_impl = int(dg.get_direction())
        ptrs = list(range(S)) if S <= 60 else [rng.randrange(S) for _ in range(40)]
        moves = []
        for p in ptrs:
            dg.high_dim_pointer = p
            moves.append([int(x) for x in dg.grid_move()])
        klits.append("(%s, %s, %s, %s, %s)" % (clist(dims), cz(guess(S, len(dims))), cz(d_impl), clist(ptrs), clist(moves, clist)))
        kcases.append(dict(dims=dims, direction=d_impl, pointers=ptrs[:5], moves=moves[:5]))
        uk.count((tuple(dims), "diag"), nontrivial=S > 1)
        for s in steps:
            og = OrthogonalGridSearchOptimizer(space, random_state=0, step_size=s)
            ts = list(range(min(2 * S, 80)))
            omoves = []
            for t in ts:
                og.nth_trial = t
                omoves.append([int(x) for x in og.grid_move()])
            klits.append("(%s, %s, %s, %s, %s)" % (clist(dims), cz(-s), cz(0), clist(ts), clist(omoves, clist)))
            kcases.append(dict(dims=dims, step=s, trials=ts[:5], moves=omoves[:5]))
            uk.count((tuple(dims), "orth", s), nontrivial=S > 1)
            # S: full runs
            for direction in ("diagonal", "orthogonal"):
                init = rng.choice([{"random": 1}, {"grid": 2, "random": 1}, {"vertices": 2}, {"random": 3}])
                opt = gfo.GridSearchOptimizer(space, initialize=init, random_state=rng.randrange(1000), step_size=s, direction=direction)
                n_inits = opt.init.n_inits
                chunks = run_split(opt, n_inits + S, rng, rng.random() < 0.5)
                it = [[int(x) for x in p] for p in opt.pos_l[n_inits:n_inits + S]]
                slits.append("(%s, %s, %s, %s, %s)" % (clist(dims), cz(s), cz(guess(S, len(dims))), cbool(direction == "diagonal"), clist(it, clist)))
                case = dict(dims=dims, step=s, direction=direction, initialize=init, calls=chunks, first=it[:6])
                scases.append(case)
                us.count((tuple(dims), s, direction), nontrivial=S > 1)
                us.bump(direction)
                ctx.monitor_runs += 1
                ctx.monitor_nontrivial.add((tuple(dims), s, direction))
                if len(set(map(tuple, it))) != S:
                    ctx.violation(dict(kind="grid-not-covering", direction=direction),
                                  dict(dims=dims, step_size=s, direction=direction, initialize=init, calls=chunks, positions=it),
                                  "%s grid on shape %r with step_size %d visits only %d distinct points in its first %d iteration steps"
                                  % (direction, dims, s, len(set(map(tuple, it))), S))
    # larger spaces with step_size > 1: the trials around every pass boundary (t = j * |S|/step +- 1) of the orthogonal decoder and
    # full runs of a few of them -- float effects in the pass counter only show for particular pass lengths (49, 98, 103, 107, ...)
    qs = [49, 98, 103, 107, 161, 187, 196, 197] + [rng.randrange(25, 400) for _ in range(6 if ctx.quick else 60)]
    for qi, q in enumerate(qs):
        for s in ((2, 3) if qi < 8 else (rng.choice([2, 3, 4, 5]),)):
            S = q * s
            dims = [S] if rng.random() < 0.5 else ([q, s] if rng.random() < 0.5 else [s, q])
            space = {"x%d" % i: np.arange(d) for i, d in enumerate(dims)}
            og = OrthogonalGridSearchOptimizer(space, random_state=0, step_size=s)
            ts = sorted({t for j in range(0, s + 1) for t in (j * q - 1, j * q, j * q + 1) if 0 <= t < 2 * S} | {rng.randrange(2 * S) for _ in range(6)})
            omoves = []
            for t in ts:
                og.nth_trial = t
                omoves.append([int(x) for x in og.grid_move()])
            klits.append("(%s, %s, %s, %s, %s)" % (clist(dims), cz(-s), cz(0), clist(ts), clist(omoves, clist)))
            kcases.append(dict(dims=dims, step=s, trials=ts[:8], moves=omoves[:8]))
            uk.count((tuple(dims), "orth-boundary", s), nontrivial=True)
            if qi % 3 == 0 and S <= 700:
                for direction in ("orthogonal", "diagonal"):
                    opt = gfo.GridSearchOptimizer(space, initialize={"random": 1}, random_state=rng.randrange(1000), step_size=s, direction=direction)
                    n_inits = opt.init.n_inits
                    chunks = run_split(opt, n_inits + S, rng, False)
                    it = [tuple(int(x) for x in p) for p in opt.pos_l[n_inits:n_inits + S]]
                    ctx.monitor_runs += 1
                    ctx.monitor_nontrivial.add((tuple(dims), s, direction))
                    if len(set(it)) != S:
                        seen = set()
                        dup = next(p_ for p_ in it if p_ in seen or seen.add(p_))
                        ctx.violation(dict(kind="grid-not-covering", direction=direction),
                                      dict(dims=dims, step_size=s, direction=direction, initialize={"random": 1}, calls=chunks, first_repeated=list(dup), distinct=len(set(it))),
                                      "%s grid on shape %r with step_size %d visits only %d distinct points in its first %d iteration steps"
                                      % (direction, dims, s, len(set(it)), S))
    uk.exhaustive = True
    uk.samples = kcases[:2]
    us.samples = scases[:2]
    hdr = "Require Import Converter Grid."
    kchk = ("fun c => let '(dims, d0, d, xs, moves) := c in "
            "if d0 <? 0 then list_eqb (list_eqb Z.eqb) (map (fun t => orth_iterate dims (- d0) t) xs) moves "
            "else match get_direction (Z.to_nat d0 + 1) (zprod dims) d0 with Ok d' => (d' =? d) && "
            "list_eqb (list_eqb Z.eqb) (map (decode_be dims) xs) moves | Err _ => false end")
    failing, err = coq_eval_cases(uk.name, hdr, "list Z * Z * Z * list Z * list pos", klits, kchk, shard=150)
    uk.error = err
    for i in failing[:8]:
        uk.mismatches.append(dict(case=kcases[i], note="grid_move/get_direction differs from the model"))
    schk = ("fun c => let '(dims, s, d0, diag, ps) := c in let n := length ps in "
            "if diag then match diag_run n dims s d0 diag_init with Ok l => list_eqb (list_eqb Z.eqb) l ps | Err _ => false end "
            "else list_eqb (list_eqb Z.eqb) (orth_run n dims s) ps")
    failing, err = coq_eval_cases(us.name, hdr, "list Z * Z * Z * bool * list pos", slits, schk, shard=60)
    us.error = err
    for i in failing[:8]:
        us.mismatches.append(dict(case=scases[i], note="GridSearchOptimizer iteration positions differ from the model"))


def replay(ctx, data):
    import json
    print(json.dumps(data, indent=1)[:4000])
    return 0
