"""C02 — constraints hold for every parameter set the objective is evaluated on."""
import math
import numpy as np
import gen, instr, sweep, dunit
from common import jsonable
from props import core_units


def special_specs(ctx, n):
    """the configurations the property names: both grid directions, simplex with few inits, populations > inits"""
    rng = ctx.sub_rng("c02-special")
    out = []
    for i in range(n):
        kind = i % 4
        if kind == 0:
            name, cfg, init = "GridSearchOptimizer", dict(direction=rng.choice(["diagonal", "orthogonal"]), step_size=rng.choice([1, 1, 2])), None
        elif kind == 1:
            name, cfg, init = "DownhillSimplexOptimizer", {}, {"random": 1} if rng.random() < 0.5 else {"vertices": 1}
        elif kind == 2:
            name = rng.choice(gen.POPULATION)
            cfg, init = dict(population=rng.choice([6, 9, 12])), {"random": rng.choice([1, 2])}
        else:
            name, cfg, init = rng.choice(["PowellsMethod", "PatternSearch", "DirectAlgorithm", "SpiralOptimization"]), {}, None
        spec = dunit.general_spec(rng, name, max_calls=2, metrics=0, sizes=(2, 3, 5, 8), max_points=100, n_max=18, verbosity=False,
                                  steps_api=True, cfg=cfg, ndims=rng.choice([2, 2, 3]))
        if init is not None:
            spec["init"] = init
        feas, desc = gen.gen_constraint(rng, spec["space"])
        spec["feasible"], spec["constraint_desc"] = feas, desc
        out.append(spec)
    return out


def numpy_constraint_specs(ctx):
    """model-based optimizers (they filter a whole candidate pool) under constraints written as numpy reductions over the parameters
    (np.sum([...]) <= c, np.linalg.norm([...]) >= r, np.any(...)), with the objective's optimum inside the infeasible region"""
    import inspect, itertools
    rng = ctx.sub_rng("c02-numpy-constraint")
    out = []
    names = [n for n in gen.ALL if "warm_start_smbo" in inspect.signature(gen.opt_class(n).__init__).parameters or n in gen.SLOW]
    for rd in range(1 if ctx.quick else 4):
        for name in names:
            sz = rng.choice([6, 7, 8])
            space = {"x0": np.arange(sz), "x1": np.arange(sz)}
            kind = rng.choice(["sum", "norm", "any"])
            if kind == "sum":
                bound, peak = sz - 2, (sz - 1, sz - 1)
            elif kind == "norm":
                bound, peak = float(sz) / 2.0, (0, 0)
            else:
                bound, peak = 1, (0, 0)
            allp = list(itertools.product(range(sz), range(sz)))
            cons = instr.NumpyStyleConstraint(space, kind, bound)
            feas = {p for p in allp if tuple(float(space[n][i]) for n, i in zip(space, p)) in cons.feasible_values}
            if len(feas) * 4 < len(allp) or len(feas) == len(allp):
                continue
            table = {p: (-float((p[0] - peak[0]) ** 2 + (p[1] - peak[1]) ** 2), None) for p in allp}
            ni = rng.choice([3, 4])
            spec = dict(name=name, space=space, table=table, calls=[dict(n_iter=ni + 10, memory=False, verbosity=False)], seed=rng.randrange(10 ** 6),
                        init={"random": ni}, cfg=({"tree_para": {"n_estimators": 5}} if name == "ForestOptimizer" else {}),
                        meta=[("int", "asc", sz), ("int", "asc", sz)], steps_api=True, feasible=feas, np_constraint=(kind, bound),
                        constraint_desc=("numpy-" + kind, bound))
            out.append(spec)
    return out


def nonfinite_prefix_specs(ctx):
    """optimizers that build a model / simplex / pattern from the finite-scored history, under constraints, with every score of the
    initialisation (and a little beyond) non-finite: the fallback proposals taken while there is nothing to build from must be feasible too"""
    rng = ctx.sub_rng("c02-nonfinite-prefix")
    out = []
    names = gen.SLOW + ["DirectAlgorithm", "DownhillSimplexOptimizer", "PatternSearch", "PowellsMethod", "ParticleSwarmOptimizer"]
    for rd in range(1 if ctx.quick else 4):
        for name in names:
            spec = dunit.general_spec(rng, name, max_calls=1, metrics=0, sizes=(4, 5, 6), max_points=40, n_max=12, verbosity=False, steps_api=True, ndims=2)
            feas, desc = gen.gen_constraint(rng, spec["space"], kind=rng.choice(["halfspace", "band", "parity"]))
            spec["feasible"], spec["constraint_desc"] = feas, desc
            ni = rng.choice([2, 3])
            spec["init"] = {"random": ni}
            spec["calls"] = [dict(n_iter=ni + 8, memory=False, verbosity=False)]
            kind = rng.choice([math.nan, -math.inf, math.inf, math.nan])
            spec["script"] = [kind] * (ni + rng.choice([0, 1, 2]))
            if name == "ForestOptimizer":
                spec["cfg"] = dict(spec["cfg"] or {}, tree_para={"n_estimators": 5})
            out.append(spec)
    return out


def highdim_specs(ctx):
    """31- and 33-dimensional spaces (the initialiser treats more than 30 dimensions separately) under a half-space constraint on the values,
    default-like initialisation with grid / vertices / random counts; the feasible set cannot be enumerated, the monitor applies the predicate"""
    rng = ctx.sub_rng("c02-highdim")
    out = []
    names = ["HillClimbingOptimizer", "RandomSearchOptimizer", "SimulatedAnnealingOptimizer", "RandomRestartHillClimbingOptimizer",
             "StochasticHillClimbingOptimizer", "RandomAnnealingOptimizer", "PatternSearch", "DownhillSimplexOptimizer", "ParticleSwarmOptimizer",
             "RepulsingHillClimbingOptimizer"]
    for rd in range(1 if ctx.quick else 3):
        for name in names:
            nd = rng.choice([31, 33])
            space = {"h%02d" % d: np.arange(3) for d in range(nd)}
            coef = [1] * nd
            bound = nd - rng.choice([2, 3])            # sum of the values > bound: a bit more than half of the space
            spec = dict(name=name, space=space, table=sweep.LazyTable(space), calls=[dict(n_iter=16, memory=False, verbosity=False)],
                        seed=rng.randrange(10 ** 6), init={"grid": rng.choice([2, 4]), "random": 2, "vertices": rng.choice([0, 2])}, cfg={},
                        meta=[("int", "asc", 3)] * nd, steps_api=True, feasible=set(), pred=(coef, bound), constraint_desc=("value-halfspace-highdim", nd, bound))
            out.append(spec)
    return out


def monitor_pred(ctx, spec, out):
    """as monitor(), for constraints given as a predicate on the values (the feasible set is not enumerated)"""
    name = spec["name"]
    coef, bound = spec["pred"]
    names = list(spec["space"].keys())
    if out["exc"] is not None:
        ctx.blocked.append(dict(spec=dict(name=name, constraint=spec["constraint_desc"]), exc=out["exc"][:2]))
    for st in out["steps"]:
        for para in st["obj_args"]:
            if not (sum(c * float(para[n]) for c, n in zip(coef, names)) > bound):
                ctx.violation(dict(optimizer=name, kind="infeasible-evaluated", init=bool(st["is_init"]), highdim=True),
                              dict(optimizer=name, seed=spec["seed"], initialize=spec["init"], n_dimensions=len(names), constraint="sum(values) > %r" % bound,
                                   step=[st["call"], st["k"]], para=jsonable(para)),
                              "%s on a %d-dimensional space: the objective was evaluated on a parameter set with sum %r, violating sum > %r (%s step)"
                              % (name, len(names), sum(float(para[n]) for n in names), bound, "init" if st["is_init"] else "iteration"))
                return


def offgrid_warm_specs(ctx, n):
    """a constraint that is a predicate on the parameter VALUES (a half-space a.x > b, also defined between grid points) and
    warm-start dictionaries whose values lie between two grid points next to the border: feasible as given, but the nearest
    grid point is not (or the other way round) -- what is evaluated must be feasible, whatever is done with such an entry"""
    rng = ctx.sub_rng("c02-offgrid")
    names = [nm for nm in gen.ALL if nm not in gen.SLOW] + ["BayesianOptimizer"]
    out = []
    for i in range(n):
        name = names[i % len(names)]
        nd = rng.choice([1, 2, 2])
        step = rng.choice([1.0, 0.5, 2.0])
        space = {"x%d" % d: np.arange(-6, 7) * step for d in range(nd)}
        coef = [rng.choice([1.0, -1.0])] + [rng.choice([0.0, 1.0, -1.0]) for _ in range(nd - 1)]
        bound = rng.choice([-2, -1, 0, 1]) * step
        allp = gen.all_positions(space)
        arrs = list(space.values())
        feas = {p for p in allp if sum(c * float(a[j]) for c, a, j in zip(coef, arrs, p)) > bound}
        if not feas or len(feas) * 4 < len(allp):
            continue
        ws = []
        for _ in range(rng.choice([1, 2, 3])):
            # a point next to the border: one grid value on the border (infeasible, strict inequality) nudged inside by < step/2
            base = [float(rng.choice(a)) for a in arrs]
            s0 = sum(c * x for c, x in zip(coef[1:], base[1:]))
            xb = (bound - s0) / coef[0]                      # x0 on the border
            x0 = xb + coef[0] * rng.choice([0.1, 0.25, 0.4]) * step * rng.choice([1, 1, -1])
            if not (arrs[0][0] - step / 2 < x0 < arrs[0][-1] + step / 2):
                continue
            ws.append({"x0": x0, **{"x%d" % d: base[d] for d in range(1, nd)}})
        if not ws:
            continue
        table, _ = gen.gen_table(rng, space, kind="random")
        cfg = {"population": rng.choice([1, 2, 4])} if name in gen.POPULATION and name not in ("GeneticAlgorithmOptimizer", "DifferentialEvolutionOptimizer") else {}
        out.append(dict(name=name, space=space, table=table, feasible=feas, pred=(coef, bound), constraint_desc=("value-halfspace", tuple(coef), bound),
                        calls=[dict(n_iter=rng.choice([6, 10]), memory=False, verbosity=False)], seed=rng.randrange(10 ** 6),
                        init={"warm_start": ws, "random": rng.choice([1, 2])}, cfg=cfg, meta=[("float", "asc", 13)] * nd, steps_api=True))
    return out


def coupled_specs(ctx, n):
    """constraints that couple two or more parameters (a coordinate-wise mix of two feasible points can be infeasible),
    long iteration phases, every optimizer that recombines / moves coordinate-wise"""
    rng = ctx.sub_rng("c02-coupled")
    names = gen.POPULATION + ["PatternSearch", "PowellsMethod", "DownhillSimplexOptimizer", "DirectAlgorithm", "HillClimbingOptimizer"]
    out = []
    for i in range(n):
        name = names[i % len(names)]
        nd = rng.choice([2, 2, 3])
        space = {"x%d" % d: np.arange(rng.choice([6, 8, 11])) for d in range(nd)}
        allp = gen.all_positions(space)
        kind = rng.choice(["sum-parity", "diag-band", "halfspace2"])
        if kind == "sum-parity":
            m = rng.choice([2, 3])
            feas = {p for p in allp if sum(p) % m == 0}
        elif kind == "diag-band":
            w = rng.choice([2, 3])
            feas = {p for p in allp if abs(p[0] - p[1]) <= w}
        else:
            c = rng.randint(nd * 2, nd * 5)
            feas = {p for p in allp if sum(p) <= c}
        if len(feas) * 4 < len(allp):
            feas = {p for p in allp if sum(p) % 2 == 0}
            kind = "sum-parity"
        table, _ = gen.gen_table(rng, space, kind=rng.choice(["unimodal", "random"]))
        cfg = {}
        if name in gen.POPULATION:
            cfg["population"] = rng.choice([4, 5, 6])
        out.append(dict(name=name, space=space, table=table, feasible=feas, constraint_desc=(kind,),
                        calls=[dict(n_iter=rng.choice([40, 60]), memory=False, verbosity=False)], seed=rng.randrange(10 ** 6),
                        init={"random": rng.choice([3, 4])}, cfg=cfg, meta=[("int", "asc", len(v)) for v in space.values()]))
    return out


def monitor(ctx, spec, out):
    name = spec["name"]
    cfg = spec.get("cfg") or {}
    sig = dict(optimizer=name, direction=cfg.get("direction"))
    if out["exc"] is not None:
        ctx.blocked.append(dict(spec=dunit.spec_brief(spec), exc=out["exc"][:2]))
    feas = spec["feasible"]
    space = spec["space"]
    names = list(space.keys())
    fvals = {tuple(float(space[n][i]) for n, i in zip(names, p)) for p in feas}
    n_inits = out.get("n_inits")
    for st in out["steps"]:
        for para in st["obj_args"]:
            key = tuple(float(para[n]) for n in names)
            if key not in fvals:
                padded = bool(st["is_init"]) and n_inits is not None
                ctx.violation(dict(sig, kind="infeasible-evaluated", init=bool(st["is_init"])),
                              dict(spec=dunit.spec_full(spec), step=[st["call"], st["k"]], para=jsonable(para), pos=st["pos"]),
                              "%s: the objective was evaluated on %r (position %r, %s step), which violates the constraints"
                              % (name, jsonable(para), st["pos"], "init" if st["is_init"] else "iteration"))
                return
    opt = out["opt"]
    if opt is not None and out["exc"] is None and getattr(opt, "best_para", None) is not None:
        key = tuple(float(opt.best_para[n]) for n in names)
        if key not in fvals:
            ctx.violation(dict(sig, kind="infeasible-best"), dict(spec=dunit.spec_full(spec)), "best_para violates the constraints")


def pre_build(ctx):
    import gen_units
    gen_units.pre_build(ctx, "translate_coreopt")
    gen_units.pre_build(ctx, "translate_init")


def run(ctx):
    import gen_units
    gen_units.g_unit(ctx, "translate_coreopt")
    gen_units.g_unit(ctx, "translate_init")
    import common as _common
    _common.guarded(ctx, "K/S-units", core_units.run, ctx, which="C02")
    ctx.monitor_rule = ("every parameter set handed to the objective satisfies the constraint (half-spaces, parity / band lattices, "
                        "random masks, constraints coupling several parameters with long iteration phases; feasible fraction >= 25%), best_para too; all 22 optimizers, both grid directions, "
                        "DownhillSimplex with fewer inits than dims+1, populations larger than the number of inits, repeated "
                        "calls; value-predicate constraints with warm starts between two grid points next to the border; per optimizer two longer "
                        "runs with extreme hyper-parameters; model-based optimizers under constraints written as numpy reductions (np.sum / np.linalg.norm / np.any over the "
                        "parameters) with the optimum in the infeasible region; model- / simplex- / pattern-building optimizers under constraints with every score of the initialisation non-finite; 31- / 33-dimensional spaces under a value half-space; distinct by (optimizer, seed, constraint)")
    n_fast, n_slow = (72, 8) if ctx.quick else (540, 60)
    specs = sweep.sweep_specs(ctx, "c02", n_fast, n_slow, constraint=1.0) + special_specs(ctx, 24 if ctx.quick else 160) \
        + coupled_specs(ctx, 33 if ctx.quick else 220) + offgrid_warm_specs(ctx, 36 if ctx.quick else 200) \
        + [sp_ for sp_ in sweep.extreme_specs(ctx, "c02", constraint=1.0, rounds=(1 if ctx.quick else 4)) if sp_.get("feasible") is not None] \
        + numpy_constraint_specs(ctx) + nonfinite_prefix_specs(ctx)
    for spec in specs:
        if spec.get("feasible") is None:
            continue
        out = instr.run_steps(spec)
        ctx.monitor_runs += 1
        ctx.monitor_nontrivial.add((spec["name"], spec["seed"], repr(spec.get("constraint_desc"))))
        monitor(ctx, spec, out)
    for spec in highdim_specs(ctx):
        out = instr.run_steps(spec)
        ctx.monitor_runs += 1
        ctx.monitor_nontrivial.add((spec["name"], spec["seed"], repr(spec.get("constraint_desc"))))
        monitor_pred(ctx, spec, out)


REPLAY = ("steps", monitor)      # harness/replay.py re-executes a recorded spec through this monitor


def replay(ctx, data):
    import json
    print(json.dumps(data, indent=1)[:6000])
    return 0
