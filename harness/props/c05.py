"""C05 — best_score / best_para are the true best of the evaluated rows."""
import math, itertools
import numpy as np
import gen, drive, dunit
from common import coq_eval_cases, cz, clist, copt, cbool, Scaler, jsonable

NAN, INF = math.nan, math.inf


def k_unit(ctx):
    from gradient_free_optimizers._progress_bar import ProgressBarLVL0, ProgressBarLVL1
    import io, contextlib
    u = ctx.unit("K:ProgressBar.update", "K",
                 "all score sequences of length <= 4 over {-inf,-1,0,0(dup),2,+inf,NaN} through both update paths "
                 "(LVL0 silent, LVL1 tqdm); compared: (score_best, pos_best) after the sequence; "
                 "non-trivial = length >= 2; distinct by (sequence, level)")
    alpha = [-INF, -1.0, 0.0, 2.0, INF, NAN]
    sc = Scaler()
    lits, cases = [], []

    def obj(p):
        return 0
    L = 3 if ctx.quick else 4
    for ln in range(1, L + 1):
        for seq in itertools.product(alpha, repeat=ln):
            for lvl in (0, 1):
                with contextlib.redirect_stderr(io.StringIO()):
                    pb = (ProgressBarLVL1 if lvl else ProgressBarLVL0)(None, ln, obj)
                    for i, s in enumerate(seq):
                        pb.update(np.float64(s) if i % 2 else s, np.array([i]), i)
                    pb.close()
                best, pos = float(pb.score_best), (None if pb.pos_best is None else [int(x) for x in pb.pos_best])
                lits.append("(%s, %s, %s, %s)" % (clist(seq, sc.score), cbool(lvl), sc.score(best), copt(pos, clist)))
                cases.append(dict(scores=list(seq), lvl=lvl, best=best, pos=pos))
                u.count((tuple(map(repr, seq)), lvl), nontrivial=ln >= 2)
    u.exhaustive = True
    u.samples = [cases[0], cases[len(cases) // 2]]
    hdr = ("Require Import StopRun Converter Driver.\n"
           "Fixpoint runpb (lvl1 : bool) (b : pbar) (i : Z) (l : list score) : pbar := match l with [] => b | s :: tl => "
           "runpb lvl1 ((if lvl1 then pbar_update_lvl1 else pbar_update_lvl0) b s [i] i) (i + 1) tl end.")
    failing, err = coq_eval_cases(
        u.name, hdr, "list score * bool * score * option pos", lits,
        "fun c => let '(l, lvl, b, p) := c in let r := runpb lvl pbar_init 0 l in "
        "score_same (pb_best r) b && option_eqb pos_eqb (pb_pos r) p", shard=800)
    u.error = err
    for i in failing[:20]:
        u.mismatches.append(dict(case=cases[i], note="progress bar best differs from the model"))


def monitor(ctx, spec, r, label=""):
    name = spec["name"]
    if r["exc"] is not None:
        ctx.blocked.append(dict(spec=dunit.spec_brief(spec), exc=r["exc"][:2]))
        return
    space = spec["space"]
    names = list(space.keys())
    sig = dict(optimizer=name)
    row0 = 0
    for ci, (c, o) in enumerate(zip(spec["calls"], r["obs"])):
        rows = o["rows"][row0:]
        row0 = len(o["rows"])
        scores = [x["score"] for x in rows]
        cand = [s for s in scores if not math.isnan(s)]
        if not cand:
            want = None
        else:
            want = max(cand)
        bs = o["best_score"]
        case = dict(spec=dunit.spec_full(spec), call=ci, scores=scores, best_score=bs, best_para=o["best_para"])
        if math.isnan(bs):
            ctx.violation(dict(sig, kind="nan-best"), case, "best_score is NaN")
            continue
        if want is None:
            if bs != -INF:
                ctx.violation(dict(sig, kind="best-score"), case, "all rows NaN but best_score=%r" % bs)
            continue
        if bs != want:
            ctx.violation(dict(sig, kind="best-score"), case, "best_score=%r but the maximum row score of this call is %r" % (bs, want))
            continue
        first = next(i for i, s in enumerate(scores) if s == want)
        wantp = dict(zip(names, rows[first]["values"]))
        if o["best_para"] is None:
            ctx.violation(dict(sig, kind="best-para-none", all_neginf=(want == -INF)), case,
                          "best_para is None although row %d attains best_score=%r" % (first, want))
            continue
        if o["best_para"] != wantp:
            ctx.violation(dict(sig, kind="best-para"), case,
                          "best_para=%r but the first row attaining best_score is %r" % (o["best_para"], wantp))
            continue
        for n in names:
            if not any(float(x) == o["best_para"][n] for x in space[n]):
                ctx.violation(dict(sig, kind="best-para-space"), case, "best_para[%s] is not in the search space" % n)
        if spec.get("feasible") is not None:
            pos = tuple(int(np.argmin(np.abs(space[n] - o["best_para"][n]))) for n in names)
            if pos not in spec["feasible"]:
                ctx.violation(dict(sig, kind="best-para-constraint", direction=(spec.get("cfg") or {}).get("direction")), case,
                              "best_para violates the constraints")
        if not spec.get("script"):
            key = tuple(o["best_para"][n] for n in names)
            s = r["obj"].vtable[key][0]
            if not (s == bs):
                ctx.violation(dict(sig, kind="best-para-score"), case, "objective(best_para)=%r != best_score=%r" % (s, bs))


VERBS = [False, [], ["progress_bar"], ["print_results"], ["print_times"], ["progress_bar", "print_results", "print_times"]]


def pre_build(ctx):
    import gen_units
    gen_units.pre_build(ctx, "translate_driver")
    gen_units.pre_build(ctx, "translate_finish")


def run(ctx):
    import gen_units
    gen_units.g_unit(ctx, "translate_driver")
    gen_units.g_unit(ctx, "translate_finish")
    import common as _common
    _common.guarded(ctx, "K-unit", k_unit, ctx)
    u = ctx.unit("D:search(best)", "D",
                 "1-3 search() calls, rotating optimizers, plateaus/ties, negative/zero/non-finite scores, constraints, every "
                 "verbosity setting; each spec is run under two verbosity settings with the same seed; model driver compares "
                 "best_score/best_value and everything else; non-trivial = the maximum is attained by >= 2 rows or a non-finite "
                 "score occurs; distinct by spec")
    ctx.monitor_rule = ("per call: best_score == max of this call's non-NaN row scores; best_para == parameters of the first "
                        "row attaining it, in the space, feasible, objective(best_para) == best_score; paired runs under "
                        "different verbosity give identical search_data and best")
    rng = ctx.sub_rng("d")
    names = gen.FAST if ctx.quick else gen.ALL
    results = []
    n = 100 if ctx.quick else 700
    # targeted: grid search (both directions, step sizes 1-2) with the strict maximum at the origin, one random initial position and a
    # few grid steps -- the first grid step is the best row, the later ones must not disturb it
    grid_targets = [(d_, st_) for d_ in ("diagonal", "orthogonal") for st_ in (1, 2) for _ in range(3)]
    # targeted: the model-based optimizers (not in the quick rotation) with replacement False / True on a unimodal table and two random
    # initial positions -- the best row is found by a model-based step and the candidate pool keeps changing afterwards
    smbo_targets = [(nm_, rp_) for nm_ in gen.SLOW for rp_ in (False, True)] * (1 if ctx.quick else 3)
    for i in range(n + len(grid_targets) + len(smbo_targets)):
        name = names[i % len(names)] if i < n else ("GridSearchOptimizer" if i < n + len(grid_targets) else smbo_targets[i - n - len(grid_targets)][0])
        spec = dunit.general_spec(rng, name, max_calls=3, metrics=0, nonfinite=rng.choice([0, 0, 0.2, 0.6]),
                                  constraint=rng.random() < 0.3, sizes=(2, 3, 5), max_points=60, n_max=12)
        if i >= n + len(grid_targets):
            rp_ = smbo_targets[i - n - len(grid_targets)][1]
            spec = dunit.general_spec(rng, name, max_calls=1, metrics=0, nonfinite=0, constraint=False, sizes=(4, 5, 6), max_points=40, n_max=12, ndims=2)
            dims_ = [len(v) for v in spec["space"].values()]
            peak_ = tuple(rng.randrange(d__) for d__ in dims_)
            spec["table"] = {p_: (-float(sum((a_ - b_) ** 2 for a_, b_ in zip(p_, peak_))), None) for p_ in spec["table"]}
            spec["cfg"] = dict(replacement=rp_) if name != "LipschitzOptimizer" else {}
            if name == "ForestOptimizer":
                spec["cfg"]["tree_para"] = {"n_estimators": 5}
            spec["init"] = {"random": 2}
            spec["calls"][0]["n_iter"] = 2 + rng.randint(7, 10)
            spec["calls"][0]["memory"] = False
            spec["calls"][0].pop("memory_warm_start", None)
        elif i >= n:
            d_, st_ = grid_targets[i - n]
            spec = dunit.general_spec(rng, name, max_calls=1, metrics=0, nonfinite=0, constraint=False, sizes=(3, 4, 5), max_points=130, n_max=12)
            spec["cfg"] = dict(direction=d_, step_size=st_)
            spec["table"] = {p_: (-float(sum(p_)), None) for p_ in spec["table"]}
            spec["init"] = {"random": 1}
            spec["calls"][0]["n_iter"] = 1 + rng.randint(3, 6)
            spec["calls"][0].pop("memory_warm_start", None)
        if name in ("GeneticAlgorithmOptimizer", "DifferentialEvolutionOptimizer"):
            spec["cfg"] = {k: v for k, v in (spec["cfg"] or {}).items() if k != "population"}
        if i < n and rng.random() < 0.5:
            spec["table"] = gen.gen_table(rng, spec["space"], kind=rng.choice(["plateau", "negative", "mixed"]),
                                          nonfinite=rng.choice([0, 0.3]))[0]
        if i < n and (rng.random() < 0.15 or (name == "GridSearchOptimizer" and rng.random() < 0.8)):
            # the strict maximum sits at a corner of the space (mostly the origin), only random initial positions, and the run goes on
            # after the first iteration step: the best position must survive everything the optimizer does to its arrays afterwards
            dims_ = [len(v) for v in spec["space"].values()]
            corner = tuple(0 for _ in dims_) if rng.random() < 0.7 else tuple(rng.choice([0, d_ - 1]) for d_ in dims_)
            spec["table"] = {p_: (-float(sum(abs(a_ - b_) for a_, b_ in zip(p_, corner))), None) for p_ in spec["table"]}
            spec["init"] = {"random": rng.randint(1, 3)}
            spec["calls"][0]["n_iter"] = spec["init"]["random"] + rng.randint(2, 7)
        if i < n and rng.random() < 0.1:       # everything -inf / NaN
            spec["table"] = {k: (rng.choice([-INF, -INF, NAN]), None) for k in spec["table"]}
        # a memory_warm_start frame holding the TRUE scores of some points (as an earlier search_data would), with a permuted /
        # score-sorted / filtered index: the best result must still satisfy objective(best_para) == best_score
        if i < n and rng.random() < 0.3:
            import pandas as pd
            names_ = list(spec["space"].keys())
            allp = gen.all_positions(spec["space"])
            ps = rng.sample(allp, min(len(allp), rng.randint(2, 8)))
            rows = [dict({n_: spec["space"][n_][i_] for n_, i_ in zip(names_, p_)}, score=float(spec["table"][p_][0])) for p_ in ps]
            df = pd.DataFrame(rows)
            how = rng.choice(["sorted", "shuffled", "filtered", "plain"])
            if how == "sorted":
                df = df.sort_values("score")
            elif how == "shuffled":
                order = list(range(len(df)))
                rng.shuffle(order)
                df = df.iloc[order]
            elif how == "filtered" and len(df) > 2:
                df = df.iloc[1:]
            c0 = spec["calls"][rng.randrange(len(spec["calls"]))]
            c0["memory"] = True
            c0["memory_warm_start"] = df
        v1, v2 = rng.sample(VERBS, 2)
        for c in spec["calls"]:
            c["verbosity"] = v1
        r = dunit.run_case(spec)
        results.append((spec, r))
        key = (spec["name"], spec["seed"], tuple(c["n_iter"] for c in spec["calls"]))
        nontriv = False
        if r["obs"]:
            sc = r["obs"][-1]["score_l"]
            fin = [s for s in sc if not math.isnan(s)]
            nontriv = (fin and sc.count(max(fin)) >= 2) or any(not math.isfinite(s) for s in sc)
        u.count(key, nontrivial=bool(nontriv))
        u.bump(spec["name"])
        ctx.monitor_runs += 1
        ctx.monitor_nontrivial.add(key)
        monitor(ctx, spec, r)
        # paired run under another verbosity
        import copy
        spec2 = dict(spec)
        spec2["calls"] = [dict(c, verbosity=v2) for c in spec["calls"]]
        r2 = dunit.run_case(spec2)
        ctx.monitor_runs += 1
        if r["exc"] is None and r2["exc"] is None:
            a, b = r["obs"][-1], r2["obs"][-1]
            for fld in ("rows", "pos_l", "best_para"):
                if jsonable(a[fld]) != jsonable(b[fld]):
                    ctx.violation(dict(optimizer=name, kind="verbosity"), dict(spec=dunit.spec_full(spec), v1=v1, v2=v2, field=fld),
                                  "verbosity %r vs %r changes %s" % (v1, v2, fld))
                    break
            if not (a["best_score"] == b["best_score"] or (math.isnan(a["best_score"]) and math.isnan(b["best_score"]))):
                ctx.violation(dict(optimizer=name, kind="verbosity"), dict(spec=dunit.spec_full(spec), v1=v1, v2=v2),
                              "verbosity changes best_score")
    u.samples = [dunit.spec_brief(s) for s, _ in results[:2]]
    dunit.eval_d_unit(u, results)


REPLAY = ("case", monitor)      # harness/replay.py re-executes a recorded spec through this monitor


def replay(ctx, data):
    import json
    print(json.dumps(data, indent=1)[:6000])
    return 0
