"""C14 — max_time: no step starts after the time budget is exhausted (virtual clock)."""
import math, itertools, contextlib, io
import numpy as np
import gen, drive, dunit
from common import coq_eval_cases, cz, clist, copt, cbool, Scaler, jsonable


def k_unit(ctx):
    from gradient_free_optimizers import _stop_run
    u = ctx.unit("K:StopRun.check(max_time)", "K",
                 "all (start, now, max_time) over small integer grids incl. the exact deadline and max_time in {None, 0}; "
                 "non-trivial = max_time truthy; distinct by the triple")
    lits, cases = [], []
    for start in (0, 3):
        for T in (None, 0, 1, 2, 5):
            for now in range(start, start + 8):
                clock = drive.VClock()
                clock.now = now
                with drive.patched_clock(clock):
                    st = _stop_run.StopRun(start, T, None, None)
                    st.update(-math.inf, [])
                    out = bool(st.check())
                    reads = len(clock.log)
                lits.append("(%s, %s, %s, %s, %s)" % (cz(start), cz(now), copt(T), cbool(out), cbool(reads == 1)))
                cases.append(dict(start=start, now=now, max_time=T, impl=out, clock_reads=reads))
                u.count((start, now, T), nontrivial=bool(T))
    u.exhaustive = True
    u.samples = cases[:2]
    hdr = "Require Import StopRun."
    failing, err = coq_eval_cases(
        u.name, hdr, "Z * Z * option Z * bool * bool", lits,
        "fun c => let '(st, now, T, e, rd) := c in match check (mkStop T None None) st now SNInf [] with "
        "Ok b => Bool.eqb b e && Bool.eqb (check_reads_clock (mkStop T None None)) rd | Err _ => false end")
    u.error = err
    for i in failing:
        u.mismatches.append(dict(case=cases[i], note="StopRun.check(max_time) differs from the model"))


def specs(ctx, n):
    rng = ctx.sub_rng("d")
    names = gen.FAST if ctx.quick else gen.ALL
    out = []
    for i in range(n):
        name = gen.rotate(names, i, ctx.quick)
        space, meta = gen.gen_space(rng, sizes=(2, 3, 5, 8), max_points=200)
        table, _ = gen.gen_table(rng, space)
        n_iter = rng.choice([1, 2, 3, 5, 8, 12])
        durs = [rng.choice([0, 1, 1, 2, 3, 5]) for _ in range(n_iter)]
        total = sum(durs)
        r = rng.random()
        if r < 0.5 and total > 0:
            T = max(1, sum(durs[:rng.randrange(1, n_iter + 1)]) + rng.choice([-1, 0, 0, 1]))   # at / around a deadline
        elif r < 0.8:
            T = rng.randint(1, max(1, total + 2))
        else:
            T = total + 5
        calls = [dict(n_iter=n_iter, max_time=T, memory=False)]
        # the time budget together with other stopping criteria that cannot fire in this run: the rows are still decided by time
        r2 = rng.random()
        if r2 < 0.2:
            calls[0]["early_stopping"] = {"n_iter_no_change": n_iter + rng.choice([1, 5])}
        elif r2 < 0.3:
            calls[0]["early_stopping"] = {"n_iter_no_change": n_iter + 2, "tol_abs": 0.5, "tol_rel": 10}
        elif r2 < 0.4:
            calls[0]["max_score"] = 1e12
        elif r2 < 0.45:
            calls[0]["max_score"] = 1e12
            calls[0]["early_stopping"] = {"n_iter_no_change": n_iter + 3}
        spec = dict(name=name, space=space, table=table, durations=durs, calls=calls, seed=rng.randrange(10 ** 6),
                    init=gen.gen_initialize(rng, space), read_cost=rng.choice([0, 0, 1]), scalar="float")
        if rng.random() < 0.3 and "early_stopping" not in calls[0]:
            # the evaluation during which the budget runs out (and sometimes the next ones) returns NaN / +-inf: the deadline is about time
            cum, kx = 0, None
            for j_, d_ in enumerate(durs):
                cum += d_
                if cum > T:
                    kx = j_
                    break
            script = [(float(rng.choice([-2, -1, 0, 1, 3])), None) for _ in range(n_iter)]
            bad = rng.choice([math.nan, math.nan, math.inf, -math.inf])
            for j_ in ([kx, kx + 1, kx + 2][:rng.choice([1, 2, 3])] if kx is not None else [rng.randrange(n_iter)]):
                if j_ < n_iter:
                    script[j_] = (bad, None)
            spec["script"] = script
        out.append(spec)
    return out


def d_unit_and_monitor(ctx, n):
    u = ctx.unit("D:search(max_time)", "D",
                 "real search() under the virtual clock (objective advances it by scripted integer durations; optionally "
                 "every clock read costs one tick) with T at/around cumulative deadlines, alone or combined with early_stopping / max_score "
                 "settings that cannot fire, vs the model driver fed the same "
                 "clock readings; non-trivial = n_iter >= 2; distinct by (durations, T, read_cost)")
    ctx.monitor_rule = ("rows == first k with (time after step k) - start > T else n_iter, time taken from the harness clock "
                        "(read_cost=0 runs); also for a search that follows one which never reached finish_search (objective raised / abandoned step-API "
                        "run), after an arbitrary pause; distinct by (optimizer, durations, T)")
    results = []
    for spec in specs(ctx, n):
        r = dunit.run_case(spec)
        results.append((spec, r))
        c = spec["calls"][0]
        u.count((tuple(spec["durations"]), c["max_time"], spec["read_cost"]), nontrivial=c["n_iter"] >= 2)
        u.bump(spec["name"])
        if r["exc"] is not None:
            ctx.blocked.append(dict(spec=dunit.spec_brief(spec), exc=r["exc"][:2]))
            continue
        hm = dunit.history_mismatch(r["obs"][-1]) if r["obs"] else None
        if hm:
            ctx.violation(dict(kind="history-mismatch", optimizer=spec["name"]), dict(spec=dunit.spec_full(spec)), "%s: %s" % (spec["name"], hm))
            continue
        if spec["read_cost"] == 0:
            o = r["obs"][0]
            ctx.monitor_runs += 1
            ctx.monitor_nontrivial.add((spec["name"], tuple(spec["durations"]), c["max_time"]))
            cum, k = 0, None
            for j, d in enumerate(spec["durations"]):
                cum += d
                if cum > c["max_time"]:
                    k = j + 1
                    break
            expect = k if k is not None else c["n_iter"]
            if len(o["rows"]) != expect:
                ctx.violation(dict(kind="max_time-step", optimizer=spec["name"]),
                              dict(spec=dunit.spec_full(spec)),
                              "rows=%d but elapsed time first exceeds T=%d after step %r (n_iter=%d, durations=%r)"
                              % (len(o["rows"]), c["max_time"], k, c["n_iter"], spec["durations"]))
    u.samples = [dunit.spec_brief(s) for s, _ in results[:2]]
    dunit.eval_d_unit(u, results)
    aborted_then_timed(ctx, 10 if ctx.quick else 60)


def aborted_then_timed(ctx, n):
    """a search that never reaches finish_search (the objective raises, or init_search / search_step driven by hand and abandoned),
    followed by search(max_time=T) on the same optimizer: the budget of the second search starts when IT begins"""
    rng = ctx.sub_rng("aborted")
    names = [nm for nm in gen.FAST]
    for i in range(n):
        name = gen.rotate(names, i, ctx.quick)
        space, meta = gen.gen_space(rng, sizes=(3, 5, 8), max_points=200)
        table, _ = gen.gen_table(rng, space)
        n_iter = rng.choice([4, 6, 9])
        durs = [rng.choice([1, 2, 3]) for _ in range(n_iter)]
        T = max(1, sum(durs[:rng.randrange(1, n_iter + 1)]) + rng.choice([-1, 0, 1]))
        clock = drive.VClock(0)
        spec = dict(name=name, space=space, table=table, seed=rng.randrange(10 ** 6), init=gen.gen_initialize(rng, space), meta=meta)
        opt = dunit.build_opt(name, space, spec["init"], None, spec["seed"], None)
        how = rng.choice(["raises", "abandoned-steps"])
        wait = rng.choice([5, 50, 1000])
        # the objective raises in the iteration phase (an exception inside an initialisation step leaves the initialiser's index one
        # ahead of the completed steps: the next search then runs out of initial positions -- outside every listed property)
        pre = int(opt.init.n_inits) + rng.choice([0, 1, 2]) if how == "raises" else rng.choice([1, 2, 3])

        class Boom(Exception):
            pass
        calls = {"n": 0}

        def bad(para):
            calls["n"] += 1
            clock.advance(1)
            if calls["n"] > pre:
                raise Boom()
            return 0.0
        obj = drive.Objective(space, table, (), durs, clock, "float", 0)
        try:
            with drive.patched_clock(clock), drive.silence(), contextlib.redirect_stderr(io.StringIO()):
                if how == "raises":
                    try:
                        opt.search(bad, n_iter=pre + 3, verbosity=False, memory=False)
                    except Boom:
                        pass
                else:
                    opt.init_search(bad, pre, None, None, None, False, None, False)
                    for k_ in range(pre):
                        opt.search_step(k_)
                clock.advance(wait)                      # time passes between the two searches
                rows0 = len(opt.results_mang.results_list)
                opt.search(obj, n_iter=n_iter, max_time=T, verbosity=False, memory=False)
                rows = len(opt.search_data) - rows0
        except Exception as e:
            ctx.blocked.append(dict(optimizer=name, scenario=how, exc=[type(e).__name__, str(e)[:100]]))
            continue
        ctx.monitor_runs += 1
        ctx.monitor_nontrivial.add((name, how, tuple(durs), T, wait))
        cum, k = 0, None
        for j, d in enumerate(durs):
            cum += d
            if cum > T:
                k = j + 1
                break
        expect = k if k is not None else n_iter
        if rows != expect:
            ctx.violation(dict(kind="max_time-after-aborted-search", optimizer=name, scenario=how),
                          dict(optimizer=name, scenario=how, steps_before=pre, wait=wait, durations=durs, max_time=T, n_iter=n_iter, rows=rows, expected=expect,
                               space=jsonable(space), seed=spec["seed"]),
                          "%s: after a search that never reached finish_search (%s), search(max_time=%d) produced %d rows, but its own elapsed "
                          "time first exceeds the budget after step %r (n_iter=%d)" % (name, how, T, rows, k, n_iter))


def pre_build(ctx):
    import gen_units
    gen_units.pre_build(ctx, "translate_driver")


def run(ctx):
    import gen_units
    gen_units.g_unit(ctx, "translate_driver")
    ctx.assumptions.append("the wall clock is replaced by a harness-controlled clock (the `time` name in search, _stop_run, "
                           "_times_tracker); the theorem holds for every sequence of readings")
    import common as _common
    _common.guarded(ctx, "K-unit", k_unit, ctx)
    d_unit_and_monitor(ctx, 90 if ctx.quick else 600)


def replay(ctx, data):
    import json
    print(json.dumps(data, indent=1)[:4000])
    return 0
