"""C07 — a fixed random_state makes a run exactly reproducible."""
import math, random, io, contextlib, os
import numpy as np
import gen, dunit
from common import coq_eval_cases, cz, cnat, clist, copt, cbool, jsonable


class SeedLog:
    """logs random.seed / numpy.random.seed and the numpy randint draws that feed them; counts foreign entropy"""

    def __init__(self):
        self.events = []
        self.foreign = []
        self.saved = []

    def __enter__(self):
        import gradient_free_optimizers.optimizers.core_optimizer.utils as utils
        o_rs, o_ns, o_ri = random.seed, np.random.seed, np.random.randint

        def rs(a=None, *k, **kw):
            self.events.append(("py", a))
            return o_rs(a, *k, **kw)

        def ns(a=None, *k, **kw):
            self.events.append(("np", a))
            return o_ns(a, *k, **kw)

        def ri(*a, **kw):
            r = o_ri(*a, **kw)
            if kw.get("high") == 2 ** 31 - 2:
                self.events.append(("randint", int(r)))
            return r
        self.saved = [(random, "seed", o_rs), (np.random, "seed", o_ns), (np.random, "randint", o_ri)]
        random.seed, np.random.seed, np.random.randint = rs, ns, ri
        for nm in ("urandom",):
            o = getattr(os, nm)
            self.saved.append((os, nm, o))

            def mk(o, nm):
                def w(*a, **k):
                    self.foreign.append("os." + nm)
                    return o(*a, **k)
                return w
            setattr(os, nm, mk(o, nm))
        return self

    def __exit__(self, *a):
        for owner, nm, o in reversed(self.saved):
            setattr(owner, nm, o)


def ev_lit(ev):
    k, v = ev
    if k == "randint":
        return "EvRandint %s" % cz(v)
    return ("EvSeedPy %s" if k == "py" else "EvSeedNp %s") % cz(v)


def run_once(name, space, table_fn, seed, nth, ambient, n_iter, cfg, feas=None):
    random.seed(ambient)
    np.random.seed(ambient % (2 ** 31))
    for _ in range(ambient % 7):
        random.random()
        np.random.random()
    kw = dict(cfg)
    if nth is not None:
        kw["nth_process"] = nth
    if feas is not None:
        names = list(space.keys())
        fv = {tuple(float(space[n][i]) for n, i in zip(names, p)) for p in feas}
        kw["constraints"] = [lambda para: tuple(float(para[n]) for n in names) in fv]
    with SeedLog() as sl:
        opt = gen.opt_class(name)(space, random_state=seed, **kw)
        construct_events = list(sl.events)
        with contextlib.redirect_stdout(io.StringIO()), contextlib.redirect_stderr(io.StringIO()):
            opt.search(table_fn, n_iter=n_iter, verbosity=False)
    return dict(data=opt.search_data.to_dict("list"), best_score=float(opt.best_score), best_para=jsonable(opt.best_para),
                random_seed=opt.random_seed, events=construct_events, later_events=sl.events[len(construct_events):], foreign=sl.foreign)


NESTED = set(gen.POPULATION) | {"PowellsMethod"}      # classes whose nested optimizers draw their own seed


CROSS_SCRIPT = r"""
import sys, json, hashlib, io, contextlib
import numpy as np
import gradient_free_optimizers as gfo
names, slow = json.loads(sys.argv[1]), set(json.loads(sys.argv[2]))
space = {"alpha": np.arange(6), "beta": np.arange(6), "gamma": np.arange(6)}
def f(p):
    return -float((p["alpha"] - 2) ** 2 + (p["beta"] - 3) ** 2 + (p["gamma"] - 1) ** 2)
out = {}
for n in names:
    try:
        o = getattr(gfo, n)(space, random_state=7)
        with contextlib.redirect_stdout(io.StringIO()), contextlib.redirect_stderr(io.StringIO()):
            o.search(f, n_iter=(12 if n in slow else 30), verbosity=False)
        out[n] = hashlib.sha1(o.search_data.to_csv().encode()).hexdigest()
    except Exception as e:
        out[n] = "EXC " + type(e).__name__
print("RESULT " + json.dumps(out))
"""


def cross_process(ctx):
    """the same search with the same random_state in two fresh interpreter processes with different string-hash salts (PYTHONHASHSEED):
    nothing in a run may depend on the iteration order of a set / dict of strings"""
    import subprocess, sys, os, json
    res = []
    for hs in ("1", "2"):
        env = dict(os.environ, PYTHONHASHSEED=hs)
        p = subprocess.run([sys.executable, "-c", CROSS_SCRIPT, json.dumps(gen.ALL), json.dumps(gen.SLOW)], env=env, capture_output=True, text=True, timeout=600)
        line = [l for l in p.stdout.splitlines() if l.startswith("RESULT ")]
        if not line:
            raise RuntimeError("cross-process run produced no result: %s" % (p.stderr[-500:],))
        res.append(json.loads(line[-1][7:]))
    a, b = res
    for n in gen.ALL:
        ctx.monitor_runs += 2
        ctx.monitor_nontrivial.add((n, "cross-process"))
        if a.get(n, "").startswith("EXC") or b.get(n, "").startswith("EXC"):
            ctx.blocked.append(dict(optimizer=n, exc=[a.get(n), b.get(n)]))
        elif a.get(n) != b.get(n):
            ctx.violation(dict(kind="not-reproducible-across-processes", optimizer=n),
                          dict(optimizer=n, random_state=7, space="alpha, beta, gamma = arange(6)", hash_salts=[1, 2], digests=[a.get(n), b.get(n)]),
                          "%s(random_state=7): the same search gives different search_data in two interpreter processes started with PYTHONHASHSEED=1 and 2" % n)


def pre_build(ctx):
    import gen_units
    gen_units.pre_build(ctx, "translate_seed")


def run(ctx):
    import gen_units
    gen_units.g_unit(ctx, "translate_seed")
    u = ctx.unit("K:seeding events of construction", "K",
                 "constructing every optimizer class (random_state in {None, int}, nth_process in {None, 0, 2}, populations, "
                 "Powell, both grid directions): the logged sequence of random.seed / numpy.random.seed / numpy randint(0, 2**31-2) "
                 "events must be a well-formed seeding trace of the model (main seed = random_state + nth_process, nested "
                 "optimizers re-seed both generators from numpy's draw) and random_seed must equal the main seed; "
                 "non-trivial = nested optimizers exist; distinct by (class, random_state kind, nth_process)")
    ctx.monitor_rule = ("paired runs: same integer random_state under two different ambient generator states give identical "
                        "search_data / best_score / best_para (with another instance of the same class run in between on a space of another dimension); a random_state=None run is reproduced by random_state=random_seed "
                        "(nth_process None or 0); random_seed == random_state + nth_process; all 22 optimizers (sklearn surrogates, "
                        "populations, nested helpers), constraints, rand_rest_p, sampling, max_sample_size below the space size; population optimizers also constructed twice with the very same "
                        "initialize object / the omitted default and a population above the number of initial positions; every optimizer also in two fresh interpreter "
                        "processes with different string-hash salts; distinct by (optimizer, seed, config)")
    ctx.assumptions.append("absence of entropy sources other than the two global generators cannot be proved in a model: it is covered by the "
                           "seeding-event log and the paired-run monitor")
    rng = ctx.sub_rng("c07")
    lits, cases = [], []
    names = gen.ALL
    space0 = {"a": np.arange(0, 7), "b": np.array([0.5, 1.5, 2.5, 3.5, 4.5])}

    def f0(para):
        return -float((para["a"] - 3) ** 2 + (para["b"] - 2.5) ** 2)
    space1 = {"u": np.arange(0, 5), "v": np.arange(0, 4), "w": np.array([1.0, 2.0, 4.0])}

    def f1(para):
        return -float(abs(para["u"] - 1) + abs(para["v"] - 2) + para["w"])
    reps = 1 if ctx.quick else 4
    for name in names:
        slow = name in gen.SLOW
        import inspect
        has_mss = "max_sample_size" in inspect.signature(gen.opt_class(name).__init__).parameters
        for rep in range(reps + (1 if has_mss else 0)):
            limited = has_mss and rep == reps          # one extra round per model-based class with a sampled candidate grid
            cfg = gen.gen_opt_config(rng, name, space0) if rng.random() < 0.6 else {}
            if name in ("GeneticAlgorithmOptimizer", "DifferentialEvolutionOptimizer"):
                cfg.pop("population", None)
            if name in gen.SMBO and name != "LipschitzOptimizer" and rng.random() < 0.5:
                cfg["sampling"] = {"random": rng.choice([10, 20])}
            if limited:
                # below |space0| = 35: the candidate grid itself is sampled; what follows must draw again (a small random candidate sample,
                # random restarts), otherwise nothing random happens after the grid and a difference in the draws stays invisible
                cfg["max_sample_size"] = 21 + names.index(name) % 13      # a different limit per class: nothing shared between classes by value
                if "sampling" in inspect.signature(gen.opt_class(name).__init__).parameters and name != "LipschitzOptimizer":
                    cfg["sampling"] = {"random": rng.choice([3, 4])}
                cfg["rand_rest_p"] = 0.25
            if name == "GridSearchOptimizer":
                cfg["rand_rest_p"] = 0.5
            feas = None
            if rng.random() < 0.3:
                feas, _ = gen.gen_constraint(rng, space0, kind=rng.choice(["halfspace", "mask"]))
            n_iter = 14 if slow else 25
            seed = rng.randrange(0, 10 ** 6)
            for nth in ([None, 2] if rep == 0 else ([None] if limited else [rng.choice([None, 0, 2])])):
                key = (name, seed, nth, repr(sorted(cfg.items())))
                try:
                    a = run_once(name, space0, f0, seed, nth, 111, n_iter, cfg, feas)
                    if rep == 0 or limited:
                        # between the two runs another instance of the same class works on a space of another dimension: whatever it leaves
                        # behind in the process (a module-level surrogate, class attributes, caches) must not reach the second run
                        try:
                            run_once(name, space1, f1, seed + 1, None, 3, 9 if slow else 12, {k_: v_ for k_, v_ in cfg.items() if k_ != "initialize"}, None)
                        except Exception:
                            pass
                    b = run_once(name, space0, f0, seed, nth, 99991, n_iter, cfg, feas)
                except Exception as e:
                    ctx.blocked.append(dict(optimizer=name, exc=[type(e).__name__, str(e)[:100]]))
                    continue
                ctx.monitor_runs += 2
                ctx.monitor_nontrivial.add(key)
                n = nth or 0
                for r in (a, b):
                    lits.append("(seeding_ok %s (Some %s) %s %s %s)" % (cbool(name not in NESTED), cz(seed), copt(nth), cz(r["random_seed"]), clist(r["events"], ev_lit)))
                    cases.append(dict(optimizer=name, random_state=seed, nth_process=nth, cfg=jsonable(cfg), events=r["events"][:8], random_seed=r["random_seed"]))
                    u.count(key + (len(cases),), nontrivial=len(r["events"]) > 2)
                if a["random_seed"] != seed + n:
                    ctx.violation(dict(kind="random-seed-value", optimizer=name), dict(optimizer=name, random_state=seed, nth_process=nth, random_seed=a["random_seed"]),
                                  "%s: random_seed=%r but random_state + nth_process = %r" % (name, a["random_seed"], seed + n))
                if jsonable(a["data"]) != jsonable(b["data"]) or a["best_score"] != b["best_score"] or a["best_para"] != b["best_para"]:
                    ctx.violation(dict(kind="not-reproducible", optimizer=name), dict(optimizer=name, random_state=seed, nth_process=nth, cfg=jsonable(cfg), foreign=a["foreign"][:5]),
                                  "%s(random_state=%d): two runs under different ambient generator states differ" % (name, seed))
            # "identical arguments" taken literally: the SAME initialize object handed to both constructions (a dict the caller re-uses, or
            # the omitted default), with a population larger than the number of initial positions so that the initialiser tops it up
            if name in gen.POPULATION and rep == 0:
                for shared in ({"vertices": 2, "random": 1}, None):
                    cfg2 = dict(cfg, population=(14 if shared is None else 7))
                    if shared is not None:
                        cfg2["initialize"] = shared          # the same object in both runs (run_once copies the outer dict only)
                    try:
                        a = run_once(name, space0, f0, seed, None, 5, n_iter, cfg2, None)
                        b = run_once(name, space0, f0, seed, None, 6, n_iter, cfg2, None)
                    except Exception as e:
                        ctx.blocked.append(dict(optimizer=name, exc=[type(e).__name__, str(e)[:100]]))
                        continue
                    ctx.monitor_runs += 2
                    ctx.monitor_nontrivial.add((name, seed, "shared-initialize", shared is None))
                    if jsonable(a["data"]) != jsonable(b["data"]) or a["best_score"] != b["best_score"] or a["best_para"] != b["best_para"]:
                        ctx.violation(dict(kind="not-reproducible", optimizer=name, shared_initialize=True),
                                      dict(optimizer=name, random_state=seed, cfg=jsonable(cfg2), initialize_after=jsonable(shared)),
                                      "%s(random_state=%d): constructed twice with the same arguments (the same initialize object / the default), the two runs differ" % (name, seed))
            # random_state=None, replay through random_seed
            for nth in (None, 0):
                try:
                    c = run_once(name, space0, f0, None, nth, 4242 + rep, n_iter, cfg, feas)
                    d = run_once(name, space0, f0, c["random_seed"], nth, 77, n_iter, cfg, feas)
                except Exception as e:
                    ctx.blocked.append(dict(optimizer=name, exc=[type(e).__name__, str(e)[:100]]))
                    continue
                ctx.monitor_runs += 2
                lits.append("(seeding_ok %s None %s %s %s)" % (cbool(name not in NESTED), copt(nth), cz(c["random_seed"]), clist(c["events"], ev_lit)))
                cases.append(dict(optimizer=name, random_state=None, nth_process=nth, events=c["events"][:8], random_seed=c["random_seed"]))
                u.count((name, "none", nth, rep), nontrivial=len(c["events"]) > 3)
                if jsonable(c["data"]) != jsonable(d["data"]) or c["best_score"] != d["best_score"]:
                    ctx.violation(dict(kind="replay-differs", optimizer=name), dict(optimizer=name, random_seed=c["random_seed"], nth_process=nth, cfg=jsonable(cfg)),
                                  "%s: a random_state=None run is not reproduced by random_state=random_seed=%r" % (name, c["random_seed"]))
    import common as _common
    _common.guarded(ctx, "cross-process runs", cross_process, ctx)
    u.samples = cases[:3]
    hdr = "Require Import Rng."
    failing, err = coq_eval_cases(u.name, hdr, "bool", lits, "fun b => b", shard=200)
    u.error = err
    for i in failing[:10]:
        u.mismatches.append(dict(case=cases[i], note="the seeding events of construction are not a well-formed seeding trace of the model"))


def replay(ctx, data):
    import json
    print(json.dumps(data, indent=1)[:6000])
    return 0
