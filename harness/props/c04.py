"""C04 — search_data is a faithful, ordered record of what was evaluated."""
import math
import numpy as np
import gen, drive, dunit
from common import jsonable


def same(a, b):
    a, b = float(a), float(b)
    return (math.isnan(a) and math.isnan(b)) or a == b


def monitor(ctx, spec, r):
    name = spec["name"]
    if r["exc"] is not None:
        ctx.blocked.append(dict(spec=dunit.spec_brief(spec), exc=r["exc"][:2]))
        return
    obj = r["obj"]
    o = r["obs"][-1]
    space = spec["space"]
    names = list(space.keys())
    sig = dict(optimizer=name)
    if len(o["rows"]) != len(o["pos_l"]):
        ctx.violation(dict(sig, kind="row-count"), dict(spec=dunit.spec_full(spec)),
                      "%d rows for %d evaluated positions" % (len(o["rows"]), len(o["pos_l"])))
        return
    # first result ever returned for each value vector (what a memory revisit must reproduce)
    first = {}
    for (key, para), k in zip(obj.calls, range(len(obj.calls))):
        first.setdefault(key, obj.result_at(k, key))
    ci = 0
    row0 = 0
    for c, ob in zip(spec["calls"], r["obs"]):
        nrows = len(ob["rows"]) - row0
        seen = {}
        frame = {}
        df = c.get("memory_warm_start")
        if df is not None and c.get("memory", True):
            for _, fr in df.iterrows():
                frame[tuple(float(fr[n]) for n in names)] = float(fr["score"])
        for i in range(row0, row0 + nrows):
            row, pos = o["rows"][i], o["pos_l"][i]
            vals = tuple(float(space[n][p]) for n, p in zip(names, pos))
            if tuple(row["values"]) != vals:
                ctx.violation(dict(sig, kind="row-params"), dict(spec=dunit.spec_full(spec), row=i),
                              "row %d holds parameters %r but step %d evaluated position %r = %r" % (i, row["values"], i, pos, vals))
                return
            if c.get("memory", True) and vals in frame:
                want = (frame[vals], None)           # warm-started: the frame's score (last such row), no objective call
            elif c.get("memory", True) and vals in seen:
                want = seen[vals]                    # revisit within this call: the originally returned result
            else:
                if ci >= len(obj.calls) or obj.calls[ci][0] != vals:
                    ctx.violation(dict(sig, kind="call-order"), dict(spec=dunit.spec_full(spec), row=i),
                                  "row %d (%r) is not matched by objective call #%d" % (i, vals, ci))
                    return
                want = obj.result_at(ci, vals)
                ci += 1
                seen[vals] = want
            s, m = want
            mets = {k: v for k, v in (m or {}).items()}
            if not same(row["score"], s) or row["metrics"] != mets:
                ctx.violation(dict(sig, kind="row-result"), dict(spec=dunit.spec_full(spec), row=i),
                              "row %d: score/metrics %r %r but the objective returned %r %r for these parameters"
                              % (i, row["score"], row["metrics"], s, mets))
                return
        row0 += nrows
    if ci != len(obj.calls):
        ctx.violation(dict(sig, kind="extra-calls"), dict(spec=dunit.spec_full(spec)),
                      "%d objective calls but only %d are accounted for by rows" % (len(obj.calls), ci))


def specs(ctx, n):
    rng = ctx.sub_rng("d")
    names = gen.FAST if ctx.quick else gen.ALL
    out = []
    for i in range(n):
        name = gen.rotate(names, i, ctx.quick)
        sp = dunit.general_spec(rng, name, max_calls=3, metrics=rng.choice([0, 1, 2, 3]), nonfinite=rng.choice([0, 0, 0.1]),
                                sizes=(2, 3, 5), max_points=60, n_max=14)
        # the objective returns one and the same metrics dict object on every call (memory off: with memory on the stored result IS that
        # object, which the objective itself keeps changing -- "the originally returned result" is then ambiguous, see DESIGN section 2)
        if rng.random() < 0.3:
            sp["alias_metrics"] = True
            for c_ in sp["calls"]:
                c_["memory"] = False
        if name in ("GeneticAlgorithmOptimizer", "DifferentialEvolutionOptimizer"):
            sp["cfg"] = {k: v for k, v in (sp["cfg"] or {}).items() if k != "population"}
        if rng.random() < 0.35:        # warm-started memory (frames with scores that differ from the objective's)
            from props import c11
            for c in sp["calls"]:
                if c["memory"] and rng.random() < 0.7:
                    c["memory_warm_start"] = c11.make_frame(rng, sp["space"], sp["table"], "subset")
                    for col in c["memory_warm_start"].columns:
                        pass
                    c["memory_warm_start"] = c["memory_warm_start"][[col for col in c["memory_warm_start"].columns]]
                    # finite frame scores only: non-finite ones trigger the (known, C15) crashes of some optimizers
                    c["memory_warm_start"] = c["memory_warm_start"].assign(score=[float(rng.choice([-7.5, -1.0, 0.0, 3.25, 100.0])) for _ in range(len(c["memory_warm_start"]))])
        elif rng.random() < 0.3:       # call-index dependent results (not deterministic): the record must still be faithful
            tot = sum(c["n_iter"] for c in sp["calls"])
            sp["script"] = [(float(rng.randint(-5, 5)), ({"m0": rng.randint(0, 9)} if rng.random() < 0.5 else None)) for _ in range(tot)]
        if i < 4:
            # targeted: a warm-start frame covering EVERY point of a small space, each with its own score, its rows shuffled (index labels
            # permuted as after sort_values / sample): every row of search_data must carry the score of its own parameter set
            import pandas as pd
            sp = dunit.general_spec(rng, name, max_calls=1, metrics=0, nonfinite=0, sizes=(2, 3), max_points=9, n_max=14, memory=True)
            if name in ("GeneticAlgorithmOptimizer", "DifferentialEvolutionOptimizer"):
                sp["cfg"] = {k: v for k, v in (sp["cfg"] or {}).items() if k != "population"}
            nm_ = list(sp["space"].keys())
            allp = gen.all_positions(sp["space"])
            df = pd.DataFrame([dict({n_: sp["space"][n_][j_] for n_, j_ in zip(nm_, p_)}, score=float(100 + 7 * k_)) for k_, p_ in enumerate(allp)])
            perm = list(range(len(df)))
            if len(perm) > 1:
                while perm == list(range(len(df))):
                    rng.shuffle(perm)
            sp["calls"][0].update(memory=True, memory_warm_start=df.iloc[perm], n_iter=max(8, sp["calls"][0]["n_iter"]))
        out.append(sp)
    return out


def pre_build(ctx):
    import gen_units
    gen_units.pre_build(ctx, "translate_results")


def run(ctx):
    import gen_units
    gen_units.g_unit(ctx, "translate_results")
    u = ctx.unit("D:search(rows)", "D",
                 "1-3 search() calls, rotating optimizers, objectives returning a bare score or (score, dict) with 0-3 metric "
                 "keys as python/numpy/int scalars, non-finite scores, memory on/off, every verbosity setting, step API; "
                 "model driver on the recorded proposals compares rows, order, call log, memory dict; "
                 "non-trivial = some position is revisited or a tuple result is used; distinct by spec")
    ctx.monitor_rule = ("every row i: parameters == decode(pos_l[i]); (score, metrics) == what the logged objective call for that "
                        "step returned (or the first result for a memory revisit); no row dropped/duplicated/reordered")
    results = []
    for spec in specs(ctx, 120 if ctx.quick else 800):
        r = dunit.run_case(spec)
        results.append((spec, r))
        key = (spec["name"], spec["seed"], tuple(c["n_iter"] for c in spec["calls"]))
        revisit = bool(r["obs"]) and len(set(map(tuple, r["obs"][-1]["pos_l"]))) < len(r["obs"][-1]["pos_l"])
        tup = any(v[1] is not None for v in spec["table"].values())
        u.count(key, nontrivial=revisit or tup)
        u.bump(spec["name"])
        ctx.monitor_runs += 1
        ctx.monitor_nontrivial.add(key)
        monitor(ctx, spec, r)
    u.samples = [dunit.spec_brief(s) for s, _ in results[:2]]
    dunit.eval_d_unit(u, results)


REPLAY = ("case", monitor)      # harness/replay.py re-executes a recorded spec through this monitor


def replay(ctx, data):
    import json
    print(json.dumps(data, indent=1)[:6000])
    return 0
