"""C13 — early_stopping stops exactly per its documented no-improvement rule."""
import math, itertools
from fractions import Fraction
import numpy as np
import gen, drive, dunit
from common import coq_eval_cases, cz, clist, copt, cbool, Scaler, jsonable


def spec_rule(scores, n, tol_abs, tol_rel):
    """The documented rule, exact arithmetic (Fractions). scores: history so far (k = len)."""
    k = len(scores)
    if k <= n:
        return False
    sc = [Fraction(float(x)) for x in scores]
    last = max(sc[k - n:])
    earlier = max(sc[:k - n])
    if last <= earlier:
        return True
    if tol_abs is not None and last - earlier < Fraction(float(tol_abs)):
        return True
    if tol_rel is not None and earlier != 0 and (last - earlier) * 100 < Fraction(float(tol_rel)) * abs(earlier):
        return True
    return False


TOLS = [(None, None), (1.0, None), (0.5, None), (None, 50.0), (None, 100.0), (2.0, 150.0), (None, 25.0)]


def cfg_dict(n, ta, tr, explicit_none):
    d = {"n_iter_no_change": n}
    if ta is not None or explicit_none:
        d["tol_abs"] = ta
    if tr is not None or explicit_none:
        d["tol_rel"] = tr
    return d


def cfg_lit(sc, d):
    tr = d.get("tol_rel")
    trl = "None"
    if tr is not None:
        fr = Fraction(float(tr))
        trl = "(Some (%s, %s))" % (cz(fr.numerator), cz(fr.denominator))
    ta = d.get("tol_abs")
    return "(mkEarly %s %s %s)" % (copt(d.get("n_iter_no_change")), copt(None if ta is None else sc.z(ta)), trl)


def k_unit(ctx):
    from gradient_free_optimizers._stop_run import no_change
    u = ctx.unit("K:no_change", "K",
                 "all score sequences over {-2,-1,0,1,2} up to length L (quick 4, thorough 6) x n in {1,2,3} x 7 tolerance "
                 "settings x python-float / numpy-float scores (dyadic, so float arithmetic is exact); "
                 "non-trivial = len > n; distinct by (scores, n, tol, type)")
    L = 4 if ctx.quick else 6
    alpha = [-2.0, -1.0, 0.0, 1.0, 2.0]
    sc = Scaler([0.5])
    lits, cases = [], []
    import warnings
    warnings.simplefilter("ignore")
    for ln in range(1, L + 1):
        for seq in itertools.product(alpha, repeat=ln):
            for n in (1, 2, 3):
                for ti, (ta, tr) in enumerate(TOLS):
                    for ty in ("py", "np"):
                        if ty == "np" and (ln + n + ti) % 2:      # halve the numpy variants
                            continue
                        d = cfg_dict(n, ta, tr, explicit_none=(ln + ti) % 2 == 0)
                        scores = [float(x) for x in seq] if ty == "py" else [np.float64(x) for x in seq]
                        try:
                            with np.errstate(all="ignore"):
                                out = ("ok", bool(no_change(scores, d)))
                        except Exception as e:
                            out = (type(e).__name__, None)
                        exp = "(Ok %s)" % cbool(out[1]) if out[0] == "ok" else "(Err Unspecified)"
                        lits.append("(%s, %s, %s)" % (clist([sc.z(x) for x in seq]), cfg_lit(sc, d), exp))
                        case = dict(scores=list(seq), cfg=d, type=ty, impl=out)
                        cases.append(case)
                        u.count((seq, n, ti, ty), nontrivial=ln > n)
                        # monitor: the rule as the property words it
                        ctx.monitor_runs += 1
                        ctx.monitor_nontrivial.add((seq, n, ti))
                        want = spec_rule(seq, n, ta, tr)
                        if out[0] != "ok":
                            ctx.violation(dict(kind="no_change-raises", exception=out[0], type=ty),
                                          case, "no_change raised %s (the property says: never raises)" % out[0])
                        elif out[1] != want:
                            ctx.violation(dict(kind="no_change-rule", type=ty), case,
                                          "no_change=%r but the documented rule gives %r" % (out[1], want))
    u.exhaustive = True
    u.bump("L=%d" % L)
    u.samples = [cases[0], cases[len(cases) // 2], cases[-1]]
    hdr = ("Require Import StopRun.\nDefinition rb_eqb (a b : res bool) := match a, b with Ok x, Ok y => Bool.eqb x y "
           "| Err _, Err _ => true | _, _ => false end.")
    failing, err = coq_eval_cases(u.name, hdr, "list Z * early_cfg * res bool", lits,
                                  "fun c => let '(zs, cfg, e) := c in rb_eqb (no_change zs cfg) e", shard=1500)
    u.error = err
    for i in failing[:50]:
        u.mismatches.append(dict(case=cases[i], note="no_change differs from the model"))


def specs(ctx, n):
    rng = ctx.sub_rng("d")
    names = gen.FAST if ctx.quick else gen.ALL
    out = []
    alphabet = [-2.0, -1.0, 0.0, 1.0, 2.0, 4.0]
    for i in range(n):
        name = gen.rotate(names, i, ctx.quick)
        space, meta = gen.gen_space(rng, sizes=(2, 3, 5, 8), max_points=200)
        table, _ = gen.gen_table(rng, space)
        n_iter = rng.choice([2, 3, 5, 8, 12, 16])
        script = [(rng.choice(alphabet), None) for _ in range(n_iter)]
        if rng.random() < 0.4:          # improving prefix then plateau
            script = sorted(script, key=lambda x: x[0])
            cut = rng.randrange(1, n_iter + 1)
            script = script[:cut] + [(script[cut - 1][0] - rng.choice([0, 0, 1]), None)] * (n_iter - cut)
        nn = rng.choice([1, 2, 3, 5])
        ta, tr = rng.choice(TOLS)
        es = cfg_dict(nn, ta, tr, rng.random() < 0.3)
        calls = [dict(n_iter=n_iter, early_stopping=es, memory=rng.random() < 0.5)]
        # together with other criteria that cannot fire here (a huge time budget, an unreachable target): the rule still decides
        r2 = rng.random()
        if r2 < 0.15:
            calls[0]["max_time"] = 10 ** 6
        elif r2 < 0.3:
            calls[0]["max_score"] = 1e12
        elif r2 < 0.35:
            calls[0]["max_time"] = 10 ** 6
            calls[0]["max_score"] = 1e12
        # a continued search: an earlier search() call on the same optimizer (no early stopping) whose scores -- the best of them
        # possibly far back -- are part of the history the rule looks at (score_l is the lifetime list)
        if rng.random() < 0.3:
            n0 = rng.choice([2, 4, 7, 10])
            pre = [(rng.choice(alphabet), None) for _ in range(n0)]
            if rng.random() < 0.6:
                pre[rng.randrange(max(1, n0 // 2))] = (rng.choice([4.0, 6.0]), None)      # an early high score
            script = pre + script
            calls = [dict(n_iter=n0, memory=calls[0]["memory"])] + calls
        out.append(dict(name=name, space=space, table=table, script=script, calls=calls, seed=rng.randrange(10 ** 6),
                        init=gen.gen_initialize(rng, space), scalar=rng.choice(["float", "np"])))
    # long runs on a small space with few initial positions and a large window: optimizers that restart / rebuild their internal state late
    # in a run (a collapsed simplex, an exhausted pattern, a restart hill climber) must leave the score history the rule reads alone
    for rd in range(1 if ctx.quick else 4):
        for name in ["DownhillSimplexOptimizer", "DownhillSimplexOptimizer", "PatternSearch", "RandomRestartHillClimbingOptimizer", "PowellsMethod",
                     "DirectAlgorithm", "ParallelTemperingOptimizer"]:
            sz = rng.choice([8, 10])
            space = {"x0": np.arange(sz), "x1": np.arange(sz)}
            pk = (rng.randrange(sz), rng.randrange(sz))
            table = {p_: (-float((p_[0] - pk[0]) ** 2 + (p_[1] - pk[1]) ** 2), None) for p_ in gen.all_positions(space)}
            es = cfg_dict(rng.choice([25, 40]), None, None, False)
            out.append(dict(name=name, space=space, table=table, script=[], calls=[dict(n_iter=rng.choice([90, 120]), early_stopping=es, memory=rng.random() < 0.5)],
                            seed=rng.randrange(10 ** 6), init={"random": 3}, scalar="float"))
    # population optimizers with a small population and few initial positions, a score sequence that improves and then stalls: the rule
    # fires well inside the iteration phase, where each member's own tracker (not the driver) sees the scores
    for rd in range(2 if ctx.quick else 8):
        for name in gen.POPULATION:
            space, meta = gen.gen_space(rng, sizes=(3, 5, 8), max_points=200, ndims=2)
            table, _ = gen.gen_table(rng, space)
            n_iter = rng.choice([16, 20])
            cut = rng.randrange(5, 9)
            script = [(float(j), None) for j in range(cut)] + [(float(cut - 1) - rng.choice([0, 1]), None)] * (n_iter - cut)
            nn = rng.choice([2, 3, 4])
            es = cfg_dict(nn, None, None, False)
            out.append(dict(name=name, space=space, table=table, script=script, calls=[dict(n_iter=n_iter, early_stopping=es, memory=False)],
                            seed=rng.randrange(10 ** 6), init={"random": 2}, cfg=dict(population=4), scalar="float"))
    return out


def d_unit_and_monitor(ctx, n):
    u = ctx.unit("D:search(early_stopping)", "D",
                 "real search() with scripted dyadic score sequences (random, and improving-then-plateau) and early_stopping "
                 "settings vs the model driver, also as the second search() call of a continued search (the earlier call's scores are part "
                 "of the history); non-trivial = n_iter > n_iter_no_change or continued; distinct by (scores, cfg)")
    ctx.monitor_rule = ("K: no_change(history) == documented rule (exact Fractions) and never raises; "
                        "D: rows == first k > n with rule(history[:k]) else n_iter")
    results = []
    for spec in specs(ctx, n):
        r = dunit.run_case(spec)
        results.append((spec, r))
        c = spec["calls"][-1]
        es = c["early_stopping"]
        u.count((tuple(x[0] for x in spec["script"]), repr(sorted(es.items())), len(spec["calls"])),
                nontrivial=c["n_iter"] > es["n_iter_no_change"] or len(spec["calls"]) > 1)
        u.bump(spec["name"])
        if r["exc"] is not None:
            ctx.violation(dict(kind="search-raises", exception=r["exc"][0], optimizer=spec["name"]),
                          dict(spec=dunit.spec_full(spec)), "search() with early_stopping raised %s: %s" % r["exc"][:2])
            continue
        hm = dunit.history_mismatch(r["obs"][-1])
        if hm:
            ctx.violation(dict(kind="history-mismatch", optimizer=spec["name"]), dict(spec=dunit.spec_full(spec)), "%s: %s" % (spec["name"], hm))
            continue
        if len(spec["calls"]) > 1:
            # continued search: the rule is applied to the lifetime history (the earlier call's scores included)
            n0 = len(r["obs"][0]["score_l"])
            allsc = r["obs"][-1]["score_l"]
            ctx.monitor_runs += 1
            ctx.monitor_nontrivial.add((spec["name"], tuple(allsc), repr(sorted(es.items())), "continued"))
            k2 = next((j for j in range(1, len(allsc) - n0 + 1)
                       if spec_rule(allsc[:n0 + j], es["n_iter_no_change"], es.get("tol_abs"), es.get("tol_rel"))), None)
            ok = (len(allsc) - n0 == k2) if k2 is not None else (len(allsc) - n0 == c["n_iter"])
            if not ok:
                ctx.violation(dict(kind="early-stop-step", optimizer=spec["name"], continued=True),
                              dict(spec=dunit.spec_full(spec), scores=allsc, earlier_steps=n0),
                              "continued search: %d steps in the second call but the rule (on the lifetime history) first holds at its step %r (n_iter=%d)"
                              % (len(allsc) - n0, k2, c["n_iter"]))
            continue
        o = r["obs"][0]
        scores = o["score_l"]
        ctx.monitor_runs += 1
        ctx.monitor_nontrivial.add((spec["name"], tuple(scores), repr(sorted(es.items()))))
        full = [x[0] for x in spec["script"]]
        k = next((j for j in range(1, c["n_iter"] + 1)
                  if spec_rule(full[:j], es["n_iter_no_change"], es.get("tol_abs"), es.get("tol_rel"))), None)
        expect = k if k is not None else c["n_iter"]
        if not spec["script"]:
            # a table objective (no scripted sequence): the scores of the steps are those of search_data (cross-checked against the driver's
            # history above)
            seen = [r_["score"] for r_ in o["rows"]]
            k2 = next((j for j in range(1, len(seen) + 1)
                       if spec_rule(seen[:j], es["n_iter_no_change"], es.get("tol_abs"), es.get("tol_rel"))), None)
            ok = (len(seen) == k2) if k2 is not None else (len(seen) == c["n_iter"])
            expect = k2 if k2 is not None else c["n_iter"]
        elif c.get("memory"):
            # with memory a revisited position re-uses the first result, so the scripted sequence shifts: use observed scores
            k2 = next((j for j in range(1, len(scores) + 1)
                       if spec_rule(scores[:j], es["n_iter_no_change"], es.get("tol_abs"), es.get("tol_rel"))), None)
            ok = (len(scores) == k2) if k2 is not None else (len(scores) == c["n_iter"])
            expect = k2 if k2 is not None else c["n_iter"]
        else:
            ok = len(o["rows"]) == expect
        if not ok:
            ctx.violation(dict(kind="early-stop-step", optimizer=spec["name"]),
                          dict(spec=dunit.spec_full(spec), scores=scores),
                          "rows=%d but the rule first holds at step %r (n_iter=%d)" % (len(o["rows"]), expect, c["n_iter"]))
    u.samples = [dunit.spec_brief(s) for s, _ in results[:2]]
    dunit.eval_d_unit(u, results)


def pre_build(ctx):
    import gen_units
    gen_units.pre_build(ctx, "translate_driver")


def run(ctx):
    import gen_units
    gen_units.g_unit(ctx, "translate_driver")
    import common as _common
    _common.guarded(ctx, "K-unit", k_unit, ctx)
    d_unit_and_monitor(ctx, 72 if ctx.quick else 500)


def replay(ctx, data):
    import json
    print(json.dumps(data, indent=1)[:4000])
    from gradient_free_optimizers._stop_run import no_change
    case = data.get("case", {})
    if "scores" in case and "cfg" in case:
        try:
            print("implementation now:", no_change([float(x) for x in case["scores"]], case["cfg"]))
        except Exception as e:
            print("implementation now raises:", repr(e))
    return 0
