#!/usr/bin/env python3
"""Regenerates /verif/MANIFEST.json from the per-property table below (dev tool, not a check)."""
import json, os

VERIF = os.path.dirname(os.path.dirname(os.path.abspath(__file__)))

TRUST = ("Coq 8.16.1 kernel (vm_compute for witnesses and for running the model on the correspondence cases; no native_compute); "
         "no axioms (Print Assumptions: closed) unless the evidence file lists one; hand-written Gallina model tied to /repo by the "
         "executed correspondence units named in the evidence; harness (generators, wrappers, scaling of floats to integers, "
         "comparators, monitor, finding matchers); numpy/CPython semantics as transcribed.")

# pid -> (technique, claim text, level note, design ref)
CLAIMS = {}
NOT_YET = {}


def claim(pid, technique, text, note, ref):
    CLAIMS[pid] = (technique, text, note, ref)


claim("C12", "Coq proof over an abstract-optimizer driver model + differential correspondence (cases evaluated in Coq)",
      "Theorem C12_max_score_exact (Coq, closed): for EVERY optimizer implementing the driver interface, every objective, clock, "
      "prior history and threshold m != -inf, a search() call with only max_score set appends exactly (first step index with "
      "score >= m)+1 rows, or n_iter if none, and best_score >= m iff some step reached m. The model driver (search.py, "
      "_stop_run.py, _progress_bar.py, _results_manager.py, _memory.py transcribed into Gallina) is tied to /repo on every run by "
      "K-units (StopRun.check exhaustively over boundary values incl. 0/-0.0/inf/NaN) and D-units (real search() of rotating "
      "optimizers with scripted scores vs the model fed the recorded proposals, full observation compared), and a runtime monitor "
      "encodes the property directly to produce replays.",
      TRUST + " Finite thresholds as the property states; m = -inf is outside the theorem (best starts at -inf).",
      "DESIGN.md section 5, C12")

claim("C13", "Coq proof (rule equivalence + loop exactness over an abstract optimizer) + exhaustive differential correspondence",
      "Theorems (Coq, closed): C13_no_change_is_rule - the code's predicate (argmax position, then tolerances) equals the documented "
      "rule for every finite history, n >= 1 and tolerance setting; C13_never_raises; C13_stops_exactly - for every optimizer, "
      "objective and history search() stops at the first step where the rule holds (never earlier, never later). Tied to /repo by a "
      "K-unit that enumerates all sequences over a 5-letter dyadic alphabet up to a length bound x n x tolerance settings x python/"
      "numpy floats (model evaluated in Coq) and D-units on real search() runs; the monitor re-states the rule with exact Fractions.",
      TRUST + " Scores finite (the property's quantifier); histories are the lifetime score list of the Search object, as in the code.",
      "DESIGN.md section 5, C13")

claim("C14", "Coq proof over the driver model with the clock as an arbitrary function + differential correspondence under a virtual clock",
      "Theorem C14_max_time_exact (Coq, closed): for every optimizer, objective, T > 0, n_iter and EVERY sequence of clock readings, "
      "the number of rows equals the first k whose post-step check reading exceeds start+T, else n_iter; the reading indices are "
      "explicit (start = reading c0, check after step j = reading c0+5+5j). Tied to /repo by K-units (StopRun.check incl. exact "
      "deadline, number of clock reads) and D-units (real search() under a virtual clock, optionally with costly reads, same "
      "readings fed to the model, eval/iter times and read counts compared).",
      TRUST + " The real wall clock is an oracle: the theorem quantifies over all readings, the harness substitutes the `time` name in search/_stop_run/_times_tracker.",
      "DESIGN.md section 5, C14")

DRV = ("The Gallina driver (search.py, _progress_bar, _results_manager, _memory, _times_tracker, _search_statistics, _stop_run) over an "
       "ABSTRACT optimizer record, so the theorem covers all 22 optimizers; tied to /repo by D-units: real search() runs of rotating "
       "optimizers under a virtual clock and logging objective, the model replaying the recorded proposals and compared on rows, "
       "order, counters, times, clock reads, objective call log, best, memory dict. ")

claim("C03", "Coq proof (loop invariant over an abstract optimizer, induction over call histories) + differential correspondence",
      "Theorems C03_call_accounting / C03_call_history (Coq, closed): for every optimizer whose methods return (search = Ok), every "
      "objective, clock and prior history, a call performs k <= N steps (k = N without stopping criteria), rows/pos_l/score_l/"
      "eval_times/iter_times grow by exactly k, the first min(k, remaining inits, N) steps are initialisation steps, init+iteration "
      "counters account for every row, 0 <= eval_time <= iter_time under a monotone clock; over any sequence of calls rows add up "
      "and n_init_total = min(n_inits, total steps). " + DRV + "The 'completes without raising' half is per optimizer: the monitor "
      "runs every optimizer over populations 1..12, N smaller than inits/population, degenerate spaces and call histories; "
      "GA (population 2,3) and DE (population 1,2) raise: known findings F-D9a/F-D9b.",
      TRUST + " 'Does not raise' is proved for the driver only; for the 22 algorithms it is monitored (exceptions are violations).",
      "DESIGN.md section 5, C03")

claim("C04", "Coq proof (trace + memory invariant over an abstract optimizer) + differential correspondence",
      "Theorem C04_rows_faithful (Coq, closed): for every optimizer, deterministic objective, memory off/on/warm-started and prior "
      "history, a call appends one row per step in order, and row i carries the values decoded from position i together with the "
      "objective's result (score and every metric key) at exactly those values, or the warm-start dictionary's entry for that "
      "position; nothing is dropped, duplicated or re-paired. " + DRV + "The monitor recomputes every row from the objective's "
      "call log (tuple results, numpy/int/python scalars, call-index dependent objectives, revisits).",
      TRUST + " Metric keys are assumed disjoint from parameter names and 'score' (a clash is overwritten by {**results, **para}).",
      "DESIGN.md section 5, C04")

claim("C05", "Coq proof (characterisation of the running best as first maximum) + exhaustive/differential correspondence",
      "Theorems C05_best_is_first_max and C05_verbosity_paths_agree (Coq, closed): for every optimizer, objective and prior history, "
      "best_score is never NaN, no row of the call is strictly better, best_value decodes the position of the FIRST row attaining "
      "it (None only if every row is NaN), and the silent and tqdm update paths agree on (score_best, pos_best) for every input. "
      + DRV + "K-unit: both ProgressBar.update paths exhaustively over sequences of {-inf,-1,0,2,+inf,NaN}. The monitor recomputes "
      "the best from search_data per call (ties, non-finite, constraints, objective(best_para)) and pairs runs under two verbosity "
      "settings.",
      TRUST + " 'best_para is feasible / in space' rests on C01/C02 for the positions the optimizer emits.",
      "DESIGN.md section 5, C05")

claim("C06", "Coq proof (memory invariant; shared dictionary under every schedule by induction) + differential and schedule correspondence",
      "Theorems (Coq, closed): C06_memory_cache_exact - per call with memory on, objective calls are pairwise distinct, never hit a "
      "key of the initial dictionary, a revisit returns the stored result, memory_dict = initial ++ exactly the newly evaluated "
      "positions with their results; C06_memory_transparent - search_data, best and the optimizer state equal those of the "
      "memory=False call; C06_shared_memory_sound - for N processes and EVERY interleaving of atomic contains/get/set "
      "operations no get fails, every reported score is objective(key) and stored, and every key was initial or evaluated by "
      "somebody. " + DRV + "P-unit: the real Memory.memory wrapper run by 2-3 threads on one dictionary whose operations a "
      "scheduler releases one at a time, against the model's small-step semantics on the same schedule (values, final dict, "
      "evaluation multiset). Memory on/off pairs and real multi-process runs on a Manager dict are monitored.",
      TRUST + " Atomicity of each DictProxy operation. C06_memory_transparent (a lock-step simulation) proves that the memory=True call "
      "yields the same rows, best, counters and optimizer state as the memory=False call from the same state (deterministic objective, no warm start).",
      "DESIGN.md section 5, C06")

claim("C20", "Coq proof (round-trip and batched=single theorems over all spaces) + exhaustive/differential correspondence of every Converter method",
      "Theorems (Coq, closed): C20_position_roundtrip (any in-box position of a space with pairwise distinct values per dimension, "
      "in ANY order, any number of dimensions), C20_value_roundtrip, C20_para_roundtrip, C20_batched_v2p / C20_batched_p2v (the "
      "column-wise batched conversions equal the element-wise single ones), C20_memdict_frame_roundtrip (dict -> dataframe -> dict "
      "returns the same keys and scores). Tied to /repo by six K-units calling the real Converter on every order of 1..4 distinct "
      "values in 1-2 dims plus random spaces up to 5 dims x 50 values (positions incl. negative/out-of-range indices, member and "
      "off-grid values, shuffled para dicts, frames with extra/shuffled columns and duplicate rows), evaluated against the model "
      "inside Coq; the monitor performs the round trips on the implementation.",
      TRUST + " Search-space values are numeric and exactly representable (dyadic) in the generated cases.",
      "DESIGN.md section 5, C20")

claim("C11", "Coq proof (frame -> dictionary exactness, memory invariant over an abstract optimizer) + differential correspondence",
      "Theorems (Coq, closed): C11_frame_to_dict / C11_last_row_wins - a frame whose rows hold member values becomes exactly "
      "{position -> score of the last such row} for dimensions in any order; C11_warm_rows_trusted - for every optimizer and "
      "deterministic objective a position in that dictionary is never passed to the objective and its rows report the dictionary's "
      "score, all other rows report objective(parameters). " + DRV + "K-units for dataframe2memory_dict / values2positions; D-unit "
      "with frames of arbitrary subsets (scores deliberately different from the objective's), duplicates, extra/shuffled columns, "
      "frames chained from the previous call's search_data, spaces ascending/descending/shuffled.",
      TRUST + " Frame values are members of the search space (as the property states).",
      "DESIGN.md section 5, C11")

claim("C16", "Coq proof (number theory of the orbit in Z/|S|, mixed-radix bijections, pigeonhole) + exhaustive correspondence",
      "Theorems C16_diag_covers / C16_orth_covers (Coq, closed): for EVERY tuple of dimension sizes (all >= 1, any number of "
      "dimensions), every step_size dividing |S| and every float guess d0 >= 1 in get_direction, the first |S| iteration positions "
      "are produced without error, are pairwise distinct, lie in the box, hence visit every point exactly once; proved from "
      "gcd(direction,|S|)=1 (Gauss), the closed form of the pass/pointer recurrence, injectivity of both decodings, and a "
      "pigeonhole over the enumerated box. Tied to /repo by K-units (grid_move of both back-ends for every pointer / trial, "
      "get_direction) over all shapes with |S| <= bound in 1-4 dims x every dividing step, and an S-unit comparing the real "
      "GridSearchOptimizer's iteration positions with the model's run; the monitor counts distinct positions.",
      TRUST + " Without constraints (as the property states); round(|S|**(1/n)) is an oracle input recomputed by the harness; "
      "orthogonal's int(x / dim) float division is modelled as integer division (exact below 2^53).",
      "DESIGN.md section 5, C16")

claim("C18", "Coq proof (loop = steps; keyword-call semantics of forwarding) over data REGENERATED from the source by an ast translator + differential correspondence",
      "Theorems (Coq, closed): C18_search_eq_steps - init_search + search_step(0..N-1) + finish_search yields the very same Search "
      "object as search(n_iter=N), for every optimizer/objective/history; C18_forwarding_sound - a well-forwarded facade hands "
      "the backend exactly the environment a direct backend call gets, for every set of keyword arguments (missing required ones "
      "fail alike); C18_all_facades_well_forwarded - vm_compute over generated/FacadeData.v, which harness/translate_facades.py "
      "rewrites from optimizer_search/*.py and the backend signatures on EVERY run (fail-closed ast translation), so a dropped, "
      "renamed or re-defaulted parameter breaks this proof obligation; the check then names the parameter and runs the facade "
      "against `class T(backend, Search)` to exhibit the difference. " + DRV + "D-unit pairs search() with the step API.",
      TRUST + " The translator (harness/translate_facades.py); keyword calls only (positional use of search_space is not modelled); "
      "a trailing **kwargs of a backend is ignored (it receives nothing on either path); default expressions are compared by "
      "canonical text.",
      "DESIGN.md section 5, C18")

FAM = ("HillClimbing, StochasticHillClimbing, SimulatedAnnealing, RepulsingHillClimbing, RandomRestartHillClimbing, RandomAnnealing and "
       "RandomSearch are modelled precisely (CoreOpt.v, Tracker.v, Algos.v: the random tape is part of the optimizer state) and tied to /repo by "
       "S-units that replay every iterate / evaluate of real runs from the observed pre-state with the logged draws; grid search by C16's model. "
       "The other 14 optimizers are covered by the abstract-optimizer lift theorems plus the step-level monitor only (named in the evidence). ")

claim("C01", "Coq proof (closure of the move operators for all draws; contract lifted through the driver) + K/S correspondence from observed states",
      "Theorems (Coq, closed): C01_move_random_in_box / C01_conv2pos_in_box / C01_move_climb_in_box - for EVERY tape of draws (huge, "
      "fractional, +-inf samples; NaN excluded) a returned position has every index in [0, len-1]; C01_in_box_decodes_genuinely - such a "
      "position is decoded without index wrapping to genuine elements; C01_driver_lift - for ANY optimizer emitting Q-positions search() "
      "evaluates only Q-positions and the row values are the decoding of the reported position; C01_family - the seven modelled "
      "optimizers under search(): every evaluated point in init steps, iteration steps and repeated calls is a genuine feasible point; "
      "C01_grid_positions_in_box. " + FAM + "K-unit: conv2pos / move_random / move_climb on box corners, half-integers, 1e18, +-inf.",
      TRUST + " Samples are not NaN (C01_nan_sample_refuted documents the int64-min position otherwise); rejection loops have fuel in the model.",
      "DESIGN.md section 5, C01")

claim("C02", "Coq proof (the rejection loops' only exit is feasible; step contract; driver lift) + K/S correspondence",
      "Theorems (Coq, closed): C02_move_random_feasible / C02_move_climb_feasible (every Ok exit is a feasible candidate, for all draws); "
      "C02_family_step_contract and C02_family - init positions, iteration steps, random restarts and fallbacks of the seven modelled "
      "optimizers emit only feasible positions, so search_data and best_para never contain a violating parameter set, across calls; "
      "C02_driver_lift for any optimizer. " + FAM + "The monitor checks every objective argument of all 22 optimizers against the constraint "
      "(both grid directions, simplex with few inits, populations larger than inits). Known finding F-D7 (orthogonal grid has no check).",
      TRUST, "DESIGN.md section 5, C02")

claim("C08", "Coq proof (exit at first feasible candidate with exact evaluation count, drawability of every point, escape route) + watchdog monitor",
      "Theorems (Coq, closed): C08_move_random_first_feasible - the loop exits at the FIRST feasible candidate with exactly one constraint "
      "evaluation per candidate; C08_every_point_is_drawable - index tuples and positions correspond one to one, so every retry succeeds "
      "with probability = feasible fraction under the uniform generator; C08_move_climb_exits_at_first_feasible; "
      "C08_move_climb_escape_route (a sample far outside the box makes the candidate a fresh random point); "
      "C08_family_iterate_progress (every retry consumes fresh draws). PARTIAL: the quantitative bound needs the generators' "
      "distributions (measure theory) and is not proved. " + FAM + "S-units compare the number of constraint evaluations per step; the "
      "monitor runs every optimizer under a per-step watchdog with lattice / band / mask / half-space constraints and directed "
      "geometries. Known finding F-D5 (diagonal grid restart livelock).",
      TRUST + " Probabilistic termination is argued, not proved (uniformity of random.choice, Gaussian tails).", "DESIGN.md section 5, C08")

claim("C10", "Coq proof (warm-start position by name, list assembly, split round-robin, init order under the driver) + K/S correspondence",
      "Theorems (Coq, closed): C10_key_order_irrelevant, C10_in_space_position, C10_warm_start_in_init_list (every feasible warm-start "
      "position sits before index n_inits for every mix of random/grid/vertices counts and padding), C10_split_round_robin (every "
      "population size), C10_family_inits_served (a fresh modelled optimizer searched for N >= n_inits steps evaluates exactly its "
      "initial positions in order). Tied to /repo by K-units (Initializer._init_warm_start with shuffled keys, split for all lengths x "
      "P) and an S-unit over all 22 optimizers comparing the first n_inits evaluated positions with the model's schedule; the monitor "
      "checks warm-start evaluation, best_score >= objective(w) and chaining.",
      TRUST + " The grid / vertices builders are not modelled (their lists enter as given lists no longer than planned).", "DESIGN.md section 5, C10")

claim("C15", "Coq proof (driver facts for every objective; tracker facts; totality of the hill-climbing evaluate) + fault enumeration over score masks",
      "Theorems (Coq, closed): C15_nan_never_best and C15_no_rows_lost (driver, every optimizer, every pattern of non-finite scores), "
      "C15_valid_lists_exact, C15_nan_never_adopted, C15_hc_evaluate_total (never fails for any score), "
      "C15_family_keeps_proposing_legal_points (the step contract is score independent); for the Gallina definitions REGENERATED "
      "from the source of the tracker layer on every run (translate_core.py -> generated/TrackerGen.v, proved to refine the model "
      "in proofs/TrackerTie.v): C15_source_tracker_never_raises, C15_source_valid_lists_finite. " + FAM + "Fault enumeration: per optimizer "
      "(all 22) all-invalid prefixes of every length for NaN / +inf / -inf and random mixtures (thorough: all 4^4 masks); no raise, no "
      "lost step, best = best non-NaN score, legal points afterwards. Known findings F-D12a..e (crash when too few finite scores exist "
      "by the end of initialisation: DownhillSimplex, Powell, Lipschitz, Forest, PatternSearch).",
      TRUST + " 'never raises' is proved for the driver and the modelled family, monitored for the rest.", "DESIGN.md section 5, C15")

claim("C19", "Coq proof (history-indexed grounding invariant through the driver; monotonicity) + S correspondence of evaluate",
      "Theorems (Coq, closed): C19_family_step_grounded / C19_family_grounded - for the seven modelled optimizers, any draws and any "
      "(also non-finite) scores, after every search() step the tracked current and best pairs and the valid lists consist of pairs "
      "that were really evaluated (position with ITS score); C19_driver_lift for any optimizer with such an invariant; "
      "C19_best_monotone, C19_current_monotone_greedy; and for the Gallina definitions REGENERATED from the source on every run "
      "(search_tracker.py, evaluate_init, BaseOptimizer / HillClimbingOptimizer / Spiral evaluate): C19_source_hc_evaluate_refines "
      "(refinement of the model for all states) and C19_source_tracker_grounded (every reachable state of the translated code). "
      + FAM + "The monitor checks grounding and monotonicity after every step for all "
      "optimizers and every population member (lattice constraints to force the fallback paths).",
      TRUST, "DESIGN.md section 5, C19")

claim("C07", "Coq proof (non-interference of ambient generator state for abstract generators) + seeding-event correspondence + paired runs",
      "Theorems (Coq, closed, for ARBITRARY seeding / drawing functions): C07_seed_overrides_ambient (with an integer random_state the "
      "generator states after construction, hence any function of them, do not depend on the ambient states), C07_random_seed_value, "
      "C07_replay_none (random_state=None is replayed through random_seed exactly when nth_process is None or 0; "
      "C07_replay_needs_process_zero refutes it otherwise), C07_members_inherit (nested optimizers re-seed from the seeded numpy "
      "generator). PARTIAL: that the library uses no other entropy source is not expressible in a model; it is covered by the K-unit "
      "(every random.seed / numpy.random.seed / seed-feeding randint event of every class's construction must form a well-formed "
      "seeding trace of the model) and by the paired-run monitor over all 22 optimizers.",
      TRUST + " `run` is an arbitrary function of the two generator states: that everything stochastic goes through them is the monitored part.",
      "DESIGN.md section 5, C07")

claim("C09", "Coq proof (score-blindness of random search; orientation lemmas) + S correspondence; paired sign test as monitor",
      "Theorems (Coq, closed): C09_random_search_score_blind (the same points whatever scores come back; grid search's model takes no "
      "scores at all), C09_eval2current_orientation / C09_eval2best_orientation (a pair is adopted exactly when strictly greater; the "
      "mirrored statement is refuted), C09_best_of_window_is_maximal, C09_worse_move_taken_when_p_ge_one (structural cause of D15). "
      "PARTIAL: the first sentence of the property is a paired statistical test over sampled trajectories - no theorem can state it; it "
      "is decided per optimizer by the monitor (f vs -f, fixed seeds, 3/4 margin), while a sign error in a modelled mechanism breaks "
      "the S-units. Known findings F-D15a..c (StochasticHillClimbing, SimulatedAnnealing, ParallelTempering fail the sign test).",
      TRUST + " Population ranking, particle attraction, simplex reflection and acquisition ordering are not modelled here (C17 covers the latter).",
      "DESIGN.md section 5 and 6, C09")

claim("C17", "Coq proof (training-set alignment, proposal rule, no repeat without replacement) + S correspondence with captured acquisition vectors",
      "Theorems (Coq, closed): C17_training_set_aligned (after any history X_sample / Y_sample = warm-start set ++ exactly the "
      "finite-scored evaluations paired in order), C17_proposal_is_argmax (a proposal accepted by the rule is a candidate no candidate "
      "exceeds), C17_no_repeat_without_replacement. Surrogate fitting and acquisition values are oracles. Tied to /repo by S-units on "
      "Bayesian / Forest / TPE / Lipschitz runs (X, Y, all_pos_comb before/after every step; the acquisition vector captured from the "
      "fitted model and the proposal checked against it in Coq) and a K-unit for init_warm_start_smbo (in-space, out-of-space, "
      "non-finite rows).",
      TRUST + " sklearn / scipy numerics are oracles; NaN acquisition values are outside the guarantee (documented example).", "DESIGN.md section 5, C17")


# supplements added after the first claims were written (source translators, population iterate model)
GEN_STOP = (" ALSO, on every run harness/translate_driver.py re-translates _stop_run.py (time_exceeded, score_exceeded, no_change, "
            "StopRun.update/check) and _progress_bar.py statement by statement into Gallina (generated/DriverGen.v, fail-closed) and "
            "proofs/DriverTie.v proves for ALL arguments that the generated definitions refine the model (check_tie, no_change_tie, "
            "update_lvl0/1_tie): a source change that alters behaviour breaks a proof obligation of this property's theorem file "
            "before any sampled input is needed.")
GEN_SEARCH = (" ALSO, harness/translate_search.py re-translates search.py (Search._score, _initialization, _iteration, search_step, the loop of "
              "search()) and the eval_time / iter_time / init_stats decorators into generated/SearchGen.v over the abstract optimizer on "
              "every run; proofs/SearchTie.v proves that the generated step functions and loop SIMULATE the model driver for every "
              "optimizer, objective, clock and state, and source_search_is_model_search shows that model init_search + generated loop + "
              "model finish_search is the model's search(), so this property's theorem is restated for the generated code "
              "(init_search / finish_search / __init__ bodies are pinned by digest and modelled by hand).")
GEN_MEM = (" ALSO, harness/translate_memory.py re-translates the closure Memory.memory(objective).wrapper of _memory.py into "
           "generated/MemGen.v on every run; proofs/MemTie.v proves that it refines the memory branch of the model's lookup for every dictionary "
           "state, objective and value vector (Memory.__init__ is pinned by digest, modelled by hand).")
GEN_RES = (" ALSO, harness/translate_results.py re-translates the closure ResultsManager.score(objective)._wrapper of _results_manager.py "
           "into generated/ResGen.v on every run (_obj_func_results pinned by digest); proofs/ResTie.v proves that this wrapper around the GENERATED "
           "memory wrapper (memory on) or the raw objective (memory off) is the model's inner_score, i.e. the whole path position -> value -> para "
           "-> (memory) -> objective -> row is generated code proved against the model.")
GEN_CORE = (" ALSO, harness/translate_coreopt.py re-translates CoreOptimizer.move_random, conv2pos, move_climb and the random_iteration wrapper "
            "of core_optimizer.py into generated/CoreGen.v on every run (loops, constraint test before every return, far-outside escape, restart "
            "test translated; the numpy vector arithmetic pinned by source text to the primitives of theories/CoreOpt.v); proofs/CoreTie.v proves "
            "the generated move_random / conv2pos EQUAL to the model and move_climb input/output-equivalent, so the closure theorems hold for "
            "what the source says now.")
GEN_INIT = (" ALSO, harness/translate_init.py re-translates Initializer.__init__, set_pos, _init_warm_start, _init_random_search, _fill_rest_random "
            "and add_n_random_init_pos of init_positions.py into generated/InitGen.v on every run (_init_grid_search / _init_vertices are abstract, "
            "pinned by digest); proofs/InitTie.v proves the generated _init_warm_start equal to Init.init_warm_start and the generated set_pos to be "
            "Init.assemble of the parts.")
GEN_SMBO = (" ALSO, harness/translate_smbo.py re-translates the wrappers of SMBO.track_X_sample / track_y_sample and the bodies of SMBO.evaluate / "
            "evaluate_init (smb_opt/smbo.py) into generated/SmboGen.v on every run (decorator lists checked, _remove_position pinned by digest); "
            "proofs/SmboTie.v proves one generated driver step equal to the model's smbo_step. Theorems C17_source_step_refines, "
            "C17_source_track_y_refines, C17_source_evaluate_refines.")
GEN_CONV = (" ALSO, harness/translate_conv.py re-translates Converter.position2value, value2position, value2para, para2value of converter.py into "
            "generated/ConvGen.v on every run (argmin expression pinned by text to nearest_index; batched / dataframe conversions pinned by digest); "
            "proofs/ConvTie.v proves the generated functions EQUAL to theories/Converter.v (results and errors).")
EXTRA = {
    "C07": (" ALSO, harness/translate_seed.py re-translates utils.set_random_seed into generated/SeedGen.v on every run (numpy's draw expression pinned by text); "
            "proofs/SeedTie.v proves the generated function equal to Rng.set_random_seed. Theorems C07_source_set_random_seed_equals_model, "
            "C07_source_seed_overrides_ambient."),
    "C09": (" ALSO, harness/translate_shc.py re-translates StochasticHillClimbingOptimizer.evaluate / _transition / _consider / _execute_transition and the "
            "counting decorators of ParameterTracker into generated/ShcGen.v on every run (acceptance probability = oracle, pinned by digest; "
            "SimulatedAnnealingOptimizer.evaluate checked by text); proofs/ShcTie.v proves the generated evaluate equal to the stochastic branch of "
            "Algos.algo_evaluate. Theorems C09_source_stochastic_evaluate_refines, C09_source_transition_spec."),
    "C20": GEN_CONV + " Theorems C20_source_*_equals_model, C20_source_position_roundtrip, C20_source_value_roundtrip, C20_source_para_roundtrip.",
    "C17": GEN_SMBO,
    "C12": GEN_STOP + " Theorems C12_source_score_exceeded_refines, C12_source_check_refines." + GEN_SEARCH + " Theorem C12_source_search_max_score_exact.",
    "C03": GEN_SEARCH + " Theorems C03_source_search_step_refines, C03_source_search_loop_refines, C03_source_call_accounting.",
    "C18": GEN_SEARCH + " Theorem C18_source_search_step_refines (the translated search_step is the model step that C18_search_eq_steps is about).",
    "C13": GEN_STOP + " Theorems C13_source_no_change_is_rule (the TRANSLATED no_change is the documented rule), C13_source_never_raises, C13_source_check_refines." + GEN_SEARCH + " Theorem C13_source_search_stops_exactly.",
    "C14": GEN_STOP + " Theorems C14_source_time_exceeded_refines, C14_source_check_refines." + GEN_SEARCH + " Theorem C14_source_search_max_time_exact.",
    "C04": GEN_RES + " Theorems C04_source_results_wrapper_refines_memory_on / _memory_off.",
    "C06": GEN_MEM + " Theorems C06_source_memory_wrapper_refines, C06_source_memory_hit, C06_source_memory_miss.",
    "C11": GEN_MEM + " Theorem C11_source_memory_wrapper_refines.",
    "C05": GEN_STOP + " Theorems C05_source_update_lvl0/lvl1_refines, C05_source_verbosity_paths_agree, C05_source_new2best_spec. ALSO, harness/translate_finish.py re-translates Search.finish_search into generated/FinishGen.v; proofs/FinishTie.v proves it equal to Driver.finish_search (theorems C05_source_finish_search_refines, C05_source_finish_decodes_best).",
    "C16": (" ALSO, harness/translate_grid.py re-translates DiagonalGridSearchOptimizer.get_direction / grid_move / iterate and "
            "OrthogonalGridSearchOptimizer.grid_move / iterate (for / while / while-True loops, fuel explicit) into generated/GridGen.v "
            "on every run; proofs/GridTie.v proves they refine theories/Grid.v, and C16_source_diag_covers / C16_source_orth_covers "
            "restate the coverage theorem for the GENERATED code (assumptions: no constraints, conv2pos is the identity inside the "
            "box, conv.dim_sizes / search_space_size are the sizes and their product - each an observable the K/S-units compare)."),
    "C08": (GEN_CORE + " Theorems C08_source_move_random_first_feasible, C08_source_move_climb_exits_at_first_feasible, C08_source_move_climb_progress, C08_source_random_iteration_dispatch, C08_source_init_random_search_first_feasible (generated Initializer)."
            " ALSO: finding F-D5 is machine-checked against the code generated from diagonal_grid_search.py: "
            "C08_source_diag_livelock_refuted (for EVERY amount of fuel the translated iterate does not return on a 1x4 space with "
            "3/4 feasible). The iterate steps of ParticleSwarm / Spiral / DifferentialEvolution are modelled (theories/Pop.v) and "
            "replayed step by step with exact constraint-evaluation counts (S-unit)."),
    "C01": (GEN_CORE + " Theorems C01_source_move_random_equals_model, C01_source_conv2pos_equals_model, C01_source_move_climb_same_results, C01_source_*_in_box."
            " ALSO: the iterate steps of ParticleSwarmOptimizer, SpiralOptimization, DifferentialEvolutionOptimizer and the "
            "recombination step of EvolutionStrategy / GeneticAlgorithm are modelled (theories/Pop.v; the float vectors - new "
            "velocity, spiral point, mutant - are oracle tape entries recomputed by the harness) with closure theorems "
            "C01_pso_iterate, C01_spiral_iterate, C01_de_iterate, C01_es_iterate, C01_cross_or_climb (in box and feasible for every tape), tied "
            "to /repo by an S-unit replaying every iteration step of real runs (position, draws consumed, constraint evaluations)."),
    "C10": GEN_INIT + " Theorems C10_source_init_warm_start_refines, C10_source_initializer_spec, C10_source_warm_start_in_init_list (C10's list-membership theorem for the generated Initializer). ALSO, harness/translate_pop.py re-translates split() of base_population_optimizer.py into generated/PopGen.v; theorem C10_source_split_round_robin (proofs/PopTie.v).",
    "C02": (GEN_INIT + " Theorems C02_source_random_inits_feasible, C02_source_init_positions_feasible." + GEN_CORE + " Theorems C02_source_move_random_feasible, C02_source_move_climb_feasible, C02_source_random_iteration_feasible."
            " ALSO: C02_pso_iterate, C02_spiral_iterate, C02_de_iterate, C02_cross_or_climb (theories/Pop.v): the emitted position "
            "of the population optimizers' iterate is feasible on every path (first candidate, constraint loop, move_climb fallback, "
            "random restart), tied to /repo by the S-unit replaying every iteration step of real runs under coupled constraints."),
}


def main():
    props = [json.loads(l) for l in open(os.path.join(VERIF, "properties.jsonl"))]
    ids = [p["id"] for p in props]
    checks = []
    for pid in ids:
        if pid not in CLAIMS:
            continue
        tech, text, note, ref = CLAIMS[pid]
        text = text + EXTRA.get(pid, "")
        if pid in EXTRA:
            tech = tech + " + source translator with machine-checked refinement (generated Gallina)"
        checks.append(dict(
            property_id=pid,
            quick_cmd="python3 harness/check.py %s --tier quick" % pid,
            thorough_cmd="python3 harness/check.py %s --tier thorough" % pid,
            evidence_file="/verif/evidence/%s.json" % pid,
            replay_cmd_template="python3 harness/check.py %s --replay {path}" % pid,
            engine="coq-model+correspondence",
            level_claimed=dict(category="proof", text=text, design_ref=ref),
            level_note=note,
            technique=tech,
        ))
    na = []
    for pid in ids:
        if pid not in CLAIMS:
            na.append(dict(property_id=pid, reason=NOT_YET.get(pid, "not claimed yet: the Coq model/check for this property is not built at this commit (planned, see DESIGN.md section 5); the technique itself applies")))
    man = dict(
        version=1,
        setup_cmd="bash /verif/setup.sh",
        hooks=dict(guard="GFO_VERIF", enable="no source hooks: all instrumentation is harness-side monkeypatching of the modules imported from /repo/src (PYTHONPATH=/repo/src)",
                   baseline_off_cmd="cd /repo && /venv/bin/python -m pytest -ra -q -p no:cacheprovider --timeout=900 --continue-on-collection-errors --junitxml=/tmp/gfo_baseline.junit.xml",
                   source_commits=[], add_only=True),
        engines=[
            dict(name="coq-model", path="/verif/coq", serves_properties=sorted(CLAIMS), kind_free_text="hand-written Gallina model (theories/), lemmas (proofs/), property theorems (props/Prop_Cxx.v, each with Print Assumptions)"),
            dict(name="source-translators", path="/verif/harness/pytrans.py", serves_properties=["C01", "C02", "C03", "C04", "C05", "C06", "C07", "C08", "C09", "C10", "C11", "C12", "C13", "C14", "C15", "C16", "C17", "C18", "C19", "C20"],
                 kind_free_text="translate_facades.py (C18 data), translate_core.py (tracker layer: C15, C19), translate_driver.py (_stop_run.py, _progress_bar.py: C05, C12-C14), translate_grid.py (grid search: C16, C08), translate_search.py (search.py driver: C03, C12-C14, C18), translate_memory.py (_memory.py wrapper: C06, C11), translate_results.py (_results_manager.py wrapper: C04), translate_coreopt.py (core_optimizer.py moves: C01, C02, C08), translate_init.py (init_positions.py: C10, C02), translate_smbo.py (smbo.py bookkeeping: C17), translate_finish.py (Search.finish_search: C05), translate_pop.py (population split: C10), translate_conv.py (converter.py single conversions: C20, C01), translate_shc.py (stochastic acceptance: C09, C19), translate_seed.py (utils.set_random_seed: C07): Gallina regenerated from /repo's AST on every run, refinement to the hand model proved in proofs/*Tie.v"),
            dict(name="correspondence", path="/verif/harness", serves_properties=sorted(CLAIMS), kind_free_text="K/D/S units: implementation and model run on the same inputs; the model is evaluated inside Coq (generated cases files, vm_compute)"),
            dict(name="monitors", path="/verif/harness/props", serves_properties=sorted(CLAIMS), kind_free_text="direct Python encodings of each property used to find concrete failing inputs (replays); never the proof"),
        ],
        checks=checks,
        not_applicable=na,
        notes="All checks: python3 harness/check.py Cxx --tier quick|thorough (re-execs under /venv/bin/python with PYTHONPATH=/repo/src). "
              "Known findings: /verif/known_findings.json. Design: /verif/DESIGN.md.",
    )
    json.dump(man, open(os.path.join(VERIF, "MANIFEST.json"), "w"), indent=1)
    print("wrote MANIFEST.json with %d checks, %d not_applicable" % (len(checks), len(na)))


if __name__ == "__main__":
    main()
