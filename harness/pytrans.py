"""pytrans — a small typed translator from a Python subset (read with `ast`) to Gallina text.

Used by harness/translate_driver.py (and further translate_*.py targets).  A *unit* declares
  - the record of modelled attributes of `self` (attribute -> (Coq field, type)),
  - the types of parameters / local names that cannot be inferred,
  - which calls are primitives (table below) and which calls are other translated functions,
and the engine translates function bodies statement by statement.  It is fail-closed: any construct outside the
subset raises Abort, and the caller writes a stub that makes the tie proofs fail to compile.

Types are strings:  Z | Q | bool | score | pos | none | opt:<T> | list:<T> | rec:<name>
Generated functions have the shape
    pure functions       : args -> res T
    methods on a record  : self -> args -> res (st * T)      (res st when T = none)
    clocked functions    : clk -> k -> args -> res (T * nat) (the k-th reading of time.time() is `clk k`)
Python exceptions are `Err e` values; `None` falling off the end of a function is the value of its declared type's
`none_value` (bool: false -- only allowed for functions whose result is used for its truth value only)."""
import ast


class Abort(Exception):
    pass


def coqty(t):
    if t.startswith("opt:"):
        return "(option %s)" % coqty(t[4:])
    if t.startswith("list:"):
        return "(list %s)" % coqty(t[5:])
    if t.startswith("rec:"):
        return t[4:]
    if t.startswith("pdict:"):            # python dict keyed by position tuples: an insertion-ordered association list
        return "(list (pos * %s))" % coqty(t[6:])
    if t.startswith("coq:"):
        return t[4:]
    return {"Z": "Z", "Q": "Q", "bool": "bool", "score": "score", "pos": "pos", "none": "unit", "nat": "nat"}[t]


class Fn:
    """signature of a translated (or primitive-monadic) callable"""

    def __init__(self, coq, params, ret, kind="pure", truth_only=False, clocked=False, fueled=False):
        self.coq, self.params, self.ret, self.kind, self.truth_only, self.clocked = coq, params, ret, kind, truth_only, clocked
        self.fueled = fueled


class Unit:
    def __init__(self, name):
        self.name = name
        self.fields = {}        # attr -> (coq field, type)
        self.props = {}         # property name -> (getter Fn, setter Fn)
        self.self_ty = None     # Coq record type of self
        self.funcs = {}         # module-level function name -> Fn
        self.methods = {}       # method name -> Fn (kind 'method')
        self.noop_calls = []    # predicates on ast.Call (statement position) that are skipped (logging, tqdm, print)
        self.hints = {}         # local / parameter name -> type
        self.dict_keys = {}     # rec name -> {python key: (coq field, value type)}  (dict modelled as record of options)
        self.call_exprs = {}    # "self.a.b" -> (fn(tr, arg_texts) -> (bind pattern, monadic text, value text), ret type): calls in expressions
        self.call_stmts = {}    # "self.a.b" -> fn(tr, arg_texts) -> monadic text of type res <self pack> (statement-position calls)
        self.pinned = {}        # exact source text of a statement -> Coq text ending in `in ` / `; ` placed before the continuation
        self.oracles = {}       # exact source text of an expression -> (coq text, type): values the model takes as inputs
        self.externals = {}     # self.<method> calls that are Section variables: name -> Fn (kind "pure": no self threading)
        self.expr_hooks = {}    # exact source text of an expression -> fn(tr) -> (binds, value text, type): monadic model primitives


class Tr:
    def __init__(self, unit, clocked=False, is_method=False, ret="none", truth_only=False, fueled=False):
        self.u = unit
        self.fueled = fueled
        self.in_ret_loop = 0
        self.clocked = clocked
        self.is_method = is_method
        self.ret = ret
        self.truth_only = truth_only
        self.n = 0

    # ------------------------------------------------------------------ helpers
    def fresh(self, base="tmp"):
        self.n += 1
        return "%s%d" % (base, self.n)

    @staticmethod
    def binds(bs):
        return "".join("do %s <- %s; " % (v, m) for v, m in bs)

    def finish(self, val):
        """the monadic value a `return val` produces"""
        if self.is_method:
            out = "self" if self.ret == "none" else "(self, %s)" % val
        else:
            out = val
        if self.clocked:
            out = "(%s, k)" % out
        if self.in_ret_loop:
            return "Ok (inr %s)" % out
        return "Ok %s" % out

    def none_value(self):
        if self.ret == "none":
            return "tt"
        if self.ret == "bool" and self.truth_only:
            return "false"
        if self.ret.startswith("opt:"):
            return "None"
        raise Abort("falls off the end / returns None, but the declared result type is %s" % self.ret)

    def pack_state(self):
        """the pattern binding the threaded state after a call that returns no value"""
        t = "self"
        if self.clocked:
            t = "(self, k)"
        return t

    def pack(self, t):
        """a value together with the threaded state (self, clock index) -- used for nested monadic blocks"""
        if self.is_method:
            t = "(self, %s)" % t
        if self.clocked:
            t = "(%s, k)" % t
        return t

    # ------------------------------------------------------------------ truthiness
    def truthy(self, t, ty):
        if ty == "bool":
            return t
        if ty == "Z":
            return "(negb (Z.eqb %s 0))" % t
        if ty == "Q":
            return "(negb (Qeq_bool %s 0))" % t
        if ty == "opt:Z":
            return "(py_truthy_optZ %s)" % t
        if ty == "opt:Q":
            return "(py_truthy_optQ %s)" % t
        if ty.startswith("opt:rec:"):
            return "(py_truthy_optrec %s_nonempty %s)" % (ty[8:], t)     # None and {} are falsy
        if ty.startswith("list:"):
            return "(negb (py_is_nil %s))" % t
        raise Abort("truth value of a %s" % ty)

    def cond(self, e, env):
        """boolean-context translation -> (binds, bool text)"""
        if isinstance(e, ast.BoolOp):
            parts = [self.cond(v, env) for v in e.values]
            isand = isinstance(e.op, ast.And)
            b, t = parts[-1]
            for pb, pt in reversed(parts[:-1]):
                if b:   # the right operand may raise (or read the clock / update self): evaluate it only when Python would
                    v = self.fresh()
                    inner = "%sOk %s" % (self.binds(b), self.pack(t))
                    m = ("if %s then (%s) else Ok %s" % (pt, inner, self.pack("false")) if isand
                         else "if %s then Ok %s else (%s)" % (pt, self.pack("true"), inner))
                    b, t = pb + [(self.pack(v), m)], v
                else:
                    b, t = pb, "(%s %s %s)" % ("andb" if isand else "orb", pt, t)
            return b, t
        if isinstance(e, ast.UnaryOp) and isinstance(e.op, ast.Not):
            b, t = self.cond(e.operand, env)
            return b, "(negb %s)" % t
        b, t, ty = self.expr(e, env)
        return b, self.truthy(t, ty)

    # ------------------------------------------------------------------ expressions
    def num_coerce(self, t1, ty1, t2, ty2):
        """arithmetic / comparison between Z and Q: the int is injected"""
        if ty1 == ty2:
            return t1, t2, ty1
        if ty1 == "Z" and ty2 == "Q":
            return "(inject_Z %s)" % t1, t2, "Q"
        if ty1 == "Q" and ty2 == "Z":
            return t1, "(inject_Z %s)" % t2, "Q"
        raise Abort("operands of type %s and %s" % (ty1, ty2))

    def unopt(self, b, t, ty):
        """a value of type opt:<num> used where a number is needed: TypeError when None"""
        if ty in ("opt:Q", "opt:Z", "opt:score"):
            v = self.fresh()
            return b + [(v, "py_unopt %s" % t)], v, ty[4:]
        return b, t, ty

    def expr(self, e, env):
        src = ast.unparse(e)
        if src in self.u.oracles:
            return [], self.u.oracles[src][0], self.u.oracles[src][1]
        if src in self.u.expr_hooks:
            return self.u.expr_hooks[src](self)
        if isinstance(e, ast.Attribute) and src.startswith("self.") and src[5:] in self.u.fields and "." in src[5:]:
            f, ty = self.u.fields[src[5:]]
            return [], "(%s self)" % f, ty
        if isinstance(e, ast.Constant):
            if e.value is None:
                return [], "None", "opt:?"
            if isinstance(e.value, bool):
                return [], ("true" if e.value else "false"), "bool"
            if isinstance(e.value, int):
                return [], "(%d)" % e.value, "Z"
            raise Abort("constant %r" % (e.value,))
        if isinstance(e, ast.UnaryOp) and isinstance(e.op, ast.USub):
            if ast.unparse(e.operand) == "np.inf":
                return [], "SNInf", "score"
            b, t, ty = self.expr(e.operand, env)
            if ty == "Z":
                return b, "(- %s)" % t, "Z"
            if ty == "Q":
                return b, "(Qopp %s)" % t, "Q"
            raise Abort("unary minus on %s" % ty)
        if isinstance(e, ast.List) and not e.elts:
            return [], "[]", "list:?"
        if isinstance(e, ast.Name):
            if e.id not in env:
                raise Abort("unknown name %s" % e.id)
            return [], env[e.id][0], env[e.id][1]
        if isinstance(e, ast.Attribute) and isinstance(e.value, ast.Name) and e.value.id == "self":
            a = e.attr
            if a in self.u.props:
                g = self.u.props[a][0]
                return [], "(%s self)" % g.coq, g.ret
            if a in self.u.fields:
                f, ty = self.u.fields[a]
                return [], "(%s self)" % f, ty
            raise Abort("attribute self.%s is not part of the modelled state" % a)
        if isinstance(e, ast.Compare) and len(e.ops) == 1:
            return self.compare(e.ops[0], e.left, e.comparators[0], env)
        if isinstance(e, ast.Compare) and len(e.ops) == 2:
            # a <= b < c : b is evaluated once; only pure operands are accepted
            l = self.compare(e.ops[0], e.left, e.comparators[0], env)
            r = self.compare(e.ops[1], e.comparators[0], e.comparators[1], env)
            if l[0] or r[0]:
                raise Abort("chained comparison with operands that may raise")
            return [], "(andb %s %s)" % (l[1], r[1]), "bool"
        if isinstance(e, (ast.BoolOp,)) or (isinstance(e, ast.UnaryOp) and isinstance(e.op, ast.Not)):
            if isinstance(e, ast.BoolOp) and not self._all_bool(e, env):
                raise Abort("and/or used for its value on non-boolean operands: %s" % ast.unparse(e))
            b, t = self.cond(e, env)
            return b, t, "bool"
        if isinstance(e, ast.BinOp):
            b1, t1, ty1 = self.unopt(*self.expr(e.left, env))
            b2, t2, ty2 = self.unopt(*self.expr(e.right, env))
            op = type(e.op)
            if op is ast.Mod:
                if ty1 != "Z" or ty2 != "Z":
                    raise Abort("%% on %s, %s" % (ty1, ty2))
                v = self.fresh()
                return b1 + b2 + [(v, "py_mod %s %s" % (t1, t2))], v, "Z"
            if op is ast.FloorDiv:
                if ty1 != "Z" or ty2 != "Z":
                    raise Abort("// on %s, %s" % (ty1, ty2))
                v = self.fresh()
                return b1 + b2 + [(v, "py_floordiv %s %s" % (t1, t2))], v, "Z"
            if op is ast.Div:
                a1, a2, _ = self.num_coerce(t1, ty1, t2, ty2) if ty1 != ty2 else (t1, t2, ty1)
                if ty1 == "Z" and ty2 == "Z":
                    a1, a2 = "(inject_Z %s)" % t1, "(inject_Z %s)" % t2
                v = self.fresh()
                return b1 + b2 + [(v, "py_qdiv %s %s" % (a1, a2))], v, "Q"
            if op is ast.Add and ty1.startswith("list:") and ty2.startswith("list:") and (ty1 == ty2 or "list:?" in (ty1, ty2)):
                return b1 + b2, "(%s ++ %s)" % (t1, t2), (ty1 if ty1 != "list:?" else ty2)
            if op in (ast.Add, ast.Sub, ast.Mult):
                a1, a2, ty = self.num_coerce(t1, ty1, t2, ty2)
                if ty == "Z":
                    return b1 + b2, "(%s %s %s)" % (a1, {ast.Add: "+", ast.Sub: "-", ast.Mult: "*"}[op], a2), "Z"
                if ty == "Q":
                    return b1 + b2, "(%s %s %s)" % ({ast.Add: "Qplus", ast.Sub: "Qminus", ast.Mult: "Qmult"}[op], a1, a2), "Q"
                raise Abort("arithmetic on %s" % ty)
            raise Abort("operator %s" % op.__name__)
        if isinstance(e, ast.Call):
            return self.call(e, env)
        if isinstance(e, ast.Subscript):
            return self.subscript(e, env)
        raise Abort("expression `%s`" % ast.unparse(e))

    def _all_bool(self, e, env):
        for v in e.values:
            if isinstance(v, ast.BoolOp):
                if not self._all_bool(v, env):
                    return False
                continue
            try:
                _, _, ty = self.expr(v, env)
            except Abort:
                return False
            if ty != "bool":
                return False
        return True

    def compare(self, op, l, r, env):
        # x is None / x is not None
        if isinstance(op, (ast.Is, ast.IsNot)) and isinstance(r, ast.Constant) and r.value is None:
            b, t, ty = self.expr(l, env)
            if not ty.startswith("opt:"):
                raise Abort("`is None` on a %s" % ty)
            return b, ("(py_is_none %s)" if isinstance(op, ast.Is) else "(negb (py_is_none %s))") % t, "bool"
        # "key" in dict / not in dict
        if isinstance(op, (ast.In, ast.NotIn)) and isinstance(l, ast.Constant) and isinstance(l.value, str):
            b, t, ty = self.expr(r, env)
            if ty.startswith("rec:") and ty[4:] in self.u.dict_keys:
                keys = self.u.dict_keys[ty[4:]]
                if l.value not in keys:
                    raise Abort("key %r is not a modelled key of %s" % (l.value, ty))
                f = keys[l.value][0]
                return b, ("(negb (py_is_none (%s %s)))" if isinstance(op, ast.In) else "(py_is_none (%s %s))") % (f, t), "bool"
            raise Abort("`in` on a %s" % ty)
        if isinstance(op, (ast.In, ast.NotIn)):
            bk, tk, tyk = self.expr(l, env)
            bd, td, tyd = self.expr(r, env)
            if tyd.startswith("pdict:") and tyk in ("pos", "list:Z"):
                t = "(dict_mem pos_eqb %s %s)" % (tk, td)
                return bk + bd, (t if isinstance(op, ast.In) else "(negb %s)" % t), "bool"
            raise Abort("`in` on a %s" % tyd)
        b1, t1, ty1 = self.unopt(*self.expr(l, env))
        b2, t2, ty2 = self.unopt(*self.expr(r, env))
        if ty1 == "score" and ty2 == "score":
            f = {ast.Gt: "sgt %s %s", ast.GtE: "sge %s %s", ast.LtE: "sle %s %s", ast.Lt: "slt %s %s",
                 ast.Eq: "seqb %s %s", ast.NotEq: "negb (seqb %s %s)"}.get(type(op))
            if f is None:
                raise Abort("comparison %s on scores" % type(op).__name__)
            return b1 + b2, "(" + f % (t1, t2) + ")", "bool"
        a1, a2, ty = self.num_coerce(t1, ty1, t2, ty2)
        if ty == "Z":
            f = {ast.Gt: "Z.ltb %s %s", ast.GtE: "Z.leb %s %s", ast.LtE: "Z.leb %s %s", ast.Lt: "Z.ltb %s %s",
                 ast.Eq: "Z.eqb %s %s", ast.NotEq: "negb (Z.eqb %s %s)"}.get(type(op))
        elif ty == "Q":
            f = {ast.Gt: "qltb %s %s", ast.GtE: "Qle_bool %s %s", ast.LtE: "Qle_bool %s %s", ast.Lt: "qltb %s %s",
                 ast.Eq: "Qeq_bool %s %s", ast.NotEq: "negb (Qeq_bool %s %s)"}.get(type(op))
        else:
            f = None
        if f is None:
            raise Abort("comparison %s on %s" % (type(op).__name__, ty))
        if isinstance(op, (ast.Gt, ast.GtE)):
            a1, a2 = a2, a1
        return b1 + b2, "(" + f % (a1, a2) + ")", "bool"

    def subscript(self, e, env):
        b, t, ty = self.expr(e.value, env)
        s = e.slice
        if ty.startswith("rec:") and ty[4:] in self.u.dict_keys:
            if not (isinstance(s, ast.Constant) and isinstance(s.value, str)):
                raise Abort("dictionary subscript %s" % ast.unparse(s))
            keys = self.u.dict_keys[ty[4:]]
            if s.value not in keys:
                raise Abort("key %r is not a modelled key" % s.value)
            f, vty = keys[s.value]
            v = self.fresh()
            return b + [(v, "py_dict_get (%s %s)" % (f, t))], v, vty
        if ty == "coq:para":
            b2, t2, ty2 = self.expr(s, env)
            if ty2 != "Z":
                raise Abort("parameter dictionary key of type %s" % ty2)
            v = self.fresh()
            return b + b2 + [(v, "py_dict_get (dict_get Z.eqb %s %s)" % (t2, t))], v, "Z"
        if ty.startswith("pdict:"):
            b2, t2, ty2 = self.expr(s, env)
            if ty2 not in ("pos", "list:Z"):
                raise Abort("dictionary key of type %s" % ty2)
            v = self.fresh()
            return b + b2 + [(v, "py_dict_get (dict_get pos_eqb %s %s)" % (t2, t))], v, ty[6:]
        if not ty.startswith("list:"):
            raise Abort("subscript of a %s" % ty)
        if isinstance(s, ast.Slice):
            if s.step is not None:
                raise Abort("slice with a step")
            if s.lower is None and s.upper is not None:
                b2, t2, ty2 = self.expr(s.upper, env)
                if ty2 != "Z":
                    raise Abort("slice bound of type %s" % ty2)
                return b + b2, "(py_slice_to %s %s)" % (t2, t), ty
            if s.upper is None and s.lower is not None:
                b2, t2, ty2 = self.expr(s.lower, env)
                if ty2 != "Z":
                    raise Abort("slice bound of type %s" % ty2)
                return b + b2, "(py_slice_from %s %s)" % (t2, t), ty
            raise Abort("slice shape %s" % ast.unparse(s))
        b2, t2, ty2 = self.expr(s, env)
        if ty2 != "Z":
            raise Abort("index of type %s" % ty2)
        v = self.fresh()
        return b + b2 + [(v, "py_getitem %s %s" % (t, t2))], v, ty[5:]

    PRIMS = {
        # name -> (arg types, result type, coq, monadic?)
        "len": (["list:*"], "Z", "zlen", False),
        "abs": (["Q"], "Q", "Qabs", False),
        "max": (["list:Q"], "Q", "py_max_q", True),
        "np.array": (["list:Q"], "list:Q", "", False),
        "np.argmax": (["list:Q"], "Z", "np_argmax_q", True),
        "int": (["Z"], "Z", "", False),
        "np.prod": (["list:Z"], "Z", "zprod_l", False),
        "gcd": (["Z", "Z"], "Z", "Z.gcd", False),
        "np.array": (["list:Q"], "list:Q", "", False),
    }
    PRIMS_ALT = {"np.array": (["list:Z"], "list:Z", "", False), "max": (["list:score"], "score", "py_max", True)}

    def call(self, e, env):
        fn = ast.unparse(e.func)
        if e.keywords:
            raise Abort("keyword arguments: %s" % ast.unparse(e))
        if fn in self.u.call_exprs:
            mk, rty = self.u.call_exprs[fn]
            bs, ts = [], []
            for a in e.args:
                b, t, _ = self.expr(a, env)
                bs += b
                ts.append(t)
            pat, text, val = mk(self, ts)
            return bs + [(pat, text)], val, rty
        if fn == "time.time" and not e.args:
            if not self.clocked:
                raise Abort("time.time() in a function that is not declared clocked")
            v = self.fresh("now")
            return [("(%s, k)" % v, "Ok (clk k, S k)")], v, "Z"
        if fn == "int" and len(e.args) == 1 and isinstance(e.args[0], ast.BinOp) and isinstance(e.args[0].op, ast.Div):
            # int(a / b) on ints: float true division, then truncation toward zero (exact below 2**53)
            b1, t1, ty1 = self.expr(e.args[0].left, env)
            b2, t2, ty2 = self.expr(e.args[0].right, env)
            if ty1 != "Z" or ty2 != "Z":
                raise Abort("int(a / b) on %s, %s" % (ty1, ty2))
            v = self.fresh()
            return b1 + b2 + [(v, "py_int_truediv %s %s" % (t1, t2))], v, "Z"
        if fn == "tuple" and len(e.args) == 1 and not e.keywords:
            return self.expr(e.args[0], env)
        if fn in self.PRIMS_ALT and len(e.args) == 1:
            try:
                _, _, ty0 = self.expr(e.args[0], dict(env))
            except Abort:
                ty0 = None
            if ty0 == self.PRIMS_ALT[fn][0][0]:
                atys, rty, coq, monadic = self.PRIMS_ALT[fn]
                b, t, _ = self.expr(e.args[0], env)
                if coq == "":
                    return b, t, rty
                v = self.fresh()
                return b + [(v, "%s %s" % (coq, t))], v, rty
        if fn in self.PRIMS:
            atys, rty, coq, monadic = self.PRIMS[fn]
            if len(e.args) != len(atys):
                raise Abort("%s: arity" % fn)
            bs, ts = [], []
            for a, want in zip(e.args, atys):
                b, t, ty = self.expr(a, env)
                if fn == "abs" and ty == "Z":
                    return b, "(Z.abs %s)" % t, "Z"
                if want == "list:*":
                    if not ty.startswith("list:"):
                        raise Abort("%s of a %s" % (fn, ty))
                elif ty != want:
                    raise Abort("%s of a %s (expected %s)" % (fn, ty, want))
                bs += b
                ts.append(t)
            if coq == "":
                return bs, ts[0], rty
            if monadic:
                v = self.fresh()
                return bs + [(v, "%s %s" % (coq, " ".join(ts)))], v, rty
            return bs, "(%s %s)" % (coq, " ".join(ts)), rty
        if isinstance(e.func, ast.Name) and e.func.id in self.u.funcs:
            f = self.u.funcs[e.func.id]
            return self.apply(f, e.args, env, with_self=False)
        if isinstance(e.func, ast.Attribute) and isinstance(e.func.value, ast.Name) and e.func.value.id == "self":
            if e.func.attr in self.u.methods:
                return self.apply(self.u.methods[e.func.attr], e.args, env, with_self=True)
            if e.func.attr in self.u.externals:
                return self.apply(self.u.externals[e.func.attr], e.args, env, with_self=False)
        if fn.startswith("self.") and fn[5:] in self.u.externals:
            return self.apply(self.u.externals[fn[5:]], e.args, env, with_self=False)
        raise Abort("call %s" % ast.unparse(e))

    def coerce_arg(self, b, t, ty, want):
        if ty == want or (ty == "opt:?" and want.startswith("opt:")) or (ty == "list:?" and want.startswith("list:")):
            return b, t
        if (ty, want) in (("list:Z", "pos"), ("pos", "list:Z")):
            return b, t
        if ty == "list:score" and want == "list:Q":
            v = self.fresh()
            return b + [(v, "py_finite_list %s" % t)], v
        if ty == "Z" and want == "Q":
            return b, "(inject_Z %s)" % t
        if want.startswith("opt:") and want[4:] == ty:
            return b, "(Some %s)" % t
        if ty.startswith("opt:") and ty[4:] == want:
            v = self.fresh()
            return b + [(v, "py_unopt %s" % t)], v
        raise Abort("argument of type %s where %s is expected" % (ty, want))

    def apply(self, f, args, env, with_self):
        if len(args) != len(f.params):
            raise Abort("%s: %d arguments for %d parameters" % (f.coq, len(args), len(f.params)))
        bs, ts = [], []
        for a, want in zip(args, f.params):
            b, t, ty = self.expr(a, env)
            b, t = self.coerce_arg(b, t, ty, want)
            bs += b
            ts.append(t)
        pre = ""
        if f.fueled:
            if not self.fueled:
                raise Abort("call of the fuelled %s from a function without fuel" % f.coq)
            pre = "fuel "
        if f.clocked:
            if not self.clocked:
                raise Abort("call of the clocked %s from a function that is not clocked" % f.coq)
            pre += "clk k "
        if with_self:
            pre += "self "
        v = self.fresh()
        callt = "%s %s%s" % (f.coq, pre, " ".join(ts))
        if with_self and f.ret != "none":
            pat = "(self, %s)" % v
        elif with_self:
            pat = "self"
        else:
            pat = v
        if f.clocked:
            pat = "(%s, k)" % pat
        if pat.startswith("("):
            pass
        return bs + [(pat, callt)], (v if not (with_self and f.ret == "none") else "tt"), f.ret

    # ------------------------------------------------------------------ statements
    @staticmethod
    def always_returns(stmts):
        for s in stmts:
            if isinstance(s, ast.Return):
                return True
            if isinstance(s, ast.If) and s.orelse and Tr.always_returns(s.body) and Tr.always_returns(s.orelse):
                return True
        return False

    def is_noop(self, call):
        return any(p(call) for p in self.u.noop_calls)

    def block(self, stmts, env, rest_k=None):
        """-> Coq text (monadic).  rest_k: thunk giving the text of what follows this block (continuation)."""
        if not stmts:
            return rest_k(env) if rest_k else self.finish(self.none_value())
        s, rest = stmts[0], stmts[1:]
        env = dict(env)
        nxt = lambda env2: self.block(rest, env2, rest_k)
        if isinstance(s, ast.Expr) and isinstance(s.value, ast.Constant):
            return nxt(env)
        src = ast.unparse(s)
        if src in self.u.pinned:
            return self.u.pinned[src] + nxt(env)
        if isinstance(s, ast.Expr) and isinstance(s.value, ast.Call) and ast.unparse(s.value.func) in self.u.call_stmts and not s.value.keywords:
            bs, ts = [], []
            for a in s.value.args:
                b, t, _ = self.expr(a, env)
                bs += b
                ts.append(t)
            return "%sdo %s <- %s; %s" % (self.binds(bs), self.pack_state(), self.u.call_stmts[ast.unparse(s.value.func)](self, ts), nxt(env))
        # inside a decorator's wrapper: res = func(self, *args, **kwargs)
        if getattr(self, "wrap", None) and isinstance(s, ast.Assign) and len(s.targets) == 1 and isinstance(s.targets[0], ast.Name) \
                and ast.unparse(s.value) == "func(self, *args, **kwargs)":
            f, args, rty = self.wrap
            v = s.targets[0].id + "_v"
            env[s.targets[0].id] = (v, rty)
            pat = "self" if rty == "none" else "(self, %s)" % v
            pre = ("fuel " if f.fueled else "") + ("clk k " if f.clocked else "")
            if f.clocked:
                pat = "(%s, k)" % pat
            return "do %s <- %s %sself %s; %s" % (pat, f.coq, pre, " ".join(args), nxt(env))
        if isinstance(s, ast.Pass):
            return nxt(env)
        if isinstance(s, ast.Break) and getattr(self, "break_k", None):
            return self.break_k(env)
        if isinstance(s, ast.Return):
            if s.value is None:
                return self.finish(self.none_value())
            if self.ret == "bool" and self.truth_only:
                b, t = self.cond(s.value, env)
                return self.binds(b) + self.finish(t)
            b, t, ty = self.expr(s.value, env)
            b, t = self.coerce_arg(b, t, ty, self.ret)
            return self.binds(b) + self.finish(t)
        if isinstance(s, ast.Assign) and len(s.targets) == 1 and not isinstance(s.targets[0], (ast.Tuple, ast.Subscript)):
            tg = s.targets[0]
            b, t, ty = self.expr(s.value, env)
            if isinstance(tg, ast.Name):
                if tg.id in self.u.hints and self.u.hints[tg.id] != ty:
                    b, t = self.coerce_arg(b, t, ty, self.u.hints[tg.id])
                    ty = self.u.hints[tg.id]
                if ty == "opt:?":
                    raise Abort("%s = None needs a type hint" % tg.id)
                if ty == "list:?":
                    if tg.id not in self.u.hints:
                        raise Abort("%s = [] needs a type hint" % tg.id)
                    ty = self.u.hints[tg.id]
                v = tg.id + "_v"
                env[tg.id] = (v, ty)
                return "%slet %s := %s in %s" % (self.binds(b), v, t, nxt(env))
            if isinstance(tg, ast.Attribute) and isinstance(tg.value, ast.Name) and tg.value.id == "self":
                a = tg.attr
                if a in self.u.props:
                    st = self.u.props[a][1]
                    b, t = self.coerce_arg(b, t, ty, st.params[0])
                    return "%sdo self <- %s self %s; %s" % (self.binds(b), st.coq, t, nxt(env))
                if a in self.u.fields:
                    f, fty = self.u.fields[a]
                    b, t = self.coerce_arg(b, t, ty, fty)
                    return "%slet self := self <| %s := %s |> in %s" % (self.binds(b), f, t, nxt(env))
                raise Abort("assignment to self.%s, which is not part of the modelled state" % a)
            raise Abort("assignment target %s" % ast.unparse(tg))
        if isinstance(s, ast.AugAssign) and isinstance(s.op, (ast.Add, ast.Sub)) and isinstance(s.target, ast.Attribute) \
                and isinstance(s.target.value, ast.Name) and s.target.value.id == "self" and s.target.attr in self.u.fields \
                and self.u.fields[s.target.attr][1] == "Z":
            b, t, ty = self.expr(s.value, env)
            if ty != "Z":
                raise Abort("+= of a %s" % ty)
            f = self.u.fields[s.target.attr][0]
            return "%slet self := self <| %s := (%s self) %s %s |> in %s" % (
                self.binds(b), f, f, "+" if isinstance(s.op, ast.Add) else "-", t, nxt(env))
        if isinstance(s, ast.Expr) and isinstance(s.value, ast.Call) and not (
                isinstance(s.value.func, ast.Attribute) and s.value.func.attr == "append"
                and isinstance(s.value.func.value, ast.Name) and s.value.func.value.id in env):
            c = s.value
            if self.is_noop(c):
                return nxt(env)
            f = c.func
            if isinstance(f, ast.Attribute) and f.attr == "append" and isinstance(f.value, ast.Attribute) \
                    and isinstance(f.value.value, ast.Name) and f.value.value.id == "self" and len(c.args) == 1 and not c.keywords:
                a = f.value.attr
                if a not in self.u.fields or not self.u.fields[a][1].startswith("list:"):
                    raise Abort("append to self.%s" % a)
                fld, fty = self.u.fields[a]
                b, t, ty = self.expr(c.args[0], env)
                b, t = self.coerce_arg(b, t, ty, fty[5:])
                return "%slet self := self <| %s := (%s self) ++ [%s] |> in %s" % (self.binds(b), fld, fld, t, nxt(env))
            if isinstance(f, ast.Attribute) and isinstance(f.value, ast.Name) and f.value.id == "self" and f.attr in self.u.methods:
                b, _, _ = self.apply(self.u.methods[f.attr], c.args, env, with_self=True)
                return self.binds(b) + nxt(env)
            raise Abort("call statement %s" % ast.unparse(c))
        # self.<dict>[key] = value
        if isinstance(s, ast.Assign) and len(s.targets) == 1 and isinstance(s.targets[0], ast.Subscript) \
                and isinstance(s.targets[0].value, ast.Attribute) and ast.unparse(s.targets[0].value.value) == "self" \
                and s.targets[0].value.attr in self.u.fields and self.u.fields[s.targets[0].value.attr][1].startswith("pdict:"):
            fld, fty = self.u.fields[s.targets[0].value.attr]
            bk, tk, tyk = self.expr(s.targets[0].slice, env)
            bv, tv, tyv = self.expr(s.value, env)
            bv, tv = self.coerce_arg(bv, tv, tyv, fty[6:])
            if tyk not in ("pos", "list:Z"):
                raise Abort("dictionary key of type %s" % tyk)
            return "%slet self := self <| %s := dict_set pos_eqb %s %s (%s self) |> in %s" % (self.binds(bk + bv), fld, tk, tv, fld, nxt(env))
        # local name-keyed dictionary: x[k] = v
        if isinstance(s, ast.Assign) and len(s.targets) == 1 and isinstance(s.targets[0], ast.Subscript) and isinstance(s.targets[0].value, ast.Name) \
                and s.targets[0].value.id in env and env[s.targets[0].value.id][1] == "coq:para":
            name = s.targets[0].value.id
            bk, tk, tyk = self.expr(s.targets[0].slice, env)
            bv, tv, tyv = self.expr(s.value, env)
            if tyk != "Z" or tyv != "Z":
                raise Abort("%s: key %s, value %s" % (ast.unparse(s), tyk, tyv))
            cur = env[name][0]
            env[name] = (name + "_v", "coq:para")
            return "%slet %s_v := dict_set Z.eqb %s %s %s in %s" % (self.binds(bk + bv), name, tk, tv, cur, nxt(env))
        # a, b = (x, y)
        if isinstance(s, ast.Assign) and len(s.targets) == 1 and isinstance(s.targets[0], ast.Tuple) and isinstance(s.value, ast.Tuple) \
                and len(s.targets[0].elts) == len(s.value.elts) and all(isinstance(x, ast.Name) for x in s.targets[0].elts):
            bs, lets = [], []
            for tg, v in zip(s.targets[0].elts, s.value.elts):
                b, t, ty = self.expr(v, env)      # all right-hand sides are evaluated before any binding
                bs += b
                lets.append((tg.id, t, ty))
            txt = self.binds(bs)
            tmp = []
            for name, t, ty in lets:
                w = self.fresh("tup")
                txt += "let %s := %s in " % (w, t)
                tmp.append((name, w, ty))
            for name, w, ty in tmp:
                if name != "_":
                    env[name] = (name + "_v", ty)
                    txt += "let %s_v := %s in " % (name, w)
            return txt + nxt(env)
        # local name: x += e / x -= e ; local list: x.append(e)
        if isinstance(s, ast.AugAssign) and isinstance(s.target, ast.Name) and isinstance(s.op, (ast.Add, ast.Sub)) and s.target.id in env:
            b, t, ty = self.expr(s.value, env)
            cur, cty = env[s.target.id]
            if cty != "Z" or ty != "Z":
                raise Abort("%s on %s, %s" % (ast.unparse(s), cty, ty))
            v = s.target.id + "_v"
            env[s.target.id] = (v, "Z")
            return "%slet %s := (%s %s %s) in %s" % (self.binds(b), v, cur, "+" if isinstance(s.op, ast.Add) else "-", t, nxt(env))
        if isinstance(s, ast.Expr) and isinstance(s.value, ast.Call) and isinstance(s.value.func, ast.Attribute) \
                and s.value.func.attr == "append" and isinstance(s.value.func.value, ast.Name) and s.value.func.value.id in env \
                and len(s.value.args) == 1 and not s.value.keywords:
            name = s.value.func.value.id
            cur, cty = env[name]
            b, t, ty = self.expr(s.value.args[0], env)
            if cty == "list:?":
                cty = "list:" + ty
            if not cty.startswith("list:"):
                raise Abort("append to the %s %s" % (cty, name))
            b, t = self.coerce_arg(b, t, ty, cty[5:])
            v = name + "_v"
            env[name] = (v, cty)
            return "%slet %s := (%s ++ [%s]) in %s" % (self.binds(b), v, cur, t, nxt(env))
        if isinstance(s, ast.For):
            return self.for_loop(s, env, rest, rest_k)
        if isinstance(s, ast.While):
            return self.while_loop(s, env, rest, rest_k)
        # the idiom `if x is None: x = e` on an optional name: x becomes the value it holds, or e
        if isinstance(s, ast.If) and not s.orelse and len(s.body) == 1 and isinstance(s.test, ast.Compare) and len(s.test.ops) == 1 \
                and isinstance(s.test.ops[0], ast.Is) and isinstance(s.test.left, ast.Name) and ast.unparse(s.test.comparators[0]) == "None" \
                and isinstance(s.body[0], ast.Assign) and len(s.body[0].targets) == 1 and isinstance(s.body[0].targets[0], ast.Name) \
                and s.body[0].targets[0].id == s.test.left.id and s.test.left.id in env and env[s.test.left.id][1].startswith("opt:"):
            name = s.test.left.id
            cur, cty = env[name]
            bv, tv, tyv = self.expr(s.body[0].value, env)
            if tyv != cty[4:]:
                raise Abort("`if %s is None: %s = ...` assigns a %s to an optional %s" % (name, name, tyv, cty[4:]))
            env[name] = (name + "_v", tyv)
            if not bv:
                return "let %s_v := match %s with Some v_ => v_ | None => %s end in %s" % (name, cur, tv, nxt(env))
            return "do %s <- match %s with Some v_ => Ok %s | None => (%sOk %s) end; %s" % (
                self.pack(name + "_v"), cur, self.pack("v_"), self.binds(bv), self.pack(tv), nxt(env))
        if isinstance(s, ast.If):
            b, t = self.cond(s.test, env)
            if self.always_returns(s.body) and not s.orelse:
                return "%sif %s then (%s) else (%s)" % (self.binds(b), t, self.block(s.body, env, None), nxt(env))
            if getattr(self.u, "join_ifs", False) and not s.orelse and not _contains(s.body, (ast.Return, ast.Break, ast.Continue)):
                # join point: the names (already bound before the `if`) that the branch rebinds are the branch's result
                carried = sorted(n for n in assigned_names(s.body) if n in env)
                for n in carried:
                    if env[n][1] == "list:?":
                        if n not in self.u.hints:
                            raise Abort("%s = [] needs a type hint" % n)
                        env[n] = (env[n][0], self.u.hints[n])
                pat = _state_tuple(self, carried, env)
                then_txt = self.block(s.body, dict(env), lambda e2: "Ok %s" % _state_tuple(self, carried, e2))
                return "%sdo %s <- (if %s then (%s) else Ok %s); %s" % (self.binds(b), "_" if pat == "tt" else pat, t, then_txt, pat, nxt(env))
            # general case: the continuation is duplicated into both branches (local assignments stay branch-local)
            return "%sif %s then (%s) else (%s)" % (self.binds(b), t, self.block(s.body, env, nxt), self.block(s.orelse, env, nxt))
        raise Abort("statement `%s`" % ast.unparse(s).split("\n")[0])


def _loops(cls):
    pass


def assigned_names(stmts):
    out = set()
    for st in stmts:
        for n in ast.walk(st):
            if isinstance(n, ast.Assign):
                for t in n.targets:
                    for x in ([t] if not isinstance(t, ast.Tuple) else t.elts):
                        if isinstance(x, ast.Name):
                            out.add(x.id)
                        elif isinstance(x, ast.Subscript) and isinstance(x.value, ast.Name):
                            out.add(x.value.id)
            elif isinstance(n, ast.AugAssign) and isinstance(n.target, ast.Name):
                out.add(n.target.id)
            elif isinstance(n, ast.Call) and isinstance(n.func, ast.Attribute) and n.func.attr == "append" and isinstance(n.func.value, ast.Name):
                out.add(n.func.value.id)
    return out


def _state_tuple(self, names, env):
    parts = [env[n][0] for n in names]
    if self.is_method:
        parts.append("self")
    if self.clocked:
        parts.append("k")
    if not parts:
        return "tt"
    t = parts[0]
    for x in parts[1:]:
        t = "(%s, %s)" % (t, x)
    return t


def _contains(stmts, kinds):
    return any(isinstance(n, kinds) for st in stmts for n in ast.walk(st))


def _contains_own(stmts, kinds):
    """like _contains, but break / continue inside a nested loop belong to that loop (only a return escapes it)"""
    def walk(n):
        if isinstance(n, kinds):
            return True
        if isinstance(n, (ast.For, ast.While)):
            return ast.Return in kinds and _contains(n.body + n.orelse, (ast.Return,))
        return any(walk(c) for c in ast.iter_child_nodes(n))
    return any(walk(st) for st in stmts)


def for_loop(self, s, env, rest, rest_k):
    pair = None
    if not s.orelse and isinstance(s.target, ast.Tuple) and len(s.target.elts) == 2 and all(isinstance(x, ast.Name) for x in s.target.elts) \
            and isinstance(s.iter, ast.Call) and not s.iter.keywords and ast.unparse(s.iter.func) in ("enumerate", "zip"):
        pair = [x.id for x in s.target.elts]
    elif s.orelse or not isinstance(s.target, ast.Name):
        raise Abort("for loop shape: %s" % ast.unparse(s).split("\n")[0])
    it = s.iter
    if pair:
        def lty(e):
            b_, t_, ty_ = self.expr(e, env)
            if ty_ == "pos":
                ty_ = "list:Z"
            if b_ or not ty_.startswith("list:"):
                raise Abort("for over %s of a %s" % (ast.unparse(it.func), ty_))
            return t_, ty_[5:]
        if ast.unparse(it.func) == "enumerate":
            if len(it.args) != 1:
                raise Abort("enumerate with a start")
            t_, e_ = lty(it.args[0])
            b, lst, ety = [], "(py_enumerate %s)" % t_, ("Z", e_)
        else:
            if len(it.args) != 2:
                raise Abort("zip of %d sequences" % len(it.args))
            (t1_, e1_), (t2_, e2_) = lty(it.args[0]), lty(it.args[1])
            b, lst, ety = [], "(py_zip %s %s)" % (t1_, t2_), (e1_, e2_)
    elif isinstance(it, ast.Call) and ast.unparse(it.func) == "range" and len(it.args) == 1 and not it.keywords:
        b, t, ty = self.expr(it.args[0], env)
        if ty != "Z":
            raise Abort("range of a %s" % ty)
        lst, ety = "(py_range %s)" % t, "Z"
    else:
        b, lst, ty = self.expr(it, env)
        if ty == "pos":
            ty = "list:Z"
        if not ty.startswith("list:"):
            raise Abort("for over a %s" % ty)
        ety = ty[5:]
    body = list(s.body)
    brk = None
    if body and isinstance(body[-1], ast.If) and not body[-1].orelse and len(body[-1].body) == 1 and isinstance(body[-1].body[0], ast.Break):
        brk = body[-1].test
        body = body[:-1]
    if _contains_own(body, (ast.Break, ast.Continue, ast.Return)):
        raise Abort("break / continue / return inside a for loop (other than a final `if c: break`)")
    carried = sorted(n for n in assigned_names(body) if n in env)
    for n in carried:
        if env[n][1] == "list:?":
            if n not in self.u.hints:
                raise Abort("%s = [] needs a type hint" % n)
            env[n] = (env[n][0], self.u.hints[n])
    pat = _state_tuple(self, carried, env)
    benv = dict(env)
    if pair:
        benv[pair[0]] = (pair[0] + "_v", ety[0])
        benv[pair[1]] = (pair[1] + "_v", ety[1])
        elname, elpat = "el", "let '(%s_v, %s_v) := el in " % (pair[0], pair[1])
    else:
        benv[s.target.id] = (s.target.id + "_v", ety)
        elname, elpat = s.target.id + "_v", ""

    def body_end(e2):
        st = _state_tuple(self, carried, e2)
        if brk is None:
            return "Ok %s" % st
        cb, ct = self.cond(brk, e2)
        return "%sOk (%s, %s)" % (self.binds(cb), st, ct)

    btxt = self.block(body, benv, body_end)
    comb = "py_for" if brk is None else "py_for_break"
    loop = "%s (fun st %s => %slet '%s := st in %s) %s %s" % (comb, elname, elpat, pat, btxt, lst, pat) if pat != "tt" else \
           "%s (fun st %s => %s%s) %s tt" % (comb, elname, elpat, btxt, lst)
    after = self.block(rest, env, rest_k)
    return "%sdo %s <- %s; %s" % (self.binds(b), "_" if pat == "tt" else pat, loop, after)


def while_loop(self, s, env, rest, rest_k):
    if s.orelse:
        raise Abort("while ... else")
    if not self.fueled:
        raise Abort("while loop in a function that is not declared fuelled")
    body = list(s.body)
    forever = isinstance(s.test, ast.Constant) and s.test.value is True
    has_break = _contains_own(body, (ast.Break,))
    if _contains_own(body, (ast.Continue,)) or (has_break and not forever):
        raise Abort("break / continue inside a while loop")
    carried = sorted(n for n in assigned_names(body) if n in env)
    for n in carried:
        if env[n][1] == "list:?":
            if n not in self.u.hints:
                raise Abort("%s = [] needs a type hint" % n)
            env[n] = (env[n][0], self.u.hints[n])
    pat = _state_tuple(self, carried, env)
    lam = ("let '%s := st in " % pat) if pat.startswith("(") else ("let %s := st in " % pat if pat != "tt" else "")
    if forever and has_break:
        # while True: ...; break  -- the loop is left with the carried state; no return inside
        if _contains(body, (ast.Return,)):
            raise Abort("`while True` with both break and return")
        old_k = getattr(self, "break_k", None)
        self.break_k = lambda e2: "Ok (inr %s)" % _state_tuple(self, carried, e2)
        btxt = self.block(body, dict(env), lambda e2: "Ok (inl %s)" % _state_tuple(self, carried, e2))
        self.break_k = old_k
        loop = "py_while_ret fuel (fun st => %s%s) %s" % (lam, btxt, pat)
        after = self.block(rest, env, rest_k)
        return "do %s <- %s; %s" % ("_" if pat == "tt" else pat, loop, after)
    if forever:
        if rest:
            raise Abort("statements after `while True`")
        self.in_ret_loop += 1
        btxt = self.block(body, dict(env), lambda e2: "Ok (inl %s)" % _state_tuple(self, carried, e2))
        self.in_ret_loop -= 1
        loop = "py_while_ret fuel (fun st => %s%s) %s" % (lam, btxt, pat)
        if self.in_ret_loop:
            raise Abort("nested `while True`")
        return loop
    if _contains(body, (ast.Return,)):
        raise Abort("return inside a conditional while loop")
    cb, ct = self.cond(s.test, dict(env))
    ctxt = "%sOk %s" % (self.binds(cb), ct)
    btxt = self.block(body, dict(env), lambda e2: "Ok %s" % _state_tuple(self, carried, e2))
    loop = "py_while fuel (fun st => %s%s) (fun st => %s%s) %s" % (lam, ctxt, lam, btxt, pat)
    after = self.block(rest, env, rest_k)
    return "do %s <- %s; %s" % ("_" if pat == "tt" else pat, loop, after)


Tr.for_loop = for_loop
Tr.while_loop = while_loop


def params_of(fn, skip_self):
    a = fn.args
    if a.vararg or a.kwarg or a.posonlyargs or a.kwonlyargs or a.defaults:
        raise Abort("%s: parameter shape" % fn.name)
    ps = [x.arg for x in a.args]
    if skip_self:
        if not ps or ps[0] != "self":
            raise Abort("%s: first parameter is not self" % fn.name)
        ps = ps[1:]
    return ps


def translate_function(unit, fn, sig, name=None):
    """fn: ast.FunctionDef; sig: Fn (params are the types of the Python parameters after self) -> Coq Definition text"""
    is_method = sig.kind == "method"
    ps = params_of(fn, is_method)
    if len(ps) != len(sig.params):
        raise Abort("%s: %d parameters, %d declared" % (fn.name, len(ps), len(sig.params)))
    tr = Tr(unit, clocked=sig.clocked, is_method=is_method, ret=sig.ret, truth_only=sig.truth_only, fueled=sig.fueled)
    # a parameter whose name is also a Coq type used in the signature (pos : ... ) : res (... * pos) would capture the type: rename it
    import re as _re
    retwords = set(_re.findall(r"\w+", (coqty(sig.ret) if sig.ret != "none" else "") + (" " + unit.self_ty if is_method and unit.self_ty else "")))
    cn = {}
    for i, (p, t) in enumerate(zip(ps, sig.params)):
        later = {w for t2 in sig.params[i + 1:] for w in _re.findall(r"\w+", coqty(t2))}
        cn[p] = p + "_a" if (p in retwords or p in later) else p
    env = {p: (cn[p], t) for p, t in zip(ps, sig.params)}
    body = tr.block(fn.body, env)
    args = " ".join("(%s : %s)" % (cn[p], coqty(t)) for p, t in zip(ps, sig.params))
    if is_method:
        rty = unit.self_ty if sig.ret == "none" else "(%s * %s)" % (unit.self_ty, coqty(sig.ret))
        head = "(self : %s) %s" % (unit.self_ty, args)
    else:
        rty = coqty(sig.ret)
        head = args
    if sig.clocked:
        head = "(clk : nat -> Z) (k : nat) " + head
        rty = "(%s * nat)" % rty
    if sig.fueled:
        head = "(fuel : nat) " + head
    return "Definition %s %s : res %s :=\n  %s." % (name or sig.coq, head, rty, body)
