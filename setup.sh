#!/bin/bash
# MANIFEST.setup_cmd: build the Coq development (full .vo build) from files on disk only.
set -e
cd "$(dirname "$0")/coq"
mkdir -p cases generated
coq_makefile -f _CoqProject -o Makefile >/dev/null
timeout 3000 make -j"$(nproc)" 2>&1 | tail -5
