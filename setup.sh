#!/bin/bash
# MANIFEST.setup_cmd: build the Coq development (full .vo build) from files on disk only.
set -e
cd "$(dirname "$0")/coq"
mkdir -p cases generated
# regenerate the facade data from /repo (C18 re-does this on every run)
(cd .. && PYTHONPATH=/repo/src /venv/bin/python harness/translate_facades.py) || echo "translator failed; C18 will report it"
(cd .. && PYTHONPATH=/repo/src /venv/bin/python harness/translate_core.py) || echo "tracker translator aborted; C15/C19 will report it"
(cd .. && PYTHONPATH=/repo/src /venv/bin/python harness/translate_driver.py) || echo "driver translator aborted; C05/C12/C13/C14 will report it"
(cd .. && PYTHONPATH=/repo/src /venv/bin/python harness/translate_grid.py) || echo "grid translator aborted; C16 will report it"
(cd .. && PYTHONPATH=/repo/src /venv/bin/python harness/translate_search.py) || echo "search translator aborted; C03/C18 will report it"
(cd .. && PYTHONPATH=/repo/src /venv/bin/python harness/translate_memory.py) || echo "memory translator aborted; C06/C11 will report it"
(cd .. && PYTHONPATH=/repo/src /venv/bin/python harness/translate_results.py) || echo "results translator aborted; C04 will report it"
(cd .. && PYTHONPATH=/repo/src /venv/bin/python harness/translate_coreopt.py) || echo "core-moves translator aborted; C01/C02/C08 will report it"
(cd .. && PYTHONPATH=/repo/src /venv/bin/python harness/translate_init.py) || echo "initializer translator aborted; C10/C02 will report it"
(cd .. && PYTHONPATH=/repo/src /venv/bin/python harness/translate_smbo.py) || echo "SMBO translator aborted; C17 will report it"
(cd .. && PYTHONPATH=/repo/src /venv/bin/python harness/translate_finish.py) || echo "finish_search translator aborted; C05 will report it"
(cd .. && PYTHONPATH=/repo/src /venv/bin/python harness/translate_pop.py) || echo "population split translator aborted; C10 will report it"
(cd .. && PYTHONPATH=/repo/src /venv/bin/python harness/translate_conv.py) || echo "converter translator aborted; C20/C01 will report it"
(cd .. && PYTHONPATH=/repo/src /venv/bin/python harness/translate_shc.py) || echo "stochastic-acceptance translator aborted; C09 will report it"
(cd .. && PYTHONPATH=/repo/src /venv/bin/python harness/translate_seed.py) || echo "seeding translator aborted; C07 will report it"
coq_makefile -f _CoqProject -o Makefile >/dev/null
timeout 3000 make -k -j"$(nproc)" 2>&1 | tail -5
