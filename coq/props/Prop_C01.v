(* C01 — every evaluated point is a genuine point of the search space.  Statements only. *)
Require Import Base StopRun Converter ConverterFacts CoreOpt Tracker Algos Driver DriverFacts CoreFacts AlgoFacts AlgoLift Grid GridFacts C16_proofs.
Require Import Pop PopFacts Smbo.

(* (i) the move operators: for EVERY tape of draws (huge, fractional, +-inf samples included) a returned
   position has every index in [0, len-1] *)
Theorem C01_move_random_in_box : forall sp cons fuel t c p t' c',
  move_random sp cons fuel t c = Ok (p, t', c') -> in_box sp p.
Proof. intros. destruct (move_random_ok sp cons fuel t c p t' c' H) as [[A _] _]. exact A. Qed.
Print Assumptions C01_move_random_in_box.

Theorem C01_conv2pos_in_box : forall sp cons, dims_ok sp -> forall fuel xs t c p t' c',
  length xs = length sp -> Forall (fun x => x <> XNaN) xs ->
  conv2pos sp cons fuel xs t c = Ok (p, t', c') -> in_box sp p.
Proof. intros sp cons Hd fuel xs t c p t' c' Hl Hx H. destruct (conv2pos_ok sp cons Hd fuel xs t c p t' c' Hl Hx H) as [A _]. exact A. Qed.
Print Assumptions C01_conv2pos_in_box.

Theorem C01_move_climb_in_box : forall sp cons, dims_ok sp -> forall fuel t c p t' c', nan_free t ->
  move_climb sp cons fuel t c = Ok (p, t', c') -> in_box sp p.
Proof. intros sp cons Hd fuel t c p t' c' Hn H. destruct (move_climb_ok sp cons Hd fuel t c p t' c' Hn H) as [[A _] _]. exact A. Qed.
Print Assumptions C01_move_climb_in_box.

(* the particle / spiral move (astype(int) then clip): in the box for every velocity, also huge, negative, non-finite *)
Theorem C01_move_part_in_box : forall s, dims_ok s -> forall p velo, length p = length s -> length velo = length s ->
  in_box s (move_part s p velo).
Proof. exact move_part_in_box. Qed.
Print Assumptions C01_move_part_in_box.

(* an in-box position is decoded without numpy's negative-index wrapping, to genuine elements *)
Theorem C01_in_box_decodes_genuinely : forall sp p, in_box sp p ->
  exists v, p2v sp p = Ok v /\ Forall2 (fun dim x => In x dim) sp v.
Proof. exact p2v_in_box_ok. Qed.
Print Assumptions C01_in_box_decodes_genuinely.

(* (ii) any optimizer honouring "emits Q-positions" makes search() evaluate only Q-positions; the reported
   position is the very one decoded for the objective (row values = position2value of pos_l's entry) *)
Theorem C01_driver_lift : forall (OP : optimizer) sp f clk (Inv : ost OP -> Prop) (Q : pos -> Prop) (s s' : drv OP) (c : call),
  opt_contract Inv Q -> 0 <= c_n_iter c -> Inv (d_opt s) -> search sp f clk s c = Ok s' ->
  exists tr : list ev,
    d_pos_l s' = d_pos_l s ++ map ev_pos tr /\ d_rows s' = d_rows s ++ map ev_row tr /\
    Forall (fun e => Q (ev_pos e) /\ position2value sp (ev_pos e) = Ok (ev_val e)) tr /\
    Inv (d_opt s') /\ match d_best_value s' with Some v => exists e, In e tr /\ ev_val e = v | None => True end.
Proof. exact (@search_contract_lift). Qed.
Print Assumptions C01_driver_lift.

(* (iii) HillClimbing, StochasticHillClimbing, SimulatedAnnealing, RepulsingHillClimbing,
   RandomRestartHillClimbing, RandomAnnealing, RandomSearch: every point evaluated by search() — in
   initialisation steps, iteration steps and repeated calls — is a genuine feasible point *)
Theorem C01_family : forall c f clk, dims_ok (a_sp c) -> forall (s s' : drv (algo_optimizer c)) (cl : call),
  0 <= c_n_iter cl -> algo_inv c (d_opt s) -> search (a_sp c) f clk s cl = Ok s' ->
  exists tr : list ev,
    d_pos_l s' = d_pos_l s ++ map ev_pos tr /\ d_rows s' = d_rows s ++ map ev_row tr /\
    Forall (fun e => in_box (a_sp c) (ev_pos e) /\ feasible (a_sp c) (a_cons c) (ev_pos e) = Ok true /\
                     position2value (a_sp c) (ev_pos e) = Ok (ev_val e) /\ a_cons c (ev_val e) = true) tr /\
    algo_inv c (d_opt s') /\ match d_best_value s' with Some v => a_cons c v = true | None => True end.
Proof. exact family_points_genuine_and_feasible. Qed.
Print Assumptions C01_family.

(* (iv) grid search: both decodings stay in the box for every pointer *)
Theorem C01_grid_positions_in_box : forall dims, Forall (fun d => 1 <= d) dims ->
  (dims <> [] -> forall p, 0 <= p < zprod dims -> in_dims dims (decode_be dims p)) /\
  (forall x, 0 <= x -> in_dims dims (decode_le dims x)).
Proof. intros dims H. split; [intros Hne; apply decode_be_in_dims; assumption|apply decode_le_in_dims; assumption]. Qed.
Print Assumptions C01_grid_positions_in_box.

(* non-vacuity: a climbing step on a 1x4x3 space with a half-space constraint: 3.25 -> 3 is rejected, 2.5 -> 2 (half to even) accepted *)
Example C01_nonvacuous :
  let sp := [[7]; [0; 1; 2; 3]; [5; 6; 9]] in
  let cons := fun v : values => match v with [_; b; _] => b <=? 2 | _ => false end in
  move_climb sp cons 10 [DF 0 0; DF 13 (-2); DF 1 0;   DF 0 0; DF 5 (-1); DF 1 0] 0 = Ok ([0; 2; 1], [], 2).
Proof. vm_compute. reflexivity. Qed.

(* what happens with a NaN sample (outside the theorem's hypothesis): the position carries int64 min *)
Example C01_nan_sample_refuted :
  conv2pos [[0; 1; 2]] (fun _ => true) 5 [XNaN] [] 0 = Ok ([int64_min], [], 0).
Proof. vm_compute. reflexivity. Qed.

(* ---------- the iterate step of the population optimizers (theories/Pop.v; float vectors are oracle tape entries) ----------
   whatever the draws and the (NaN-free) oracle vectors: the emitted position lies in the box and satisfies the constraints,
   and at least one constraint evaluation was made *)
Theorem C01_pso_iterate : forall sp cons fuel rrp, dims_ok sp -> forall cur t p t' c, length cur = length sp -> nan_free t ->
  pso_iterate sp cons fuel rrp cur t = Ok (p, t', c) -> emit_ok sp cons p /\ is_suffix t' t /\ 0 < c.
Proof. exact pso_iterate_ok. Qed.
Print Assumptions C01_pso_iterate.
Theorem C01_spiral_iterate : forall sp cons fuel rrp, dims_ok sp -> forall t p t' c, nan_free t ->
  spiral_iterate sp cons fuel rrp t = Ok (p, t', c) -> emit_ok sp cons p /\ is_suffix t' t.
Proof. exact spiral_iterate_ok. Qed.
Print Assumptions C01_spiral_iterate.
Theorem C01_de_iterate : forall sp cons fuel, dims_ok sp -> forall pop target t p t' c, length target = length sp -> nan_free t ->
  de_iterate sp cons fuel pop target t = Ok (p, t', c) -> emit_ok sp cons p /\ is_suffix t' t /\ 0 < c.
Proof. exact de_iterate_ok. Qed.
Print Assumptions C01_de_iterate.
(* recombination of in-box parents (evolution strategy, genetic algorithm), then the constraint test / move_climb fallback *)
Theorem C01_cross_or_climb : forall sp cons fuel, dims_ok sp -> forall parents t p t' c, Forall (in_box sp) parents -> nan_free t ->
  cross_or_climb sp cons fuel parents t = Ok (p, t', c) -> emit_ok sp cons p /\ is_suffix t' t /\ 0 < c.
Proof. exact cross_or_climb_ok. Qed.
Print Assumptions C01_cross_or_climb.

(* a NaN in the spiral's float vector is the one way out of the box (np.clip keeps NaN, astype(int) makes it -2^63) *)
Example C01_spiral_nan_refuted : spiral_point [[0; 1; 2]] [XNaN] = [int64_min].
Proof. reflexivity. Qed.
Example C01_pop_nonvacuous :
  de_iterate [[0; 1; 2; 3]; [0; 1; 2]] (fun _ => true) 10 4 [1; 1] [DZ 0; DZ 2; DZ 3; DF 5 (-1); DF (-3) 0; DZ 1; DZ 0] = Ok ([2; 1], [], 1).
Proof. vm_compute. reflexivity. Qed.

(* evolution strategy: one individual / mutation branch = the member's hill-climbing iterate; crossover branch = recombination of
   two current positions (population order after the unstable argsort is an oracle), constraint test, move_climb fallback *)
Theorem C01_es_iterate : forall sp cons fuel rrp, dims_ok sp -> forall mut curs t p t' c, Forall (in_box sp) curs -> nan_free t ->
  es_iterate sp cons fuel rrp mut curs t = Ok (p, t', c) -> emit_ok sp cons p /\ is_suffix t' t.
Proof. exact es_iterate_ok. Qed.
Print Assumptions C01_es_iterate.

(* genetic algorithm: the crossover branch serves positions from the offspring queue; every position in the queue went through the
   constraint loop when it was created, so whatever is popped is in the box and feasible, and the refilled queue again holds only such
   positions (random.sample with too few fittest parents is Err ValueError: finding F-D9a of C03) *)
Theorem C01_ga_iterate : forall sp cons fuel rrp, dims_ok sp -> forall mut n_parents n_off news queue t p t' c queue',
  Forall (in_box sp) news -> Forall (emit_ok sp cons) queue -> nan_free t ->
  ga_iterate sp cons fuel rrp mut n_parents n_off news queue t = Ok (p, t', c, queue') ->
  emit_ok sp cons p /\ Forall (emit_ok sp cons) queue' /\ is_suffix t' t.
Proof. exact ga_iterate_ok. Qed.
Print Assumptions C01_ga_iterate.

(* pattern search: the head of the pattern list (positions produced through conv2pos, hence in the box) is returned when feasible,
   otherwise replaced by move_climb's feasible neighbour; a random restart leaves the list alone *)
Theorem C01_pattern_iterate : forall sp cons fuel rrp, dims_ok sp -> forall queue t p t' c queue', Forall (in_box sp) queue -> nan_free t ->
  pattern_iterate sp cons fuel rrp queue t = Ok (p, t', c, queue') ->
  emit_ok sp cons p /\ Forall (in_box sp) queue' /\ is_suffix t' t /\ 0 < c.
Proof. exact pattern_iterate_ok. Qed.
Print Assumptions C01_pattern_iterate.

(* downhill simplex: whatever float vector a reflection / expansion / contraction / shrink step computes (any alpha, gamma, beta,
   sigma; NaN excluded), the emitted position is conv2pos of it -- in the box -- or move_climb's feasible neighbour *)
Theorem C01_simplex_iterate : forall sp cons fuel, dims_ok sp -> forall xs t p t' c, length xs = length sp ->
  Forall (fun x => x <> XNaN) xs -> nan_free t ->
  vec_iterate sp cons fuel xs t = Ok (p, t', c) -> emit_ok sp cons p /\ is_suffix t' t /\ 0 < c.
Proof. exact vec_iterate_ok. Qed.
Print Assumptions C01_simplex_iterate.

(* Powell's method / DIRECT: the candidate (a point of the inner line search / the centre of a sub-space; an oracle position that the
   correspondence unit checks to lie in the box on every observed step) is returned when feasible, else replaced by move_climb *)
Theorem C01_powell_iterate : forall sp cons fuel rrp, dims_ok sp -> forall cand t p t' c, in_box_b sp cand = true -> nan_free t ->
  powell_iterate sp cons fuel rrp cand t = Ok (p, t', c) -> emit_ok sp cons p /\ is_suffix t' t.
Proof. exact powell_iterate_ok. Qed.
Print Assumptions C01_powell_iterate.
Theorem C01_direct_iterate : forall sp cons fuel, dims_ok sp -> forall cand t p t' c, in_box_b sp cand = true -> nan_free t ->
  cand_iterate sp cons fuel cand t = Ok (p, t', c) -> emit_ok sp cons p /\ is_suffix t' t /\ 0 < c.
Proof. exact cand_iterate_ok. Qed.
Print Assumptions C01_direct_iterate.

(* model-based optimizers (Bayesian, forest, TPE, Lipschitz): a proposal accepted by the proposal rule is a member of the candidate set;
   when every candidate lies in the box and satisfies the constraints (checked on every observed candidate set by C17's S-unit), so
   does the proposal *)
Theorem C01_smbo_proposal : forall sp cons (comb : list pos) acq i p, dims_ok sp ->
  forallb (emit_b sp cons) comb = true -> proposal_ok comb acq i p = true -> emit_ok sp cons p.
Proof. exact smbo_proposal_emit. Qed.
Print Assumptions C01_smbo_proposal.

Require Import PyPrims PyPrimsQ CoreGen CoreTie.

(* ---------- the moves GENERATED from /repo's core_optimizer.py (generated/CoreGen.v; ties in proofs/CoreTie.v): whatever
   move_random / conv2pos / move_climb / the random_iteration wrapper of the SOURCE return is in the box, for every tape *)
Theorem C01_source_move_random_equals_model : forall sp cons fuel self,
  abs_out (g_core_move_random sp cons fuel self) = move_random sp cons fuel (cg_tape self) (cg_ncalls self).
Proof. exact move_random_tie. Qed.
Print Assumptions C01_source_move_random_equals_model.

Theorem C01_source_conv2pos_equals_model : forall sp cons fuel self xs,
  abs_out (g_core_conv2pos sp cons fuel self xs) = conv2pos sp cons fuel xs (cg_tape self) (cg_ncalls self).
Proof. exact conv2pos_tie. Qed.
Print Assumptions C01_source_conv2pos_equals_model.

Theorem C01_source_move_climb_same_results : forall sp cons fuel self p0,
  (forall s' p, g_core_move_climb sp cons fuel self p0 = Ok (s', p) ->
     exists fuel', move_climb sp cons fuel' (cg_tape self) (cg_ncalls self) = Ok (p, cg_tape s', cg_ncalls s')) /\
  (forall p t' c', move_climb sp cons fuel (cg_tape self) (cg_ncalls self) = Ok (p, t', c') ->
     g_core_move_climb sp cons fuel self p0 = Ok (mkGCore t' c', p)).
Proof. intros. split; [apply move_climb_tie_sound|apply move_climb_tie_complete]. Qed.
Print Assumptions C01_source_move_climb_same_results.

Theorem C01_source_move_random_in_box : forall sp cons fuel self s' p,
  g_core_move_random sp cons fuel self = Ok (s', p) -> in_box sp p.
Proof. intros sp cons fuel self s' p H. destruct (source_move_random_ok sp cons fuel self s' p H) as [[A _] _]. exact A. Qed.
Print Assumptions C01_source_move_random_in_box.

Theorem C01_source_conv2pos_in_box : forall sp cons fuel self xs s' p, dims_ok sp -> length xs = length sp ->
  Forall (fun x => x <> XNaN) xs -> g_core_conv2pos sp cons fuel self xs = Ok (s', p) -> in_box sp p.
Proof. intros sp cons fuel self xs s' p Hd Hl Hx H. destruct (source_conv2pos_ok sp cons fuel self xs s' p Hd Hl Hx H) as [A _]. exact A. Qed.
Print Assumptions C01_source_conv2pos_in_box.

Theorem C01_source_move_climb_in_box : forall sp cons fuel self p0 s' p, dims_ok sp -> nan_free (cg_tape self) ->
  g_core_move_climb sp cons fuel self p0 = Ok (s', p) -> in_box sp p.
Proof. intros sp cons fuel self p0 s' p Hd Hn H. destruct (source_move_climb_ok sp cons fuel self p0 s' p Hd Hn H) as [[A _] _]. exact A. Qed.
Print Assumptions C01_source_move_climb_in_box.

(* the decorator: for ANY decorated iterate whose results are in the box, so are the decorated function's *)
Theorem C01_source_random_iteration_in_box : forall sp cons rrp_m rrp_e body fuel self s' p,
  (forall s0 s1 p0, nan_free (cg_tape s0) -> body s0 = Ok (s1, p0) ->
     emit_ok sp cons p0 /\ is_suffix (cg_tape s1) (cg_tape s0) /\ cg_ncalls s0 < cg_ncalls s1) ->
  nan_free (cg_tape self) -> g_core_random_iteration sp cons rrp_m rrp_e body fuel self = Ok (s', p) -> in_box sp p.
Proof. intros sp cons rm re body fuel self s' p Hb Hn H. destruct (source_random_iteration_ok sp cons rm re body fuel self s' p Hb Hn H) as [[A _] _]. exact A. Qed.
Print Assumptions C01_source_random_iteration_in_box.

Require Import ConvGen ConvTie.
(* genuine decoding for the position2value GENERATED from converter.py: it is the model's function, so C01_in_box_decodes_genuinely is about
   what the source says now *)
Theorem C01_source_position2value_equals_model : forall sp p, g_Converter_position2value sp p = position2value sp p.
Proof. exact position2value_tie. Qed.
Print Assumptions C01_source_position2value_equals_model.
