(* C20 — position / value / parameter / memory conversions are mutually inverse.  Statements only. *)
Require Import Base Converter ConverterFacts ListFacts MemFacts C20_proofs Legacy.

(* every in-box position of a space with pairwise distinct values per dimension (ANY order) survives
   position -> value -> position *)
Theorem C20_position_roundtrip : forall sp p v, distinct_dims sp -> in_box sp p ->
  position2value sp p = Ok v -> value2position sp v = Ok p.
Proof. exact position_roundtrip. Qed.
Print Assumptions C20_position_roundtrip.

(* value -> position -> value for every member vector (no distinctness needed) *)
Theorem C20_value_roundtrip : forall sp p v, position2value sp p = Ok v ->
  exists key, value2position sp v = Ok key /\ position2value sp key = Ok v.
Proof. exact value_roundtrip. Qed.
Print Assumptions C20_value_roundtrip.

Theorem C20_para_roundtrip : forall names v, NoDup names -> length names = length v ->
  para2value names (value2para names v) = Ok v.
Proof. exact para_roundtrip. Qed.
Print Assumptions C20_para_roundtrip.

(* the batched conversions agree element-wise with the single ones (any order, any values) *)
Theorem C20_batched_v2p : forall sp vals ps, vals <> [] ->
  map_res (value2position sp) vals = Ok ps -> values2positions sp vals = Ok ps.
Proof. exact batched_v2p_eq_single. Qed.
Print Assumptions C20_batched_v2p.
Theorem C20_batched_p2v : forall sp ps vs, ps <> [] ->
  map_res (position2value sp) ps = Ok vs -> positions2values sp ps = Ok vs.
Proof. exact batched_p2v_eq_single. Qed.
Print Assumptions C20_batched_p2v.

(* memory dictionary -> dataframe -> memory dictionary returns the same keys and scores *)
Theorem C20_memdict_frame_roundtrip : forall (V : Type) sp names (d : list (pos * V)),
  distinct_dims sp -> NoDup names -> length names = length sp ->
  d <> [] -> NoDup (map fst d) -> Forall (in_box sp) (map fst d) ->
  exists fr, memory_dict2dataframe sp names d = Ok fr /\ dataframe2memory_dict sp names fr = Ok d.
Proof. exact @memdict_frame_roundtrip. Qed.
Print Assumptions C20_memdict_frame_roundtrip.

(* non-vacuity on a shuffled 2-D space *)
Example C20_nonvacuous :
  let sp := [[30; 10; 20]; [5; (-5)]] in
  position2value sp [2; 1] = Ok [20; (-5)] /\ value2position sp [20; (-5)] = Ok [2; 1] /\
  values2positions sp [[20; (-5)]; [30; 5]] = Ok [[2; 1]; [0; 0]] /\
  (exists fr, memory_dict2dataframe sp [0; 1] [([2; 1], 7); ([0; 0], 9)] = Ok fr /\
              dataframe2memory_dict sp [0; 1] fr = Ok [([2; 1], 7); ([0; 0], 9)]).
Proof. vm_compute. repeat split; try reflexivity. eexists. split; reflexivity. Qed.

(* record of defect D3 (fixed in /repo): searchsorted on a descending array maps the member 5 to index 5 *)
Example C20_batched_descending_refuted_unfixed :
  values2positions_unfixed_1d [5; 4; 3; 2; 1] [5; 3; 1] = [5; 0; 0] /\
  values2positions [[5; 4; 3; 2; 1]] [[5]; [3]; [1]] = Ok [[0]; [2]; [4]].
Proof. vm_compute. split; reflexivity. Qed.

Require Import PyPrims PyPrimsQ ConvGen ConvTie.
(* ---------- the single conversions GENERATED from /repo's converter.py (generated/ConvGen.v) are EQUAL to the model (proofs/ConvTie.v):
   results and errors, for every space, name list and argument ---------- *)
Theorem C20_source_position2value_equals_model : forall sp p, g_Converter_position2value sp p = position2value sp p.
Proof. exact position2value_tie. Qed.
Print Assumptions C20_source_position2value_equals_model.
Theorem C20_source_value2position_equals_model : forall sp v, g_Converter_value2position sp v = value2position sp v.
Proof. exact value2position_tie. Qed.
Print Assumptions C20_source_value2position_equals_model.
Theorem C20_source_value2para_equals_model : forall names v, g_Converter_value2para names v = Ok (value2para names v).
Proof. exact value2para_tie. Qed.
Print Assumptions C20_source_value2para_equals_model.
Theorem C20_source_para2value_equals_model : forall names p, g_Converter_para2value names p = para2value names p.
Proof. exact para2value_tie. Qed.
Print Assumptions C20_source_para2value_equals_model.

(* the round trips, stated for the generated functions *)
Theorem C20_source_position_roundtrip : forall sp p v, distinct_dims sp -> in_box sp p ->
  g_Converter_position2value sp p = Ok v -> g_Converter_value2position sp v = Ok p.
Proof. intros sp p v Hd Hb H. rewrite position2value_tie in H. rewrite value2position_tie. exact (position_roundtrip sp p v Hd Hb H). Qed.
Print Assumptions C20_source_position_roundtrip.

Theorem C20_source_value_roundtrip : forall sp p v, g_Converter_position2value sp p = Ok v ->
  exists key, g_Converter_value2position sp v = Ok key /\ g_Converter_position2value sp key = Ok v.
Proof.
  intros sp p v H. rewrite position2value_tie in H. destruct (value_roundtrip sp p v H) as (key & A & B).
  exists key. rewrite value2position_tie, position2value_tie. split; assumption.
Qed.
Print Assumptions C20_source_value_roundtrip.

Theorem C20_source_para_roundtrip : forall names v, NoDup names -> length names = length v ->
  exists p, g_Converter_value2para names v = Ok p /\ g_Converter_para2value names p = Ok v.
Proof.
  intros names v Hn Hl. exists (value2para names v). rewrite value2para_tie, para2value_tie. split; [reflexivity|exact (para_roundtrip names v Hn Hl)].
Qed.
Print Assumptions C20_source_para_roundtrip.
