(* C17 — model-based proposals maximise the acquisition over sound training data.  Statements only.
   Surrogate fitting and the acquisition function are oracles (sklearn / scipy numerics). *)
Require Import Base Converter CoreOpt Smbo ListFacts MemFacts C17_proofs.

(* the training set after any history of (init?, position, score) steps is the starting (warm-start) set followed
   by exactly the finite-scored evaluations, positions paired with their own scores, in order *)
Theorem C17_training_set_aligned : forall evs s, length (sm_X s) = length (sm_Y s) ->
  sm_X (smbo_run s evs) = sm_X s ++ map fst (finite_events evs) /\
  sm_Y (smbo_run s evs) = sm_Y s ++ map snd (finite_events evs).
Proof. exact xy_aligned. Qed.
Print Assumptions C17_training_set_aligned.

(* a proposal accepted by the rule is a candidate whose acquisition value no candidate exceeds *)
Theorem C17_proposal_is_argmax : forall comb acq i p, proposal_ok comb acq i p = true ->
  nth_error comb i = Some p /\ exists a, nth_error acq i = Some a /\ forall b, In b acq -> xr_gt b a = false.
Proof. exact proposal_is_argmax. Qed.
Print Assumptions C17_proposal_is_argmax.

(* replacement=False: after any sequence of iteration steps none of the evaluated positions is still a candidate,
   and candidates are only ever removed — so the model path cannot propose a position twice *)
Theorem C17_no_repeat_without_replacement : forall evs s,
  sm_replacement s = false -> (forall e, In e evs -> fst (fst e) = false) ->
  let s' := smbo_run s evs in
  sm_replacement s' = false /\ (forall q, In q (sm_comb s') -> In q (sm_comb s)) /\
  (forall e, In e evs -> ~ In (snd (fst e)) (sm_comb s')).
Proof. exact no_repeat_without_replacement. Qed.
Print Assumptions C17_no_repeat_without_replacement.

Example C17_nonvacuous :
  let s := smbo_run (mkSmbo [] [] [[0]; [1]; [2]; [3]] false)
             [(true, [0], SFin 5); (false, [2], SNaN); (false, [3], SFin 7)] in
  sm_X s = [[0]; [3]] /\ sm_Y s = [SFin 5; SFin 7] /\ sm_comb s = [[0]; [1]] /\
  proposal_ok [[0]; [1]; [2]] [XF 1 0; XF 3 (-1); XF 1 0] 1 [1] = true /\
  proposal_ok [[0]; [1]; [2]] [XF 1 0; XF 3 (-1); XF 1 0] 0 [0] = false.
Proof. vm_compute. repeat split; reflexivity. Qed.

(* NaN acquisition values are outside the guarantee: numpy sorts NaN last, the reversed order puts it first *)
Example C17_nan_acquisition_not_maximal : xr_gt (XF 1 0) XNaN = false /\ proposal_ok [[0]; [1]] [XNaN; XF 1 0] 0 [0] = true.
Proof. vm_compute. split; reflexivity. Qed.

(* TPE: the surrogate is two kernel densities fitted on the best n_best training points and on the others; for every argsort result
   (any permutation of range(n), ties in any order) the two index lists partition the training set: no point is fitted into both
   densities, none is left out *)
Theorem C17_tpe_split_partitions : forall (A : Type) (xs : list A) (d : A) perm n_best,
  is_perm_of_range perm (length xs) = true -> (n_best <= length xs)%nat ->
  let '(ib, iw) := tpe_split perm n_best in
  Permutation.Permutation (map (fun i => nth i xs d) iw ++ map (fun i => nth i xs d) ib) xs /\ length ib = n_best.
Proof. exact @tpe_split_partition. Qed.
Print Assumptions C17_tpe_split_partitions.

Require Import PyPrims PyPrimsQ SmboGen SmboTie.

(* ---------- the SMBO bookkeeping GENERATED from /repo's smb_opt/smbo.py (generated/SmboGen.v; ties in proofs/SmboTie.v) ---------- *)
(* one driver step of the generated code (track_X_sample around the proposal, then the decorated evaluate / evaluate_init) IS the model's
   smbo_step, the step C17_training_set_aligned and C17_no_repeat_without_replacement are about *)
Theorem C17_source_step_refines : forall (iterate_f : g_smbo -> res (g_smbo * pos)) self s1 p sc (init : bool),
  iterate_f self = Ok (s1, p) -> sg_pos_new s1 = p ->
  exists s2 s3, g_SMBO_track_X_sample iterate_f self = Ok (s2, p) /\
                (if init then g_SMBO_evaluate_init s2 sc else g_SMBO_evaluate s2 sc) = Ok s3 /\
                sabs s3 = smbo_step (sabs s1) init p sc.
Proof. exact source_smbo_step. Qed.
Print Assumptions C17_source_step_refines.

(* the source's track_y_sample: a finite score is appended to Y_sample, a NaN / +-inf score removes the X appended for it *)
Theorem C17_source_track_y_refines : forall (evaluate_f : g_smbo -> score -> res g_smbo) self sc s1,
  evaluate_f self sc = Ok s1 -> sg_X_sample s1 <> [] ->
  exists s', g_SMBO_track_y_sample evaluate_f self sc = Ok s' /\ sabs s' = track_y (sabs s1) sc /\ sg_pos_new s' = sg_pos_new s1.
Proof. exact track_y_tie. Qed.
Print Assumptions C17_source_track_y_refines.

(* the source's evaluate: with replacement=False every candidate row equal to the scored position is removed, then the score is tracked *)
Theorem C17_source_evaluate_refines : forall self sc, sg_X_sample self <> [] ->
  exists s', g_SMBO_evaluate self sc = Ok s' /\ sabs s' = smbo_evaluate (sabs self) (sg_pos_new self) sc /\ sg_pos_new s' = sg_pos_new self.
Proof. exact evaluate_tie. Qed.
Print Assumptions C17_source_evaluate_refines.

(* the no-repeat clause for the GENERATED evaluate: with replacement=False the scored position is removed from the candidates (every row
   equal to it), and candidates are only ever removed -- one generated step of C17_no_repeat_without_replacement *)
Theorem C17_source_evaluate_removes_scored_position : forall self sc s', sg_X_sample self <> [] -> sg_replacement self = false ->
  g_SMBO_evaluate self sc = Ok s' ->
  ~ In (sg_pos_new self) (sg_all_pos_comb s') /\ (forall q, In q (sg_all_pos_comb s') -> In q (sg_all_pos_comb self)) /\ sg_replacement s' = false.
Proof. exact source_evaluate_removes. Qed.
Print Assumptions C17_source_evaluate_removes_scored_position.
