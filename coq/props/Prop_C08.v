(* C08 — every search step terminates under satisfiable constraints (no livelock).  Statements only.
   The quantitative bound is probabilistic; what is proved: each rejection loop re-draws its candidate on
   every retry, exits at the FIRST feasible candidate with exactly one constraint evaluation per candidate,
   every feasible point of the space is an immediate exit of move_random (so a retry succeeds with
   probability = feasible fraction >= 1/4 under the uniform generator), and move_climb always keeps the
   move_random escape (a sample far outside the box). *)
Require Import Base StopRun Converter ConverterFacts CoreOpt Tracker Algos Driver DriverFacts CoreFacts AlgoFacts AlgoLift.
Require Import PyPrims PyPrimsQ GridGen GridTie.

Theorem C08_move_random_first_feasible : forall sp cons (rejected : list pos) (p : pos) (rest : tape) c,
  Forall (fun q => in_box sp q /\ feasible sp cons q = Ok false) rejected ->
  in_box sp p -> feasible sp cons p = Ok true ->
  forall fuel, (length rejected < fuel)%nat ->
  move_random sp cons fuel (flat_map (map DZ) rejected ++ map DZ p ++ rest) c
    = Ok (p, rest, c + Z.of_nat (length rejected) + 1).
Proof. exact move_random_first_feasible. Qed.
Print Assumptions C08_move_random_first_feasible.

(* index tuples and positions correspond one to one: every in-box position is drawn by exactly its own indices *)
Theorem C08_every_point_is_drawable : forall sp p t, in_box sp p -> draw_position (dim_sizes sp) (map DZ p ++ t) = Ok (p, t).
Proof. exact draw_position_complete. Qed.
Print Assumptions C08_every_point_is_drawable.

Theorem C08_move_climb_exits_at_first_feasible : forall sp cons f t c xs t1 q t2 c2,
  read_reals (length sp) t = Ok (xs, t1) -> conv2pos sp cons (S f) xs t1 c = Ok (q, t2, c2) ->
  feasible sp cons q = Ok true -> move_climb sp cons (S f) t c = Ok (q, t2, c2 + 1).
Proof. exact move_climb_exit. Qed.
Print Assumptions C08_move_climb_exits_at_first_feasible.

Theorem C08_move_climb_escape_route : forall sp cons fuel xs t c, far_outside sp (map rint_x xs) = true ->
  conv2pos sp cons fuel xs t c = move_random sp cons fuel t c.
Proof. exact conv2pos_far. Qed.
Print Assumptions C08_move_climb_escape_route.

(* every retry consumes fresh draws: the returned tape is a strict suffix and at least one constraint evaluation happened *)
Theorem C08_family_iterate_progress : forall c, dims_ok (a_sp c) -> forall st p t' n, nan_free (h_tape st) ->
  iterate_move c st = Ok (p, t', n) -> emit_ok (a_sp c) (a_cons c) p /\ is_suffix t' (h_tape st) /\ 0 < n.
Proof. exact iterate_move_ok. Qed.
Print Assumptions C08_family_iterate_progress.

Example C08_nonvacuous :
  let sp := [[0; 1; 2; 3]; [0; 1]] in
  let cons := fun v : values => match v with [a; b] => Z.even (a + b) | _ => false end in
  move_random sp cons 10 (flat_map (map DZ) [[1; 0]; [2; 1]] ++ map DZ [3; 1] ++ [DZ 0]) 0 = Ok ([3; 1], [DZ 0], 3).
Proof. vm_compute. reflexivity. Qed.

(* ---------- finding F-D5, machine-checked against the code GENERATED from diagonal_grid_search.py ----------
   C08 as stated is FALSE for the diagonal grid search: on a 1x4 space with step 1, after the first pass
   (nth_trial = 4), with a constraint that excludes only position [1] (3/4 of the space feasible), the translated
   `while True` of iterate never returns -- for every amount of fuel, whatever the pointer and whatever move_random does *)
Theorem C08_source_diag_livelock_refuted : forall fuel p mr,
  g_diag_iterate 1 d5_cons (fun q => q) mr fuel (d5_state p) = Err OutOfFuel.
Proof. exact source_diag_livelock. Qed.
Print Assumptions C08_source_diag_livelock_refuted.

Example C08_source_diag_livelock_feasible_fraction : map d5_cons [[0]; [1]; [2]; [3]] = [true; false; true; true].
Proof. exact d5_feasible_fraction. Qed.

Require Import CoreGen CoreTie.
From RecordUpdate Require Import RecordSet.
Import RecordSetNotations.

(* ---------- the loops GENERATED from /repo's core_optimizer.py (generated/CoreGen.v; ties in proofs/CoreTie.v) ---------- *)
(* source move_random: rejected candidates first, then a feasible one: returned after one constraint evaluation per candidate *)
Theorem C08_source_move_random_first_feasible : forall sp cons (rejected : list pos) (p : pos) (rest : tape) c,
  Forall (fun q => in_box sp q /\ feasible sp cons q = Ok false) rejected -> in_box sp p -> feasible sp cons p = Ok true ->
  forall fuel, (length rejected < fuel)%nat ->
  g_core_move_random sp cons fuel (mkGCore (flat_map (map DZ) rejected ++ map DZ p ++ rest) c)
    = Ok (mkGCore rest (c + Z.of_nat (length rejected) + 1), p).
Proof. exact source_move_random_first_feasible. Qed.
Print Assumptions C08_source_move_random_first_feasible.

(* source move_climb: one pass of the loop suffices when the converted candidate is feasible *)
Theorem C08_source_move_climb_exits_at_first_feasible : forall sp cons f self p0 xs t1 q t2 c2,
  read_reals (length sp) (cg_tape self) = Ok (xs, t1) -> conv2pos sp cons (S f) xs t1 (cg_ncalls self) = Ok (q, t2, c2) ->
  feasible sp cons q = Ok true -> g_core_move_climb sp cons (S f) self p0 = Ok (mkGCore t2 (c2 + 1), q).
Proof. exact source_move_climb_exit. Qed.
Print Assumptions C08_source_move_climb_exits_at_first_feasible.

(* every retry of the source loops consumes fresh draws and evaluates the constraint: the tape left over is a suffix, the counter grows *)
Theorem C08_source_move_climb_progress : forall sp cons fuel self p0 s' p, dims_ok sp -> nan_free (cg_tape self) ->
  g_core_move_climb sp cons fuel self p0 = Ok (s', p) -> is_suffix (cg_tape s') (cg_tape self) /\ cg_ncalls self < cg_ncalls s'.
Proof. intros sp cons fuel self p0 s' p Hd Hn H. destruct (source_move_climb_ok sp cons fuel self p0 s' p Hd Hn H) as [_ A]. exact A. Qed.
Print Assumptions C08_source_move_climb_progress.

(* the random-restart dispatch of the source is exactly: one uniform draw, then move_random or the decorated iterate *)
Theorem C08_source_random_iteration_dispatch : forall sp cons rrp_m rrp_e body fuel self,
  g_core_random_iteration sp cons rrp_m rrp_e body fuel self =
  match cg_tape self with
  | DF um ue :: t' => if dyadic_gt rrp_m rrp_e um ue then g_core_move_random sp cons fuel (self <| cg_tape := t' |>)
                      else body (self <| cg_tape := t' |>)
  | _ => Err OutOfTape
  end.
Proof. exact random_iteration_spec. Qed.
Print Assumptions C08_source_random_iteration_dispatch.

Require Import InitGen InitTie.
(* the rejection loop of the GENERATED Initializer._init_random_search (also behind _fill_rest_random and add_n_random_init_pos): rejected
   candidates first, then a feasible one: that one is the requested position, after one constraint evaluation per candidate *)
Theorem C08_source_init_random_search_first_feasible : forall sp cons fuel (self : g_init) (rejected : list pos) (p : pos) (rest : tape),
  Forall (fun q => in_box sp q /\ feasible sp cons q = Ok false) rejected -> in_box sp p -> feasible sp cons p = Ok true ->
  (length rejected < fuel)%nat -> in_tape self = flat_map (map DZ) rejected ++ map DZ p ++ rest ->
  g_Initializer_init_random_search sp cons fuel self 1 =
  Ok (self <| in_tape := rest |> <| in_ncalls := in_ncalls self + Z.of_nat (length rejected) + 1 |>, [p]).
Proof. exact init_random_search_first_feasible. Qed.
Print Assumptions C08_source_init_random_search_first_feasible.
