(* C12 — max_score stops the search exactly when the target is reached.
   Only statements; proofs live in proofs/C12_proofs.v. *)
Require Import Base StopRun Converter Driver DriverObs DriverFacts StopFacts C12_proofs PyPrims PyPrimsQ DriverGen DriverTie.
Require Import SearchGen SearchTie.

(* For every optimizer (abstract record), space, objective (even call-index dependent), clock,
   prior history s and threshold m other than -inf: this call's scores sc satisfy
   rows added = |sc|, |sc| = (first index reaching m) + 1 or n_iter, and best_score >= m iff reached. *)
Theorem C12_max_score_exact : forall (OP : optimizer) sp f clk, @C12_statement OP sp f clk.
Proof. exact (@C12_holds). Qed.
Print Assumptions C12_max_score_exact.

(* non-vacuity: a concrete run (threshold 0, scripted scores -1, 0, 5, n_iter 3) returns Ok and stops after 2 rows *)
Example C12_nonvacuous :
  let c := mkDcase [[0; 1; 2]] 1 [[0]; [1]; [2]] [mkResult (SFin (-1)) None; mkResult (SFin 0) None; mkResult (SFin 5) None]
             [] [] [mkCall 3 (mkStop None (Some (SFin 0)) None) false None false] false [] in
  match run_case c with Ok [o] => length (ob_rows o) = 2%nat /\ ob_best_score o = SFin 0 | _ => False end.
Proof. vm_compute. split; reflexivity. Qed.

(* record of defect D1 (fixed in /repo): under the truthiness reading `max_score and ...`
   a threshold of 0 can never stop the search, whatever the best score *)
Example C12_truthy_zero_refuted : forall best, score_exceeded_truthy best (Some (SFin 0)) = false
                                          /\ score_exceeded (SFin 0) (Some (SFin 0)) = true.
Proof. intros best. split; reflexivity. Qed.

(* ---------- the definitions GENERATED from /repo's _stop_run.py refine the model the theorem above is about ---------- *)
Theorem C12_source_score_exceeded_refines : forall best m, g_score_exceeded best m = Ok (score_exceeded best m).
Proof. exact score_exceeded_tie. Qed.
Print Assumptions C12_source_score_exceeded_refines.

Theorem C12_source_check_refines : forall clk k c pa pr start best sl,
  (forall e, st_early c = Some e -> rel_wf e /\ early_nonempty e pa pr) ->
  g_StopRun_check clk k (stop_of c pa pr start best sl) =
  let k' := if check_reads_clock c then S k else k in
  match check c start (clk k) best sl with
  | Ok b => Ok ((stop_of c pa pr start best sl, b), k')
  | Err e => Err e
  end.
Proof. exact check_tie. Qed.
Print Assumptions C12_source_check_refines.

(* the translated threshold test treats 0 as a threshold (non-vacuity of the refinement on the D1 input) *)
Example C12_source_zero_threshold : g_score_exceeded (SFin 0) (Some (SFin 0)) = Ok true.
Proof. reflexivity. Qed.

(* C12 for a call whose loop is the code GENERATED from search.py (model init_search, generated loop, model finish_search) *)
Theorem C12_source_search_max_score_exact : forall (OP : optimizer) sp f clk pa pr (s : drv OP) (c : call) (g : g_search (drv OP)) k g' k' s' (m : score),
  init_search sp clk s c = Ok (abs g k) ->
  ties g -> stop_wf pa pr g -> stop_shape pa pr g -> gs_n_init_search g <= 0 -> gs_n_iter g = c_n_iter c -> 0 <= c_n_iter c ->
  g_Search_search_loop (drv OP) (inner_score sp f) clk k g (c_n_iter c) = Ok (g', k') ->
  finish_search sp (abs g' k') = Ok s' ->
  only_max_score c m -> m <> SNInf ->
  exists sc : list score,
    d_score_l s' = d_score_l s ++ sc /\ length (d_rows s') = (length (d_rows s) + length sc)%nat /\
    match first_reach m sc with Some j => length sc = S j | None => zlen sc = c_n_iter c end /\
    (sge (d_best_score s') m = true <-> exists x, In x sc /\ sge x m = true).
Proof.
  intros OP sp f clk pa pr s c g k g' k' s' m HI T WF SH NI NN N0 HL HF OM MN.
  apply (@C12_holds OP sp f clk s s' c m OM MN N0). eapply source_search_is_model_search; eassumption.
Qed.
Print Assumptions C12_source_search_max_score_exact.
