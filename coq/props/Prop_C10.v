(* C10 — warm-start points are always evaluated during initialisation.  Statements only. *)
Require Import Base StopRun Converter ConverterFacts ListFacts Init C20_proofs C10_proofs Driver DriverFacts CoreOpt Tracker Algos.

(* a warm-start dictionary denotes the same position whatever the order of its keys *)
Theorem C10_key_order_irrelevant : forall sp names (w w' : para),
  NoDup (map fst w) -> NoDup (map fst w') -> (forall x, In x w <-> In x w') ->
  warm_start_position sp names w = warm_start_position sp names w'.
Proof. exact warm_start_key_order_irrelevant. Qed.
Print Assumptions C10_key_order_irrelevant.

(* a parameter set lying in the search space maps to exactly its own position *)
Theorem C10_in_space_position : forall sp names (p : pos) (v : values) (w : para),
  distinct_dims sp -> in_box sp p -> position2value sp p = Ok v -> para2value names w = Ok v ->
  warm_start_position sp names w = Ok p.
Proof. exact warm_start_in_space. Qed.
Print Assumptions C10_in_space_position.

(* every feasible warm-start position is in the list of initial positions, before index n_inits, for every mix
   of random / grid / vertices counts (component lists may be shorter than planned after filtering) and padding *)
Theorem C10_warm_start_in_init_list : forall sp cons names (ws : list para) (warm : list pos) w p
        (rnd grid vert fill : list pos) (n_rnd n_grid n_vert : nat),
  init_warm_start sp cons names ws = Ok warm ->
  In w ws -> warm_start_position sp names w = Ok p -> not_in_constraint sp cons p = Ok true ->
  (length rnd <= n_rnd)%nat -> (length grid <= n_grid)%nat -> (length vert <= n_vert)%nat ->
  exists i, nth_error (assemble rnd grid vert warm fill) i = Some p /\ (i < n_rnd + n_grid + n_vert + length ws)%nat.
Proof. exact warm_start_in_init_list. Qed.
Print Assumptions C10_warm_start_in_init_list.

(* populations: split + the nth_trial mod P schedule evaluate l[t] at initialisation step t, for every
   population size P >= 1 (also when |l| is not a multiple of P) *)
Theorem C10_split_round_robin : forall (A : Type) (l : list A) (P t : nat), (0 < P)%nat -> (t < length l)%nat ->
  pop_init_pos (split l P) P t = nth_error l t.
Proof. exact @split_round_robin. Qed.
Print Assumptions C10_split_round_robin.

(* single-solution optimizers under the driver: a fresh optimizer searched for N >= n_inits steps evaluates
   exactly its initial positions, in order, in its first n_inits steps *)
Theorem C10_family_inits_served : forall c f clk (s s' : drv (algo_optimizer c)) (cl : call),
  d_n_init_total s = 0 -> t_nth_init (h_trk (d_opt s)) = 0 ->
  c_stop cl = no_stop -> zlen (h_inits (d_opt s)) <= c_n_iter cl ->
  search (a_sp c) f clk s cl = Ok s' ->
  exists tr : list ev, d_pos_l s' = d_pos_l s ++ map ev_pos tr /\
    map ev_pos (firstn (length (h_inits (d_opt s))) tr) = h_inits (d_opt s).
Proof. exact family_inits_served. Qed.
Print Assumptions C10_family_inits_served.

Example C10_nonvacuous :
  let sp := [[1; 2; 3; 4]; [100; 105; 110]] in
  init_warm_start sp (fun v => match v with [a; _] => negb (a =? 4) | _ => false end) [0; 1]
     [[(1, 105); (0, 3)]; [(0, 4); (1, 100)]; [(0, 1); (1, 110)]] = Ok [[2; 1]; [0; 2]] /\
  split [10; 11; 12; 13; 14] 3 = [[10; 13]; [11; 14]; [12]] /\
  map (pop_init_pos (split [10; 11; 12; 13; 14] 3) 3) (seq 0 5) = [Some 10; Some 11; Some 12; Some 13; Some 14].
Proof. vm_compute. repeat split; reflexivity. Qed.

(* record of defect D10 (fixed in /repo) *)
Example C10_key_order_refuted_unfixed :
  let sp := [[1; 2; 3; 4]; [100; 105; 110]] in
  warm_start_position_unfixed sp [(1, 105); (0, 3)] = Ok [3; 0] /\
  warm_start_position sp [0; 1] [(1, 105); (0, 3)] = Ok [2; 1].
Proof. exact key_order_unfixed. Qed.

Require Import PyPrims PyPrimsQ CoreOpt CoreFacts InitGen InitTie.

(* ---------- the Initializer GENERATED from /repo's init_positions.py (generated/InitGen.v; ties in proofs/InitTie.v) ---------- *)
(* the source's _init_warm_start IS the model's init_warm_start (dictionaries read by parameter name, nearest position, constraint
   filter); it leaves initialize / n_inits / init_positions_l and the random tape alone *)
Theorem C10_source_init_warm_start_refines : forall sp cons names self ws,
  match g_Initializer_init_warm_start sp cons names self ws with
  | Ok (s', l) => init_warm_start sp cons names ws = Ok l /\ same_cfg self s' /\ in_tape s' = in_tape self
  | Err e => init_warm_start sp cons names ws = Err e
  end.
Proof. exact init_warm_start_tie. Qed.
Print Assumptions C10_source_init_warm_start_refines.

(* the source's __init__ + set_pos: n_inits is the sum of the planned counts, the list of initial positions is
   random ++ grid ++ vertices ++ warm ++ random fill (Init.assemble) *)
Theorem C10_source_initializer_spec : forall sp cons names igs iv,
  (forall s n s' l, igs s n = Ok (s', l) -> same_cfg s s' /\ (length l <= Z.to_nat n)%nat) ->
  (forall s n s' l, iv s n = Ok (s', l) -> same_cfg s s' /\ (length l <= Z.to_nat n)%nat) ->
  forall fuel self0 iz s', g_Initializer_init sp cons names igs iv fuel self0 iz = Ok s' ->
  in_initialize s' = iz /\
  in_n_inits s' = optz (iz_random iz) + optz (iz_grid iz) + optz (iz_vertices iz) + optlen (iz_warm_start iz) /\
  exists rnd grid vert warm fill,
    in_init_positions_l s' = assemble rnd grid vert warm fill /\
    (length rnd <= cnt (iz_random iz))%nat /\ (length grid <= cnt (iz_grid iz))%nat /\ (length vert <= cnt (iz_vertices iz))%nat /\
    (forall ws, iz_warm_start iz = Some ws -> init_warm_start sp cons names ws = Ok warm) /\
    length fill = Z.to_nat (in_n_inits s' - zlen (rnd ++ grid ++ vert ++ warm)) /\
    Forall (emit_ok sp cons) rnd /\ Forall (emit_ok sp cons) fill.
Proof. exact init_spec. Qed.
Print Assumptions C10_source_initializer_spec.

(* C10 for the generated code: a warm-start dictionary whose (nearest) position is feasible is in init_positions_l before index n_inits,
   for every mix of the other initialisation kinds; _init_grid_search / _init_vertices are abstract (any functions that leave the
   configuration alone and return at most the requested number of positions) *)
Theorem C10_source_warm_start_in_init_list : forall sp cons names igs iv,
  (forall s n s' l, igs s n = Ok (s', l) -> same_cfg s s' /\ (length l <= Z.to_nat n)%nat) ->
  (forall s n s' l, iv s n = Ok (s', l) -> same_cfg s s' /\ (length l <= Z.to_nat n)%nat) ->
  forall fuel self0 iz s' ws w p, g_Initializer_init sp cons names igs iv fuel self0 iz = Ok s' ->
  iz_warm_start iz = Some ws -> In w ws -> warm_start_position sp names w = Ok p -> not_in_constraint sp cons p = Ok true ->
  0 <= optz (iz_random iz) -> 0 <= optz (iz_grid iz) -> 0 <= optz (iz_vertices iz) ->
  exists i, nth_error (in_init_positions_l s') i = Some p /\ Z.of_nat i < in_n_inits s'.
Proof. exact source_warm_start_in_init_list. Qed.
Print Assumptions C10_source_warm_start_in_init_list.

Require Import PopGen PopTie.
(* split() GENERATED from /repo's pop_opt/base_population_optimizer.py (generated/PopGen.v; proofs/PopTie.v): the population's round-robin
   schedule evaluates positions_l[t] at init step t -- member t mod P's (t / P)-th own position *)
Theorem C10_source_split_round_robin : forall (l : list pos) (P t : nat), (0 < P)%nat -> (t < length l)%nat ->
  exists shares, g_split l (Z.of_nat P) = Ok shares /\ pop_init_pos shares P t = nth_error l t.
Proof. exact source_split_round_robin. Qed.
Print Assumptions C10_source_split_round_robin.
