(* C05 — best_score / best_para are the true best of this call's rows.  Statements only. *)
Require Import Base StopRun Converter Driver DriverObs DriverFacts StopFacts C05_proofs C05_sim PyPrims PyPrimsQ DriverGen DriverTie.

(* for every optimizer, objective, verbosity path and prior history: best_score is never NaN, no row of
   this call is strictly better, best_value is the decoded position of the FIRST row attaining best_score
   (rows before it are strictly worse or NaN), and it is None only if every row is NaN *)
Theorem C05_best_is_first_max : forall (OP : optimizer) sp f clk, @C05_statement OP sp f clk.
Proof. exact (@C05_holds). Qed.
Print Assumptions C05_best_is_first_max.

(* the two progress-bar update paths agree on (score_best, pos_best) for every input *)
Theorem C05_verbosity_paths_agree : forall b sc p k,
  pb_best (pbar_update_lvl1 b sc p k) = pb_best (pbar_update_lvl0 b sc p k) /\
  pb_pos (pbar_update_lvl1 b sc p k) = pb_pos (pbar_update_lvl0 b sc p k).
Proof. exact lvl1_eq_lvl0. Qed.
Print Assumptions C05_verbosity_paths_agree.

(* whole runs: for every optimizer, objective, clock, prior state and call, the search with the tqdm progress bar
   (verbosity containing "progress_bar") and the silent search end with the same rows, positions, scores, best
   score / best value, counters, memory dictionary, objective calls and optimizer state *)
Theorem C05_verbosity_independent : forall (OP : optimizer) sp f clk (s s1 : drv OP) (c : call),
  search sp f clk s c = Ok s1 ->
  exists s2, search sp f clk s (call_silent c) = Ok s2 /\ same_result s1 s2.
Proof. exact (@verbosity_independent). Qed.
Print Assumptions C05_verbosity_independent.

Example C05_nonvacuous :
  let c := mkDcase [[10; 20; 30; 40]] 1 [[0]; [1]; [2]; [3]] [mkResult (SFin 1) None; mkResult SNaN None; mkResult (SFin 5) None; mkResult (SFin 5) None]
             [] [] [mkCall 4 no_stop false None true] false [] in
  match run_case c with Ok [o] => ob_best_score o = SFin 5 /\ ob_best_value o = Some [30] | _ => False end.
Proof. vm_compute. split; reflexivity. Qed.

(* all rows -inf: best_score = -inf and best_para is the first row's (defect D13, fixed in /repo;
   under the unchanged strict test the position stayed None) *)
Example C05_all_neginf :
  let c := mkDcase [[10; 20]] 1 [[0]; [1]] [mkResult SNInf None; mkResult SNInf None]
             [] [] [mkCall 2 no_stop false None false] false [] in
  match run_case c with Ok [o] => ob_best_score o = SNInf /\ ob_best_value o = Some [10] | _ => False end.
Proof. vm_compute. split; reflexivity. Qed.

Example C05_strict_test_refuted :
  pb_pos (new2best_strict pbar_init SNInf [0]) = None /\ pb_pos (new2best pbar_init SNInf [0]) = Some [0].
Proof. exact strict_update_loses_neginf_position. Qed.

(* ---------- the definitions GENERATED from /repo's _progress_bar.py (generated/DriverGen.v) ---------- *)
(* both translated update paths refine the model's (for every bar state, score, position, iteration number) *)
Theorem C05_source_update_lvl0_refines : forall g s p n,
  exists g', g_pbar_update_lvl0 g s p n = Ok g' /\ abs_pb g' = pbar_update_lvl0 (abs_pb g) s p n.
Proof. exact update_lvl0_tie. Qed.
Print Assumptions C05_source_update_lvl0_refines.
Theorem C05_source_update_lvl1_refines : forall g s p n,
  exists g', g_pbar_update_lvl1 g s p n = Ok g' /\ abs_pb g' = pbar_update_lvl1 (abs_pb g) s p n.
Proof. exact update_lvl1_tie. Qed.
Print Assumptions C05_source_update_lvl1_refines.
(* hence the translated silent and tqdm paths agree on (score_best, pos_best) and neither raises *)
Theorem C05_source_verbosity_paths_agree : forall g s p n, exists g0 g1,
  g_pbar_update_lvl0 g s p n = Ok g0 /\ g_pbar_update_lvl1 g s p n = Ok g1 /\
  pb_score_best_ g1 = pb_score_best_ g0 /\ pb_pos_best g1 = pb_pos_best g0.
Proof. exact source_verbosity_paths_agree. Qed.
Print Assumptions C05_source_verbosity_paths_agree.
(* the translated _new2best adopts (score, position) together, exactly under `>` or first-tie-with-no-position *)
Theorem C05_source_new2best_spec : forall g s p n, exists g', g_pbar_new2best g s p n = Ok g' /\
  (pb_score_best_ g', pb_pos_best g') =
  (if better s (pb_score_best_ g) (pb_pos_best g) then (s, Some p) else (pb_score_best_ g, pb_pos_best g)).
Proof. exact source_new2best_spec. Qed.
Print Assumptions C05_source_new2best_spec.

Require Import FinishGen FinishTie.
(* ---------- Search.finish_search GENERATED from /repo's search.py (generated/FinishGen.v; tie in proofs/FinishTie.v) ---------- *)
(* the source's finish_search IS the model's: best_score / best_value published from the progress bar, memory_dict from the memory object
   exactly when memory is on; best_para = value2para(best_value) *)
Theorem C05_source_finish_search_refines : forall (OP : optimizer) sp names (s : drv OP) (g : g_pbar), abs_pb g = d_pbar s ->
  match g_Search_finish_search sp names (fin_of s g) with
  | Ok f => exists s', finish_search sp s = Ok s' /\
                       d_best_score s' = fn_best_score f /\ d_best_value s' = fn_best_value f /\ d_memory_dict s' = fn_memory_dict f /\
                       fn_best_para f = option_map (value2para names) (fn_best_value f)
  | Err e => finish_search sp s = Err e
  end.
Proof. exact @finish_search_tie. Qed.
Print Assumptions C05_source_finish_search_refines.

(* the reported best value / parameters decode the progress bar's best position, the reported best score is the progress bar's *)
Theorem C05_source_finish_decodes_best : forall sp names (f0 f : g_fin) p,
  g_Search_finish_search sp names f0 = Ok f -> pb_pos_best (fn_p_bar f0) = Some p ->
  exists v, position2value sp p = Ok v /\ fn_best_value f = Some v /\ fn_best_para f = Some (value2para names v) /\
            fn_best_score f = pb_score_best_ (fn_p_bar f0).
Proof. exact source_finish_decodes_best. Qed.
Print Assumptions C05_source_finish_decodes_best.
