(* C13 — early_stopping stops exactly per its documented no-improvement rule.
   Only statements; proofs live in proofs/C13_proofs.v. *)
Require Import Base StopRun Converter Driver DriverObs DriverFacts StopFacts C13_proofs PyPrims PyPrimsQ DriverGen DriverTie.
Require Import SearchGen SearchTie.

(* the code's predicate (argmax position, then tolerances) equals the rule as the property words it:
   k > n and (best of last n <= best of the earlier ones, or exceeds it by < tol_abs, or by < tol_rel
   percent of the earlier best's magnitude), for every finite history, every n >= 1, every tolerance setting *)
Theorem C13_no_change_is_rule : forall zs cfg n, es_n cfg = Some n -> 1 <= n -> no_change zs cfg = Ok (nc_spec zs cfg).
Proof. exact no_change_eq_spec. Qed.
Print Assumptions C13_no_change_is_rule.

(* it never raises (also with a zero baseline under tol_rel) *)
Theorem C13_never_raises : forall zs cfg, zs <> [] -> exists b, no_change zs cfg = Ok b.
Proof. exact no_change_never_raises. Qed.
Print Assumptions C13_never_raises.

(* and search() stops at the first step where the rule holds: never earlier, never later,
   for every optimizer, objective, clock and prior history *)
Theorem C13_stops_exactly : forall (OP : optimizer) sp f clk, @C13_statement OP sp f clk.
Proof. exact (@C13_holds). Qed.
Print Assumptions C13_stops_exactly.

(* non-vacuity: n = 2, scores 1, 3, 2, 2, 9 -> the rule first holds after step 4 (last two <= 3) *)
Example C13_nonvacuous :
  let c := mkDcase [[0; 1; 2; 3; 4]] 1 [[0]; [1]; [2]; [3]; [4]]
             [mkResult (SFin 1) None; mkResult (SFin 3) None; mkResult (SFin 2) None; mkResult (SFin 2) None; mkResult (SFin 9) None]
             [] [] [mkCall 5 (mkStop None None (Some (mkEarly (Some 2) None None))) false None false] false [] in
  match run_case c with Ok [o] => length (ob_rows o) = 4%nat | _ => False end.
Proof. vm_compute. reflexivity. Qed.

(* record of defect D2 (fixed in /repo): the unguarded division raised for python floats *)
Example C13_zero_baseline_refuted_unfixed :
  no_change_unfixed_pyfloat [0; 1] (mkEarly (Some 1) None (Some (5, 1))) = Err ZeroDivisionError
  /\ no_change [0; 1] (mkEarly (Some 1) None (Some (5, 1))) = Ok false.
Proof. exact zero_baseline_raised_unfixed. Qed.

(* ---------- the same for the definitions GENERATED from /repo's _stop_run.py (generated/DriverGen.v) ---------- *)
(* the translated no_change is the documented rule, for every finite history, n >= 1, tolerance setting and both
   spellings of an absent tolerance (key missing / value None) *)
Theorem C13_source_no_change_is_rule : forall zs cfg n pa pr, es_n cfg = Some n -> 1 <= n -> rel_wf cfg ->
  g_no_change (map inject_Z zs) (early_of cfg pa pr) = Ok (nc_spec zs cfg).
Proof. exact source_no_change_is_rule. Qed.
Print Assumptions C13_source_no_change_is_rule.

Theorem C13_source_never_raises : forall zs cfg pa pr, zs <> [] -> rel_wf cfg ->
  exists b, g_no_change (map inject_Z zs) (early_of cfg pa pr) = Ok b.
Proof. exact source_no_change_never_raises. Qed.
Print Assumptions C13_source_never_raises.

(* the translated StopRun.check refines the model's check (which C13_stops_exactly is about), clock reads included *)
Theorem C13_source_check_refines : forall clk k c pa pr start best sl,
  (forall e, st_early c = Some e -> rel_wf e /\ early_nonempty e pa pr) ->
  g_StopRun_check clk k (stop_of c pa pr start best sl) =
  let k' := if check_reads_clock c then S k else k in
  match check c start (clk k) best sl with
  | Ok b => Ok ((stop_of c pa pr start best sl, b), k')
  | Err e => Err e
  end.
Proof. exact check_tie. Qed.
Print Assumptions C13_source_check_refines.

Example C13_source_nonvacuous :
  g_no_change (map inject_Z [1; 3; 2; 2]) (early_of (mkEarly (Some 2) None (Some (5, 1))) false false) = Ok true
  /\ rel_wf (mkEarly (Some 2) None (Some (5, 1))).
Proof. split; [vm_compute; reflexivity|]. intros rn rd H. inversion H. reflexivity. Qed.

(* C13 for a call whose loop is the code GENERATED from search.py (model init_search, generated loop, model finish_search) *)
Theorem C13_source_search_stops_exactly : forall (OP : optimizer) sp f clk pa pr (s : drv OP) (c : call) (g : g_search (drv OP)) k g' k' s' (cfg : early_cfg) (n : Z),
  init_search sp clk s c = Ok (abs g k) ->
  ties g -> stop_wf pa pr g -> stop_shape pa pr g -> gs_n_init_search g <= 0 -> gs_n_iter g = c_n_iter c -> 0 <= c_n_iter c ->
  g_Search_search_loop (drv OP) (inner_score sp f) clk k g (c_n_iter c) = Ok (g', k') ->
  finish_search sp (abs g' k') = Ok s' ->
  c_stop c = mkStop None None (Some cfg) -> es_n cfg = Some n -> 1 <= n ->
  exists sc : list score,
    d_score_l s' = d_score_l s ++ sc /\ length (d_rows s') = (length (d_rows s) + length sc)%nat /\ zlen sc <= c_n_iter c /\
    (forall j, (0 < j < length sc)%nat -> rule cfg (d_score_l s ++ firstn j sc) = Some false) /\
    (zlen sc = c_n_iter c \/ rule cfg (d_score_l s ++ sc) = Some true).
Proof.
  intros OP sp f clk pa pr s c g k g' k' s' cfg n HI T WF SH NI NN N0 HL HF HC HN H1.
  apply (@C13_holds OP sp f clk s s' c cfg n HC HN H1 N0). eapply source_search_is_model_search; eassumption.
Qed.
Print Assumptions C13_source_search_stops_exactly.
