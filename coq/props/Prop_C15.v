(* C15 — non-finite scores never crash a search nor become the reported best.  Statements only. *)
Require Import Base PyPrims StopRun Converter ConverterFacts CoreOpt Tracker Algos Driver DriverFacts StopFacts CoreFacts AlgoFacts AlgoLift C03_proofs C05_proofs.
Require Import TrackerGen TrackerTie SourceTracker.

(* driver, for every optimizer and every objective (so every pattern of NaN / +inf / -inf scores):
   best_score is never NaN, no row is strictly better, best_value is None only if every row is NaN *)
Theorem C15_nan_never_best : forall (OP : optimizer) sp f clk, @C05_statement OP sp f clk.
Proof. exact (@C05_holds). Qed.
Print Assumptions C15_nan_never_best.

(* no step is lost whatever the scores are: the accounting theorem does not look at scores *)
Theorem C15_no_rows_lost : forall (OP : optimizer) sp f clk, @C03_call_statement OP sp f clk.
Proof. exact (@C03_call_holds). Qed.
Print Assumptions C15_no_rows_lost.

(* tracker: only finite scores enter the valid lists; a NaN score never replaces a tracked pair *)
Theorem C15_valid_lists_exact : forall k s, t_valid (set_score_new k s) = if is_finite s then t_valid k ++ [(t_pos_new k, s)] else t_valid k.
Proof. exact valid_only_finite. Qed.
Print Assumptions C15_valid_lists_exact.
Theorem C15_nan_never_adopted : forall k p, eval2best (eval2current k p SNaN) p SNaN = k.
Proof. exact nan_never_adopted. Qed.
Print Assumptions C15_nan_never_adopted.

(* the hill-climbing evaluate never fails, for every score and every tracker state (n_neighbours >= 1) *)
Theorem C15_hc_evaluate_total : forall n k s, 1 <= n -> exists k', hc_evaluate n k s = Ok k'.
Proof. exact hc_evaluate_total. Qed.
Print Assumptions C15_hc_evaluate_total.

(* ---- for the definitions GENERATED from /repo's source on this run (generated/TrackerGen.v) ---- *)
(* whatever scores (NaN, +inf, -inf, finite) are fed to the translated evaluate_init / HillClimbingOptimizer.evaluate /
   Spiral.evaluate / BaseOptimizer.evaluate, in any order and number, none of them raises (n_neighbours >= 1) ... *)
Theorem C15_source_tracker_never_raises : forall n ops, 1 <= n -> exists g, srun (g_init n) ops = Ok g.
Proof. exact source_tracker_never_raises. Qed.
Print Assumptions C15_source_tracker_never_raises.
(* ... and positions_valid / scores_valid stay aligned and hold finite scores only *)
Theorem C15_source_valid_lists_finite : forall n ops g, 0 <= n -> srun (g_init n) ops = Ok g ->
  grounded (abs g) (map sop_pair ops) /\
  length (f_positions_valid g) = length (f_scores_valid g) /\ Forall (fun s => is_finite s = true) (f_scores_valid g).
Proof. exact source_tracker_grounded. Qed.
Print Assumptions C15_source_valid_lists_finite.

(* and the positions proposed afterwards are still legal: the step contract is score independent *)
Theorem C15_family_keeps_proposing_legal_points : forall c, dims_ok (a_sp c) ->
  opt_contract (OP := algo_optimizer c) (algo_inv c) (emit_ok (a_sp c) (a_cons c)).
Proof. exact algo_contract. Qed.
Print Assumptions C15_family_keeps_proposing_legal_points.

Example C15_nonvacuous :
  let k0 := track_new_pos trk_init [0] in
  match hc_evaluate 1 k0 SNaN with
  | Ok k1 => match hc_evaluate 1 (track_new_pos k1 [1]) (SFin 3) with
             | Ok k2 => t_valid k2 = [(Some [1], SFin 3)] /\ t_score_best k2 = SNaN
             | Err _ => False end
  | Err _ => False end.
Proof. vm_compute. split; reflexivity. Qed.
