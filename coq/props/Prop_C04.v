(* C04 — search_data is a faithful, ordered record of what was evaluated.  Statements only. *)
Require Import Base StopRun Converter Driver DriverObs DriverFacts ConverterFacts MemFacts C04_proofs.
Require Import PyPrims PyPrimsQ MemGen MemTie ResGen DriverGen DriverTie SearchGen SearchTie ResTie.
From RecordUpdate Require Import RecordSet.
Import RecordSetNotations.

(* for every optimizer, deterministic objective f0, memory off / on / warm-started and prior history:
   the call appends one row per step, in order; row i carries the values decoded from position i and the
   result (score + metrics) the objective returns for exactly those values — or, when the position is a key
   of the warm-start dictionary, that dictionary's entry.  (call_record also carries C06's and C11's facts.) *)
Theorem C04_rows_faithful : forall (OP : optimizer) sp f0 clk, @C04_statement OP sp f0 clk.
Proof. exact (@C04_holds). Qed.
Print Assumptions C04_rows_faithful.

Example C04_nonvacuous :
  let c := mkDcase [[10; 20; 30]] 1 [[2]; [0]; [2]] []
             [([10], mkResult (SFin 1) (Some [(0, 7)])); ([20], mkResult (SFin 2) None); ([30], mkResult (SFin 3) (Some [(0, 9)]))] []
             [mkCall 3 no_stop true None false] false [] in
  match run_case c with
  | Ok [o] => ob_rows o = [mkRow [(0, 9)] (SFin 3) [30]; mkRow [(0, 7)] (SFin 1) [10]; mkRow [(0, 9)] (SFin 3) [30]]
              /\ ob_fcalls o = [[30]; [10]]
  | _ => False end.
Proof. vm_compute. split; reflexivity. Qed.

(* ---------- the score path GENERATED from /repo's source: ResultsManager.score._wrapper (generated/ResGen.v) around Memory.memory's wrapper
   (generated/MemGen.v) or around the raw objective IS the model's inner_score (the part of score_of between the two clock readings, which
   C04_rows_faithful is about): position -> value -> para -> (memory) -> objective -> one row appended, the score returned *)
Theorem C04_source_results_wrapper_refines_memory_on : forall (OP : optimizer) sp names f, NoDup names -> length names = length sp ->
  forall (s : drv OP) p, c_memory (d_call s) = true ->
  match g_ResultsManager_wrapper sp names g_mem (g_Memory_wrapper sp names f) (mkGRes g_mem (d_rows s) (mem_of s)) p with
  | Ok (g', sc) => inner_score sp f s p = Ok ((with_mem s (rg_inner g_mem g')) <| d_rows := rg_results_list g_mem g' |>, sc)
  | Err e => inner_score sp f s p = Err e
  end.
Proof. exact (@results_wrapper_tie_memory_on). Qed.
Print Assumptions C04_source_results_wrapper_refines_memory_on.

Theorem C04_source_results_wrapper_refines_memory_off : forall (OP : optimizer) sp names f, NoDup names -> length names = length sp ->
  forall (s : drv OP) p, c_memory (d_call s) = false ->
  match g_ResultsManager_wrapper sp names (list values) (obj_raw names f) (mkGRes (list values) (d_rows s) (d_fcalls s)) p with
  | Ok (g', sc) => inner_score sp f s p =
                   Ok (s <| d_fcalls := rg_inner (list values) g' |> <| d_rows := rg_results_list (list values) g' |>, sc)
  | Err e => inner_score sp f s p = Err e
  end.
Proof. exact (@results_wrapper_tie_memory_off). Qed.
Print Assumptions C04_source_results_wrapper_refines_memory_off.
