(* C04 — search_data is a faithful, ordered record of what was evaluated.  Statements only. *)
Require Import Base StopRun Converter Driver DriverObs DriverFacts ConverterFacts MemFacts C04_proofs.

(* for every optimizer, deterministic objective f0, memory off / on / warm-started and prior history:
   the call appends one row per step, in order; row i carries the values decoded from position i and the
   result (score + metrics) the objective returns for exactly those values — or, when the position is a key
   of the warm-start dictionary, that dictionary's entry.  (call_record also carries C06's and C11's facts.) *)
Theorem C04_rows_faithful : forall (OP : optimizer) sp f0 clk, @C04_statement OP sp f0 clk.
Proof. exact (@C04_holds). Qed.
Print Assumptions C04_rows_faithful.

Example C04_nonvacuous :
  let c := mkDcase [[10; 20; 30]] 1 [[2]; [0]; [2]] []
             [([10], mkResult (SFin 1) (Some [(0, 7)])); ([20], mkResult (SFin 2) None); ([30], mkResult (SFin 3) (Some [(0, 9)]))] []
             [mkCall 3 no_stop true None false] false [] in
  match run_case c with
  | Ok [o] => ob_rows o = [mkRow [(0, 9)] (SFin 3) [30]; mkRow [(0, 7)] (SFin 1) [10]; mkRow [(0, 9)] (SFin 3) [30]]
              /\ ob_fcalls o = [[30]; [10]]
  | _ => False end.
Proof. vm_compute. split; reflexivity. Qed.
