(* C03 — search(n_iter=N) performs exactly N steps; step accounting is exact.  Statements only. *)
Require Import Base StopRun Converter Driver DriverObs DriverFacts StopFacts C03_proofs.

(* one call, any stopping configuration, any optimizer whose methods did not raise (search = Ok):
   k steps ran with 0 <= k <= N (k = N without stopping criteria); rows, pos_l, score_l, eval_times,
   iter_times each grow by k; the first min(k, remaining initial positions, N) steps are
   initialisation steps; init + iteration counters account for every step; with a monotone clock
   0 <= eval_time <= iter_time for every new entry *)
Theorem C03_call_accounting : forall (OP : optimizer) sp f clk, @C03_call_statement OP sp f clk.
Proof. exact (@C03_call_holds). Qed.
Print Assumptions C03_call_accounting.

(* any sequence of calls without stopping criteria, for an optimizer whose number of initial
   positions is stable: rows accumulate to the sum of the N_i, the initial positions are consumed
   exactly once (n_init_total = min(n_inits, total steps)), init + iteration counters = total rows *)
Theorem C03_call_history : forall (OP : optimizer) sp f clk, @C03_history_statement OP sp f clk.
Proof. exact (@C03_history_holds). Qed.
Print Assumptions C03_call_history.

(* non-vacuity: 3 initial positions, calls of 2 and 4 steps -> 6 rows, 3 init steps, 3 iteration steps *)
Example C03_nonvacuous :
  let c := mkDcase [[0; 1; 2; 3; 4; 5]] 3 [[0]; [1]; [2]; [3]; [4]; [5]] []
             [([0], mkResult (SFin 1) None); ([1], mkResult (SFin 1) None); ([2], mkResult (SFin 1) None);
              ([3], mkResult (SFin 1) None); ([4], mkResult (SFin 1) None); ([5], mkResult (SFin 1) None)] []
             [mkCall 2 no_stop false None false; mkCall 4 no_stop false None false] false [] in
  match run_case c with
  | Ok [o1; o2] => length (ob_rows o1) = 2%nat /\ ob_counters o1 = [2; 0; 2; 0; 9] /\
                   length (ob_rows o2) = 6%nat /\ ob_counters o2 = [3; 3; 1; 3; 26]
  | _ => False end.
Proof. vm_compute. repeat split; reflexivity. Qed.
