(* C03 — search(n_iter=N) performs exactly N steps; step accounting is exact.  Statements only. *)
Require Import Base StopRun Converter Driver DriverObs DriverFacts StopFacts C03_proofs.
Require Import PyPrims PyPrimsQ DriverGen DriverTie SearchGen SearchTie.
From RecordUpdate Require Import RecordSet.
Import RecordSetNotations.

(* one call, any stopping configuration, any optimizer whose methods did not raise (search = Ok):
   k steps ran with 0 <= k <= N (k = N without stopping criteria); rows, pos_l, score_l, eval_times,
   iter_times each grow by k; the first min(k, remaining initial positions, N) steps are
   initialisation steps; init + iteration counters account for every step; with a monotone clock
   0 <= eval_time <= iter_time for every new entry *)
Theorem C03_call_accounting : forall (OP : optimizer) sp f clk, @C03_call_statement OP sp f clk.
Proof. exact (@C03_call_holds). Qed.
Print Assumptions C03_call_accounting.

(* any sequence of calls without stopping criteria, for an optimizer whose number of initial
   positions is stable: rows accumulate to the sum of the N_i, the initial positions are consumed
   exactly once (n_init_total = min(n_inits, total steps)), init + iteration counters = total rows *)
Theorem C03_call_history : forall (OP : optimizer) sp f clk, @C03_history_statement OP sp f clk.
Proof. exact (@C03_history_holds). Qed.
Print Assumptions C03_call_history.

(* non-vacuity: 3 initial positions, calls of 2 and 4 steps -> 6 rows, 3 init steps, 3 iteration steps *)
Example C03_nonvacuous :
  let c := mkDcase [[0; 1; 2; 3; 4; 5]] 3 [[0]; [1]; [2]; [3]; [4]; [5]] []
             [([0], mkResult (SFin 1) None); ([1], mkResult (SFin 1) None); ([2], mkResult (SFin 1) None);
              ([3], mkResult (SFin 1) None); ([4], mkResult (SFin 1) None); ([5], mkResult (SFin 1) None)] []
             [mkCall 2 no_stop false None false; mkCall 4 no_stop false None false] false [] in
  match run_case c with
  | Ok [o1; o2] => length (ob_rows o1) = 2%nat /\ ob_counters o1 = [2; 0; 2; 0; 9] /\
                   length (ob_rows o2) = 6%nat /\ ob_counters o2 = [3; 3; 1; 3; 26]
  | _ => False end.
Proof. vm_compute. repeat split; reflexivity. Qed.

(* ---------- the step functions and the loop GENERATED from /repo's search.py (generated/SearchGen.v) ----------
   simulate the model driver the theorems above are about: for every abstract optimizer, objective, clock and state.
   abs : generated Search state (+ clock index) -> model state; Python exceptions correspond to the same Err *)
Theorem C03_source_search_step_refines : forall (OP : optimizer) sp f clk (g : g_search (drv OP)) k n, ties g ->
  match g_Search_search_step (drv OP) (inner_score sp f) clk k g n with
  | Ok (g', k') => search_step sp f clk (abs g k) n = Ok (abs g' k') /\ same_cfg (g <| gs_nth_iter := n |>) g' /\
                   gs_n_init_search g' <= gs_n_init_search g + 1 /\
                   (gs_n_init_search g <= n -> n < gs_n_iter g -> stop_synced g' (gs_stop g))
  | Err e => search_step sp f clk (abs g k) n = Err e
  end.
Proof. exact (@search_step_tie). Qed.
Print Assumptions C03_source_search_step_refines.

(* the loop of search(): `for nth_trial in range(n_iter): search_step(nth_trial); if stop.check(): break` -- from any state in
   which the stop object was built from the call's settings (stop_shape) and the per-call init counter does not exceed the index *)
Theorem C03_source_search_loop_refines : forall (OP : optimizer) sp f clk pa pr todo (a : nat) (g : g_search (drv OP)) k,
  ties g -> stop_wf pa pr g -> stop_shape pa pr g -> gs_n_init_search g <= Z.of_nat a -> Z.of_nat a + Z.of_nat todo <= gs_n_iter g ->
  match py_for_break (loop_body sp f clk) (map Z.of_nat (seq a todo)) (g, k) with
  | Ok (g', k') => loop sp f clk todo (Z.of_nat a) (abs g k) = Ok (abs g' k')
  | Err e => loop sp f clk todo (Z.of_nat a) (abs g k) = Err e
  end.
Proof. exact (@search_loop_tie). Qed.
Print Assumptions C03_source_search_loop_refines.

(* and the generated search loop IS that fold over range(n_iter) *)
Theorem C03_source_search_loop_unfold : forall (OP : optimizer) sp f clk (g : g_search (drv OP)) k n,
  g_Search_search_loop (drv OP) (inner_score sp f) clk k g n =
  do (self, k) <- py_for_break (loop_body sp f clk) (py_range n) (g, k); Ok (self, k).
Proof. exact (@search_loop_unfold). Qed.

(* non-vacuity: a generated Search object right after init_search of a 3-step call satisfies the hypotheses *)
Example C03_source_nonvacuous :
  let d := (@drv_new scripted (2, [[0]; [1]; [2]])) <| d_call := mkCall 3 no_stop true None false |> in
  let g := mkGSearch (OP := scripted) (2, [[0]; [1]; [2]]) d g_pbar_init false (stop_of no_stop false false 0 SNInf []) [] [] SNInf 0 0 0 0 0 2 3 [] [] in
  ties g /\ stop_wf false false g /\ stop_shape false false g /\ gs_n_init_search g <= 0 /\ 0 + 3 <= gs_n_iter g.
Proof.
  cbv zeta. split; [split; reflexivity|]. split; [intros e H; discriminate|]. split; [exists SNInf, []; reflexivity|]. split; cbn; lia.
Qed.

(* C03 for a call whose loop is the GENERATED code: model init_search, generated search loop, model finish_search *)
Theorem C03_source_call_accounting : forall (OP : optimizer) sp f clk pa pr (s : drv OP) (c : call) (g : g_search (drv OP)) k g' k' s',
  init_search sp clk s c = Ok (abs g k) ->
  ties g -> stop_wf pa pr g -> stop_shape pa pr g -> gs_n_init_search g <= 0 -> gs_n_iter g = c_n_iter c -> 0 <= c_n_iter c ->
  g_Search_search_loop (drv OP) (inner_score sp f) clk k g (c_n_iter c) = Ok (g', k') ->
  finish_search sp (abs g' k') = Ok s' ->
  exists n, call_accounting clk s c s' n.
Proof.
  intros OP sp f clk pa pr s c g k g' k' s' HI T WF SH NI NN N0 HL HF.
  apply (@C03_call_holds OP sp f clk s s' c N0). eapply source_search_is_model_search; eassumption.
Qed.
Print Assumptions C03_source_call_accounting.
