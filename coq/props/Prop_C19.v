(* C19 — tracked best / current states are grounded in real evaluations.  Statements only. *)
Require Import Base PyPrims StopRun Converter ConverterFacts CoreOpt Tracker Algos Driver DriverFacts CoreFacts AlgoFacts AlgoLift.
Require Import TrackerGen TrackerTie SourceTracker.

(* one driver step (proposal + evaluation of ITS score) keeps every tracked pair among the evaluated pairs,
   for the seven single-solution optimizers, any draws, any (also non-finite) score *)
Theorem C19_family_step_grounded : forall c, opt_hist_contract (OP := algo_optimizer c) algo_grounded.
Proof. exact algo_hist_contract. Qed.
Print Assumptions C19_family_step_grounded.

(* ... hence after any search() call, at every step: current, best and the valid lists are real evaluations *)
Theorem C19_family_grounded : forall c f clk (s s' : drv (algo_optimizer c)) (cl : call) H0,
  0 <= c_n_iter cl -> grounded (h_trk (d_opt s)) H0 -> search (a_sp c) f clk s cl = Ok s' ->
  exists tr : list ev, d_pos_l s' = d_pos_l s ++ map ev_pos tr /\ d_score_l s' = d_score_l s ++ map ev_score tr /\
    grounded (h_trk (d_opt s')) (H0 ++ map ev_pair tr).
Proof. exact family_tracked_pairs_grounded. Qed.
Print Assumptions C19_family_grounded.

(* for ANY optimizer with a history-indexed invariant the driver feeds exactly (proposal, its own score) pairs *)
Theorem C19_driver_lift : forall (OP : optimizer) sp f clk (J : ost OP -> list (pos * score) -> Prop) (s s' : drv OP) (c : call) H0,
  opt_hist_contract J -> 0 <= c_n_iter c -> J (d_opt s) H0 -> search sp f clk s c = Ok s' ->
  exists tr : list ev, d_pos_l s' = d_pos_l s ++ map ev_pos tr /\ d_score_l s' = d_score_l s ++ map ev_score tr /\
    J (d_opt s') (H0 ++ map ev_pair tr).
Proof. exact (@search_hist_lift). Qed.
Print Assumptions C19_driver_lift.

(* the greedy updates never decrease the tracked best / current score *)
Theorem C19_best_monotone : forall k p s, sgt (t_score_best k) (t_score_best (eval2best k p s)) = false.
Proof. exact eval2best_monotone. Qed.
Print Assumptions C19_best_monotone.
Theorem C19_current_monotone_greedy : forall k p s, sgt (t_score_cur k) (t_score_cur (eval2current k p s)) = false.
Proof. exact eval2current_monotone. Qed.
Print Assumptions C19_current_monotone_greedy.

(* ---- the same, for the definitions GENERATED from /repo's source on this run (generated/TrackerGen.v) ---- *)
(* HillClimbingOptimizer.evaluate as translated from the source refines the model's hc_evaluate, for every state
   (aligned, finite valid lists) and every score, errors included *)
Theorem C19_source_hc_evaluate_refines : forall g s, ginv g -> 0 <= f_n_neighbours g ->
  rres (g_HillClimbingOptimizer_evaluate g s) (hc_evaluate (f_n_neighbours g) (abs g) s) (f_n_neighbours g).
Proof. exact hc_evaluate_tie. Qed.
Print Assumptions C19_source_hc_evaluate_refines.

(* every state the translated tracker code can reach by (record proposal, evaluate its score) steps -- through
   evaluate_init, HillClimbingOptimizer.evaluate, Spiral.evaluate or BaseOptimizer.evaluate, in any order, any
   scores -- has its new / current / best pairs and its valid lists among the pairs it was given *)
Theorem C19_source_tracker_grounded : forall n ops g, 0 <= n -> srun (g_init n) ops = Ok g ->
  grounded (abs g) (map sop_pair ops) /\
  length (f_positions_valid g) = length (f_scores_valid g) /\ Forall (fun s => is_finite s = true) (f_scores_valid g).
Proof. exact source_tracker_grounded. Qed.
Print Assumptions C19_source_tracker_grounded.

Example C19_source_nonvacuous :
  match srun (g_init 3) [SInit [1] (SFin 5); SHill [2] SNaN; SHill [4] (SFin 7); SHill [0] (SFin 1); SHill [6] SNInf] with
  | Ok g => f_pos_best g = Some [4] /\ f_score_best g = SFin 7 /\ f_scores_valid g = [SFin 5; SFin 7; SFin 1] /\ f_nth_trial g = 5
  | Err _ => False end.
Proof. vm_compute. repeat split. Qed.

Example C19_nonvacuous :
  let k0 := track_new_pos trk_init [1] in
  match evaluate_init k0 (SFin 5) with
  | Ok k1 => grounded k1 [([1], SFin 5)] /\ t_pos_best k1 = Some [1]
  | Err _ => False end.
Proof. vm_compute. split; [constructor; cbn; [left; reflexivity|left; reflexivity|constructor; [cbn; left; reflexivity|constructor]]|reflexivity]. Qed.

Require Import PyPrims PyPrimsQ CoreOpt Algos ShcGen ShcTie.
(* the acceptance step of StochasticHillClimbing / SimulatedAnnealing GENERATED from the source (generated/ShcGen.v): after it the tracked
   current pair is the pair just evaluated or the previous current pair, and the tracked best pair is untouched *)
Theorem C19_source_stochastic_step_grounded : forall (g g' : g_shc) (s : score),
  sle s (t_score_cur (sh_trk g)) = true -> g_SHC_evaluate g s = Ok g' ->
  ((t_pos_cur (sh_trk g') = t_pos_new (sh_trk g) /\ t_score_cur (sh_trk g') = s) \/
   (t_pos_cur (sh_trk g') = t_pos_cur (sh_trk g) /\ t_score_cur (sh_trk g') = t_score_cur (sh_trk g))) /\
  t_pos_best (sh_trk g') = t_pos_best (sh_trk g) /\ t_score_best (sh_trk g') = t_score_best (sh_trk g).
Proof. exact source_transition_grounded. Qed.
Print Assumptions C19_source_stochastic_step_grounded.
