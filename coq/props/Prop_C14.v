(* C14 — max_time: no step is started once more than T seconds have elapsed.
   Only statements; proofs live in proofs/C14_proofs.v. *)
Require Import Base StopRun Converter Driver DriverObs DriverFacts StopFacts C14_proofs PyPrims PyPrimsQ DriverGen DriverTie.
Require Import SearchGen SearchTie.

(* for every optimizer, objective, clock function (any readings, monotone or not), T > 0, n_iter:
   rows = first k such that the reading taken by the check after step k exceeds start + T, else n_iter *)
Theorem C14_max_time_exact : forall (OP : optimizer) sp f clk, @C14_statement OP sp f clk.
Proof. exact (@C14_holds). Qed.
Print Assumptions C14_max_time_exact.

(* non-vacuity: T = 5, every objective call takes 3 ticks -> stops after 2 rows (6 > 5) *)
Example C14_nonvacuous :
  let c := mkDcase [[0; 1; 2; 3]] 1 [[0]; [1]; [2]; [3]] [] [([0], mkResult (SFin 1) None); ([1], mkResult (SFin 1) None);
               ([2], mkResult (SFin 1) None); ([3], mkResult (SFin 1) None)]
             [0; 0; 0; 3; 3; 3;  3; 3; 6; 6; 6]
             [mkCall 4 (mkStop (Some 5) None None) false None false] false [] in
  match run_case c with Ok [o] => length (ob_rows o) = 2%nat | _ => False end.
Proof. vm_compute. reflexivity. Qed.

(* ---------- the definitions GENERATED from /repo's _stop_run.py refine the model the theorem above is about ---------- *)
Theorem C14_source_time_exceeded_refines : forall clk k start mt,
  g_time_exceeded clk k start mt = Ok (match mt with Some t => time_exceeded start (clk k) t | None => false end, S k).
Proof. exact time_exceeded_tie. Qed.
Print Assumptions C14_source_time_exceeded_refines.

Theorem C14_source_check_refines : forall clk k c pa pr start best sl,
  (forall e, st_early c = Some e -> rel_wf e /\ early_nonempty e pa pr) ->
  g_StopRun_check clk k (stop_of c pa pr start best sl) =
  let k' := if check_reads_clock c then S k else k in
  match check c start (clk k) best sl with
  | Ok b => Ok ((stop_of c pa pr start best sl, b), k')
  | Err e => Err e
  end.
Proof. exact check_tie. Qed.
Print Assumptions C14_source_check_refines.

(* C14 for a call whose loop is the code GENERATED from search.py (model init_search, generated loop, model finish_search) *)
Theorem C14_source_search_max_time_exact : forall (OP : optimizer) sp f clk pa pr (s : drv OP) (c : call) (g : g_search (drv OP)) k g' k' s' (T0 : Z),
  init_search sp clk s c = Ok (abs g k) ->
  ties g -> stop_wf pa pr g -> stop_shape pa pr g -> gs_n_init_search g <= 0 -> gs_n_iter g = c_n_iter c -> 0 <= c_n_iter c ->
  g_Search_search_loop (drv OP) (inner_score sp f) clk k g (c_n_iter c) = Ok (g', k') ->
  finish_search sp (abs g' k') = Ok s' ->
  c_stop c = mkStop (Some T0) None None -> 0 < T0 ->
  exists j : nat,
    length (d_rows s') = (length (d_rows s) + j)%nat /\ Z.of_nat j <= c_n_iter c /\
    (forall i, (i + 1 < j)%nat -> elapsed_after clk (d_clk s) i <= T0) /\
    (Z.of_nat j = c_n_iter c \/ (0 < j)%nat /\ T0 < elapsed_after clk (d_clk s) (j - 1)).
Proof.
  intros OP sp f clk pa pr s c g k g' k' s' T0 HI T WF SH NI NN N0 HL HF HC HT.
  apply (@C14_holds OP sp f clk s s' c T0 HC HT N0). eapply source_search_is_model_search; eassumption.
Qed.
Print Assumptions C14_source_search_max_time_exact.
