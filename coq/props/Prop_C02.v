(* C02 — constraints hold for every parameter set the objective is evaluated on.  Statements only. *)
Require Import Base StopRun Converter ConverterFacts CoreOpt Tracker Algos Driver DriverFacts CoreFacts AlgoFacts AlgoLift.
Require Import Pop PopFacts Smbo.

(* the rejection loops' only Ok exit is a feasible candidate — for every tape of draws *)
Theorem C02_move_random_feasible : forall sp cons fuel t c p t' c',
  move_random sp cons fuel t c = Ok (p, t', c') -> feasible sp cons p = Ok true.
Proof. intros. destruct (move_random_ok sp cons fuel t c p t' c' H) as [[_ A] _]. exact A. Qed.
Print Assumptions C02_move_random_feasible.

Theorem C02_move_climb_feasible : forall sp cons, dims_ok sp -> forall fuel t c p t' c', nan_free t ->
  move_climb sp cons fuel t c = Ok (p, t', c') -> feasible sp cons p = Ok true.
Proof. intros sp cons Hd fuel t c p t' c' Hn H. destruct (move_climb_ok sp cons Hd fuel t c p t' c' Hn H) as [[_ A] _]. exact A. Qed.
Print Assumptions C02_move_climb_feasible.

(* one step of the seven single-solution optimizers keeps the invariant "initial positions feasible" and emits
   a feasible position, in init and iteration steps, on the random-restart and fallback paths *)
Theorem C02_family_step_contract : forall c, dims_ok (a_sp c) ->
  opt_contract (OP := algo_optimizer c) (algo_inv c) (emit_ok (a_sp c) (a_cons c)).
Proof. exact algo_contract. Qed.
Print Assumptions C02_family_step_contract.

(* hence search_data and best_para of these optimizers never contain a violating parameter set, across calls *)
Theorem C02_family : forall c f clk, dims_ok (a_sp c) -> forall (s s' : drv (algo_optimizer c)) (cl : call),
  0 <= c_n_iter cl -> algo_inv c (d_opt s) -> search (a_sp c) f clk s cl = Ok s' ->
  exists tr : list ev,
    d_pos_l s' = d_pos_l s ++ map ev_pos tr /\ d_rows s' = d_rows s ++ map ev_row tr /\
    Forall (fun e => in_box (a_sp c) (ev_pos e) /\ feasible (a_sp c) (a_cons c) (ev_pos e) = Ok true /\
                     position2value (a_sp c) (ev_pos e) = Ok (ev_val e) /\ a_cons c (ev_val e) = true) tr /\
    algo_inv c (d_opt s') /\ match d_best_value s' with Some v => a_cons c v = true | None => True end.
Proof. exact family_points_genuine_and_feasible. Qed.
Print Assumptions C02_family.

(* for ANY optimizer: if it only emits feasible positions, only feasible rows exist (the driver adds none) *)
Theorem C02_driver_lift : forall (OP : optimizer) sp f clk (Inv : ost OP -> Prop) (Q : pos -> Prop) (s s' : drv OP) (c : call),
  opt_contract Inv Q -> 0 <= c_n_iter c -> Inv (d_opt s) -> search sp f clk s c = Ok s' ->
  exists tr : list ev,
    d_pos_l s' = d_pos_l s ++ map ev_pos tr /\ d_rows s' = d_rows s ++ map ev_row tr /\
    Forall (fun e => Q (ev_pos e) /\ position2value sp (ev_pos e) = Ok (ev_val e)) tr /\
    Inv (d_opt s') /\ match d_best_value s' with Some v => exists e, In e tr /\ ev_val e = v | None => True end.
Proof. exact (@search_contract_lift). Qed.
Print Assumptions C02_driver_lift.

Example C02_nonvacuous :
  let sp := [[0; 1; 2; 3]] in
  let cons := fun v : values => match v with [a] => Z.even a | _ => false end in
  move_random sp cons 10 [DZ 1; DZ 3; DZ 2] 0 = Ok ([2], [], 3).
Proof. vm_compute. reflexivity. Qed.

(* ---------- the iterate step of the population optimizers (theories/Pop.v; float vectors are oracle tape entries) ----------
   whatever the draws and the (NaN-free) oracle vectors: the emitted position lies in the box and satisfies the constraints,
   and at least one constraint evaluation was made *)
Theorem C02_pso_iterate : forall sp cons fuel rrp, dims_ok sp -> forall cur t p t' c, length cur = length sp -> nan_free t ->
  pso_iterate sp cons fuel rrp cur t = Ok (p, t', c) -> emit_ok sp cons p /\ is_suffix t' t /\ 0 < c.
Proof. exact pso_iterate_ok. Qed.
Print Assumptions C02_pso_iterate.
Theorem C02_spiral_iterate : forall sp cons fuel rrp, dims_ok sp -> forall t p t' c, nan_free t ->
  spiral_iterate sp cons fuel rrp t = Ok (p, t', c) -> emit_ok sp cons p /\ is_suffix t' t.
Proof. exact spiral_iterate_ok. Qed.
Print Assumptions C02_spiral_iterate.
Theorem C02_de_iterate : forall sp cons fuel, dims_ok sp -> forall pop target t p t' c, length target = length sp -> nan_free t ->
  de_iterate sp cons fuel pop target t = Ok (p, t', c) -> emit_ok sp cons p /\ is_suffix t' t /\ 0 < c.
Proof. exact de_iterate_ok. Qed.
Print Assumptions C02_de_iterate.
(* recombination of in-box parents (evolution strategy, genetic algorithm), then the constraint test / move_climb fallback *)
Theorem C02_cross_or_climb : forall sp cons fuel, dims_ok sp -> forall parents t p t' c, Forall (in_box sp) parents -> nan_free t ->
  cross_or_climb sp cons fuel parents t = Ok (p, t', c) -> emit_ok sp cons p /\ is_suffix t' t /\ 0 < c.
Proof. exact cross_or_climb_ok. Qed.
Print Assumptions C02_cross_or_climb.

(* evolution strategy: one individual / mutation branch = the member's hill-climbing iterate; crossover branch = recombination of
   two current positions (population order after the unstable argsort is an oracle), constraint test, move_climb fallback *)
Theorem C02_es_iterate : forall sp cons fuel rrp, dims_ok sp -> forall mut curs t p t' c, Forall (in_box sp) curs -> nan_free t ->
  es_iterate sp cons fuel rrp mut curs t = Ok (p, t', c) -> emit_ok sp cons p /\ is_suffix t' t.
Proof. exact es_iterate_ok. Qed.
Print Assumptions C02_es_iterate.

(* genetic algorithm: the crossover branch serves positions from the offspring queue; every position in the queue went through the
   constraint loop when it was created, so whatever is popped is in the box and feasible, and the refilled queue again holds only such
   positions (random.sample with too few fittest parents is Err ValueError: finding F-D9a of C03) *)
Theorem C02_ga_iterate : forall sp cons fuel rrp, dims_ok sp -> forall mut n_parents n_off news queue t p t' c queue',
  Forall (in_box sp) news -> Forall (emit_ok sp cons) queue -> nan_free t ->
  ga_iterate sp cons fuel rrp mut n_parents n_off news queue t = Ok (p, t', c, queue') ->
  emit_ok sp cons p /\ Forall (emit_ok sp cons) queue' /\ is_suffix t' t.
Proof. exact ga_iterate_ok. Qed.
Print Assumptions C02_ga_iterate.

(* pattern search: the head of the pattern list (positions produced through conv2pos, hence in the box) is returned when feasible,
   otherwise replaced by move_climb's feasible neighbour; a random restart leaves the list alone *)
Theorem C02_pattern_iterate : forall sp cons fuel rrp, dims_ok sp -> forall queue t p t' c queue', Forall (in_box sp) queue -> nan_free t ->
  pattern_iterate sp cons fuel rrp queue t = Ok (p, t', c, queue') ->
  emit_ok sp cons p /\ Forall (in_box sp) queue' /\ is_suffix t' t /\ 0 < c.
Proof. exact pattern_iterate_ok. Qed.
Print Assumptions C02_pattern_iterate.

(* downhill simplex: whatever float vector a reflection / expansion / contraction / shrink step computes (any alpha, gamma, beta,
   sigma; NaN excluded), the emitted position is conv2pos of it -- in the box -- or move_climb's feasible neighbour *)
Theorem C02_simplex_iterate : forall sp cons fuel, dims_ok sp -> forall xs t p t' c, length xs = length sp ->
  Forall (fun x => x <> XNaN) xs -> nan_free t ->
  vec_iterate sp cons fuel xs t = Ok (p, t', c) -> emit_ok sp cons p /\ is_suffix t' t /\ 0 < c.
Proof. exact vec_iterate_ok. Qed.
Print Assumptions C02_simplex_iterate.

(* Powell's method / DIRECT: the candidate (a point of the inner line search / the centre of a sub-space; an oracle position that the
   correspondence unit checks to lie in the box on every observed step) is returned when feasible, else replaced by move_climb *)
Theorem C02_powell_iterate : forall sp cons fuel rrp, dims_ok sp -> forall cand t p t' c, in_box_b sp cand = true -> nan_free t ->
  powell_iterate sp cons fuel rrp cand t = Ok (p, t', c) -> emit_ok sp cons p /\ is_suffix t' t.
Proof. exact powell_iterate_ok. Qed.
Print Assumptions C02_powell_iterate.
Theorem C02_direct_iterate : forall sp cons fuel, dims_ok sp -> forall cand t p t' c, in_box_b sp cand = true -> nan_free t ->
  cand_iterate sp cons fuel cand t = Ok (p, t', c) -> emit_ok sp cons p /\ is_suffix t' t /\ 0 < c.
Proof. exact cand_iterate_ok. Qed.
Print Assumptions C02_direct_iterate.

(* model-based optimizers (Bayesian, forest, TPE, Lipschitz): a proposal accepted by the proposal rule is a member of the candidate set;
   when every candidate lies in the box and satisfies the constraints (checked on every observed candidate set by C17's S-unit), so
   does the proposal *)
Theorem C02_smbo_proposal : forall sp cons (comb : list pos) acq i p, dims_ok sp ->
  forallb (emit_b sp cons) comb = true -> proposal_ok comb acq i p = true -> emit_ok sp cons p.
Proof. exact smbo_proposal_emit. Qed.
Print Assumptions C02_smbo_proposal.

Require Import PyPrims PyPrimsQ CoreGen CoreTie.

(* ---------- the moves GENERATED from /repo's core_optimizer.py (generated/CoreGen.v; ties in proofs/CoreTie.v): the only Ok exit of
   the source's rejection loops is a feasible candidate *)
Theorem C02_source_move_random_feasible : forall sp cons fuel self s' p,
  g_core_move_random sp cons fuel self = Ok (s', p) -> feasible sp cons p = Ok true.
Proof. intros sp cons fuel self s' p H. destruct (source_move_random_ok sp cons fuel self s' p H) as [[_ A] _]. exact A. Qed.
Print Assumptions C02_source_move_random_feasible.

Theorem C02_source_move_climb_feasible : forall sp cons fuel self p0 s' p, dims_ok sp -> nan_free (cg_tape self) ->
  g_core_move_climb sp cons fuel self p0 = Ok (s', p) -> feasible sp cons p = Ok true.
Proof. intros sp cons fuel self p0 s' p Hd Hn H. destruct (source_move_climb_ok sp cons fuel self p0 s' p Hd Hn H) as [[_ A] _]. exact A. Qed.
Print Assumptions C02_source_move_climb_feasible.

Theorem C02_source_random_iteration_feasible : forall sp cons rrp_m rrp_e body fuel self s' p,
  (forall s0 s1 p0, nan_free (cg_tape s0) -> body s0 = Ok (s1, p0) ->
     emit_ok sp cons p0 /\ is_suffix (cg_tape s1) (cg_tape s0) /\ cg_ncalls s0 < cg_ncalls s1) ->
  nan_free (cg_tape self) -> g_core_random_iteration sp cons rrp_m rrp_e body fuel self = Ok (s', p) -> feasible sp cons p = Ok true.
Proof. intros sp cons rm re body fuel self s' p Hb Hn H. destruct (source_random_iteration_ok sp cons rm re body fuel self s' p Hb Hn H) as [[_ A] _]. exact A. Qed.
Print Assumptions C02_source_random_iteration_feasible.

Require Import InitGen InitTie.
(* the random initial positions GENERATED from init_positions.py (_init_random_search, also used by _fill_rest_random and
   add_n_random_init_pos): exactly n of them, each in the box and feasible *)
Theorem C02_source_random_inits_feasible : forall sp cons fuel self n s' l,
  g_Initializer_init_random_search sp cons fuel self n = Ok (s', l) ->
  length l = Z.to_nat n /\ Forall (emit_ok sp cons) l /\ tape_cfg self s'.
Proof. exact init_random_search_spec. Qed.
Print Assumptions C02_source_random_inits_feasible.

(* the whole list of initial positions built by the GENERATED Initializer (random, grid, vertices, warm start, random padding) is feasible,
   provided the two abstract sections (_init_grid_search, _init_vertices: pinned by digest) return feasible positions only *)
Theorem C02_source_init_positions_feasible : forall sp cons names igs iv fuel self0 iz s',
  (forall s n s1 l, igs s n = Ok (s1, l) -> Forall (fun p => not_in_constraint sp cons p = Ok true) l) ->
  (forall s n s1 l, iv s n = Ok (s1, l) -> Forall (fun p => not_in_constraint sp cons p = Ok true) l) ->
  g_Initializer_init sp cons names igs iv fuel self0 iz = Ok s' ->
  Forall (fun p => not_in_constraint sp cons p = Ok true) (in_init_positions_l s').
Proof. exact source_init_positions_feasible. Qed.
Print Assumptions C02_source_init_positions_feasible.
