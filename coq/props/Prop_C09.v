(* C09 — score-using optimizers are directed towards higher scores.  Statements only.
   The property's first sentence is a paired statistical test over sampled trajectories: no theorem about a
   model can state it; it stays a monitor (f vs -f, fixed seeds).  Proved: the second sentence (score-blind
   optimizers) and the orientation of the mechanisms the property names, for the modelled optimizers. *)
Require Import Base Converter CoreOpt Tracker Algos Driver Grid AlgoLift C09_proofs.

(* random search evaluates the same points whatever scores come back *)
Theorem C09_random_search_score_blind : forall c, a_kind c = KRandomSearch ->
  forall scs scs' a b, length scs = length scs' -> blind_eq a b -> drive c a scs = drive c b scs'.
Proof. exact random_search_positions_independent_of_scores. Qed.
Print Assumptions C09_random_search_score_blind.

(* greedy acceptance adopts a pair exactly when its score is strictly greater (never a lower one) *)
Theorem C09_eval2current_orientation : forall k p s,
  t_pos_cur (eval2current k p s) = (if sgt s (t_score_cur k) then p else t_pos_cur k) /\
  t_score_cur (eval2current k p s) = (if sgt s (t_score_cur k) then s else t_score_cur k).
Proof. exact eval2current_adopts_iff_greater. Qed.
Print Assumptions C09_eval2current_orientation.
Theorem C09_eval2best_orientation : forall k p s,
  t_pos_best (eval2best k p s) = (if sgt s (t_score_best k) then p else t_pos_best k) /\
  t_score_best (eval2best k p s) = (if sgt s (t_score_best k) then s else t_score_best k).
Proof. exact eval2best_adopts_iff_greater. Qed.
Print Assumptions C09_eval2best_orientation.

(* best-of-last-n selects a MAXIMAL score of the window *)
Theorem C09_best_of_window_is_maximal : forall (l : list Z) idx, argmax_last l = Ok idx ->
  exists m, nth_error l idx = Some m /\ Forall (fun y => y <= m) l.
Proof. exact best_of_window_is_maximal. Qed.
Print Assumptions C09_best_of_window_is_maximal.

(* the structural cause of finding D15: a worse-or-equal move is taken at once whenever the acceptance value is >= 1 *)
Theorem C09_worse_move_taken_when_p_ge_one : forall pm pe um ue,
  dyadic_gt 1 0 pm pe = false -> dyadic_gt 1 0 um ue = true -> accept (XF pm pe) um ue = true.
Proof. exact accept_when_p_at_least_one. Qed.
Print Assumptions C09_worse_move_taken_when_p_ge_one.

(* the mirrored orientation is false: a strictly lower score is never adopted by the greedy update *)
Example C09_flipped_orientation_refuted :
  t_score_cur (eval2current (mkTrk None SNInf (Some [0]) (SFin 5) None SNInf [] 0 0) (Some [1]) (SFin 3)) = SFin 5 /\
  t_score_cur (eval2current (mkTrk None SNInf (Some [0]) (SFin 5) None SNInf [] 0 0) (Some [1]) (SFin 7)) = SFin 7.
Proof. vm_compute. split; reflexivity. Qed.
