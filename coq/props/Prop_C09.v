(* C09 — score-using optimizers are directed towards higher scores.  Statements only.
   The property's first sentence is a paired statistical test over sampled trajectories: no theorem about a
   model can state it; it stays a monitor (f vs -f, fixed seeds).  Proved: the second sentence (score-blind
   optimizers) and the orientation of the mechanisms the property names, for the modelled optimizers. *)
Require Import Base Converter CoreOpt Tracker Algos Driver Grid AlgoLift C09_proofs.

(* random search evaluates the same points whatever scores come back *)
Theorem C09_random_search_score_blind : forall c, a_kind c = KRandomSearch ->
  forall scs scs' a b, length scs = length scs' -> blind_eq a b -> drive c a scs = drive c b scs'.
Proof. exact random_search_positions_independent_of_scores. Qed.
Print Assumptions C09_random_search_score_blind.

(* greedy acceptance adopts a pair exactly when its score is strictly greater (never a lower one) *)
Theorem C09_eval2current_orientation : forall k p s,
  t_pos_cur (eval2current k p s) = (if sgt s (t_score_cur k) then p else t_pos_cur k) /\
  t_score_cur (eval2current k p s) = (if sgt s (t_score_cur k) then s else t_score_cur k).
Proof. exact eval2current_adopts_iff_greater. Qed.
Print Assumptions C09_eval2current_orientation.
Theorem C09_eval2best_orientation : forall k p s,
  t_pos_best (eval2best k p s) = (if sgt s (t_score_best k) then p else t_pos_best k) /\
  t_score_best (eval2best k p s) = (if sgt s (t_score_best k) then s else t_score_best k).
Proof. exact eval2best_adopts_iff_greater. Qed.
Print Assumptions C09_eval2best_orientation.

(* best-of-last-n selects a MAXIMAL score of the window *)
Theorem C09_best_of_window_is_maximal : forall (l : list Z) idx, argmax_last l = Ok idx ->
  exists m, nth_error l idx = Some m /\ Forall (fun y => y <= m) l.
Proof. exact best_of_window_is_maximal. Qed.
Print Assumptions C09_best_of_window_is_maximal.

(* the structural cause of finding D15: a worse-or-equal move is taken at once whenever the acceptance value is >= 1 *)
Theorem C09_worse_move_taken_when_p_ge_one : forall pm pe um ue,
  dyadic_gt 1 0 pm pe = false -> dyadic_gt 1 0 um ue = true -> accept (XF pm pe) um ue = true.
Proof. exact accept_when_p_at_least_one. Qed.
Print Assumptions C09_worse_move_taken_when_p_ge_one.

(* the mirrored orientation is false: a strictly lower score is never adopted by the greedy update *)
Example C09_flipped_orientation_refuted :
  t_score_cur (eval2current (mkTrk None SNInf (Some [0]) (SFin 5) None SNInf [] 0 0) (Some [1]) (SFin 3)) = SFin 5 /\
  t_score_cur (eval2current (mkTrk None SNInf (Some [0]) (SFin 5) None SNInf [] 0 0) (Some [1]) (SFin 7)) = SFin 7.
Proof. vm_compute. split; reflexivity. Qed.

Require Import PyPrims PyPrimsQ ShcGen ShcTie.
From RecordUpdate Require Import RecordSet.
Import RecordSetNotations.
(* ---------- StochasticHillClimbingOptimizer.evaluate / SimulatedAnnealingOptimizer.evaluate GENERATED from /repo's source
   (generated/ShcGen.v; proofs/ShcTie.v) ---------- *)
(* the source's evaluate IS the stochastic branch of the model's algo_evaluate (acceptance of worse moves under track_new_score, greedy
   best-of-neighbours otherwise), for every tracker state, tape and score *)
Theorem C09_source_stochastic_evaluate_refines : forall (c : algo_cfg) (st : algo_state) (s : score) n1 n2,
  a_kind c = KStochastic \/ a_kind c = KAnnealing ->
  match g_SHC_evaluate (shc_of c st n1 n2) s with
  | Ok g' => algo_evaluate c st s = Ok (st <| h_trk := sh_trk g' |> <| h_tape := sh_tape g' |>) /\ sh_nn g' = a_nn c
  | Err e => algo_evaluate c st s = Err e
  end.
Proof. exact shc_evaluate_tie. Qed.
Print Assumptions C09_source_stochastic_evaluate_refines.

(* direction of the stochastic step, for the generated code: a score that is not better moves `current` exactly when the oracle acceptance
   probability beats the uniform draw (accept), one considered transition is counted, an executed one when it happens *)
Theorem C09_source_transition_spec : forall (g : g_shc) (s : score) d um ue t2 p,
  sh_tape g = d :: DF um ue :: t2 -> xreal_of_draw d = Ok p -> sle s (t_score_cur (sh_trk g)) = true ->
  g_SHC_evaluate g s =
  Ok (g <| sh_trk := (if accept p um ue then new2current (set_score_new (sh_trk g) s) else set_score_new (sh_trk g) s) <| t_nth_trial ::= Z.succ |> |>
        <| sh_tape := t2 |>
        <| sh_n_considered_transitions := sh_n_considered_transitions g + 1 |>
        <| sh_n_transitions := (if accept p um ue then sh_n_transitions g + 1 else sh_n_transitions g) |>).
Proof. exact source_transition_spec. Qed.
Print Assumptions C09_source_transition_spec.
