(* C06 — memory is a transparent cache: at most one objective call per point.  Statements only. *)
Require Import Base StopRun Converter Driver DriverObs DriverFacts ConverterFacts MemFacts C04_proofs Shared SharedFacts C06_sim.
Require Import PyPrims PyPrimsQ MemGen MemTie.
From Coq Require Import Bool.

(* single process (call_record): with memory on, the objective calls of a call are pairwise distinct
   (cr_once), never concern a position already in the initial dictionary (cr_warm_never_called), a revisit
   is answered with the same result (cr_revisit), and memory_dict = initial dictionary ++ exactly the newly
   evaluated positions with their results, covering every evaluated position (cr_dict, cr_cover) *)
Theorem C06_memory_cache_exact : forall (OP : optimizer) sp f0 clk, @C04_statement OP sp f0 clk.
Proof. exact (@C04_holds). Qed.
Print Assumptions C06_memory_cache_exact.

(* transparency: for a deterministic objective (no warm start) the memory=True call goes in lock step with the
   memory=False call from the same state: same rows, positions, scores, best, counters, times and the same
   optimizer state — for every optimizer, clock and prior history (a simulation proof) *)
Theorem C06_memory_transparent : forall (OP : optimizer) sp f0 clk (s s1 : drv OP) (c : call),
  c_memory c = true -> c_warm c = None ->
  search sp (fun _ v => f0 v) clk s c = Ok s1 ->
  exists s2, search sp (fun _ v => f0 v) clk s (call_off c) = Ok s2 /\ same_run s1 s2.
Proof. exact (@memory_transparent). Qed.
Print Assumptions C06_memory_transparent.

(* N processes on one shared dictionary, EVERY interleaving of the atomic contains/get/set operations:
   no get ever fails, the dictionary only holds objective values, every reported score equals
   objective(key) and is in the dictionary, and every key of the final dictionary was there initially or
   was evaluated and reported by some process *)
Theorem C06_shared_memory_sound :
  forall (key : Type) (key_eqb : key -> key -> bool), (forall a b, reflect (a = b) (key_eqb a b)) ->
  forall (val : Type) (f : key -> val) sched m0 ps m,
    sys_ok key key_eqb val f m0 m ps ->
    exists ps' m', exec key key_eqb val f ps m sched = Some (ps', m') /\ sys_ok key key_eqb val f m0 m' ps'.
Proof. exact shared_mem_sound. Qed.
Print Assumptions C06_shared_memory_sound.

(* non-vacuity: two processes looking up overlapping keys under an adversarial schedule *)
Example C06_shared_nonvacuous :
  let f := fun k : nat => (k * k)%nat in
  let p1 := mkProc nat nat [1; 2]%nat AtContains [] in
  let p2 := mkProc nat nat [2; 1]%nat AtContains [] in
  match exec nat Nat.eqb nat f [p1; p2] [] [0; 1; 0; 1; 1; 0; 0; 1; 1; 0; 0; 1]%nat with
  | Some (ps, m) => map (outs nat nat) ps = [[(2, 4); (1, 1)]; [(1, 1); (2, 4)]]%nat
  | None => False end.
Proof. vm_compute. reflexivity. Qed.

(* ---------- the wrapper GENERATED from /repo's _memory.py (generated/MemGen.v) refines the memory branch of the model's lookup,
   which the theorems above are about: for every dictionary state, objective and value vector (parameter names pairwise distinct) *)
Theorem C06_source_memory_wrapper_refines : forall (OP : optimizer) sp names f (s : drv OP) (v : values),
  NoDup names -> length names = length v -> c_memory (d_call s) = true ->
  match g_Memory_wrapper sp names f (mem_of s) (value2para names v) with
  | Ok (g', r) => Driver.lookup sp f s v = Ok (r, with_mem s g')
  | Err e => Driver.lookup sp f s v = Err e
  end.
Proof. exact (@memory_wrapper_tie). Qed.
Print Assumptions C06_source_memory_wrapper_refines.

(* a hit never calls the objective and returns the stored result unchanged; a miss calls it exactly once, on the value vector, and
   stores the result under the key in memory_dict and memory_dict_new *)
Theorem C06_source_memory_hit : forall sp names f (g : g_mem) (v : values) key r,
  NoDup names -> length names = length v -> value2position sp v = Ok key -> dict_get pos_eqb key (mg_memory_dict g) = Some r ->
  g_Memory_wrapper sp names f g (value2para names v) = Ok (g, r).
Proof. exact memory_wrapper_hit. Qed.
Print Assumptions C06_source_memory_hit.
Theorem C06_source_memory_miss : forall sp names f (g : g_mem) (v : values) key,
  NoDup names -> length names = length v -> value2position sp v = Ok key -> dict_get pos_eqb key (mg_memory_dict g) = None ->
  g_Memory_wrapper sp names f g (value2para names v) =
  Ok (mkGMem (dict_set pos_eqb key (f (length (mg_fcalls g)) v) (mg_memory_dict g))
             (dict_set pos_eqb key (f (length (mg_fcalls g)) v) (mg_memory_dict_new g))
             (mg_fcalls g ++ [v]), f (length (mg_fcalls g)) v).
Proof. exact memory_wrapper_miss. Qed.
Print Assumptions C06_source_memory_miss.
