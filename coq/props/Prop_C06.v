(* C06 — memory is a transparent cache: at most one objective call per point.  Statements only. *)
Require Import Base StopRun Converter Driver DriverObs DriverFacts ConverterFacts MemFacts C04_proofs Shared SharedFacts C06_sim.
From Coq Require Import Bool.

(* single process (call_record): with memory on, the objective calls of a call are pairwise distinct
   (cr_once), never concern a position already in the initial dictionary (cr_warm_never_called), a revisit
   is answered with the same result (cr_revisit), and memory_dict = initial dictionary ++ exactly the newly
   evaluated positions with their results, covering every evaluated position (cr_dict, cr_cover) *)
Theorem C06_memory_cache_exact : forall (OP : optimizer) sp f0 clk, @C04_statement OP sp f0 clk.
Proof. exact (@C04_holds). Qed.
Print Assumptions C06_memory_cache_exact.

(* transparency: for a deterministic objective (no warm start) the memory=True call goes in lock step with the
   memory=False call from the same state: same rows, positions, scores, best, counters, times and the same
   optimizer state — for every optimizer, clock and prior history (a simulation proof) *)
Theorem C06_memory_transparent : forall (OP : optimizer) sp f0 clk (s s1 : drv OP) (c : call),
  c_memory c = true -> c_warm c = None ->
  search sp (fun _ v => f0 v) clk s c = Ok s1 ->
  exists s2, search sp (fun _ v => f0 v) clk s (call_off c) = Ok s2 /\ same_run s1 s2.
Proof. exact (@memory_transparent). Qed.
Print Assumptions C06_memory_transparent.

(* N processes on one shared dictionary, EVERY interleaving of the atomic contains/get/set operations:
   no get ever fails, the dictionary only holds objective values, every reported score equals
   objective(key) and is in the dictionary, and every key of the final dictionary was there initially or
   was evaluated and reported by some process *)
Theorem C06_shared_memory_sound :
  forall (key : Type) (key_eqb : key -> key -> bool), (forall a b, reflect (a = b) (key_eqb a b)) ->
  forall (val : Type) (f : key -> val) sched m0 ps m,
    sys_ok key key_eqb val f m0 m ps ->
    exists ps' m', exec key key_eqb val f ps m sched = Some (ps', m') /\ sys_ok key key_eqb val f m0 m' ps'.
Proof. exact shared_mem_sound. Qed.
Print Assumptions C06_shared_memory_sound.

(* non-vacuity: two processes looking up overlapping keys under an adversarial schedule *)
Example C06_shared_nonvacuous :
  let f := fun k : nat => (k * k)%nat in
  let p1 := mkProc nat nat [1; 2]%nat AtContains [] in
  let p2 := mkProc nat nat [2; 1]%nat AtContains [] in
  match exec nat Nat.eqb nat f [p1; p2] [] [0; 1; 0; 1; 1; 0; 0; 1; 1; 0; 0; 1]%nat with
  | Some (ps, m) => map (outs nat nat) ps = [[(2, 4); (1, 1)]; [(1, 1); (2, 4)]]%nat
  | None => False end.
Proof. vm_compute. reflexivity. Qed.
