(* C16 — grid search enumerates the whole space without repetition.  Statements only. *)
Require Import Base Converter Grid ListFacts GridFacts C16_proofs.
From Coq Require Import Znumtheory.

(* diagonal direction: for every dimension-size tuple (all >= 1, any number of dimensions), every step
   dividing |S|, every float guess d0 >= 1 of get_direction: the first |S| iteration positions exist
   (no error), are pairwise distinct, in the box, |S| many — hence every point exactly once *)
Theorem C16_diag_covers : C16_diag_statement.
Proof. exact C16_diag_holds. Qed.
Print Assumptions C16_diag_covers.

(* orthogonal direction *)
Theorem C16_orth_covers : C16_orth_statement.
Proof. exact C16_orth_holds. Qed.
Print Assumptions C16_orth_covers.

(* non-vacuity: 2x3 space, step 2 and step 1 *)
Example C16_nonvacuous :
  diag_run 6 [2; 3] 2 2 diag_init = Ok [[0; 0]; [0; 2]; [1; 1]; [0; 1]; [1; 0]; [1; 2]] /\
  orth_run 6 [2; 3] 1 = [[0; 0]; [1; 0]; [0; 1]; [1; 1]; [0; 2]; [1; 2]].
Proof. vm_compute. split; reflexivity. Qed.

(* record of defect D4 (fixed in /repo) *)
Example C16_diag_offbyone_refuted_unfixed :
  diag_run_gen pass_finished_unfixed 4 [4] 1 1 diag_init = Ok [[0]; [1]; [2]; [1]] /\
  diag_run 4 [4] 1 1 diag_init = Ok [[0]; [1]; [2]; [3]].
Proof. exact diag_offbyone_unfixed. Qed.
