(* C16 — grid search enumerates the whole space without repetition.  Statements only. *)
Require Import Base PyPrims PyPrimsQ Converter Grid ListFacts GridFacts C16_proofs GridGen GridTie.
From Coq Require Import Znumtheory.

(* diagonal direction: for every dimension-size tuple (all >= 1, any number of dimensions), every step
   dividing |S|, every float guess d0 >= 1 of get_direction: the first |S| iteration positions exist
   (no error), are pairwise distinct, in the box, |S| many — hence every point exactly once *)
Theorem C16_diag_covers : C16_diag_statement.
Proof. exact C16_diag_holds. Qed.
Print Assumptions C16_diag_covers.

(* orthogonal direction *)
Theorem C16_orth_covers : C16_orth_statement.
Proof. exact C16_orth_holds. Qed.
Print Assumptions C16_orth_covers.

(* non-vacuity: 2x3 space, step 2 and step 1 *)
Example C16_nonvacuous :
  diag_run 6 [2; 3] 2 2 diag_init = Ok [[0; 0]; [0; 2]; [1; 1]; [0; 1]; [1; 0]; [1; 2]] /\
  orth_run 6 [2; 3] 1 = [[0; 0]; [1; 0]; [0; 1]; [1; 1]; [0; 2]; [1; 2]].
Proof. vm_compute. split; reflexivity. Qed.

(* record of defect D4 (fixed in /repo) *)
Example C16_diag_offbyone_refuted_unfixed :
  diag_run_gen pass_finished_unfixed 4 [4] 1 1 diag_init = Ok [[0]; [1]; [2]; [1]] /\
  diag_run 4 [4] 1 1 diag_init = Ok [[0]; [1]; [2]; [3]].
Proof. exact diag_offbyone_unfixed. Qed.

(* ---------- the same for the definitions GENERATED from /repo's grid-search source (generated/GridGen.v) ----------
   g_diag_run / g_orth_run: the translated iterate, followed by the tracker's nth_trial += 1, repeated.  Assumptions
   (observables the K/S-units compare): no constraints, conv2pos is the identity inside the box, d0 >= 1 is the float
   root guess; fuel |d0| + 2 suffices for the direction search and the `while True` of iterate *)
Theorem C16_source_diag_covers : forall (dims : list Z) (s d0 : Z) (conv2pos : pos -> pos) (mr : res pos),
  Forall (fun d => 1 <= d) dims -> dims <> [] -> 0 < s -> (s | zprod dims) -> 1 <= d0 ->
  (forall dims p, in_dims dims p -> conv2pos p = p) ->
  exists ps, g_diag_run d0 conv2pos mr (S (Z.to_nat d0 + 1)) (Z.to_nat (zprod dims)) (g_diag_init dims s) = Ok ps /\
             NoDup ps /\ Forall (in_dims dims) ps /\ length ps = Z.to_nat (zprod dims) /\
             (forall p, in_dims dims p -> In p ps).
Proof. exact source_diag_covers. Qed.
Print Assumptions C16_source_diag_covers.

Theorem C16_source_orth_covers : forall (dims : list Z) (s : Z) (conv2pos : pos -> pos),
  Forall (fun d => 1 <= d) dims -> 0 < s -> (s | zprod dims) ->
  (forall dims p, in_dims dims p -> conv2pos p = p) ->
  exists ps, g_orth_run conv2pos (Z.to_nat (zprod dims)) (go_of dims s 0) = Ok ps /\
             NoDup ps /\ Forall (in_dims dims) ps /\ length ps = Z.to_nat (zprod dims) /\
             (forall p, in_dims dims p -> In p ps).
Proof. exact source_orth_covers. Qed.
Print Assumptions C16_source_orth_covers.

(* the translated position decoders are the model's decoders *)
Theorem C16_source_grid_move_refines : forall dims s st, Forall (fun d => 1 <= d) dims -> dims <> [] ->
  g_diag_grid_move (g_of dims s st) = Ok (g_of dims s st, decode_be dims (dg_ptr st)).
Proof. exact diag_grid_move_tie. Qed.
Print Assumptions C16_source_grid_move_refines.

Example C16_source_nonvacuous :
  g_diag_run 2 (fun p => p) (Err OutOfTape) 4 6 (g_diag_init [2; 3] 2) = Ok [[0; 0]; [0; 2]; [1; 1]; [0; 1]; [1; 0]; [1; 2]] /\
  g_orth_run (fun p => p) 6 (go_of [2; 3] 1 0) = Ok [[0; 0]; [1; 0]; [0; 1]; [1; 1]; [0; 2]; [1; 2]].
Proof. vm_compute. split; reflexivity. Qed.
