(* C11 — memory_warm_start rows are trusted verbatim and never re-evaluated.  Statements only. *)
Require Import Base StopRun Converter Driver DriverObs DriverFacts ConverterFacts MemFacts C04_proofs C11_proofs.
Require Import PyPrims PyPrimsQ MemGen MemTie.

(* the warm-start frame becomes exactly {position of the row's values |-> score of the LAST such row},
   for dimensions with pairwise distinct values in any order *)
Theorem C11_frame_to_dict : forall (V : Type) sp names (fr : frame V) vals ps,
  distinct_dims sp ->
  subsetb names (fr_cols fr) = true -> fr_rows fr <> [] ->
  map_res (fun r => select_cols (fr_cols fr) names (fst r)) (fr_rows fr) = Ok vals ->
  Forall2 (fun v p => in_box sp p /\ position2value sp p = Ok v) vals ps ->
  dataframe2memory_dict sp names fr = Ok (dict_of_pairs pos_eqb (zip ps (map snd (fr_rows fr)))).
Proof. exact @frame_dict_exact. Qed.
Print Assumptions C11_frame_to_dict.

Theorem C11_last_row_wins : forall (V : Type) (l : list (pos * V)) k,
  dict_get pos_eqb k (dict_of_pairs pos_eqb l) = last_assoc k l.
Proof. exact @dict_of_pairs_last. Qed.
Print Assumptions C11_last_row_wins.

(* and the search never evaluates a position of that dictionary and reports the dictionary's score for it
   (call_record: cr_M0, cr_warm_used, cr_warm_never_called), while every other row equals objective(params)
   (cr_faith) — for every optimizer, deterministic objective and prior history *)
Theorem C11_warm_rows_trusted : forall (OP : optimizer) sp f0 clk, @C04_statement OP sp f0 clk.
Proof. exact (@C04_holds). Qed.
Print Assumptions C11_warm_rows_trusted.

(* non-vacuity: descending space, frame {x=30: score 7}; the optimizer visits 30 twice and 10 once *)
Example C11_nonvacuous :
  let c := mkDcase [[30; 20; 10]] 1 [[0]; [2]; [0]] []
             [([30], mkResult (SFin 1) None); ([20], mkResult (SFin 2) None); ([10], mkResult (SFin 3) None)] []
             [mkCall 3 no_stop true (Some (mkFrame [0] [([30], SFin 7)])) false] false [] in
  match run_case c with
  | Ok [o] => ob_score_l o = [SFin 7; SFin 3; SFin 7] /\ ob_fcalls o = [[10]]
  | _ => False end.
Proof. vm_compute. split; reflexivity. Qed.

Example C11_descending_refuted_unfixed :
  Legacy.values2positions_unfixed_1d [3; 2; 1] [3] = [3] /\ values2positions [[3; 2; 1]] [[3]] = Ok [[0]].
Proof. exact descending_warm_start_key_unfixed. Qed.

(* ---------- the wrapper GENERATED from /repo's _memory.py (generated/MemGen.v) refines the memory branch of the model's lookup,
   which the theorems above are about: for every dictionary state, objective and value vector (parameter names pairwise distinct) *)
Theorem C11_source_memory_wrapper_refines : forall (OP : optimizer) sp names f (s : drv OP) (v : values),
  NoDup names -> length names = length v -> c_memory (d_call s) = true ->
  match g_Memory_wrapper sp names f (mem_of s) (value2para names v) with
  | Ok (g', r) => lookup sp f s v = Ok (r, with_mem s g')
  | Err e => lookup sp f s v = Err e
  end.
Proof. exact (@memory_wrapper_tie). Qed.
Print Assumptions C11_source_memory_wrapper_refines.
