(* C07 — a fixed random_state makes a run exactly reproducible.  Statements only.
   The generators are abstract (any seeding / drawing functions); `run` is any function of the two generator
   states after construction.  That the library takes entropy from nowhere else is not provable in a model:
   the harness logs every seeding event and every draw (correspondence unit) and pairs runs (monitor). *)
Require Import Base Rng C07_proofs.

Theorem C07_seed_overrides_ambient : forall (R NP : Type) seed_py seed_np np_randint (Out : Type) (run : gens R NP -> Out)
  (nth : option Z) (s : Z) (amb1 amb2 : gens R NP),
  set_random_seed R NP seed_py seed_np np_randint nth (Some s) amb1 = set_random_seed R NP seed_py seed_np np_randint nth (Some s) amb2 /\
  run (snd (set_random_seed R NP seed_py seed_np np_randint nth (Some s) amb1)) =
  run (snd (set_random_seed R NP seed_py seed_np np_randint nth (Some s) amb2)).
Proof. exact seed_overrides_ambient. Qed.
Print Assumptions C07_seed_overrides_ambient.

Theorem C07_random_seed_value : forall (R NP : Type) seed_py seed_np np_randint (nth : option Z) (s : Z) amb,
  fst (set_random_seed R NP seed_py seed_np np_randint nth (Some s) amb) = s + match nth with Some n => n | None => 0 end.
Proof. exact random_seed_is_state_plus_process. Qed.
Print Assumptions C07_random_seed_value.

Theorem C07_replay_none : forall (R NP : Type) seed_py seed_np np_randint (Out : Type) (run : gens R NP -> Out) (nth : option Z) amb amb',
  (nth = None \/ nth = Some 0) ->
  let seed := fst (set_random_seed R NP seed_py seed_np np_randint nth None amb) in
  snd (set_random_seed R NP seed_py seed_np np_randint nth (Some seed) amb') = snd (set_random_seed R NP seed_py seed_np np_randint nth None amb) /\
  fst (set_random_seed R NP seed_py seed_np np_randint nth (Some seed) amb') = seed /\
  run (snd (set_random_seed R NP seed_py seed_np np_randint nth (Some seed) amb')) = run (snd (set_random_seed R NP seed_py seed_np np_randint nth None amb)).
Proof. exact replay_none. Qed.
Print Assumptions C07_replay_none.

Theorem C07_members_inherit : forall (R NP : Type) seed_py seed_np np_randint (nth : option Z) (s : Z) (n : nat) amb1 amb2,
  build_members R NP seed_py seed_np np_randint n (snd (set_random_seed R NP seed_py seed_np np_randint nth (Some s) amb1)) =
  build_members R NP seed_py seed_np np_randint n (snd (set_random_seed R NP seed_py seed_np np_randint nth (Some s) amb2)).
Proof. exact members_inherit. Qed.
Print Assumptions C07_members_inherit.

(* non-vacuity / boundary: with nth_process = 2 the replay through random_seed does not reproduce the seeds *)
Example C07_replay_needs_process_zero :
  let ssr := set_random_seed Z Z (fun z => z) (fun z => z) (fun np => (np + 7, np + 1)) in
  let seed := fst (ssr (Some 2) None (0, 100)) in
  snd (ssr (Some 2) (Some seed) (0, 0)) <> snd (ssr (Some 2) None (0, 100)).
Proof. exact replay_needs_process_zero. Qed.

Example C07_seeding_trace_nonvacuous :
  seeding_ok false (Some 5) (Some 1) 6 [EvSeedPy 6; EvSeedNp 6; EvRandint 77; EvSeedPy 77; EvSeedNp 77; EvSeedPy 6; EvSeedNp 6] = true /\
  seeding_ok false (Some 5) None 5 [EvSeedPy 5; EvSeedNp 6] = false /\
  (* the defect fixed in /repo: the grid back-end drew its own seed when random_state was None *)
  seeding_ok true None None 40 [EvRandint 40; EvSeedPy 40; EvSeedNp 40; EvRandint 77; EvSeedPy 77; EvSeedNp 77] = false /\
  seeding_ok true None None 40 [EvRandint 40; EvSeedPy 40; EvSeedNp 40; EvSeedPy 40; EvSeedNp 40] = true.
Proof. vm_compute. repeat split; reflexivity. Qed.

Require Import PyPrims PyPrimsQ SeedGen SeedTie.
(* ---------- utils.set_random_seed GENERATED from /repo's source (generated/SeedGen.v; proofs/SeedTie.v) ---------- *)
(* the source's set_random_seed IS the model's: same returned seed, same states of both global generators *)
Theorem C07_source_set_random_seed_equals_model : forall (R NP : Type) seed_py seed_np np_randint (nth rs : option Z) (g : gens R NP),
  g_set_random_seed R NP seed_py seed_np np_randint (mkGRng R NP (fst g) (snd g)) nth rs =
  let r := set_random_seed R NP seed_py seed_np np_randint nth rs g in
  Ok (mkGRng R NP (fst (snd r)) (snd (snd r)), fst r).
Proof. exact set_random_seed_tie. Qed.
Print Assumptions C07_source_set_random_seed_equals_model.

(* hence, for the generated code: with an integer random_state the result does not depend on the ambient generator states at all, and the
   returned seed is random_state + nth_process *)
Theorem C07_source_seed_overrides_ambient : forall (R NP : Type) seed_py seed_np np_randint (nth : option Z) (s : Z) (a1 a2 : g_rng R NP),
  g_set_random_seed R NP seed_py seed_np np_randint a1 nth (Some s) = g_set_random_seed R NP seed_py seed_np np_randint a2 nth (Some s) /\
  exists g', g_set_random_seed R NP seed_py seed_np np_randint a1 nth (Some s) = Ok (g', s + match nth with Some n => n | None => 0 end).
Proof.
  intros R NP seed_py seed_np np_randint nth s [p1 n1] [p2 n2].
  pose proof (set_random_seed_tie R NP seed_py seed_np np_randint nth (Some s) (p1, n1)) as T1.
  pose proof (set_random_seed_tie R NP seed_py seed_np np_randint nth (Some s) (p2, n2)) as T2.
  cbn [fst snd] in T1, T2. rewrite T1, T2. unfold set_random_seed. cbn [fst snd]. split; [reflexivity|]. eexists. reflexivity.
Qed.
Print Assumptions C07_source_seed_overrides_ambient.
