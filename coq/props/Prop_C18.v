(* C18 — step API and public facades are equivalent to search() / the backend classes.  Statements only. *)
Require Import Base StopRun Converter Driver DriverObs DriverFacts Facade C18_proofs FacadeData.
Require Import PyPrims PyPrimsQ DriverGen DriverTie SearchGen SearchTie.
From RecordUpdate Require Import RecordSet.
Import RecordSetNotations.

(* init_search + search_step(0..N-1) + finish_search yields the very same Search object as search(n_iter=N)
   (no stopping criterion configured), for every optimizer, objective, clock and prior history *)
Theorem C18_search_eq_steps : forall (OP : optimizer) sp f clk (s : drv OP) (c : call),
  c_stop c = no_stop -> search sp f clk s c = search_by_steps sp f clk s c.
Proof. exact (@search_eq_steps). Qed.
Print Assumptions C18_search_eq_steps.

(* a well-forwarded facade hands the backend exactly the environment a direct call of the backend gets,
   for every set of keyword arguments of the facade (missing required arguments fail alike) *)
Theorem C18_forwarding_sound : C18_forward_statement.
Proof. exact C18_forward_holds. Qed.
Print Assumptions C18_forwarding_sound.

(* ... and every public class, as the translator read it from the source on this run, is well forwarded
   (a finite check over the regenerated data: 23 classes) *)
Theorem C18_all_facades_well_forwarded : forallb well_forwarded facades = true /\ length facades = n_facades.
Proof. vm_compute. split; reflexivity. Qed.
Print Assumptions C18_all_facades_well_forwarded.

Corollary C18_every_facade_forwards : forall fa kw, In fa facades ->
  (forall k, In k (map fst kw) -> In k (map fst (fa_params fa))) -> call_facade fa kw = call_backend fa kw.
Proof.
  intros fa kw Hin Hk. apply C18_forward_holds; [|assumption].
  destruct C18_all_facades_well_forwarded as [H _]. rewrite forallb_forall in H. apply H. assumption.
Qed.
Print Assumptions C18_every_facade_forwards.

(* non-vacuity of the step API statement *)
Example C18_nonvacuous :
  let mk := fun api => mkDcase [[10; 20; 30]] 2 [[0]; [1]; [2]; [1]] []
             [([10], mkResult (SFin 1) None); ([20], mkResult (SFin 5) None); ([30], mkResult (SFin 3) None)] []
             [mkCall 4 no_stop true None false] api [] in
  run_case (mk true) = run_case (mk false) /\ match run_case (mk true) with Ok [o] => ob_best_value o = Some [20] | _ => False end.
Proof. vm_compute. split; reflexivity. Qed.

(* the search_step GENERATED from /repo's search.py is the model's search_step (which C18_search_eq_steps is about): driving the
   translated step function by hand or inside the translated loop runs the same model steps *)
Theorem C18_source_search_step_refines : forall (OP : optimizer) sp f clk (g : g_search (drv OP)) k n, ties g ->
  match g_Search_search_step (drv OP) (inner_score sp f) clk k g n with
  | Ok (g', k') => search_step sp f clk (abs g k) n = Ok (abs g' k') /\ same_cfg (g <| gs_nth_iter := n |>) g' /\
                   gs_n_init_search g' <= gs_n_init_search g + 1 /\
                   (gs_n_init_search g <= n -> n < gs_n_iter g -> stop_synced g' (gs_stop g))
  | Err e => search_step sp f clk (abs g k) n = Err e
  end.
Proof. exact (@search_step_tie). Qed.
Print Assumptions C18_source_search_step_refines.
