#!/bin/bash
# usage: dbg.sh file.v LINE  -- compile a copy of file.v with `Show.` inserted before LINE
f=$1; n=$2; d=$(dirname $f); b=Dbg$$
awk -v n=$n 'NR==n{print "Show."} {print}' $f > $d/$b.v
timeout ${3:-120} coqc -R theories GFO -R proofs GFO -R props GFO -R generated GFO $d/$b.v 2>&1 | head -${4:-90}
rm -f $d/$b.* $d/.$b.aux
