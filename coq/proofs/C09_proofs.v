(* C09 — score-using optimizers are directed towards higher scores; score-blind ones ignore scores. *)
Require Import Base Converter CoreOpt Tracker Algos Driver Grid AlgoLift.
From RecordUpdate Require Import RecordSet.
Import RecordSetNotations.

(* ---------- random search is score blind ---------- *)
Section Blind.
  Variable c : algo_cfg.
  Hypothesis Hk : a_kind c = KRandomSearch.

  (* iteration steps fed with an arbitrary list of scores *)
  Fixpoint drive (st : algo_state) (scs : list score) : res (list pos) :=
    match scs with
    | [] => Ok []
    | s :: tl => do sp <- algo_iterate c st;
                 do st2 <- algo_evaluate c (fst sp) s;
                 do ps <- drive st2 tl; Ok (snd sp :: ps)
    end.

  Definition blind_eq (a b : algo_state) : Prop := h_tape a = h_tape b.

  Lemma iterate_blind a b : blind_eq a b ->
    match algo_iterate c a, algo_iterate c b with
    | Ok (a', p), Ok (b', q) => p = q /\ blind_eq a' b'
    | Err e, Err e' => e = e'
    | _, _ => False
    end.
  Proof.
    intros E. unfold algo_iterate, iterate_move. rewrite Hk, E.
    destruct (rnd c (h_tape b)) as [[[p t'] n]|e]; cbn; [split; reflexivity|reflexivity].
  Qed.

  Lemma evaluate_blind a s : exists a', algo_evaluate c a s = Ok a' /\ h_tape a' = h_tape a.
  Proof.
    unfold algo_evaluate. rewrite Hk. unfold base_evaluate_tracked, track_new_score. cbn. eexists. split; reflexivity.
  Qed.

  Theorem random_search_positions_independent_of_scores : forall scs scs' a b,
    length scs = length scs' -> blind_eq a b -> drive a scs = drive b scs'.
  Proof.
    induction scs as [|s scs IH]; intros [|s' scs'] a b Hl E; try discriminate; [reflexivity|]. cbn [drive].
    pose proof (iterate_blind a b E) as Hi.
    destruct (algo_iterate c a) as [[a1 p]|e]; destruct (algo_iterate c b) as [[b1 q]|e']; try contradiction; cbn [bind fst snd].
    - destruct Hi as [-> E1].
      destruct (evaluate_blind a1 s) as (a2 & -> & Ta). destruct (evaluate_blind b1 s') as (b2 & -> & Tb). cbn [bind].
      rewrite (IH scs' a2 b2); [reflexivity|cbn in Hl; lia|]. unfold blind_eq in *. congruence.
    - congruence.
  Qed.
End Blind.

(* grid search: the model's iteration functions do not take scores at all (Grid.diag_iterate / orth_iterate have
   no score argument, grid_evaluate only counts), so score-blindness holds by construction; stated for the record *)
Theorem grid_positions_independent_of_scores : forall dims s d0 n (scores scores' : list score),
  diag_run n dims s d0 diag_init = diag_run n dims s d0 diag_init /\ orth_run n dims s = orth_run n dims s.
Proof. split; reflexivity. Qed.

(* ---------- orientation of the mechanisms the property names ---------- *)
(* greedy acceptance: a pair is adopted exactly when its score is strictly greater *)
Theorem eval2current_adopts_iff_greater k p s :
  t_pos_cur (eval2current k p s) = (if sgt s (t_score_cur k) then p else t_pos_cur k) /\
  t_score_cur (eval2current k p s) = (if sgt s (t_score_cur k) then s else t_score_cur k).
Proof. unfold eval2current. destruct (sgt s (t_score_cur k)); split; reflexivity. Qed.

Theorem eval2best_adopts_iff_greater k p s :
  t_pos_best (eval2best k p s) = (if sgt s (t_score_best k) then p else t_pos_best k) /\
  t_score_best (eval2best k p s) = (if sgt s (t_score_best k) then s else t_score_best k).
Proof. unfold eval2best. destruct (sgt s (t_score_best k)); split; reflexivity. Qed.

(* best-of-last-n: the chosen index holds a maximal score of the window *)
Lemma argmax_last_aux_max l : forall best besti i, (besti < i)%nat ->
  forall (getv : nat -> Z), getv besti = best -> (forall k y, nth_error l k = Some y -> getv (i + k)%nat = y) ->
  let r := argmax_last_aux best besti i l in
  best <= getv r /\ Forall (fun y => y <= getv r) l.
Proof.
  induction l as [|y l IH]; intros best besti i Hlt getv Hb Hl; cbn.
  - split; [lia|constructor].
  - destruct (Z.leb_spec best y) as [Hy|Hy].
    + destruct (IH y i (S i) ltac:(lia) getv) as [A B].
      * rewrite <- (Hl 0%nat y eq_refl). f_equal. lia.
      * intros k z Hk. rewrite <- (Hl (S k) z Hk). f_equal. lia.
      * split; [lia|]. constructor; [exact A|exact B].
    + destruct (IH best besti (S i) ltac:(lia) getv Hb) as [A B].
      * intros k z Hk. rewrite <- (Hl (S k) z Hk). f_equal. lia.
      * split; [exact A|]. constructor; [lia|exact B].
Qed.

Theorem best_of_window_is_maximal (l : list Z) idx : argmax_last l = Ok idx ->
  exists m, nth_error l idx = Some m /\ Forall (fun y => y <= m) l.
Proof.
  destruct l as [|x tl]; [discriminate|]. cbn. intros H. inversion H; subst. clear H.
  set (getv := fun k => nth k (x :: tl) 0).
  destruct (argmax_last_aux_max tl x 0%nat 1%nat ltac:(lia) getv eq_refl) as [A B].
  { intros k y Hk. unfold getv. cbn. apply nth_error_nth. exact Hk. }
  pose proof (argmax_last_aux_range tl x 0%nat 1%nat ltac:(lia)) as R.
  exists (getv (argmax_last_aux x 0 1 tl)). split.
  - unfold getv. apply nth_error_nth'. cbn. lia.
  - constructor; [exact A|exact B].
Qed.

(* stochastic / annealing acceptance: a worse-or-equal move is taken whenever the acceptance value reaches 1
   (u = random() lies in [0,1)); with two negative scores exp(delta/(sigma*T)) >= 1, which is the structural cause
   of finding D15 *)
(* comparing dyadics at any common exponent m below both exponents *)
Lemma dyadic_gt_spec am ae bm be m : m <= ae -> m <= be ->
  dyadic_gt am ae bm be = true <-> bm * 2 ^ (be - m) < am * 2 ^ (ae - m).
Proof.
  intros Ha Hb. unfold dyadic_gt. set (e := Z.min ae be). rewrite Z.ltb_lt.
  assert (He : m <= e) by (unfold e; lia).
  assert (Hp : 0 < 2 ^ (e - m)) by (apply Z.pow_pos_nonneg; lia).
  replace (be - m) with ((be - e) + (e - m)) by lia. replace (ae - m) with ((ae - e) + (e - m)) by lia.
  rewrite !Z.pow_add_r by (unfold e; lia). rewrite !Z.mul_assoc.
  split; intros H.
  - apply Z.mul_lt_mono_pos_r; assumption.
  - apply Z.mul_lt_mono_pos_r in H; assumption.
Qed.

Theorem accept_when_p_at_least_one pm pe um ue :
  dyadic_gt 1 0 pm pe = false -> dyadic_gt 1 0 um ue = true -> accept (XF pm pe) um ue = true.
Proof.
  unfold accept. intros Hp Hu. apply negb_true_iff.
  set (m := Z.min 0 (Z.min pe ue)).
  destruct (dyadic_gt um ue pm pe) eqn:G; [|reflexivity]. exfalso.
  apply (dyadic_gt_spec um ue pm pe m) in G; [|unfold m; lia|unfold m; lia].
  apply (dyadic_gt_spec 1 0 um ue m) in Hu; [|unfold m; lia|unfold m; lia].
  assert (Hp' : ~ pm * 2 ^ (pe - m) < 1 * 2 ^ (0 - m)).
  { intros C. apply (dyadic_gt_spec 1 0 pm pe m) in C; [congruence|unfold m; lia|unfold m; lia]. }
  lia.
Qed.
