(* GridFacts.v — number theory of the diagonal orbit, mixed-radix decoding, coverage of both grids. *)
Require Import Base Converter Grid ListFacts.
From Coq Require Import Znumtheory.

Definition in_dims (dims : list Z) (p : pos) : Prop := Forall2 (fun d i => 0 <= i < d) dims p.

Lemma zprod_pos dims : Forall (fun d => 1 <= d) dims -> 1 <= zprod dims.
Proof. induction 1 as [|d dims Hd _ IH]; cbn [zprod fold_right]; [lia|fold (zprod dims); nia]. Qed.

(* ================================================================ the orbit in Z/S *)
Definition ptr (S s d r j : Z) : Z := (r + j * s * d) mod S.

Lemma rel_prime_factor d m s : rel_prime d (m * s) -> rel_prime m d.
Proof.
  intros H. destruct (rel_prime_bezout _ _ H) as [u v E].
  apply bezout_rel_prime. apply (Bezout_intro _ _ _ (v * s) u). rewrite <- E. ring.
Qed.

Lemma ptr_inj S s d r j r' j' :
  0 < s -> (s | S) -> 0 < S -> Z.gcd d S = 1 ->
  0 <= r < s -> 0 <= r' < s -> 0 <= j < S / s -> 0 <= j' < S / s ->
  ptr S s d r j = ptr S s d r' j' -> r = r' /\ j = j'.
Proof.
  intros Hs [m Hm] HS Hg Hr Hr' Hj Hj' H. unfold ptr in H.
  subst S. rewrite Z.div_mul in * by lia.
  assert (Hm0 : 0 < m) by nia.
  assert (Er : r = r').
  { pose proof (f_equal (fun x => x mod s) H) as E. cbv beta in E.
    rewrite <- !Zmod_div_mod in E; try lia; try (exists m; ring).
    replace (r + j*s*d) with (r + (j*d)*s) in E by ring.
    replace (r' + j'*s*d) with (r' + (j'*d)*s) in E by ring.
    rewrite !Z.mod_add in E by lia.
    rewrite !Z.mod_small in E by lia. exact E. }
  subst r'. split; [reflexivity|].
  assert (D : (m * s | (j - j') * s * d)).
  { apply Z.mod_divide; [lia|].
    replace ((j - j') * s * d) with ((r + j*s*d) - (r + j'*s*d)) by ring.
    rewrite Zminus_mod, H, Z.sub_diag. apply Z.mod_0_l. lia. }
  destruct D as [k Hk].
  assert (D2 : (m | d * (j - j'))).
  { exists k. nia. }
  apply Gauss in D2.
  - destruct D2 as [q Hq].
    assert (q = 0) by nia. nia.
  - apply rel_prime_factor with s. apply Zgcd_1_rel_prime. exact Hg.
Qed.

(* pointers issued for trials t+1, t+2, ... (n of them), previous pointer p *)
Fixpoint ptrs (S s d : Z) (n : nat) (t p : Z) : list Z :=
  match n with
  | O => []
  | S n' => let p' := next_ptr S s d (t + 1) p in p' :: ptrs S s d n' (t + 1) p'
  end.

Definition cf (S s d t : Z) : Z := let m := S / s in ptr S s d (t / m) (t mod m).

Section Orbit.
Variables S s d m : Z.
Hypothesis Hs : 0 < s.
Hypothesis Hm : 0 < m.
Hypothesis HS : S = m * s.
Hypothesis Hg : Z.gcd d S = 1.

Lemma S_pos : 0 < S. Proof. nia. Qed.
Lemma S_div : S / s = m. Proof. rewrite HS. apply Z.div_mul. lia. Qed.
Lemma s_div_S : (s | S). Proof. exists m. exact HS. Qed.

Lemma ts_div t : t * s / S = t / m.
Proof. rewrite HS. rewrite Z.div_mul_cancel_r by lia. reflexivity. Qed.

Lemma pass_finished_iff t : 1 <= t -> pass_finished S s t = true <-> t mod m = 0.
Proof.
  intros Ht. unfold pass_finished. rewrite !ts_div, Z.ltb_lt.
  pose proof (Z.div_mod t m ltac:(lia)) as E. pose proof (Z.mod_pos_bound t m Hm) as B.
  pose proof (Z.div_mod (t-1) m ltac:(lia)) as E'. pose proof (Z.mod_pos_bound (t-1) m Hm) as B'.
  split; intros H; nia.
Qed.

Lemma cf_mod_s t : 0 <= t < S -> cf S s d t mod s = t / m.
Proof.
  intros Ht. unfold cf, ptr. rewrite S_div.
  rewrite <- Zmod_div_mod; [|lia|apply S_pos|apply s_div_S].
  replace (t / m + t mod m * s * d) with (t / m + (t mod m * d) * s) by ring.
  rewrite Z.mod_add by lia. apply Z.mod_small.
  split; [apply Z.div_pos; lia|]. apply Z.div_lt_upper_bound; nia.
Qed.

Lemma next_cf t : 0 <= t -> t + 1 < S -> next_ptr S s d (t + 1) (cf S s d t) = cf S s d (t + 1).
Proof.
  intros Ht Ht1. unfold next_ptr, next_ptr_gen.
  pose proof (Z.div_mod t m ltac:(lia)) as E. pose proof (Z.mod_pos_bound t m Hm) as B.
  pose proof (Z.div_mod (t+1) m ltac:(lia)) as E1. pose proof (Z.mod_pos_bound (t+1) m Hm) as B1.
  assert (Hq : 0 <= t / m) by (apply Z.div_pos; lia).
  assert (Hq1 : (t + 1) / m < s) by (apply Z.div_lt_upper_bound; nia).
  destruct (pass_finished S s (t + 1)) eqn:P.
  - apply pass_finished_iff in P; [|lia].
    rewrite cf_mod_s by lia. unfold cf, ptr. rewrite S_div, P.
    assert ((t + 1) / m = t / m + 1).
    { assert (Hr0 : t mod m + 1 = m).
      { destruct (Z.eq_dec (t mod m + 1) m) as [|Hne]; [assumption|]. exfalso.
        assert (Hx : (t + 1) mod m = t mod m + 1).
        { symmetry. apply (Z.mod_unique (t + 1) m (t / m) (t mod m + 1)); [left; lia | lia]. }
        lia. }
      symmetry. apply (Z.div_unique (t + 1) m (t / m + 1) 0); [left; lia | nia]. }
    rewrite H. replace (t / m + 1 + 0 * s * d) with (t / m + 1) by ring.
    symmetry. apply Z.mod_small. nia.
  - assert (P' : (t + 1) mod m <> 0).
    { intros C. apply pass_finished_iff in C; [congruence|lia]. }
    assert (Hr : t mod m + 1 < m).
    { destruct (Z.eq_dec (t mod m + 1) m) as [Heq|]; [|lia]. exfalso. apply P'.
      replace (t + 1) with (0 + (t / m + 1) * m) by nia. rewrite Z.mod_add by lia. apply Z.mod_0_l. lia. }
    assert (Hd1 : (t + 1) / m = t / m).
    { symmetry. apply (Z.div_unique (t + 1) m (t / m) (t mod m + 1)); [left; lia | lia]. }
    assert (Hd2 : (t + 1) mod m = t mod m + 1).
    { symmetry. apply (Z.mod_unique (t + 1) m (t / m) (t mod m + 1)); [left; lia | lia]. }
    unfold cf, ptr. rewrite S_div, Hd1, Hd2.
    rewrite Zplus_mod_idemp_l. f_equal. ring.
Qed.

Lemma ptrs_cf n : forall t, 0 <= t -> t + Z.of_nat n < S ->
  ptrs S s d n t (cf S s d t) = map (cf S s d) (map (fun i => t + 1 + Z.of_nat i) (seq 0 n)).
Proof.
  induction n as [|n IH]; intros t Ht Hn; [reflexivity|].
  cbn [ptrs]. rewrite next_cf by lia. rewrite IH by lia.
  cbn [seq map]. f_equal; [f_equal; lia|].
  rewrite <- seq_shift, !map_map. apply map_ext. intros i. f_equal. lia.
Qed.

Lemma cf_inj t t' : 0 <= t < S -> 0 <= t' < S -> cf S s d t = cf S s d t' -> t = t'.
Proof.
  intros Ht Ht' H. unfold cf in H. rewrite S_div in H.
  pose proof (Z.mod_pos_bound t m Hm) as Bm. pose proof (Z.mod_pos_bound t' m Hm) as Bm'.
  assert (Bq : 0 <= t / m < s) by (split; [apply Z.div_pos; lia | apply Z.div_lt_upper_bound; nia]).
  assert (Bq' : 0 <= t' / m < s) by (split; [apply Z.div_pos; lia | apply Z.div_lt_upper_bound; nia]).
  apply (ptr_inj S s d) in H; try rewrite S_div; try lia; try apply s_div_S; try apply S_pos; try exact Hg.
  destruct H as [E1 E2].
  rewrite (Z.div_mod t m), (Z.div_mod t' m) by lia. rewrite E1, E2. reflexivity.
Qed.

(* the S pointers issued in the first |S| iteration steps: 0 (initial position) then the recurrence *)
Definition first_pass_ptrs : list Z := 0 :: ptrs S s d (Z.to_nat (S - 1)) 0 0.

Theorem diag_pointers_cover : NoDup first_pass_ptrs /\ length first_pass_ptrs = Z.to_nat S
  /\ Forall (fun p => 0 <= p < S) first_pass_ptrs.
Proof.
  pose proof S_pos as HSp.
  assert (C0 : cf S s d 0 = 0).
  { unfold cf, ptr. cbv zeta. rewrite S_div. rewrite Z.div_0_l by lia. rewrite (Z.mod_0_l m) by lia.
    replace (0 + 0 * s * d) with 0 by ring. apply Z.mod_0_l. lia. }
  assert (E : first_pass_ptrs = map (cf S s d) (map Z.of_nat (seq 0 (Z.to_nat S)))).
  { unfold first_pass_ptrs. rewrite <- C0 at 2. rewrite ptrs_cf by lia.
    replace (Z.to_nat S) with (Datatypes.S (Z.to_nat (S - 1))) by lia.
    cbn [seq map]. rewrite C0. f_equal.
    rewrite <- seq_shift, !map_map. apply map_ext. intros i. f_equal. lia. }
  rewrite E. split; [|split].
  - apply NoDup_map_inj.
    + apply NoDup_map_inj; [apply seq_NoDup | intros; lia].
    + intros x y Hx Hy. apply in_map_iff in Hx, Hy.
      destruct Hx as (i & <- & Hi), Hy as (j & <- & Hj). apply in_seq in Hi, Hj.
      apply cf_inj; lia.
  - rewrite !map_length, seq_length. reflexivity.
  - apply Forall_forall. intros p Hp. apply in_map_iff in Hp. destruct Hp as (t & <- & _).
    unfold cf, ptr. apply Z.mod_pos_bound. lia.
Qed.
End Orbit.

(* ================================================================ mixed-radix decoding *)
Lemma decode_be_in_dims dims : Forall (fun d => 1 <= d) dims -> dims <> [] ->
  forall p, 0 <= p < zprod dims -> in_dims dims (decode_be dims p).
Proof.
  induction 1 as [|d dims Hd Hds IH]; intros Hne p Hp; [contradiction|].
  destruct dims as [|d' rest].
  - cbn in *. constructor; [lia|constructor].
  - change (decode_be (d :: d' :: rest) p) with ((p / zprod (d' :: rest) mod d) :: decode_be (d' :: rest) (p mod zprod (d' :: rest))).
    pose proof (zprod_pos (d' :: rest) Hds) as Hr.
    constructor.
    + apply Z.mod_pos_bound. lia.
    + apply IH; [discriminate|]. apply Z.mod_pos_bound. lia.
Qed.

Lemma decode_be_inj dims : Forall (fun d => 1 <= d) dims -> dims <> [] ->
  forall p q, 0 <= p < zprod dims -> 0 <= q < zprod dims -> decode_be dims p = decode_be dims q -> p = q.
Proof.
  induction 1 as [|d dims Hd Hds IH]; intros Hne p q Hp Hq H; [contradiction|].
  destruct dims as [|d' rest].
  - cbn in H. congruence.
  - change (decode_be (d :: d' :: rest) p) with ((p / zprod (d' :: rest) mod d) :: decode_be (d' :: rest) (p mod zprod (d' :: rest))) in H.
    change (decode_be (d :: d' :: rest) q) with ((q / zprod (d' :: rest) mod d) :: decode_be (d' :: rest) (q mod zprod (d' :: rest))) in H.
    pose proof (zprod_pos (d' :: rest) Hds) as Hr. set (R := zprod (d' :: rest)) in *.
    injection H as H1 H2.
    apply IH in H2; [|discriminate|apply Z.mod_pos_bound; lia|apply Z.mod_pos_bound; lia].
    change (zprod (d :: d' :: rest)) with (d * R) in Hp, Hq.
    assert (0 <= p / R < d) by (split; [apply Z.div_pos; lia|apply Z.div_lt_upper_bound; nia]).
    assert (0 <= q / R < d) by (split; [apply Z.div_pos; lia|apply Z.div_lt_upper_bound; nia]).
    rewrite !Z.mod_small in H1 by lia.
    rewrite (Z.div_mod p R), (Z.div_mod q R) by lia. rewrite H1, H2. reflexivity.
Qed.

Lemma decode_be_zero dims : Forall (fun d => 1 <= d) dims -> decode_be dims 0 = map (fun _ => 0) dims.
Proof.
  induction 1 as [|d dims Hd Hds IH]; [reflexivity|]. destruct dims as [|d' rest]; [reflexivity|].
  change (decode_be (d :: d' :: rest) 0) with ((0 / zprod (d' :: rest) mod d) :: decode_be (d' :: rest) (0 mod zprod (d' :: rest))).
  pose proof (zprod_pos (d' :: rest) Hds). rewrite Z.div_0_l, Z.mod_0_l, Z.mod_0_l, IH by lia. reflexivity.
Qed.

Lemma decode_le_in_dims dims : Forall (fun d => 1 <= d) dims -> forall x, 0 <= x -> in_dims dims (decode_le dims x).
Proof.
  induction 1 as [|d dims Hd Hds IH]; intros x Hx; cbn; constructor.
  - apply Z.mod_pos_bound. lia.
  - apply IH. apply Z.div_pos; lia.
Qed.

Lemma decode_le_inj dims : Forall (fun d => 1 <= d) dims ->
  forall x y, 0 <= x < zprod dims -> 0 <= y < zprod dims -> decode_le dims x = decode_le dims y -> x = y.
Proof.
  induction 1 as [|d dims Hd Hds IH]; intros x y Hx Hy H.
  - cbn in *. lia.
  - cbn in H. injection H as H1 H2. cbn [zprod fold_right] in Hx, Hy. fold (zprod dims) in Hx, Hy.
    pose proof (zprod_pos dims Hds).
    apply IH in H2; [| split; [apply Z.div_pos; lia|apply Z.div_lt_upper_bound; lia] | split; [apply Z.div_pos; lia|apply Z.div_lt_upper_bound; lia]].
    rewrite (Z.div_mod x d), (Z.div_mod y d) by lia. rewrite H1, H2. reflexivity.
Qed.

Lemma decode_le_mod dims : Forall (fun d => 1 <= d) dims -> forall x, 0 <= x -> decode_le dims x = decode_le dims (x mod zprod dims).
Proof.
  induction 1 as [|d dims Hd Hds IH]; intros x Hx; [reflexivity|].
  cbn [decode_le zprod fold_right]. fold (zprod dims). pose proof (zprod_pos dims Hds) as Hp.
  f_equal.
  - rewrite Z.rem_mul_r by lia. rewrite (Z.mul_comm d (x / d mod zprod dims)). rewrite Z.mod_add by lia. rewrite Z.mod_mod by lia. reflexivity.
  - rewrite IH by (apply Z.div_pos; lia). rewrite (IH ((x mod (d * zprod dims)) / d)) by (apply Z.div_pos; [apply Z.mod_pos_bound; lia|lia]).
    f_equal. rewrite Z.rem_mul_r by lia.
    rewrite (Z.mul_comm d (x / d mod zprod dims)), Z.div_add by lia.
    rewrite (Z.div_small (x mod d) d) by (apply Z.mod_pos_bound; lia). rewrite Z.add_0_l, Z.mod_mod by lia. reflexivity.
Qed.

(* ================================================================ get_direction *)
Lemma get_direction_ok S : 1 <= S -> forall fuel d0, 1 <= d0 -> (Z.to_nat d0 <= fuel)%nat ->
  exists d, get_direction fuel S d0 = Ok d /\ Z.gcd S d = 1 /\ 1 <= d <= d0.
Proof.
  intros HS. induction fuel as [|f IH]; intros d0 Hd Hf; [lia|].
  cbn [get_direction]. destruct (Z.gcd S d0 =? 1) eqn:G.
  - apply Z.eqb_eq in G. exists d0. repeat split; auto; lia.
  - assert (d0 <> 1). { intros ->. rewrite Z.gcd_1_r in G. discriminate. }
    destruct (IH (d0 - 1) ltac:(lia) ltac:(lia)) as (d & A & B & C). exists d. repeat split; auto; lia.
Qed.
