(* DriverFacts.v — what one driver step does (for an arbitrary optimizer), the reachability
   relation of the search loop and the loop's decomposition.  Everything C03-C06, C12-C14, C18
   prove about search() goes through these lemmas. *)
Require Import Base StopRun Converter Driver.
From RecordUpdate Require Import RecordSet.
Import RecordSetNotations.

Ltac inv_ok H := inversion H; subst; clear H.

(* break one monadic layer of a hypothesis `... = Ok _` *)
Ltac step_bind H :=
  match type of H with
  | bind ?r _ = Ok _ =>
      let E := fresh "E" in let x := fresh "x" in
      destruct r as [x|] eqn:E; cbn [bind] in H; [|discriminate H]
  | (let '(_, _) := ?x in _) = Ok _ => let a := fresh "a" in let b := fresh "b" in destruct x as [a b] eqn:?
  | (if ?c then _ else _) = Ok _ => let C := fresh "C" in destruct c eqn:C
  | match ?x with _ => _ end = Ok _ => destruct x eqn:?; try discriminate H
  end.

Section Facts.
  Context {OP : optimizer}.
  Variable sp : space.
  Variable f : nat -> values -> result.
  Variable clk : nat -> Z.

  Notation drvO := (drv OP).

  (* ------------------------------------------------------------------ memory lookup *)
  (* how `lookup` relates the state before and after: r is the result handed to the row *)
  Definition lookup_rel (s : drvO) (v : values) (r : result) (s' : drvO) : Prop :=
    (c_memory (d_call s) = false /\ r = f (length (d_fcalls s)) v /\
       s' = s <| d_fcalls ::= (fun l => l ++ [v]) |>)
    \/ (c_memory (d_call s) = true /\ exists key, value2position sp v = Ok key /\
         ((dict_get pos_eqb key (d_mem s) = Some r /\ s' = s) \/
          (dict_get pos_eqb key (d_mem s) = None /\ r = f (length (d_fcalls s)) v /\
           s' = s <| d_fcalls ::= (fun l => l ++ [v]) |>
                  <| d_mem ::= dict_set pos_eqb key r |>
                  <| d_mem_new ::= dict_set pos_eqb key r |>))).

  Lemma lookup_spec s v r s' : lookup sp f s v = Ok (r, s') -> lookup_rel s v r s'.
  Proof.
    unfold lookup, lookup_rel. intros H.
    destruct (c_memory (d_call s)) eqn:M.
    - right. split; [reflexivity|]. step_bind H. exists x. split; [reflexivity|].
      destruct (dict_get pos_eqb x (d_mem s)) eqn:G; inv_ok H; auto.
    - left. inv_ok H. auto.
  Qed.

  (* ------------------------------------------------------------------ one evaluation step *)
  (* kind = true: _initialization ; false: _iteration *)
  Record step_rel (kind : bool) (s : drvO) (nth : Z) (s' : drvO) (p : pos) (v : values) (r : result) : Prop := {
    sr_p2v   : position2value sp p = Ok v;
    sr_look  : exists sa sb, lookup_rel sa v r sb /\
                 d_fcalls sa = d_fcalls s /\ d_mem sa = d_mem s /\ d_mem_new sa = d_mem_new s /\ d_call sa = d_call s /\
                 d_fcalls s' = d_fcalls sb /\ d_mem s' = d_mem sb /\ d_mem_new s' = d_mem_new sb;
    sr_rows  : d_rows s' = d_rows s ++ [result_row r v];
    sr_pos   : d_pos_l s' = d_pos_l s ++ [p];
    sr_score : d_score_l s' = d_score_l s ++ [r_score r];
    sr_pbar  : d_pbar s' = (if c_lvl1 (d_call s) then pbar_update_lvl1 else pbar_update_lvl0) (d_pbar s) (r_score r) p nth;
    sr_ninit : d_n_init_total s' = (if kind then Z.succ (d_n_init_total s) else d_n_init_total s);
    sr_niter : d_n_iter_total s' = (if kind then d_n_iter_total s else Z.succ (d_n_iter_total s));
    sr_sinit : d_n_init_search s' = (if kind then Z.succ (d_n_init_search s) else d_n_init_search s);
    sr_siter : d_n_iter_search s' = (if kind then d_n_iter_search s else Z.succ (d_n_iter_search s));
    sr_clk   : d_clk s' = (4 + d_clk s)%nat;
    sr_evalt : d_eval_times s' = d_eval_times s ++ [clk (2 + d_clk s)%nat - clk (1 + d_clk s)%nat];
    sr_itert : d_iter_times s' = d_iter_times s ++ [clk (3 + d_clk s)%nat - clk (d_clk s)];
    sr_call  : d_call s' = d_call s;
    sr_start : d_start s' = d_start s;
    sr_norm  : d_n_inits_norm s' = d_n_inits_norm s;
    sr_pub   : d_best_score s' = d_best_score s /\ d_best_value s' = d_best_value s /\ d_memory_dict s' = d_memory_dict s
  }.

  Lemma score_of_spec s p sc s' :
    score_of sp f clk s p = Ok (sc, s') ->
    exists v r sb, position2value sp p = Ok v /\ sc = r_score r /\
      lookup_rel (s <| d_clk ::= S |>) v r sb /\
      s' = sb <| d_rows ::= (fun l => l ++ [result_row r v]) |> <| d_clk ::= S |>
              <| d_eval_times ::= (fun l => l ++ [clk (d_clk sb) - clk (d_clk s)]) |>.
  Proof.
    unfold score_of, tick. intros H. cbn in H.
    step_bind H. step_bind H. destruct x0 as [r sb].
    apply lookup_spec in E0. inv_ok H.
    exists x, r, sb. repeat split; auto.
  Qed.

  Lemma lookup_rel_frame sa v r sb :
    lookup_rel sa v r sb ->
    d_opt sb = d_opt sa /\ d_rows sb = d_rows sa /\ d_pos_l sb = d_pos_l sa /\ d_score_l sb = d_score_l sa /\
    d_n_init_total sb = d_n_init_total sa /\ d_n_iter_total sb = d_n_iter_total sa /\
    d_eval_times sb = d_eval_times sa /\ d_iter_times sb = d_iter_times sa /\ d_clk sb = d_clk sa /\
    d_call sb = d_call sa /\ d_start sb = d_start sa /\ d_pbar sb = d_pbar sa /\
    d_n_inits_norm sb = d_n_inits_norm sa /\ d_n_init_search sb = d_n_init_search sa /\
    d_n_iter_search sb = d_n_iter_search sa /\ d_best_score sb = d_best_score sa /\
    d_best_value sb = d_best_value sa /\ d_memory_dict sb = d_memory_dict sa.
  Proof.
    intros [(_ & _ & ->) | (_ & key & _ & [(_ & ->) | (_ & _ & ->)])]; cbn; repeat split; reflexivity.
  Qed.

  Lemma initialization_spec s nth s' :
    initialization sp f clk s nth = Ok s' -> exists p v r, step_rel true s nth s' p v r /\
      exists o1, o_init_pos OP (d_opt s) = Ok (o1, p) /\ o_eval_init OP o1 (r_score r) = Ok (d_opt s').
  Proof.
    unfold initialization, tick. intros H. cbn in H.
    step_bind H. destruct x as [o1 p].
    step_bind H. destruct x as [sc s1].
    apply score_of_spec in E0. destruct E0 as (v & r & sb & Hv & -> & Hl & ->).
    step_bind H. cbn in H. inv_ok H.
    pose proof (lookup_rel_frame _ _ _ _ Hl) as Fr. cbn in Fr.
    destruct Fr as (F1&F2&F3&F4&F5&F6&F7&F8&F9&F10&F11&F12&F13&F14&F15&F16&F17&F18).
    exists p, v, r. split.
    2:{ exists o1. cbn in *. split; [first [assumption|reflexivity]|].
        match goal with He : _ = Ok ?x |- _ = Ok ?x => rewrite F1 in He; exact He end. }
    unfold pbar_update. constructor; cbn;
      rewrite ?F1, ?F2, ?F3, ?F4, ?F5, ?F6, ?F7, ?F8, ?F9, ?F10, ?F11, ?F12, ?F13, ?F14, ?F15, ?F16, ?F17, ?F18; auto.
    - eexists _, sb. split; [exact Hl|]. cbn. repeat split; reflexivity.
    - destruct (c_lvl1 (d_call s)); reflexivity.
  Qed.

  Lemma iteration_spec s nth s' :
    iteration sp f clk s nth = Ok s' -> exists p v r, step_rel false s nth s' p v r /\
      exists o1, o_iterate OP (d_opt s) = Ok (o1, p) /\ o_evaluate OP o1 (r_score r) = Ok (d_opt s').
  Proof.
    unfold iteration, tick. intros H. cbn in H.
    step_bind H. destruct x as [o1 p].
    step_bind H. destruct x as [sc s1].
    apply score_of_spec in E0. destruct E0 as (v & r & sb & Hv & -> & Hl & ->).
    step_bind H. cbn in H. inv_ok H.
    pose proof (lookup_rel_frame _ _ _ _ Hl) as Fr. cbn in Fr.
    destruct Fr as (F1&F2&F3&F4&F5&F6&F7&F8&F9&F10&F11&F12&F13&F14&F15&F16&F17&F18).
    exists p, v, r. split.
    2:{ exists o1. cbn in *. split; [first [assumption|reflexivity]|].
        match goal with He : _ = Ok ?x |- _ = Ok ?x => rewrite F1 in He; exact He end. }
    unfold pbar_update. constructor; cbn;
      rewrite ?F1, ?F2, ?F3, ?F4, ?F5, ?F6, ?F7, ?F8, ?F9, ?F10, ?F11, ?F12, ?F13, ?F14, ?F15, ?F16, ?F17, ?F18; auto.
    - eexists _, sb. split; [exact Hl|]. cbn. repeat split; reflexivity.
    - destruct (c_lvl1 (d_call s)); reflexivity.
  Qed.


  (* ------------------------------------------------------------------ search_step *)
  (* the per-call counters at the start of step k *)
  Definition cinv (s : drvO) (k : Z) : Prop :=
    0 <= k /\ d_n_init_search s = Z.min k (Z.max 0 (d_n_inits_norm s)) /\
    d_n_iter_search s = k - d_n_init_search s.

  Definition is_init_step (s : drvO) (k : Z) : bool := k <? d_n_inits_norm s.

  (* what the optimizer was asked to do in step k *)
  Definition opt_rel (s : drvO) (k : Z) (s' : drvO) (p : pos) (sc : score) : Prop :=
    if is_init_step s k
    then exists o1, o_init_pos OP (d_opt s) = Ok (o1, p) /\ o_eval_init OP o1 sc = Ok (d_opt s')
    else exists o0 o1, (if k =? d_n_init_search s then o_finish_init OP (d_opt s) = Ok o0 else o0 = d_opt s) /\
                       o_iterate OP o0 = Ok (o1, p) /\ o_evaluate OP o1 sc = Ok (d_opt s').

  Lemma step_rel_set_opt kind s o k s' p v r :
    step_rel kind (s <| d_opt := o |>) k s' p v r -> step_rel kind s k s' p v r.
  Proof. intros [ ]. constructor; cbn in *; auto. Qed.

  Lemma search_step_spec s k s' :
    cinv s k -> k < c_n_iter (d_call s) ->
    search_step sp f clk s k = Ok s' ->
    cinv s' (k + 1) /\
    exists p v r, step_rel (is_init_step s k) s k s' p v r /\ opt_rel s k s' p (r_score r).
  Proof.
    intros (Hk & Hi & Hj) Hn H. unfold search_step in H. unfold opt_rel, is_init_step.
    destruct (k <? d_n_inits_norm s) eqn:Ck.
    - (* initialisation step *)
      step_bind H. apply initialization_spec in E. destruct E as (p & v & r & R & Ho).
      pose proof (sr_sinit _ _ _ _ _ _ _ R) as Si. pose proof (sr_norm _ _ _ _ _ _ _ R) as Nn.
      pose proof (sr_siter _ _ _ _ _ _ _ R) as Sj. cbn in Si, Sj.
      assert (d_n_init_search x = k + 1) by lia.
      replace (k =? d_n_init_search x) with false in H by (symmetry; apply Z.eqb_neq; lia).
      cbn [bind] in H.
      replace (d_n_init_search x <=? k) with false in H by (symmetry; apply Z.leb_gt; lia).
      cbn in H. inv_ok H. split.
      + unfold cinv. rewrite Nn, Sj. lia.
      + exists p, v, r. split; assumption.
    - (* iteration step, possibly preceded by finish_initialization *)
      cbn [bind] in H.
      assert (Hle : d_n_init_search s <= k) by lia.
      destruct (k =? d_n_init_search s) eqn:Cf.
      + step_bind H. step_bind E. inv_ok E.
        assert (Hc : (d_n_init_search (s <| d_opt := x0 |>) <=? k) && (k <? c_n_iter (d_call (s <| d_opt := x0 |>))) = true)
          by (cbn; apply andb_true_intro; split; [apply Z.leb_le|apply Z.ltb_lt]; lia).
        rewrite Hc in H. clear Hc.
        apply iteration_spec in H. destruct H as (p & v & r & R & o1 & Ho1 & Ho2).
        apply step_rel_set_opt in R. split.
        * pose proof (sr_sinit _ _ _ _ _ _ _ R) as Si. pose proof (sr_norm _ _ _ _ _ _ _ R) as Nn.
          pose proof (sr_siter _ _ _ _ _ _ _ R) as Sj. cbn in Si, Sj. unfold cinv. rewrite Nn, Si, Sj. lia.
        * exists p, v, r. split; [assumption|]. exists x0, o1. cbn in Ho1. auto.
      + cbn [bind] in H.
        assert (Hc : (d_n_init_search s <=? k) && (k <? c_n_iter (d_call s)) = true)
          by (apply andb_true_intro; split; [apply Z.leb_le|apply Z.ltb_lt]; lia).
        rewrite Hc in H. clear Hc.
        apply iteration_spec in H. destruct H as (p & v & r & R & o1 & Ho1 & Ho2). split.
        * pose proof (sr_sinit _ _ _ _ _ _ _ R) as Si. pose proof (sr_norm _ _ _ _ _ _ _ R) as Nn.
          pose proof (sr_siter _ _ _ _ _ _ _ R) as Sj. cbn in Si, Sj. unfold cinv. rewrite Nn, Si, Sj. lia.
        * exists p, v, r. split; [assumption|]. exists (d_opt s), o1. auto.
  Qed.

  (* ------------------------------------------------------------------ stop_check *)
  Definition rc (s : drvO) : nat := if check_reads_clock (c_stop (d_call s)) then 1%nat else 0%nat.

  Lemma stop_check_spec s b s' :
    stop_check clk s = Ok (b, s') ->
    check (c_stop (d_call s)) (d_start s) (if check_reads_clock (c_stop (d_call s)) then clk (d_clk s) else 0)
          (pb_best (d_pbar s)) (d_score_l s) = Ok b /\
    s' = s <| d_clk := (rc s + d_clk s)%nat |>.
  Proof.
    unfold stop_check, rc, tick. intros H.
    destruct (check_reads_clock (c_stop (d_call s))) eqn:R; cbn in H.
    - step_bind H. inv_ok H. split; reflexivity.
    - step_bind H. inv_ok H. split; [reflexivity|]. destruct s'; reflexivity.
  Qed.

  (* ------------------------------------------------------------------ the trace of a call *)
  Definition ev := (pos * values * result)%type.
  Definition ev_pos (e : ev) : pos := fst (fst e).
  Definition ev_val (e : ev) : values := snd (fst e).
  Definition ev_res (e : ev) : result := snd e.
  Definition ev_score (e : ev) : score := r_score (snd e).
  Definition ev_row (e : ev) : row := result_row (snd e) (snd (fst e)).

  (* states at the top of the loop: tr = the steps done so far in this call, none of whose
     checks stopped the search *)
  Inductive reach (s0 : drvO) : list ev -> drvO -> Prop :=
  | reach_nil : reach s0 [] s0
  | reach_step tr s s1 s2 p v r :
      reach s0 tr s ->
      search_step sp f clk s (zlen tr) = Ok s1 ->
      step_rel (is_init_step s (zlen tr)) s (zlen tr) s1 p v r ->
      opt_rel s (zlen tr) s1 p (r_score r) ->
      stop_check clk s1 = Ok (false, s2) ->
      reach s0 (tr ++ [(p, v, r)]) s2.

  (* how search()'s loop ends *)
  Inductive ended (s0 : drvO) (n : Z) : list ev -> drvO -> bool -> Prop :=
  | ended_exhausted tr s : reach s0 tr s -> zlen tr = n -> ended s0 n tr s false
  | ended_stopped tr s s1 s2 p v r :
      reach s0 tr s -> zlen tr < n ->
      search_step sp f clk s (zlen tr) = Ok s1 ->
      step_rel (is_init_step s (zlen tr)) s (zlen tr) s1 p v r ->
      opt_rel s (zlen tr) s1 p (r_score r) ->
      stop_check clk s1 = Ok (true, s2) ->
      ended s0 n (tr ++ [(p, v, r)]) s2 true.

  Lemma zlen_app {A} (l : list A) x : zlen (l ++ [x]) = zlen l + 1.
  Proof. unfold zlen. rewrite app_length. cbn. lia. Qed.
  Lemma zlen_nonneg {A} (l : list A) : 0 <= zlen l.
  Proof. unfold zlen. lia. Qed.

  Lemma stop_check_frame (s : drvO) b (s' : drvO) : stop_check clk s = Ok (b, s') ->
    d_call s' = d_call s /\ d_n_inits_norm s' = d_n_inits_norm s /\
    d_n_init_search s' = d_n_init_search s /\ d_n_iter_search s' = d_n_iter_search s.
  Proof. intros H. apply stop_check_spec in H. destruct H as [_ ->]. cbn. auto. Qed.

  Lemma reach_call s0 tr s : reach s0 tr s ->
    d_call s = d_call s0 /\ d_n_inits_norm s = d_n_inits_norm s0.
  Proof.
    induction 1 as [|tr s s1 s2 p v r Hr IH Hs R Ho Hc]; [auto|].
    destruct IH as [IH1 IH2]. apply stop_check_frame in Hc. destruct Hc as (C1 & C2 & _).
    rewrite C1, C2, (sr_call _ _ _ _ _ _ _ R), (sr_norm _ _ _ _ _ _ _ R). auto.
  Qed.

  Lemma reach_cinv s0 tr s : cinv s0 0 -> zlen tr <= c_n_iter (d_call s0) -> reach s0 tr s -> cinv s (zlen tr).
  Proof.
    intros H0 Hn Hr. induction Hr as [|tr s s1 s2 p v r Hr IH Hs R Ho Hc]; [exact H0|].
    rewrite zlen_app in *. pose proof (zlen_nonneg tr).
    destruct (reach_call _ _ _ Hr) as [Hcall _].
    apply search_step_spec in Hs; [|apply IH; lia | rewrite Hcall; lia].
    destruct Hs as [Ci _]. apply stop_check_frame in Hc. destruct Hc as (_ & C2 & C3 & C4).
    unfold cinv in *. rewrite C2, C3, C4. exact Ci.
  Qed.

  (* decomposition of the loop *)
  Lemma loop_ended s0 : cinv s0 0 -> forall todo tr s s',
    reach s0 tr s -> zlen tr + Z.of_nat todo = c_n_iter (d_call s0) ->
    loop sp f clk todo (zlen tr) s = Ok s' ->
    exists tr' b, ended s0 (c_n_iter (d_call s0)) tr' s' b.
  Proof.
    intros H0. induction todo as [|todo IH]; intros tr s s' Hr Hn Hl.
    - cbn in Hl. inv_ok Hl. exists tr, false. constructor; [assumption|lia].
    - cbn [loop] in Hl. step_bind Hl. step_bind Hl. destruct x0 as [b s2].
      pose proof (zlen_nonneg tr).
      assert (Ci : cinv s (zlen tr)) by (apply (reach_cinv s0); [assumption|lia|assumption]).
      destruct (reach_call _ _ _ Hr) as [Hcall _].
      pose proof E as E'. apply search_step_spec in E'; [|assumption|rewrite Hcall; lia].
      destruct E' as (_ & p & v & r & R & Ho).
      destruct b.
      + inv_ok Hl. exists (tr ++ [(p, v, r)]), true. econstructor; eauto. lia.
      + assert (Hr2 : reach s0 (tr ++ [(p, v, r)]) s2) by (econstructor; eauto).
        apply (IH _ _ _ Hr2); [rewrite zlen_app; lia|]. rewrite zlen_app. exact Hl.
  Qed.

  (* ------------------------------------------------------------------ the state as a function of the trace *)
  Definition best_step (b : score * option pos) (e : ev) : score * option pos :=
    if better (ev_score e) (fst b) (snd b) then (ev_score e, Some (ev_pos e)) else b.
  Definition pb_pair (b : pbar) : score * option pos := (pb_best b, pb_pos b).

  Lemma pbar_update_pair (lvl1 : bool) b sc p k r (v : values) :
    sc = r_score r ->
    pb_pair ((if lvl1 then pbar_update_lvl1 else pbar_update_lvl0) b sc p k) = best_step (pb_pair b) (p, v, r).
  Proof.
    intros ->. unfold best_step, pb_pair, ev_score, ev_pos. cbn.
    destruct lvl1; unfold pbar_update_lvl1, pbar_update_lvl0, new2best, better; cbn;
      destruct (sgt (r_score r) (pb_best b)) eqn:G; cbn; rewrite ?G; cbn;
      destruct (is_none (pb_pos b) && seqb (r_score r) (pb_best b)); reflexivity.
  Qed.

  (* clock index at the start of step i of the call *)
  Definition cidx (s0 : drvO) (i : nat) : nat := (d_clk s0 + i * (4 + rc s0))%nat.

  Record traced (s0 : drvO) (tr : list ev) (s : drvO) : Prop := {
    t_rows  : d_rows s = d_rows s0 ++ map ev_row tr;
    t_pos   : d_pos_l s = d_pos_l s0 ++ map ev_pos tr;
    t_score : d_score_l s = d_score_l s0 ++ map ev_score tr;
    t_p2v   : Forall (fun e => position2value sp (ev_pos e) = Ok (ev_val e)) tr;
    t_pbar  : pb_pair (d_pbar s) = fold_left best_step tr (pb_pair (d_pbar s0));
    t_tinit : d_n_init_total s - d_n_init_search s = d_n_init_total s0 - d_n_init_search s0;
    t_titer : d_n_iter_total s - d_n_iter_search s = d_n_iter_total s0 - d_n_iter_search s0;
    t_evalt : d_eval_times s = d_eval_times s0 ++
                map (fun i => clk (2 + cidx s0 i)%nat - clk (1 + cidx s0 i)%nat) (seq 0 (length tr));
    t_itert : d_iter_times s = d_iter_times s0 ++
                map (fun i => clk (3 + cidx s0 i)%nat - clk (cidx s0 i)) (seq 0 (length tr));
    t_call  : d_call s = d_call s0;
    t_start : d_start s = d_start s0;
    t_norm  : d_n_inits_norm s = d_n_inits_norm s0;
    t_pub   : d_best_score s = d_best_score s0 /\ d_best_value s = d_best_value s0 /\ d_memory_dict s = d_memory_dict s0
  }.

  Lemma traced_refl s0 : traced s0 [] s0.
  Proof. constructor; cbn; rewrite ?app_nil_r; auto. Qed.

  Lemma traced_check s0 tr s b s' : stop_check clk s = Ok (b, s') -> traced s0 tr s -> traced s0 tr s'.
  Proof.
    intros H T. apply stop_check_spec in H. destruct H as [_ ->]. destruct T. constructor; cbn; auto.
  Qed.

  Lemma traced_step s0 tr s kind s1 p v r :
    traced s0 tr s -> d_clk s = cidx s0 (length tr) ->
    step_rel kind s (zlen tr) s1 p v r -> traced s0 (tr ++ [(p, v, r)]) s1.
  Proof.
    intros T Hc R. destruct T, R. constructor.
    - rewrite sr_rows0, t_rows0, map_app, app_assoc. reflexivity.
    - rewrite sr_pos0, t_pos0, map_app, app_assoc. reflexivity.
    - rewrite sr_score0, t_score0, map_app, app_assoc. reflexivity.
    - apply Forall_app. split; [assumption|]. constructor; [exact sr_p2v0|constructor].
    - rewrite fold_left_app. cbn [fold_left]. rewrite <- t_pbar0, sr_pbar0.
      apply pbar_update_pair. reflexivity.
    - rewrite sr_ninit0, sr_sinit0. destruct kind; lia.
    - rewrite sr_niter0, sr_siter0. destruct kind; lia.
    - rewrite sr_evalt0, t_evalt0, app_length. cbn [length]. rewrite Nat.add_1_r, seq_S, map_app.
      cbn [map]. rewrite Hc, app_assoc. reflexivity.
    - rewrite sr_itert0, t_itert0, app_length. cbn [length]. rewrite Nat.add_1_r, seq_S, map_app.
      cbn [map]. rewrite Hc, app_assoc. reflexivity.
    - congruence.
    - congruence.
    - congruence.
    - destruct sr_pub0 as (A & B & C), t_pub0 as (A' & B' & C'). repeat split; congruence.
  Qed.

  Lemma rc_call (s s0 : drvO) : d_call s = d_call s0 -> rc s = rc s0.
  Proof. unfold rc. intros ->. reflexivity. Qed.

  Lemma reach_traced s0 tr s : reach s0 tr s -> traced s0 tr s /\ d_clk s = cidx s0 (length tr).
  Proof.
    induction 1 as [|tr s s1 s2 p v r Hr [IH Hc] Hs R Ho Hk].
    - split; [apply traced_refl|]. unfold cidx. cbn. lia.
    - split.
      + eapply traced_check; [exact Hk|]. eapply traced_step; eauto.
      + apply stop_check_spec in Hk. destruct Hk as [_ ->]. cbn.
        rewrite (sr_clk _ _ _ _ _ _ _ R), Hc, app_length. cbn [length].
        rewrite (rc_call s1 s0) by (rewrite (sr_call _ _ _ _ _ _ _ R); apply (t_call _ _ _ IH)).
        unfold cidx. nia.
  Qed.

  (* the same for the state in which the loop ended *)
  Lemma ended_traced s0 n tr s b : ended s0 n tr s b ->
    traced s0 tr s /\ zlen tr <= n /\ (b = false -> zlen tr = n).
  Proof.
    intros [tr' s' Hr Hn | tr' s' s1 s2 p v r Hr Hn Hs R Ho Hk].
    - split; [apply reach_traced; assumption|]. split; [lia|auto].
    - destruct (reach_traced _ _ _ Hr) as [T Hc]. split.
      + eapply traced_check; [exact Hk|]. eapply traced_step; eauto.
      + rewrite zlen_app. split; [lia|discriminate].
  Qed.

  (* ------------------------------------------------------------------ the stop checks along the trace *)
  (* StopRun.check() evaluated after the last step of the (non-empty) prefix tr of the call *)
  Definition stop_after (s0 : drvO) (tr : list ev) : res bool :=
    check (c_stop (d_call s0)) (d_start s0)
          (if check_reads_clock (c_stop (d_call s0)) then clk (4 + cidx s0 (length tr - 1))%nat else 0)
          (fst (fold_left best_step tr (pb_pair (d_pbar s0))))
          (d_score_l s0 ++ map ev_score tr).

  Definition none_stopped (s0 : drvO) (tr : list ev) : Prop :=
    forall j, (0 < j <= length tr)%nat -> stop_after s0 (firstn j tr) = Ok false.

  Lemma post_step_check s0 tr s kind s1 p v r b s2 :
    traced s0 tr s -> d_clk s = cidx s0 (length tr) ->
    step_rel kind s (zlen tr) s1 p v r ->
    stop_check clk s1 = Ok (b, s2) ->
    stop_after s0 (tr ++ [(p, v, r)]) = Ok b.
  Proof.
    intros T Hc R Hk. pose proof (traced_step _ _ _ _ _ _ _ _ T Hc R) as T1.
    apply stop_check_spec in Hk. destruct Hk as [Hk _].
    unfold stop_after. rewrite <- (t_call _ _ _ T1), <- (t_start _ _ _ T1), <- (t_pbar _ _ _ T1), <- (t_score _ _ _ T1).
    rewrite app_length. cbn [length]. replace (length tr + 1 - 1)%nat with (length tr) by lia.
    rewrite <- Hc, <- (sr_clk _ _ _ _ _ _ _ R). exact Hk.
  Qed.

  Lemma none_stopped_snoc s0 tr e :
    none_stopped s0 tr -> stop_after s0 (tr ++ [e]) = Ok false -> none_stopped s0 (tr ++ [e]).
  Proof.
    intros Hn He j Hj. rewrite app_length in Hj. cbn in Hj.
    destruct (Nat.eq_dec j (length tr + 1)) as [->|Hne].
    - rewrite firstn_all2 by (rewrite app_length; cbn; lia). exact He.
    - rewrite firstn_app. replace (j - length tr)%nat with 0%nat by lia. cbn. rewrite app_nil_r.
      apply Hn. lia.
  Qed.

  Lemma reach_none_stopped s0 tr s : reach s0 tr s -> none_stopped s0 tr.
  Proof.
    induction 1 as [|tr s s1 s2 p v r Hr IH Hs R Ho Hk].
    - intros j Hj. cbn in Hj. lia.
    - destruct (reach_traced _ _ _ Hr) as [T Hc].
      apply none_stopped_snoc; [assumption|]. eapply post_step_check; eauto.
  Qed.

  Lemma ended_stops s0 n tr s b : ended s0 n tr s b ->
    (b = false -> none_stopped s0 tr) /\
    (b = true -> stop_after s0 tr = Ok true /\ none_stopped s0 (removelast tr) /\ tr <> []).
  Proof.
    intros [tr' s' Hr Hn | tr' s' s1 s2 p v r Hr Hn Hs R Ho Hk].
    - split; [intros _; eapply reach_none_stopped; eauto | discriminate].
    - split; [discriminate|]. intros _. destruct (reach_traced _ _ _ Hr) as [T Hc]. split; [|split].
      + eapply post_step_check; eauto.
      + rewrite removelast_last. eapply reach_none_stopped; eauto.
      + destruct tr'; discriminate.
  Qed.

  (* ------------------------------------------------------------------ search() as a whole *)
  Lemma init_search_spec (s : drvO) c (s0 : drvO) :
    init_search sp clk s c = Ok s0 ->
    exists m, memory_init sp c = Ok m /\
      s0 = s <| d_n_init_search := 0 |> <| d_n_iter_search := 0 |> <| d_call := c |> <| d_clk ::= S |>
             <| d_start := clk (d_clk s) |> <| d_pbar := pbar_init |> <| d_mem := m |> <| d_mem_new := [] |>
             <| d_n_inits_norm := Z.min (o_n_inits OP (d_opt s) - d_n_init_total s) (c_n_iter c) |>.
  Proof.
    unfold init_search, tick. cbn. intros H. step_bind H. inv_ok H. exists x. split; reflexivity.
  Qed.

  Lemma init_search_cinv s c s0 : init_search sp clk s c = Ok s0 -> cinv s0 0 /\ d_call s0 = c.
  Proof.
    intros H. apply init_search_spec in H. destruct H as (m & _ & ->). unfold cinv. cbn. split; [lia|reflexivity].
  Qed.

  Theorem search_spec s c s' :
    0 <= c_n_iter c ->
    search sp f clk s c = Ok s' ->
    exists s0 tr sE b,
      init_search sp clk s c = Ok s0 /\
      ended s0 (c_n_iter c) tr sE b /\
      finish_search sp sE = Ok s'.
  Proof.
    intros Hn H. unfold search in H. step_bind H. step_bind H.
    destruct (init_search_cinv _ _ _ E) as [Ci Hc].
    pose proof (loop_ended x Ci (Z.to_nat (c_n_iter c)) [] x x0 (reach_nil x)) as L.
    destruct L as (tr & b & He).
    - rewrite Hc. cbn. lia.
    - exact E0.
    - exists x, tr, x0, b. rewrite Hc in He. auto.
  Qed.

  Lemma finish_search_spec (sE s' : drvO) :
    finish_search sp sE = Ok s' ->
    exists bv, (match pb_pos (d_pbar sE) with
                | None => bv = None
                | Some p => exists v, position2value sp p = Ok v /\ bv = Some v end) /\
      s' = sE <| d_best_score := pb_best (d_pbar sE) |> <| d_best_value := bv |>
              <| d_memory_dict := if c_memory (d_call sE) then d_mem sE else [] |>.
  Proof.
    unfold finish_search. intros H. step_bind H. inv_ok H. exists x. split; [|reflexivity].
    destruct (pb_pos (d_pbar sE)).
    - step_bind E. inv_ok E. eauto.
    - inv_ok E. reflexivity.
  Qed.

  (* ------------------------------------------------------------------ exactness of stopping, generically *)
  Lemma firstn_map {A B} (g : A -> B) j (l : list A) : firstn j (map g l) = map g (firstn j l).
  Proof. revert l. induction j as [|j IH]; intros [|x l]; cbn; try reflexivity. rewrite IH. reflexivity. Qed.

  Lemma ended_exact s0 n tr sE b (P : list ev -> bool) :
    ended s0 n tr sE b ->
    (forall tr', tr' <> [] -> forall b', stop_after s0 tr' = Ok b' -> b' = P tr') ->
    (forall j, (0 < j < length tr)%nat -> P (firstn j tr) = false) /\
    (zlen tr = n \/ (tr <> [] /\ P tr = true)) /\ zlen tr <= n.
  Proof.
    intros He HP. pose proof (ended_stops _ _ _ _ _ He) as [Hf Ht].
    pose proof (ended_traced _ _ _ _ _ He) as (_ & Hle & Hfull).
    destruct b.
    - destruct (Ht eq_refl) as (Hlast & Hnp & Hne). split.
      + intros j Hj. destruct (exists_last Hne) as (tr0 & e & ->). rewrite removelast_last in Hnp.
        rewrite app_length in Hj. cbn in Hj.
        rewrite firstn_app. replace (j - length tr0)%nat with 0%nat by lia. cbn. rewrite app_nil_r.
        symmetry. apply HP; [|apply Hnp; lia].
        intros E. apply (f_equal (@length ev)) in E. rewrite firstn_length in E. cbn in E. lia.
      + split; [|assumption]. right. split; [assumption|]. symmetry. apply HP; assumption.
    - split.
      + intros j Hj. symmetry. apply HP; [|apply (Hf eq_refl); lia].
        intros E. apply (f_equal (@length ev)) in E. rewrite firstn_length in E. cbn in E. lia.
      + split; [|assumption]. left. apply Hfull. reflexivity.
  Qed.

  (* ------------------------------------------------------------------ counters at the end of the loop *)
  Lemma ended_counters s0 n tr sE b :
    cinv s0 0 -> n = c_n_iter (d_call s0) -> ended s0 n tr sE b ->
    d_n_init_search sE = Z.min (zlen tr) (Z.max 0 (d_n_inits_norm s0)) /\
    d_n_iter_search sE = zlen tr - d_n_init_search sE.
  Proof.
    intros H0 Hn [tr' s' Hr Hl | tr' s' s1 s2 p v r Hr Hl Hs R Ho Hk].
    - destruct (reach_call _ _ _ Hr) as [_ Hnorm]. rewrite <- Hnorm.
      apply (reach_cinv s0) in Hr; [|assumption|lia]. destruct Hr as (_ & A & B). auto.
    - destruct (reach_call _ _ _ Hr) as [Hcall Hnorm]. pose proof (zlen_nonneg tr').
      pose proof Hr as Ci. apply (reach_cinv s0) in Ci; [|assumption|lia].
      apply search_step_spec in Hs; [|assumption|rewrite Hcall; lia].
      destruct Hs as [(_ & A & B) _]. apply stop_check_frame in Hk. destruct Hk as (_ & C2 & C3 & C4).
      rewrite zlen_app, C3, C4, <- Hnorm, <- (sr_norm _ _ _ _ _ _ _ R). auto.
  Qed.

  (* ------------------------------------------------------------------ optimizer contracts lift to the run *)
  (* I: an invariant of the optimizer's state; Q: a property of every position it emits *)
  Record opt_contract (I : ost OP -> Prop) (Q : pos -> Prop) : Prop := {
    oc_init_pos : forall st st' p, I st -> o_init_pos OP st = Ok (st', p) -> I st' /\ Q p;
    oc_iterate  : forall st st' p, I st -> o_iterate OP st = Ok (st', p) -> I st' /\ Q p;
    oc_eval_init : forall st sc st', I st -> o_eval_init OP st sc = Ok st' -> I st';
    oc_evaluate : forall st sc st', I st -> o_evaluate OP st sc = Ok st' -> I st';
    oc_finish : forall st st', I st -> o_finish_init OP st = Ok st' -> I st'
  }.

  Lemma opt_rel_contract I Q s k s' p sc :
    opt_contract I Q -> I (d_opt s) -> opt_rel s k s' p sc -> I (d_opt s') /\ Q p.
  Proof.
    intros C Hi Ho. unfold opt_rel in Ho. destruct (is_init_step s k).
    - destruct Ho as (o1 & A & B). destruct (oc_init_pos _ _ C _ _ _ Hi A) as [I1 Hq].
      split; [eapply oc_eval_init; eauto|assumption].
    - destruct Ho as (o0 & o1 & A & B & D).
      assert (I0 : I o0).
      { destruct (k =? d_n_init_search s); [eapply oc_finish; eauto|subst; assumption]. }
      destruct (oc_iterate _ _ C _ _ _ I0 B) as [I1 Hq].
      split; [eapply oc_evaluate; eauto|assumption].
  Qed.

  Lemma stop_check_opt (s : drvO) b (s' : drvO) : stop_check clk s = Ok (b, s') -> d_opt s' = d_opt s.
  Proof. intros H. apply stop_check_spec in H. destruct H as [_ ->]. reflexivity. Qed.

  Lemma reach_contract I Q s0 tr s :
    opt_contract I Q -> I (d_opt s0) -> reach s0 tr s -> I (d_opt s) /\ Forall Q (map ev_pos tr).
  Proof.
    intros C H0. induction 1 as [|tr s s1 s2 p v r Hr [IH1 IH2] Hs R Ho Hk].
    - split; [assumption|constructor].
    - destruct (opt_rel_contract I Q _ _ _ _ _ C IH1 Ho) as [I1 Hq].
      rewrite (stop_check_opt _ _ _ Hk). split; [assumption|].
      rewrite map_app. apply Forall_app. split; [assumption|]. constructor; [exact Hq|constructor].
  Qed.

  Lemma ended_contract I Q s0 n tr sE b :
    opt_contract I Q -> I (d_opt s0) -> ended s0 n tr sE b -> I (d_opt sE) /\ Forall Q (map ev_pos tr).
  Proof.
    intros C H0 [tr' s' Hr Hl | tr' s' s1 s2 p v r Hr Hl Hs R Ho Hk].
    - eapply reach_contract; eauto.
    - destruct (reach_contract I Q _ _ _ C H0 Hr) as [I1 F1].
      destruct (opt_rel_contract I Q _ _ _ _ _ C I1 Ho) as [I2 Hq].
      rewrite (stop_check_opt _ _ _ Hk). split; [assumption|].
      rewrite map_app. apply Forall_app. split; [assumption|]. constructor; [exact Hq|constructor].
  Qed.

  (* ------------------------------------------------------------------ history-indexed contracts *)
  (* J st H: an invariant of the optimizer's state relative to the list H of (position, score) pairs
     evaluated so far; each driver step extends H by the pair it evaluated *)
  Record opt_hist_contract (J : ost OP -> list (pos * score) -> Prop) : Prop := {
    ohc_init : forall st st1 p sc st2 H, J st H -> o_init_pos OP st = Ok (st1, p) ->
                 o_eval_init OP st1 sc = Ok st2 -> J st2 (H ++ [(p, sc)]);
    ohc_iter : forall st st1 p sc st2 H, J st H -> o_iterate OP st = Ok (st1, p) ->
                 o_evaluate OP st1 sc = Ok st2 -> J st2 (H ++ [(p, sc)]);
    ohc_finish : forall st st' H, J st H -> o_finish_init OP st = Ok st' -> J st' H
  }.

  Definition ev_pair (e : ev) : pos * score := (ev_pos e, ev_score e).

  Lemma opt_rel_hist J s k s' p sc H :
    opt_hist_contract J -> J (d_opt s) H -> opt_rel s k s' p sc -> J (d_opt s') (H ++ [(p, sc)]).
  Proof.
    intros C Hj Ho. unfold opt_rel in Ho. destruct (is_init_step s k).
    - destruct Ho as (o1 & A & B). eapply ohc_init; eauto.
    - destruct Ho as (o0 & o1 & A & B & D).
      assert (J0 : J o0 H). { destruct (k =? d_n_init_search s); [eapply ohc_finish; eauto|subst; assumption]. }
      eapply ohc_iter; eauto.
  Qed.

  Lemma reach_hist J s0 tr s H0 :
    opt_hist_contract J -> J (d_opt s0) H0 -> reach s0 tr s -> J (d_opt s) (H0 ++ map ev_pair tr).
  Proof.
    intros C Hj. induction 1 as [|tr s s1 s2 p v r Hr IH Hs R Ho Hk].
    - cbn. rewrite app_nil_r. assumption.
    - rewrite (stop_check_opt _ _ _ Hk), map_app, app_assoc. cbn.
      apply (opt_rel_hist J _ _ _ _ _ _ C IH Ho).
  Qed.

  Lemma ended_hist J s0 n tr sE b H0 :
    opt_hist_contract J -> J (d_opt s0) H0 -> ended s0 n tr sE b -> J (d_opt sE) (H0 ++ map ev_pair tr).
  Proof.
    intros C Hj [tr' s' Hr Hl | tr' s' s1 s2 p v r Hr Hl Hs R Ho Hk].
    - eapply reach_hist; eauto.
    - pose proof (reach_hist J _ _ _ _ C Hj Hr) as J1.
      rewrite (stop_check_opt _ _ _ Hk), map_app, app_assoc. cbn.
      apply (opt_rel_hist J _ _ _ _ _ _ C J1 Ho).
  Qed.
End Facts.
