(* C14 — max_time: no step starts after the time budget is exhausted. *)
Require Import Base StopRun Converter Driver DriverFacts StopFacts.
From RecordUpdate Require Import RecordSet.
Import RecordSetNotations.

Section C14.
  Context {OP : optimizer}.
  Variable sp : space.
  Variable f : nat -> values -> result.
  Variable clk : nat -> Z.

  (* clock readings of a call that starts when c0 readings were consumed: reading c0 is
     start_time; step j (0-based) reads c0+1+5j .. c0+4+5j (iter t0, eval t0, eval t1, iter t1)
     and the check after step j reads c0+5+5j *)
  Definition elapsed_after (c0 : nat) (j : nat) : Z := clk (c0 + 5 + 5 * j)%nat - clk c0.

  Definition C14_statement : Prop :=
    forall (s s' : drv OP) (c : call) (T : Z),
      c_stop c = mkStop (Some T) None None -> 0 < T -> 0 <= c_n_iter c ->
      search sp f clk s c = Ok s' ->
      exists k : nat,                                        (* rows produced by this call *)
        length (d_rows s') = (length (d_rows s) + k)%nat /\
        Z.of_nat k <= c_n_iter c /\
        (forall j, (j + 1 < k)%nat -> elapsed_after (d_clk s) j <= T) /\     (* no earlier stop *)
        (Z.of_nat k = c_n_iter c \/ (0 < k)%nat /\ T < elapsed_after (d_clk s) (k - 1)).

  Lemma stop_after_time (s0 : drv OP) T tr :
    c_stop (d_call s0) = mkStop (Some T) None None -> 0 < T ->
    stop_after clk s0 tr = Ok (T <? clk (4 + cidx s0 (length tr - 1))%nat - d_start s0).
  Proof.
    intros Hc HT. unfold stop_after, check, check_reads_clock, time_exceeded. rewrite Hc. cbn.
    replace (T =? 0) with false by (symmetry; apply Z.eqb_neq; lia). cbn.
    destruct (T <? _); reflexivity.
  Qed.

  Theorem C14_holds : C14_statement.
  Proof.
    intros s s' c T Hm HT Hni Hs.
    destruct (search_spec sp f clk s c s' Hni Hs) as (s0 & tr & sE & b & Hi & He & Hf).
    destruct (init_search_spec _ _ _ _ _ Hi) as (mem & _ & Hs0).
    assert (Hcall : d_call s0 = c) by (rewrite Hs0; reflexivity).
    assert (Hrw0 : d_rows s0 = d_rows s) by (rewrite Hs0; reflexivity).
    assert (Hclk0 : d_clk s0 = S (d_clk s)) by (rewrite Hs0; reflexivity).
    assert (Hst0 : d_start s0 = clk (d_clk s)) by (rewrite Hs0; reflexivity).
    clear Hs0.
    destruct (ended_traced _ _ _ _ _ _ _ _ He) as (Tr & Hle & _).
    destruct (finish_search_spec _ _ _ Hf) as (bv & _ & Hs').
    assert (Hstop : c_stop (d_call s0) = mkStop (Some T) None None) by (rewrite Hcall; exact Hm).
    assert (Hrc : rc s0 = 1%nat).
    { unfold rc, check_reads_clock. rewrite Hstop. cbn. replace (T =? 0) with false by (symmetry; apply Z.eqb_neq; lia). reflexivity. }
    set (P := fun tr' : list ev => T <? elapsed_after (d_clk s) (length tr' - 1)).
    assert (HP : forall tr', tr' <> [] -> forall b', stop_after clk s0 tr' = Ok b' -> b' = P tr').
    { intros tr' _ b' Hb'. rewrite (stop_after_time s0 T tr' Hstop HT) in Hb'. injection Hb' as <-.
      unfold P, elapsed_after, cidx. rewrite Hrc, Hclk0, Hst0. f_equal. f_equal. f_equal. lia. }
    destruct (ended_exact sp f clk s0 _ tr sE b P He HP) as (Hearly & Hlate & _).
    exists (length tr). split; [|split; [|split]].
    - rewrite Hs'. cbn. rewrite (t_rows _ _ _ _ _ Tr), Hrw0, app_length, map_length. reflexivity.
    - exact Hle.
    - intros j Hj. specialize (Hearly (j + 1)%nat ltac:(lia)). unfold P in Hearly.
      rewrite firstn_length in Hearly. replace (Nat.min (j + 1) (length tr) - 1)%nat with j in Hearly by lia.
      apply Z.ltb_ge in Hearly. exact Hearly.
    - destruct Hlate as [Hl|[Hne Hp]]; [left; exact Hl|]. right. split.
      + destruct tr; [contradiction|cbn; lia].
      + unfold P in Hp. apply Z.ltb_lt in Hp. exact Hp.
  Qed.
End C14.
