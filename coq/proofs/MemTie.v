(* MemTie.v — the wrapper GENERATED from /repo's _memory.py (generated/MemGen.v) refines the memory branch of Driver.lookup: for every
   dictionary state, objective, value vector with the converter's parameter names (pairwise distinct, one per dimension). *)
Require Import Base PyPrims PyPrimsQ StopRun Converter ConverterFacts Driver C20_proofs MemGen.
From RecordUpdate Require Import RecordSet.
Import RecordSetNotations.
Open Scope Z_scope.


Section MemTie.
  Context {OP : optimizer}.
  Variable sp : space.
  Variable names : list Z.
  Variable f : nat -> values -> result.

  Definition mem_of (s : drv OP) : g_mem := mkGMem (d_mem s) (d_mem_new s) (d_fcalls s).
  Definition with_mem (s : drv OP) (g : g_mem) : drv OP :=
    s <| d_fcalls := mg_fcalls g |> <| d_mem := mg_memory_dict g |> <| d_mem_new := mg_memory_dict_new g |>.

  (* the results manager hands the wrapper para = value2para names v; para2value gives v back (C20's parameter round trip) *)
  Theorem memory_wrapper_tie (s : drv OP) (v : values) :
    NoDup names -> length names = length v -> c_memory (d_call s) = true ->
    match g_Memory_wrapper sp names f (mem_of s) (value2para names v) with
    | Ok (g', r) => lookup sp f s v = Ok (r, with_mem s g')
    | Err e => lookup sp f s v = Err e
    end.
  Proof.
    intros ND HL HM. unfold g_Memory_wrapper, lookup. rewrite HM.
    rewrite (para_roundtrip names v ND HL). cbn [bind].
    destruct (value2position sp v) as [key|e]; cbn [bind]; [|reflexivity].
    unfold dict_mem, mem_of. cbn [mg_memory_dict].
    destruct (dict_get pos_eqb key (d_mem s)) as [r|] eqn:E; cbn [py_dict_get bind].
    - unfold with_mem. destruct s; reflexivity.
    - unfold mg_objective. rewrite (para_roundtrip names v ND HL). cbn [bind mg_fcalls mg_memory_dict mg_memory_dict_new].
      unfold with_mem. destruct s; reflexivity.
  Qed.

  (* consequences stated for the generated wrapper itself: a hit never calls the objective and returns the stored result;
     a miss calls it exactly once, on the value vector, and stores the result under the key in both dictionaries *)
  Theorem memory_wrapper_hit (g : g_mem) (v : values) key r :
    NoDup names -> length names = length v -> value2position sp v = Ok key -> dict_get pos_eqb key (mg_memory_dict g) = Some r ->
    g_Memory_wrapper sp names f g (value2para names v) = Ok (g, r).
  Proof.
    intros ND HL HK HG. unfold g_Memory_wrapper. rewrite (para_roundtrip names v ND HL). cbn [bind]. rewrite HK. cbn [bind].
    unfold dict_mem. rewrite HG. cbn. reflexivity.
  Qed.

  Theorem memory_wrapper_miss (g : g_mem) (v : values) key :
    NoDup names -> length names = length v -> value2position sp v = Ok key -> dict_get pos_eqb key (mg_memory_dict g) = None ->
    g_Memory_wrapper sp names f g (value2para names v) =
    Ok (mkGMem (dict_set pos_eqb key (f (length (mg_fcalls g)) v) (mg_memory_dict g))
               (dict_set pos_eqb key (f (length (mg_fcalls g)) v) (mg_memory_dict_new g))
               (mg_fcalls g ++ [v]), f (length (mg_fcalls g)) v).
  Proof.
    intros ND HL HK HG. unfold g_Memory_wrapper. rewrite (para_roundtrip names v ND HL). cbn [bind]. rewrite HK. cbn [bind].
    unfold dict_mem. rewrite HG. cbn [bind]. unfold mg_objective. rewrite (para_roundtrip names v ND HL). cbn [bind].
    destruct g; reflexivity.
  Qed.
End MemTie.
