(* CoreFacts.v — closure of the move operators: whatever the draws, a returned position is a genuine,
   feasible point of the search space; the rejection loops exit at the first feasible candidate. *)
Require Import Base Converter ConverterFacts CoreOpt ListFacts.

Definition is_suffix {A} (t' t : list A) : Prop := exists pre, t = pre ++ t'.
Lemma is_suffix_refl {A} (t : list A) : is_suffix t t. Proof. exists []. reflexivity. Qed.
Lemma is_suffix_trans {A} (a b c : list A) : is_suffix a b -> is_suffix b c -> is_suffix a c.
Proof. intros [p ->] [q ->]. exists (q ++ p). rewrite app_assoc. reflexivity. Qed.
Lemma is_suffix_cons {A} (x : A) t : is_suffix t (x :: t). Proof. exists [x]. reflexivity. Qed.

Definition nan_free (t : tape) : Prop := Forall (fun d => d <> DNaN) t.
Lemma nan_free_suffix t' t : is_suffix t' t -> nan_free t -> nan_free t'.
Proof. intros [pre ->] H. apply Forall_app in H. tauto. Qed.

(* every dimension has at least one value *)
Definition dims_ok (sp : space) : Prop := Forall (fun dim => 1 <= zlen dim) sp.

Lemma clip_int_range maxp r : 0 <= maxp -> r <> RNaN -> 0 <= clip_int maxp r <= maxp.
Proof. intros Hm Hr. destruct r; cbn; try lia. congruence. Qed.

Lemma clip_all_in_box_gen (s : space) : dims_ok s -> forall rs, length rs = length s -> Forall (fun r => r <> RNaN) rs ->
  in_box s (map (fun mr => clip_int (fst mr) (snd mr)) (zip (max_positions s) rs)).
Proof.
  unfold in_box, max_positions. induction 1 as [|dim s Hd Hs IH]; intros rs Hl Hr.
  - destruct rs; [constructor|discriminate].
  - destruct rs as [|r rs]; [discriminate|]. inversion Hr; subst. cbn. constructor.
    + pose proof (clip_int_range (zlen dim - 1) r ltac:(lia) H1). lia.
    + apply IH; [cbn in Hl; lia|assumption].
Qed.

(* the particle / spiral move: whatever the velocity (huge, negative, non-finite), the result is in the box *)
Lemma move_part_in_box (s : space) : dims_ok s -> forall p velo, length p = length s -> length velo = length s ->
  in_box s (move_part s p velo).
Proof.
  unfold in_box, move_part, max_positions. induction 1 as [|dim s Hd Hs IH]; intros p velo Hp Hv.
  - destruct p; [constructor|discriminate].
  - destruct p as [|z p]; [discriminate|]. destruct velo as [|x velo]; [discriminate|]. cbn. constructor.
    + lia.
    + apply IH; cbn in *; lia.
Qed.

Section CoreFacts.
  Variable sp : space.
  Variable cons : values -> bool.
  Hypothesis Hdims : dims_ok sp.

  Definition emit_ok (p : pos) : Prop := in_box sp p /\ feasible sp cons p = Ok true.

  (* ---------- move_random ---------- *)
  Lemma draw_position_spec dims : forall t p t', draw_position dims t = Ok (p, t') ->
    Forall2 (fun d i => 0 <= i < d) dims p /\ t = map DZ p ++ t'.
  Proof.
    induction dims as [|d dims IH]; intros t p t' H; cbn in H.
    - inversion H; subst. split; [constructor|reflexivity].
    - destruct t as [|[z| | | |] t0]; try discriminate.
      destruct ((0 <=? z) && (z <? d)) eqn:R; [|discriminate].
      destruct (draw_position dims t0) as [[p0 t1]|] eqn:E; cbn in H; [|discriminate]. inversion H; subst.
      destruct (IH _ _ _ E) as [A ->]. apply andb_prop in R. destruct R as [R1 R2].
      split; [constructor; [lia|assumption]|reflexivity].
  Qed.

  Lemma in_box_dim_sizes p : Forall2 (fun d i => 0 <= i < d) (dim_sizes sp) p <-> in_box sp p.
  Proof.
    unfold in_box, dim_sizes. clear Hdims. revert p. induction sp as [|dim s IH]; intros p; cbn.
    - split; intros H; inversion H; constructor.
    - split; intros H; inversion H; subst; constructor; try assumption; apply IH; assumption.
  Qed.

  (* every in-box position is produced by some draws: the index tuples ARE the positions *)
  Lemma draw_position_complete p t : in_box sp p -> draw_position (dim_sizes sp) (map DZ p ++ t) = Ok (p, t).
  Proof.
    intros H. apply in_box_dim_sizes in H. revert H. generalize (dim_sizes sp). intros dims H.
    induction H as [|d i dims p Hi _ IH]; cbn; [reflexivity|].
    replace ((0 <=? i) && (i <? d)) with true by (symmetry; apply andb_true_intro; split; [apply Z.leb_le|apply Z.ltb_lt]; lia).
    rewrite IH. reflexivity.
  Qed.

  Lemma move_random_ok fuel : forall t c p t' c', move_random sp cons fuel t c = Ok (p, t', c') ->
    emit_ok p /\ is_suffix t' t /\ c < c'.
  Proof.
    induction fuel as [|f IH]; intros t c p t' c' H; cbn in H; [discriminate|].
    destruct (draw_position (dim_sizes sp) t) as [[q t1]|] eqn:E; cbn in H; [|discriminate].
    destruct (draw_position_spec _ _ _ _ E) as [Hb ->].
    destruct (feasible sp cons q) as [[|]|] eqn:F; cbn in H; try discriminate.
    - inversion H; subst. split; [split; [apply in_box_dim_sizes; assumption|assumption]|]. split; [eexists; reflexivity|lia].
    - destruct (IH _ _ _ _ _ H) as (A & B & C). split; [assumption|]. split; [|lia].
      eapply is_suffix_trans; [exact B|]. eexists; reflexivity.
  Qed.

  (* the loop exits at the first feasible candidate, after exactly one constraint evaluation per candidate *)
  Lemma move_random_exit f t c p t' : draw_position (dim_sizes sp) t = Ok (p, t') -> feasible sp cons p = Ok true ->
    move_random sp cons (S f) t c = Ok (p, t', c + 1).
  Proof. intros E F. cbn. rewrite E. cbn. rewrite F. reflexivity. Qed.
  Lemma move_random_retry f t c p t' : draw_position (dim_sizes sp) t = Ok (p, t') -> feasible sp cons p = Ok false ->
    move_random sp cons (S f) t c = move_random sp cons f t' (c + 1).
  Proof. intros E F. cbn. rewrite E. cbn. rewrite F. reflexivity. Qed.

  Theorem move_random_first_feasible (rejected : list pos) (p : pos) (rest : tape) c :
    Forall (fun q => in_box sp q /\ feasible sp cons q = Ok false) rejected ->
    in_box sp p -> feasible sp cons p = Ok true ->
    forall fuel, (length rejected < fuel)%nat ->
    move_random sp cons fuel (flat_map (map DZ) rejected ++ map DZ p ++ rest) c
      = Ok (p, rest, c + Z.of_nat (length rejected) + 1).
  Proof.
    intros Hr Hp Hf. revert c. induction Hr as [|q rej [Hq Hqf] _ IH]; intros c fuel Hfuel.
    - destruct fuel; [cbn in Hfuel; lia|]. cbn [flat_map app length]. rewrite (move_random_exit _ _ _ p rest); [f_equal; f_equal; lia| |assumption].
      apply draw_position_complete. assumption.
    - destruct fuel; [cbn in Hfuel; lia|]. cbn [flat_map length]. rewrite <- app_assoc.
      rewrite (move_random_retry _ _ _ q (flat_map (map DZ) rej ++ map DZ p ++ rest)); [| apply draw_position_complete; assumption|assumption].
      rewrite IH by (cbn in Hfuel; lia). f_equal. f_equal. lia.
  Qed.

  (* ---------- conv2pos ---------- *)
  Lemma read_reals_spec n : forall t xs t', read_reals n t = Ok (xs, t') ->
    length xs = n /\ is_suffix t' t /\ (nan_free t -> Forall (fun x => x <> XNaN) xs).
  Proof.
    induction n as [|n IH]; intros t xs t' H; cbn in H.
    - inversion H; subst. split; [reflexivity|]. split; [apply is_suffix_refl|constructor].
    - destruct t as [|d t0]; [discriminate|]. destruct (xreal_of_draw d) as [x|] eqn:Ex; cbn in H; [|discriminate].
      destruct (read_reals n t0) as [[xs0 t1]|] eqn:E; cbn in H; [|discriminate]. inversion H; subst.
      destruct (IH _ _ _ E) as (A & B & C). split; [cbn; lia|]. split.
      + eapply is_suffix_trans; [exact B|apply is_suffix_cons].
      + intros Hn. inversion Hn; subst. constructor; [|apply C; assumption].
        destruct d; cbn in Ex; inversion Ex; subst; try discriminate. congruence.
  Qed.

  Lemma clip_all_in_box (rs : list rint_t) : length rs = length sp -> Forall (fun r => r <> RNaN) rs ->
    in_box sp (map (fun mr => clip_int (fst mr) (snd mr)) (zip (max_positions sp) rs)).
  Proof. apply clip_all_in_box_gen. exact Hdims. Qed.

  Lemma conv2pos_ok fuel xs t c p t' c' :
    length xs = length sp -> Forall (fun x => x <> XNaN) xs ->
    conv2pos sp cons fuel xs t c = Ok (p, t', c') -> in_box sp p /\ is_suffix t' t /\ c <= c'.
  Proof.
    intros Hl Hx H. unfold conv2pos in H. destruct (far_outside sp (map rint_x xs)).
    - destruct (move_random_ok _ _ _ _ _ _ H) as ((A & _) & B & C). split; [assumption|]. split; [assumption|lia].
    - inversion H; subst. split; [|split; [apply is_suffix_refl|lia]].
      apply clip_all_in_box; [rewrite map_length; assumption|].
      apply Forall_forall. intros r Hr. apply in_map_iff in Hr. destruct Hr as (x & <- & Hx').
      rewrite Forall_forall in Hx. specialize (Hx x Hx'). destruct x; cbn; congruence.
  Qed.

  (* an already legal integer position passes through unchanged *)
  Lemma rint_dyadic_int z : rint_dyadic z 0 = z.
  Proof. unfold rint_dyadic. cbn. lia. Qed.

  (* the escape route of move_climb: a sample far outside the box turns the candidate into a fresh random point *)
  Lemma conv2pos_far fuel xs t c : far_outside sp (map rint_x xs) = true ->
    conv2pos sp cons fuel xs t c = move_random sp cons fuel t c.
  Proof. intros H. unfold conv2pos. rewrite H. reflexivity. Qed.

  (* ---------- move_climb ---------- *)
  Lemma move_climb_ok fuel : forall t c p t' c', nan_free t ->
    move_climb sp cons fuel t c = Ok (p, t', c') -> emit_ok p /\ is_suffix t' t /\ c < c'.
  Proof.
    induction fuel as [|f IH]; intros t c p t' c' Hn H; [discriminate|]. cbn [move_climb] in H.
    destruct (read_reals (length sp) t) as [[xs t1]|] eqn:E; cbn [bind fst snd] in H; [|discriminate].
    destruct (read_reals_spec _ _ _ _ E) as (Hl & Hs1 & Hx). specialize (Hx Hn).
    destruct (conv2pos sp cons (S f) xs t1 c) as [[[q t2] c2]|] eqn:Ec; cbn [bind] in H; [|discriminate].
    destruct (conv2pos_ok _ _ _ _ _ _ _ Hl Hx Ec) as (Hb & Hs2 & Hc).
    destruct (feasible sp cons q) as [[|]|] eqn:F; cbn [bind] in H; try discriminate.
    - inversion H; subst. split; [split; assumption|]. split; [eapply is_suffix_trans; eassumption|lia].
    - assert (Hn2 : nan_free t2) by (eapply nan_free_suffix; [|exact Hn]; eapply is_suffix_trans; eassumption).
      destruct (IH _ _ _ _ _ Hn2 H) as (A & B & C). split; [assumption|]. split; [|lia].
      eapply is_suffix_trans; [exact B|]. eapply is_suffix_trans; eassumption.
  Qed.

  (* exits at the first feasible candidate: one pass of the loop suffices when the converted candidate is feasible *)
  Lemma move_climb_exit f t c xs t1 q t2 c2 :
    read_reals (length sp) t = Ok (xs, t1) -> conv2pos sp cons (S f) xs t1 c = Ok (q, t2, c2) ->
    feasible sp cons q = Ok true -> move_climb sp cons (S f) t c = Ok (q, t2, c2 + 1).
  Proof. intros E Ec F. cbn [move_climb]. rewrite E. cbn [bind fst snd]. rewrite Ec. cbn [bind]. rewrite F. reflexivity. Qed.

  (* ---------- random_iteration ---------- *)
  Lemma random_iteration_ok rm re fuel t body p t' c' :
    (forall t0 p0 t0' c0, nan_free t0 -> body t0 = Ok (p0, t0', c0) -> emit_ok p0 /\ is_suffix t0' t0 /\ 0 < c0) ->
    nan_free t -> random_iteration sp cons rm re fuel t body = Ok (p, t', c') -> emit_ok p /\ is_suffix t' t /\ 0 < c'.
  Proof.
    intros Hbody Hn H. unfold random_iteration in H. destruct t as [|[| um ue | | |] t0]; try discriminate.
    assert (Hn0 : nan_free t0) by (inversion Hn; assumption).
    destruct (dyadic_gt rm re um ue).
    - destruct (move_random_ok _ _ _ _ _ _ H) as (A & B & C). split; [assumption|]. split; [|lia].
      eapply is_suffix_trans; [exact B|apply is_suffix_cons].
    - destruct (Hbody _ _ _ _ Hn0 H) as (A & B & C). split; [assumption|]. split; [|assumption].
      eapply is_suffix_trans; [exact B|apply is_suffix_cons].
  Qed.
End CoreFacts.
