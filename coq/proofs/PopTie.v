(* PopTie.v — split() GENERATED from /repo's pop_opt/base_population_optimizer.py (generated/PopGen.v): the round-robin deal of the
   initial positions.  C10's schedule theorem for the generated code: with P individuals, individual t mod P's (t / P)-th own position is
   positions_l[t], for every list, population size and t below the length. *)
Require Import Base PyPrims PyPrimsQ Converter Init ListFacts ConverterFacts C20_proofs C10_proofs PopGen.
Open Scope Z_scope.

Section PopTie.
  (* what individual i receives when j ranges over js: the entries i + j*P that exist *)
  Definition deal (l : list pos) (P i : nat) (js : list nat) : list pos :=
    flat_map (fun j => match nth_error l (i + j * P) with Some x => [x] | None => [] end) js.

  Lemma inner_loop (l : list pos) (P i : nat) (body : list pos -> Z -> res (list pos)) :
    (forall acc j, body acc (Z.of_nat j) = Ok (acc ++ match nth_error l (i + j * P) with Some x => [x] | None => [] end)) ->
    forall js acc, py_for body (map Z.of_nat js) acc = Ok (acc ++ deal l P i js).
  Proof.
    intros H. induction js as [|j js IH]; intros acc; cbn [map py_for deal flat_map].
    - rewrite app_nil_r. reflexivity.
    - rewrite H. cbn [bind]. rewrite IH. rewrite <- app_assoc. reflexivity.
  Qed.

  Lemma getitem_nat (l : list pos) (n : nat) :
    (if Z.of_nat n <? zlen l then (do x <- py_getitem l (Z.of_nat n); Ok [x]) else Ok []) =
    Ok (match nth_error l n with Some x => [x] | None => [] end).
  Proof.
    unfold zlen. destruct (Z.ltb_spec (Z.of_nat n) (Z.of_nat (length l))) as [Hlt|Hge].
    - unfold py_getitem, nth_py, zlen. destruct (Z.ltb_spec (Z.of_nat n) 0); [lia|].
      replace ((Z.of_nat n <? 0) || (Z.of_nat (length l) <=? Z.of_nat n)) with false by (symmetry; apply orb_false_intro; [apply Z.ltb_ge|apply Z.leb_gt]; lia).
      rewrite Nat2Z.id. destruct (nth_error l n) as [x|] eqn:E; [reflexivity|]. apply nth_error_None in E. lia.
    - destruct (nth_error l n) as [x|] eqn:E; [|reflexivity]. assert (n < length l)%nat by (apply nth_error_Some; congruence). lia.
  Qed.

  Definition py_range_nat (n : nat) : py_range (Z.of_nat n) = map Z.of_nat (seq 0 n).
  Proof. unfold py_range. rewrite Nat2Z.id. reflexivity. Qed.

  Theorem g_split_spec (l : list pos) (P : nat) : (0 < P)%nat ->
    let div := Z.to_nat (- ((- zlen l) / Z.of_nat P)) in
    g_split l (Z.of_nat P) = Ok (map (fun i => deal l P i (seq 0 div)) (seq 0 P)).
  Proof.
    intros HP div. unfold g_split, py_ceil_truediv. destruct (Z.eqb_spec (Z.of_nat P) 0) as [E|_]; [lia|]. cbn [bind]. cbv zeta.
    assert (Hd : 0 <= - (- zlen l / Z.of_nat P)).
    { unfold zlen. pose proof (Z.div_le_upper_bound (- Z.of_nat (length l)) (Z.of_nat P) 0 ltac:(lia) ltac:(lia)). lia. }
    replace (- (- zlen l / Z.of_nat P)) with (Z.of_nat div) by (unfold div; rewrite Z2Nat.id; [reflexivity|exact Hd]).
    rewrite (py_range_nat P), (py_range_nat div).
    assert (G : forall is acc, py_for (fun st nth_indiv_v => let 'dist_init_positions_v := st in
                 do indiv_pos_v <- py_for (fun st0 nth_indiv_pos_v => let 'indiv_pos_v := st0 in
                     do indiv_pos_v0 <- (if nth_indiv_v + nth_indiv_pos_v * Z.of_nat P <? zlen l
                                         then (do tmp2 <- py_getitem l (nth_indiv_v + nth_indiv_pos_v * Z.of_nat P); Ok (indiv_pos_v ++ [tmp2]))
                                         else Ok indiv_pos_v); Ok indiv_pos_v0) (map Z.of_nat (seq 0 div)) [];
                 Ok (dist_init_positions_v ++ [indiv_pos_v])) (map Z.of_nat is) acc
               = Ok (acc ++ map (fun i => deal l P i (seq 0 div)) is)).
    { induction is as [|i is IH]; intros acc; cbn [map py_for]; [rewrite app_nil_r; reflexivity|].
      rewrite (inner_loop l P i).
      - cbn [bind app]. rewrite IH, <- app_assoc. reflexivity.
      - intros acc0 j. replace (Z.of_nat i + Z.of_nat j * Z.of_nat P) with (Z.of_nat (i + j * P)) by lia.
        pose proof (getitem_nat l (i + j * P)) as GI.
        destruct (Z.of_nat (i + j * P) <? zlen l).
        + destruct (py_getitem l (Z.of_nat (i + j * P))) as [x|e]; cbn [bind] in *; [|discriminate]. inversion GI as [GI']. reflexivity.
        + inversion GI as [GI']. cbn [bind]. rewrite app_nil_r. reflexivity. }
    rewrite (G (seq 0 P) []). reflexivity.
  Qed.

  Lemma deal_prefix (l : list pos) (P i m : nat) : (forall j, (j < m)%nat -> (i + j * P < length l)%nat) ->
    forall s, (forall j, In j (seq s m) -> (i + j * P < length l)%nat) ->
    length (deal l P i (seq s m)) = m /\ forall q, (q < m)%nat -> nth_error (deal l P i (seq s m)) q = nth_error l (i + (s + q) * P).
  Proof.
    intros _. induction m as [|m IH]; intros s Hs; cbn [seq deal flat_map].
    - split; [reflexivity|intros q Hq; lia].
    - assert (Hi : (i + s * P < length l)%nat) by (apply Hs; left; reflexivity).
      destruct (nth_error l (i + s * P)) as [x|] eqn:E; [|apply nth_error_None in E; lia].
      destruct (IH (S s) ltac:(intros j Hj; apply Hs; right; exact Hj)) as [L N].
      cbn [app length]. fold (deal l P i (seq (S s) m)). split; [rewrite L; reflexivity|].
      intros [|q] Hq; cbn [nth_error]; [rewrite Nat.add_0_r; symmetry; exact E|].
      rewrite N by lia. f_equal. lia.
  Qed.

  Theorem source_split_round_robin (l : list pos) (P t : nat) : (0 < P)%nat -> (t < length l)%nat ->
    exists shares, g_split l (Z.of_nat P) = Ok shares /\ pop_init_pos shares P t = nth_error l t.
  Proof.
    intros HP Ht. eexists. split; [apply g_split_spec; exact HP|].
    set (div := Z.to_nat (- ((- zlen l) / Z.of_nat P))).
    unfold pop_init_pos.
    assert (Hm : (t mod P < P)%nat) by (apply Nat.mod_upper_bound; lia).
    rewrite nth_error_map, (nth_error_seq0 P (t mod P)%nat Hm). cbn [option_map].
    pose proof (Nat.div_mod t P ltac:(lia)) as D.
    set (q := (t / P)%nat) in *. set (i := (t mod P)%nat) in *.
    assert (Hq : (q < div)%nat).
    { unfold div, zlen. apply Nat2Z.inj_lt. rewrite Z2Nat.id.
      - assert (Z.of_nat (length l) <= (- (- Z.of_nat (length l) / Z.of_nat P)) * Z.of_nat P).
        { pose proof (Z.div_mod (- Z.of_nat (length l)) (Z.of_nat P) ltac:(lia)). pose proof (Z.mod_pos_bound (- Z.of_nat (length l)) (Z.of_nat P) ltac:(lia)). nia. }
        nia.
      - pose proof (Z.div_le_upper_bound (- Z.of_nat (length l)) (Z.of_nat P) 0 ltac:(lia) ltac:(lia)). lia. }
    replace (seq 0 div) with (seq 0 (S q) ++ seq (S q) (div - S q)) by (rewrite <- seq_app; f_equal; lia).
    unfold deal. rewrite flat_map_app. fold (deal l P i (seq 0 (S q))).
    destruct (deal_prefix l P i (S q) ltac:(intros j Hj; nia) 0%nat ltac:(intros j Hj; apply in_seq in Hj; nia)) as [L N].
    rewrite nth_error_app1 by lia. rewrite N by lia. f_equal. nia.
  Qed.
End PopTie.
