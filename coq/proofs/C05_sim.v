(* C05_sim.v — the result of search() does not depend on the verbosity: the run with the tqdm progress bar
   (ProgressBarLVL1) and the silent run (ProgressBarLVL0) go through the same states, except for the
   progress bar's own "best since iteration" counter.  Lock-step simulation, as for C06. *)
Require Import Base StopRun Converter Driver DriverFacts.
From RecordUpdate Require Import RecordSet.
Import RecordSetNotations.

Section VSim.
  Context {OP : optimizer}.
  Variable sp : space.
  Variable f : nat -> values -> result.
  Variable clk : nat -> Z.

  Definition call_silent (c : call) : call := mkCall (c_n_iter c) (c_stop c) (c_memory c) (c_warm c) false.
  Definition pb_core (b : pbar) (z : Z) : pbar := mkPbar (pb_best b) (pb_pos b) z.

  (* t is s with the silent progress bar and an arbitrary "since" counter *)
  Definition vir (s t : drv OP) : Prop :=
    exists z, t = s <| d_call := call_silent (d_call s) |> <| d_pbar := pb_core (d_pbar s) z |>.

  Definition voblivious (g : drv OP -> drv OP) : Prop :=
    (forall x, d_call (g x) = d_call x /\ d_pbar (g x) = d_pbar x) /\
    (forall x cl pb, g (x <| d_call := cl |> <| d_pbar := pb |>) = (g x) <| d_call := cl |> <| d_pbar := pb |>).

  Lemma vir_upd g s t : voblivious g -> vir s t -> vir (g s) (g t).
  Proof. intros [Ha Hb] [z ->]. destruct (Ha s) as [Hc Hp]. exists z. rewrite Hb, Hc, Hp. reflexivity. Qed.

  Ltac vobl := split; [intros x; destruct x; split; reflexivity | intros x cl pb; destruct x; reflexivity].

  Definition vsimres (a b : res (drv OP)) : Prop :=
    match a, b with Ok s', Ok t' => vir s' t' | Err _, Err _ => True | _, _ => False end.
  Definition vsimres2 {A} (a b : res (A * drv OP)) : Prop :=
    match a, b with Ok (x, s'), Ok (y, t') => x = y /\ vir s' t' | Err _, Err _ => True | _, _ => False end.

  Lemma vir_fields s t : vir s t ->
    d_opt t = d_opt s /\ d_clk t = d_clk s /\ pb_best (d_pbar t) = pb_best (d_pbar s) /\ pb_pos (d_pbar t) = pb_pos (d_pbar s) /\
    c_lvl1 (d_call t) = false /\ c_memory (d_call t) = c_memory (d_call s) /\ d_mem t = d_mem s /\ d_fcalls t = d_fcalls s /\
    d_n_inits_norm t = d_n_inits_norm s /\ d_n_init_search t = d_n_init_search s /\
    c_n_iter (d_call t) = c_n_iter (d_call s) /\ c_stop (d_call t) = c_stop (d_call s) /\
    d_start t = d_start s /\ d_score_l t = d_score_l s.
  Proof. intros [z ->]. cbn. repeat split; reflexivity. Qed.

  Lemma lookup_vsim s t v : vir s t -> vsimres2 (lookup sp f s v) (lookup sp f t v).
  Proof.
    intros M. destruct (vir_fields _ _ M) as (_ & _ & _ & _ & _ & Hm & Hmem & Hfc & _).
    unfold lookup. rewrite Hm, Hmem, Hfc.
    destruct (c_memory (d_call s)).
    - destruct (value2position sp v) as [key|e]; cbn [bind]; [|exact I].
      destruct (dict_get pos_eqb key (d_mem s)) as [r|].
      + split; [reflexivity|exact M].
      + split; [reflexivity|].
        apply (vir_upd (fun x => x <| d_fcalls ::= (fun l => l ++ [v]) |> <| d_mem ::= dict_set pos_eqb key (f (length (d_fcalls s)) v) |>
                                  <| d_mem_new ::= dict_set pos_eqb key (f (length (d_fcalls s)) v) |>)); [vobl|exact M].
    - split; [reflexivity|]. apply (vir_upd (fun x => x <| d_fcalls ::= (fun l => l ++ [v]) |>)); [vobl|exact M].
  Qed.

  Lemma score_of_vsim s t p : vir s t -> vsimres2 (score_of sp f clk s p) (score_of sp f clk t p).
  Proof.
    intros M. unfold score_of, tick. destruct (vir_fields _ _ M) as (_ & Hc & _). rewrite Hc. cbn zeta iota beta.
    destruct (position2value sp p) as [v|e]; cbn [bind]; [|exact I].
    assert (M1 : vir (s <| d_clk ::= S |>) (t <| d_clk ::= S |>)) by (apply (vir_upd (fun x => x <| d_clk ::= S |>)); [vobl|exact M]).
    pose proof (lookup_vsim _ _ v M1) as HL.
    destruct (lookup sp f (s <| d_clk ::= S |>) v) as [[r s']|e1]; destruct (lookup sp f (t <| d_clk ::= S |>) v) as [[r' t']|e2]; try contradiction; cbn [bind]; [|exact I].
    destruct HL as [<- M2]. destruct (vir_fields _ _ M2) as (_ & Hc2 & _). cbn. rewrite Hc2. split; [reflexivity|].
    apply (vir_upd (fun x => x <| d_rows ::= (fun l => l ++ [result_row r v]) |> <| d_clk ::= S |>
                              <| d_eval_times ::= (fun l => l ++ [clk (d_clk s') - clk (d_clk s)]) |>)); [vobl|exact M2].
  Qed.

  (* the two update paths keep the states related *)
  Lemma pbar_vsim s t sc p k : vir s t ->
    vir (s <| d_pbar := pbar_update s sc p k |>) (t <| d_pbar := pbar_update t sc p k |>).
  Proof.
    intros [z ->]. exists z. unfold pbar_update, pbar_update_lvl1, pbar_update_lvl0, new2best, better, pb_core, call_silent.
    destruct s as [o rows pl sl nit nitt et it ck fc cl st pb]. destruct pb as [b q w]. cbn.
    destruct (c_lvl1 cl); cbn; destruct (sgt sc b) eqn:E1; cbn; rewrite ?E1; cbn;
      destruct (is_none q && seqb sc b) eqn:E2; cbn; rewrite ?E1, ?E2; cbn; reflexivity.
  Qed.

  Section VStep.
    Variable propose : ost OP -> res (ost OP * pos).
    Variable digest : ost OP -> score -> res (ost OP).
    Variable bump : drv OP -> drv OP.
    Hypothesis bump_obl : voblivious bump.

    Definition vgen_step (s : drv OP) (nth_iter : Z) : res (drv OP) :=
      let '(t0, s) := tick clk s in
      do op <- propose (d_opt s);
      let '(o1, p) := op in
      let s := s <| d_opt := o1 |> in
      do ss <- score_of sp f clk s p;
      let '(sc, s) := ss in
      do o2 <- digest (d_opt s) sc;
      let s := s <| d_opt := o2 |> <| d_pos_l ::= (fun l => l ++ [p]) |> <| d_score_l ::= (fun l => l ++ [sc]) |> in
      let s := bump (s <| d_pbar := pbar_update s sc p nth_iter |>) in
      let '(t1, s) := tick clk s in
      Ok (s <| d_iter_times ::= (fun l => l ++ [t1 - t0]) |>).

    Lemma vgen_step_sim s t k : vir s t -> vsimres (vgen_step s k) (vgen_step t k).
    Proof.
      intros M. destruct (vir_fields _ _ M) as (Ho & Hc & _). unfold vgen_step, tick. rewrite Hc. cbn zeta iota beta.
      replace (d_opt (t <| d_clk ::= S |>)) with (d_opt (s <| d_clk ::= S |>)) by (cbn; symmetry; exact Ho).
      destruct (propose (d_opt (s <| d_clk ::= S |>))) as [[o1 p]|e]; cbn [bind]; [|exact I].
      assert (M1 : vir (s <| d_clk ::= S |> <| d_opt := o1 |>) (t <| d_clk ::= S |> <| d_opt := o1 |>))
        by (apply (vir_upd (fun x => x <| d_clk ::= S |> <| d_opt := o1 |>)); [vobl|exact M]).
      pose proof (score_of_vsim _ _ p M1) as Hsc.
      destruct (score_of sp f clk (s <| d_clk ::= S |> <| d_opt := o1 |>) p) as [[sc s']|e1];
        destruct (score_of sp f clk (t <| d_clk ::= S |> <| d_opt := o1 |>) p) as [[sc' t']|e2]; try contradiction; cbn [bind]; [|exact I].
      destruct Hsc as [<- M2]. destruct (vir_fields _ _ M2) as (Ho2 & _). rewrite Ho2.
      destruct (digest (d_opt s') sc) as [o2|e3]; cbn [bind]; [|exact I].
      set (g1 := fun x : drv OP => x <| d_opt := o2 |> <| d_pos_l ::= (fun l => l ++ [p]) |> <| d_score_l ::= (fun l => l ++ [sc]) |>).
      assert (M3 : vir (g1 s') (g1 t')) by (apply vir_upd; [unfold g1; vobl|exact M2]).
      change (s' <| d_opt := o2 |> <| d_pos_l ::= (fun l => l ++ [p]) |> <| d_score_l ::= (fun l => l ++ [sc]) |>) with (g1 s').
      change (t' <| d_opt := o2 |> <| d_pos_l ::= (fun l => l ++ [p]) |> <| d_score_l ::= (fun l => l ++ [sc]) |>) with (g1 t').
      assert (M4 : vir (bump (g1 s' <| d_pbar := pbar_update (g1 s') sc p k |>)) (bump (g1 t' <| d_pbar := pbar_update (g1 t') sc p k |>))).
      { apply vir_upd; [exact bump_obl|]. apply pbar_vsim. exact M3. }
      destruct (vir_fields _ _ M4) as (_ & Hc4 & _). rewrite Hc4. cbn zeta iota beta.
      apply (vir_upd (fun x => x <| d_clk ::= S |> <| d_iter_times ::= (fun l => l ++ [clk (d_clk (bump (g1 s' <| d_pbar := pbar_update (g1 s') sc p k |>))) - clk (d_clk s)]) |>)); [vobl|exact M4].
    Qed.
  End VStep.

  Definition vbump_init (x : drv OP) : drv OP := x <| d_n_init_total ::= Z.succ |> <| d_n_init_search ::= Z.succ |>.
  Definition vbump_iter (x : drv OP) : drv OP := x <| d_n_iter_total ::= Z.succ |> <| d_n_iter_search ::= Z.succ |>.

  Lemma initialization_vsim s t k : vir s t -> vsimres (initialization sp f clk s k) (initialization sp f clk t k).
  Proof. intros M. change (vsimres (vgen_step (o_init_pos OP) (o_eval_init OP) vbump_init s k) (vgen_step (o_init_pos OP) (o_eval_init OP) vbump_init t k)).
    apply vgen_step_sim; [unfold vbump_init; vobl|exact M]. Qed.
  Lemma iteration_vsim s t k : vir s t -> vsimres (iteration sp f clk s k) (iteration sp f clk t k).
  Proof. intros M. change (vsimres (vgen_step (o_iterate OP) (o_evaluate OP) vbump_iter s k) (vgen_step (o_iterate OP) (o_evaluate OP) vbump_iter t k)).
    apply vgen_step_sim; [unfold vbump_iter; vobl|exact M]. Qed.

  Lemma search_step_vsim s t k : vir s t -> vsimres (search_step sp f clk s k) (search_step sp f clk t k).
  Proof.
    intros M. unfold search_step. destruct (vir_fields _ _ M) as (_ & _ & _ & _ & _ & _ & _ & _ & Hn & _). rewrite Hn.
    assert (H1 : vsimres (if k <? d_n_inits_norm s then initialization sp f clk s k else Ok s)
                         (if k <? d_n_inits_norm s then initialization sp f clk t k else Ok t)).
    { destruct (k <? d_n_inits_norm s); [apply initialization_vsim; exact M|exact M]. }
    destruct (if k <? d_n_inits_norm s then initialization sp f clk s k else Ok s) as [s1|e1];
      destruct (if k <? d_n_inits_norm s then initialization sp f clk t k else Ok t) as [t1|e1']; try contradiction; cbn [bind]; [|exact I].
    cbn in H1. destruct (vir_fields _ _ H1) as (Ho1 & _ & _ & _ & _ & _ & _ & _ & _ & Hs1 & _). rewrite Hs1, Ho1.
    assert (H2 : vsimres (if k =? d_n_init_search s1 then do o' <- o_finish_init OP (d_opt s1); Ok (s1 <| d_opt := o' |>) else Ok s1)
                         (if k =? d_n_init_search s1 then do o' <- o_finish_init OP (d_opt s1); Ok (t1 <| d_opt := o' |>) else Ok t1)).
    { destruct (k =? d_n_init_search s1); [|exact H1]. destruct (o_finish_init OP (d_opt s1)) as [o'|e]; cbn [bind]; [|exact I].
      apply (vir_upd (fun x => x <| d_opt := o' |>)); [vobl|exact H1]. }
    destruct (if k =? d_n_init_search s1 then do o' <- o_finish_init OP (d_opt s1); Ok (s1 <| d_opt := o' |>) else Ok s1) as [s2|e2];
      destruct (if k =? d_n_init_search s1 then do o' <- o_finish_init OP (d_opt s1); Ok (t1 <| d_opt := o' |>) else Ok t1) as [t2|e2']; try contradiction; cbn [bind]; [|exact I].
    cbn in H2. destruct (vir_fields _ _ H2) as (_ & _ & _ & _ & _ & _ & _ & _ & _ & Hs2 & Hn2 & _). rewrite Hs2, Hn2.
    destruct ((d_n_init_search s2 <=? k) && (k <? c_n_iter (d_call s2))); [apply iteration_vsim; exact H2|exact H2].
  Qed.

  Lemma stop_check_vsim s t : vir s t -> vsimres2 (stop_check clk s) (stop_check clk t).
  Proof.
    intros M. unfold stop_check, tick. destruct (vir_fields _ _ M) as (_ & Hc & Hb & _ & _ & _ & _ & _ & _ & _ & _ & Hst & Hsta & Hsl).
    rewrite Hst, Hc, Hb, Hsta, Hsl.
    destruct (check_reads_clock (c_stop (d_call s))); cbn zeta iota beta.
    - destruct (check _ _ _ _ _) as [b|e]; cbn [bind]; [|exact I]. split; [reflexivity|].
      apply (vir_upd (fun x => x <| d_clk ::= S |>)); [vobl|exact M].
    - destruct (check _ _ _ _ _) as [b|e]; cbn [bind]; [|exact I]. split; [reflexivity|exact M].
  Qed.

  Lemma loop_vsim : forall todo k s t, vir s t -> vsimres (loop sp f clk todo k s) (loop sp f clk todo k t).
  Proof.
    induction todo as [|todo IH]; intros k s t M; cbn [loop]; [exact M|].
    pose proof (search_step_vsim s t k M) as H1.
    destruct (search_step sp f clk s k) as [s1|e]; destruct (search_step sp f clk t k) as [t1|e']; try contradiction; cbn [bind]; [|exact I].
    cbn in H1. pose proof (stop_check_vsim s1 t1 H1) as H2.
    destruct (stop_check clk s1) as [[b s2]|e]; destruct (stop_check clk t1) as [[b' t2]|e']; try contradiction; cbn [bind]; [|exact I].
    destruct H2 as [<- M2]. destruct b; [exact M2|apply IH; exact M2].
  Qed.

  Record same_result (a b : drv OP) : Prop := {
    vr_rows : d_rows a = d_rows b;
    vr_pos : d_pos_l a = d_pos_l b;
    vr_score : d_score_l a = d_score_l b;
    vr_best : d_best_score a = d_best_score b /\ d_best_value a = d_best_value b;
    vr_counters : d_n_init_total a = d_n_init_total b /\ d_n_iter_total a = d_n_iter_total b;
    vr_memory : d_memory_dict a = d_memory_dict b /\ d_fcalls a = d_fcalls b;
    vr_opt : d_opt a = d_opt b
  }.

  (* whatever the verbosity, search() produces the same search_data, best result, memory and optimizer state *)
  Theorem verbosity_independent (s s1 : drv OP) (c : call) :
    search sp f clk s c = Ok s1 ->
    exists s2, search sp f clk s (call_silent c) = Ok s2 /\ same_result s1 s2.
  Proof.
    intros H. unfold search in *.
    destruct (init_search sp clk s c) as [s0|e] eqn:Ei; cbn [bind] in H; [|discriminate].
    assert (Et : exists t0, init_search sp clk s (call_silent c) = Ok t0 /\ vir s0 t0).
    { unfold init_search, tick in *. cbn in Ei |- *.
      change (memory_init sp (call_silent c)) with (memory_init sp c).
      destruct (memory_init sp c) as [m|]; cbn [bind] in Ei |- *; [|discriminate]. inversion Ei; subst s0.
      eexists. split; [reflexivity|]. exists 0. destruct s; reflexivity. }
    destruct Et as (t0 & Et & M0). rewrite Et. cbn [bind].
    change (c_n_iter (call_silent c)) with (c_n_iter c).
    pose proof (loop_vsim (Z.to_nat (c_n_iter c)) 0 s0 t0 M0) as HL.
    destruct (loop sp f clk (Z.to_nat (c_n_iter c)) 0 s0) as [sE|e]; cbn [bind] in H; [|discriminate].
    destruct (loop sp f clk (Z.to_nat (c_n_iter c)) 0 t0) as [tE|e']; [|contradiction]. cbn [bind]. cbn in HL.
    destruct HL as [z ->]. unfold finish_search in *. cbn in H |- *.
    destruct (match pb_pos (d_pbar sE) with Some p => do v <- position2value sp p; Ok (Some v) | None => Ok None end) as [bv|e]; cbn [bind] in H |- *; [|discriminate].
    inversion H; subst s1. eexists. split; [reflexivity|]. constructor; cbn; auto.
  Qed.
End VSim.
