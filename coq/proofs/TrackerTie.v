(* TrackerTie.v — the definitions GENERATED from /repo's source (generated/TrackerGen.v: search_tracker.py,
   evaluate_init, BaseOptimizer.evaluate, HillClimbingOptimizer.evaluate, Spiral.evaluate) refine the hand-written
   tracker model of theories/Tracker.v, for ALL states and arguments.  The abstraction forgets the history lists
   (pos_new_list, ...) and best_since_iter and zips positions_valid with scores_valid. *)
Require Import Base PyPrims Converter Tracker TrackerGen.
From RecordUpdate Require Import RecordSet.
Import RecordSetNotations.

Definition abs (g : gst) : trk :=
  mkTrk (f_pos_new g) (f_score_new g) (f_pos_current g) (f_score_current g) (f_pos_best g) (f_score_best g)
        (combine (f_positions_valid g) (f_scores_valid g)) (f_nth_trial g) (f_nth_init g).

(* invariant of the concrete state: the two valid lists are aligned and hold finite scores only *)
Definition ginv (g : gst) : Prop :=
  length (f_positions_valid g) = length (f_scores_valid g) /\ Forall (fun s => is_finite s = true) (f_scores_valid g).

Definition rres (r : res gst) (r' : res trk) (nn : Z) : Prop :=
  match r, r' with
  | Ok g', Ok t' => abs g' = t' /\ ginv g' /\ f_n_neighbours g' = nn
  | Err e, Err e' => e = e'
  | _, _ => False
  end.

Lemma ginv_init n : ginv (g_init n).  Proof. split; [reflexivity|constructor]. Qed.
Lemma abs_init n : abs (g_init n) = trk_init.  Proof. reflexivity. Qed.

Ltac fin := repeat split; cbn; try reflexivity; try assumption;
  try (match goal with H : ginv _ |- _ => destruct H as [HA HB]; cbn in HA, HB; assumption end).
Ltac gd g := destruct g as [pn sn pc sc pb sb pnl snl pcl scl pbl sbl pv sv nt bsi ni nn].

(* ---------- setters ---------- *)
Lemma set_pos_new_tie g p : exists g', g_SearchTracker_set_pos_new g p = Ok g' /\ abs g' = (abs g) <| t_pos_new := p |> /\
  (ginv g -> ginv g') /\ f_n_neighbours g' = f_n_neighbours g.
Proof. gd g. eexists. split; [reflexivity|]. fin. Qed.

Lemma combine_snoc {A B} (l1 : list A) (l2 : list B) a b : length l1 = length l2 ->
  combine (l1 ++ [a]) (l2 ++ [b]) = combine l1 l2 ++ [(a, b)].
Proof. revert l2; induction l1 as [|x l1 IH]; intros [|y l2] H; cbn in *; try discriminate; [reflexivity|]. f_equal. apply IH. lia. Qed.

Lemma finite_test s : andb (negb (s_isinf s)) (negb (s_isnan s)) = is_finite s.
Proof. destruct s; reflexivity. Qed.

Lemma set_score_new_tie g s : ginv g -> exists g', g_SearchTracker_set_score_new g s = Ok g' /\ abs g' = set_score_new (abs g) s /\
  ginv g' /\ f_n_neighbours g' = f_n_neighbours g.
Proof.
  intros [A B]. gd g. unfold g_SearchTracker_set_score_new, set_score_new. cbn in A, B |- *. rewrite finite_test.
  destruct (is_finite s) eqn:E; cbn; eexists; (split; [reflexivity|]); unfold abs; cbn.
  - rewrite combine_snoc by exact A. repeat split; cbn; [rewrite !app_length; cbn; lia|].
    apply Forall_app; split; [exact B|constructor; [exact E|constructor]].
  - repeat split; assumption.
Qed.

Lemma set_cur_tie g s p : exists g', (do x <- g_SearchTracker_set_score_current g s; g_SearchTracker_set_pos_current x p) = Ok g' /\
  abs g' = (abs g) <| t_score_cur := s |> <| t_pos_cur := p |> /\ (ginv g -> ginv g') /\ f_n_neighbours g' = f_n_neighbours g.
Proof. gd g. eexists. split; [reflexivity|]. fin. Qed.
Lemma set_best_tie g s p : exists g', (do x <- g_SearchTracker_set_score_best g s; g_SearchTracker_set_pos_best x p) = Ok g' /\
  abs g' = (abs g) <| t_score_best := s |> <| t_pos_best := p |> /\ (ginv g -> ginv g') /\ f_n_neighbours g' = f_n_neighbours g.
Proof. gd g. eexists. split; [reflexivity|]. fin. Qed.

(* ---------- decorators ---------- *)
Theorem track_new_pos_tie g p : ginv g ->
  rres (g_SearchTracker_track_new_pos g p) (Ok (track_new_pos (abs g) p)) (f_n_neighbours g).
Proof. intros [A B]. gd g. cbn. repeat split; assumption. Qed.

Theorem track_new_score_tie (func : gst -> score -> res gst) (body : trk -> score -> res trk) g s :
  ginv g ->
  (forall g1, ginv g1 -> f_n_neighbours g1 = f_n_neighbours g -> rres (func g1 s) (body (abs g1) s) (f_n_neighbours g)) ->
  rres (g_SearchTracker_track_new_score func g s) (track_new_score body (abs g) s) (f_n_neighbours g).
Proof.
  intros I HF. unfold g_SearchTracker_track_new_score, track_new_score.
  destruct (set_score_new_tie g s I) as (g1 & E1 & A1 & I1 & N1). rewrite E1. cbn [bind]. rewrite <- A1.
  specialize (HF g1 I1 N1). destruct (func g1 s) as [g2|e]; destruct (body (abs g1) s) as [t2|e']; cbn in HF |- *; try contradiction; [|exact HF].
  destruct HF as (A2 & [I2a I2b] & N2). gd g2. cbn in *. subst t2. repeat split; assumption.
Qed.

(* ---------- the comparison / adoption primitives ---------- *)
Ltac prim g := gd g; cbn; match goal with |- context [if ?c then _ else _] => destruct c end; cbn; repeat split; intros [A B]; auto.

Lemma eval2current_tie g p s : exists g', g_SearchTracker__eval2current g p s = Ok g' /\ abs g' = eval2current (abs g) p s /\
  (ginv g -> ginv g') /\ f_n_neighbours g' = f_n_neighbours g.
Proof. gd g. unfold g_SearchTracker__eval2current, eval2current. cbn. destruct (sgt s sc); cbn; eexists; (split; [reflexivity|]); fin. Qed.
Lemma eval2best_tie g p s : exists g', g_SearchTracker__eval2best g p s = Ok g' /\ abs g' = eval2best (abs g) p s /\
  (ginv g -> ginv g') /\ f_n_neighbours g' = f_n_neighbours g.
Proof. gd g. unfold g_SearchTracker__eval2best, eval2best. cbn. destruct (sgt s sb); cbn; eexists; (split; [reflexivity|]); fin. Qed.
Lemma new2current_tie g : exists g', g_SearchTracker__new2current g = Ok g' /\ abs g' = new2current (abs g) /\
  (ginv g -> ginv g') /\ f_n_neighbours g' = f_n_neighbours g.
Proof. gd g. eexists. split; [reflexivity|]. fin. Qed.
Lemma evaluate_current2best_tie g : exists g', g_SearchTracker__evaluate_current2best g = Ok g' /\ abs g' = evaluate_current2best (abs g) /\
  (ginv g -> ginv g') /\ f_n_neighbours g' = f_n_neighbours g.
Proof. gd g. unfold g_SearchTracker__evaluate_current2best, evaluate_current2best. cbn. destruct (sgt sc sb); cbn; eexists; (split; [reflexivity|]); fin. Qed.
(* the two not used by the modelled optimizers, stated against their obvious meaning *)
Lemma evaluate_new2current_tie g s : exists g', g_SearchTracker__evaluate_new2current g s = Ok g' /\
  abs g' = eval2current (abs g) (t_pos_new (abs g)) s.
Proof. gd g. unfold g_SearchTracker__evaluate_new2current, eval2current. cbn. destruct (sgt s sc); cbn; eexists; (split; reflexivity). Qed.
Lemma current2best_tie g : exists g', g_SearchTracker__current2best g = Ok g' /\
  abs g' = (abs g) <| t_score_best := t_score_cur (abs g) |> <| t_pos_best := t_pos_cur (abs g) |>.
Proof. gd g. eexists. split; reflexivity. Qed.

(* ---------- evaluate_init, BaseOptimizer.evaluate, Spiral.evaluate ---------- *)
Lemma evaluate_init_body_tie g s : ginv g ->
  rres (g_CoreOptimizer_evaluate_init__body g s) (evaluate_init_body (abs g) s) (f_n_neighbours g).
Proof. intros [A B]. gd g. cbn in A, B. destruct pb, pc; vm_compute; (split; [reflexivity|split; [split; [exact A|exact B]|reflexivity]]). Qed.

Theorem evaluate_init_tie g s : ginv g ->
  rres (g_CoreOptimizer_evaluate_init g s) (evaluate_init (abs g) s) (f_n_neighbours g).
Proof. intros I. apply track_new_score_tie; [exact I|]. intros g1 I1 N1. rewrite <- N1. apply evaluate_init_body_tie. exact I1. Qed.

Lemma base_evaluate_tie g s : exists g', g_BaseOptimizer_evaluate g s = Ok g' /\ abs g' = base_evaluate (abs g) s /\
  (ginv g -> ginv g') /\ f_n_neighbours g' = f_n_neighbours g /\ f_positions_valid g' = f_positions_valid g /\
  f_scores_valid g' = f_scores_valid g /\ f_nth_trial g' = f_nth_trial g.
Proof. gd g. unfold g_BaseOptimizer_evaluate, base_evaluate. cbn. destruct pb; cbn; eexists; (split; [reflexivity|]); fin. Qed.

Theorem spiral_evaluate_tie g s : ginv g ->
  rres (g_Spiral_evaluate g s) (spiral_evaluate (abs g) s) (f_n_neighbours g).
Proof.
  intros I. apply track_new_score_tie; [exact I|]. intros g1 I1 N1. unfold g_Spiral_evaluate__body.
  destruct (new2current_tie g1) as (g2 & E2 & A2 & I2 & N2). rewrite E2. cbn [bind].
  destruct (evaluate_current2best_tie g2) as (g3 & E3 & A3 & I3 & N3). rewrite E3. cbn.
  rewrite A3, A2. repeat split; [apply I3, I2, I1| |congruence]. apply I3, I2, I1.
Qed.

(* ---------- HillClimbingOptimizer.evaluate ---------- *)
Definition fin_of (s : score) : Z := match s with SFin z => z | _ => 0 end.

Lemma finite_map l : Forall (fun s => is_finite s = true) l -> l = map SFin (map fin_of l).
Proof. induction 1 as [|x l Hx _ IH]; cbn; [reflexivity|]. destruct x; try discriminate. cbn. f_equal. exact IH. Qed.

Lemma py_max_aux_fin zs : forall x, py_max_aux (SFin x) (map SFin zs) = SFin (zmax_list x zs).
Proof.
  induction zs as [|y zs IH]; intros x; cbn; [reflexivity|].
  destruct (x <? y) eqn:E.
  - rewrite IH. f_equal. f_equal. lia.
  - rewrite IH. f_equal. f_equal. lia.
Qed.

Lemma zmax_list_ge zs : forall x, x <= zmax_list x zs.
Proof. induction zs as [|y zs IH]; intros x; cbn; [lia|]. specialize (IH (Z.max x y)). lia. Qed.

(* the last index holding the maximum, with the running candidate (b at index bi) as the default *)
Lemma last_index_spec zs : forall b bi i d,
  (d = if b =? zmax_list b zs then Some (Z.of_nat bi) else None) ->
  last_dflt (py_indices_eq (SFin (zmax_list b zs)) (Z.of_nat i) (map SFin zs)) d = Some (Z.of_nat (argmax_last_aux b bi i zs)).
Proof.
  induction zs as [|y zs IH]; intros b bi i d Hd; cbn [zmax_list map py_indices_eq argmax_last_aux].
  - cbn in Hd |- *. rewrite Z.eqb_refl in Hd. exact Hd.
  - cbn [zmax_list] in Hd. pose proof (zmax_list_ge zs (Z.max b y)) as Hge.
    destruct (b <=? y) eqn:E.
    + replace (Z.max b y) with y in * by lia.
      cbn [seqb]. destruct (y =? zmax_list y zs) eqn:Ey.
      * cbn [last_dflt]. replace (Z.of_nat i + 1) with (Z.of_nat (S i)) by lia. apply IH. rewrite Ey. reflexivity.
      * replace (Z.of_nat i + 1) with (Z.of_nat (S i)) by lia. apply IH. rewrite Ey.
        rewrite Hd. destruct (b =? zmax_list y zs) eqn:Eb; [lia|reflexivity].
    + replace (Z.max b y) with b in * by lia.
      cbn [seqb]. destruct (y =? zmax_list b zs) eqn:Ey; [lia|].
      replace (Z.of_nat i + 1) with (Z.of_nat (S i)) by lia. apply IH. exact Hd.
Qed.

Lemma max_list_idx_fin zs : py_max_list_idx (map SFin zs) = do i <- argmax_last zs; Ok (Z.of_nat i).
Proof.
  destruct zs as [|x zs]; [reflexivity|]. unfold py_max_list_idx, py_max, argmax_last. cbn [map bind].
  rewrite py_max_aux_fin. unfold py_last. cbn [py_indices_eq seqb].
  pose proof (zmax_list_ge zs x) as Hge. change (0 + 1) with (Z.of_nat 1).
  destruct (x =? zmax_list x zs) eqn:E.
  - cbn [last_dflt]. change 0 with (Z.of_nat 0) at 1. rewrite (last_index_spec zs x 0%nat 1%nat (Some (Z.of_nat 0))); [reflexivity|]. rewrite E. reflexivity.
  - rewrite (last_index_spec zs x 0%nat 1%nat None); [reflexivity|]. rewrite E. reflexivity.
Qed.

Lemma last_n_combine {A B} k (l1 : list A) (l2 : list B) : length l1 = length l2 ->
  combine (last_n k l1) (last_n k l2) = last_n k (combine l1 l2).
Proof.
  intros H. unfold last_n. rewrite combine_length, <- H, Nat.min_id.
  generalize (length l1 - k)%nat as m. revert l2 H. induction l1 as [|a l1 IH]; intros [|b l2] H m; cbn in *; try discriminate.
  - destruct m; reflexivity.
  - destruct m; [reflexivity|]. cbn. apply IH. lia.
Qed.

Lemma slice_last_pos {A} n (l : list A) : 0 < n -> py_slice_last n l = last_n (Z.to_nat n) l.
Proof. intros H. unfold py_slice_last. destruct (n =? 0) eqn:E; [lia|]. destruct (0 <? n) eqn:E2; [reflexivity|lia]. Qed.

Lemma getitem_nat {A} (l : list A) (i : nat) : (i < length l)%nat ->
  py_getitem l (Z.of_nat i) = match nth_error l i with Some x => Ok x | None => Err IndexError end.
Proof.
  intros H. unfold py_getitem, nth_py, zlen. destruct (Z.of_nat i <? 0) eqn:E; [lia|].
  destruct ((Z.of_nat i <? 0) || (Z.of_nat (length l) <=? Z.of_nat i)) eqn:E2; [lia|]. rewrite Nat2Z.id. reflexivity.
Qed.

Lemma nth_error_combine {A B} (l1 : list A) (l2 : list B) i :
  nth_error (combine l1 l2) i = match nth_error l1 i, nth_error l2 i with Some a, Some b => Some (a, b) | _, _ => None end.
Proof.
  revert l2 i. induction l1 as [|a l1 IH]; intros [|b l2] [|i]; cbn; try reflexivity.
  - destruct (nth_error l1 i); reflexivity.
  - apply IH.
Qed.

Lemma scores_of_combine (pv : list (option pos)) sv : length pv = length sv -> scores_of (combine pv sv) = map fin_of sv.
Proof. revert sv. induction pv as [|p pv IH]; intros [|s sv] H; cbn in *; try discriminate; [reflexivity|]. f_equal. apply IH. lia. Qed.

Lemma Forall_skipn {A} (P : A -> Prop) m : forall l, Forall P l -> Forall P (skipn m l).
Proof. induction m as [|m IH]; intros l H; [exact H|]. destruct l as [|x l]; [constructor|]. cbn. apply IH. inversion H; assumption. Qed.
Lemma Forall_last_n {A} (P : A -> Prop) k l : Forall P l -> Forall P (last_n k l).
Proof. apply Forall_skipn. Qed.

Lemma last_n_length {A} k (l : list A) : length (last_n k l) = Nat.min k (length l).
Proof. unfold last_n. rewrite skipn_length. lia. Qed.

Lemma argmax_last_lt zs i : argmax_last zs = Ok i -> (i < length zs)%nat.
Proof.
  destruct zs as [|x zs]; [discriminate|]. unfold argmax_last. intros H. injection H as <-.
  assert (G : forall l best besti i, (besti < i)%nat -> (argmax_last_aux best besti i l < i + length l)%nat).
  { induction l as [|y l IH]; intros best besti i Hlt; cbn [argmax_last_aux length]; [lia|].
    destruct (best <=? y); [specialize (IH y i (S i) ltac:(lia))|specialize (IH best besti (S i) ltac:(lia))]; lia. }
  specialize (G zs x 0%nat 1%nat ltac:(lia)). cbn [length]. lia.
Qed.

Theorem hc_evaluate_body_tie g s : ginv g -> 0 <= f_n_neighbours g ->
  rres (g_HillClimbingOptimizer_evaluate__body g s) (hc_evaluate_body (f_n_neighbours g) (abs g) s) (f_n_neighbours g).
Proof.
  intros I Hnn. unfold g_HillClimbingOptimizer_evaluate__body, hc_evaluate_body.
  destruct (base_evaluate_tie g s) as (g1 & E1 & A1 & I1 & N1 & PV & SV & NT). rewrite E1. cbn [bind]. rewrite <- A1.
  specialize (I1 I). pose proof I1 as G1. destruct I1 as [L1 F1].
  assert (Hv : t_valid (abs g1) = combine (f_positions_valid g1) (f_scores_valid g1)) by reflexivity. rewrite Hv.
  assert (Ht : t_nth_trial (abs g1) = f_nth_trial g1) by reflexivity. rewrite Ht. rewrite <- N1.
  remember (f_positions_valid g1) as pv. remember (f_scores_valid g1) as sv. remember (f_n_neighbours g1) as nn.
  destruct sv as [|s0 sv'].
  - destruct pv; [|discriminate]. cbn. split; [reflexivity|split; [exact G1|congruence]].
  - destruct pv as [|p0 pv']; [discriminate|].
    assert (Hz : (zlen (s0 :: sv') =? 0) = false) by (apply Z.eqb_neq; unfold zlen; cbn [length]; lia). rewrite Hz.
    cbn [combine]. unfold py_mod. destruct (nn =? 0) eqn:En; [reflexivity|]. cbn [bind].
    destruct (f_nth_trial g1 mod nn =? 0) eqn:Em.
    2:{ cbn. split; [reflexivity|split; [exact G1|congruence]]. }
    change ((p0, s0) :: combine pv' sv') with (combine (p0 :: pv') (s0 :: sv')).
    assert (Hpos : 0 < nn) by lia.
    rewrite !slice_last_pos by exact Hpos.
    set (k := Z.to_nat nn).
    set (rs := last_n k (s0 :: sv')). set (rp := last_n k (p0 :: pv')).
    assert (Frs : Forall (fun x => is_finite x = true) rs) by (apply Forall_last_n; exact F1).
    rewrite (finite_map rs Frs) at 1. rewrite max_list_idx_fin.
    rewrite <- last_n_combine by exact L1. fold rs rp.
    assert (Lr : length rp = length rs) by (unfold rp, rs; rewrite !last_n_length; rewrite L1; reflexivity).
    rewrite scores_of_combine by exact Lr.
    destruct (argmax_last (map fin_of rs)) as [idx|e] eqn:Ea; cbn [bind]; [|reflexivity].
    pose proof (argmax_last_lt _ _ Ea) as Hidx. rewrite map_length in Hidx.
    rewrite (getitem_nat rs idx Hidx). rewrite (getitem_nat rp idx) by (rewrite Lr; exact Hidx).
    rewrite nth_error_combine.
    destruct (nth_error rs idx) as [sc|] eqn:Es; [|apply nth_error_None in Es; lia].
    destruct (nth_error rp idx) as [p|] eqn:Ep; [|apply nth_error_None in Ep; lia].
    cbn [bind].
    destruct (eval2current_tie g1 p sc) as (g2 & E2 & A2 & I2 & N2). rewrite E2. cbn [bind].
    destruct (eval2best_tie g2 p sc) as (g3 & E3 & A3 & I3 & N3). rewrite E3. cbn.
    rewrite A3, A2. split; [reflexivity|split; [apply I3, I2; exact G1|congruence]].
Qed.

Theorem hc_evaluate_tie g s : ginv g -> 0 <= f_n_neighbours g ->
  rres (g_HillClimbingOptimizer_evaluate g s) (hc_evaluate (f_n_neighbours g) (abs g) s) (f_n_neighbours g).
Proof.
  intros I Hnn. apply track_new_score_tie; [exact I|]. intros g1 I1 N1. rewrite <- N1. apply hc_evaluate_body_tie; [exact I1|lia].
Qed.

(* BaseOptimizer.evaluate under the decorator (RandomSearch) *)
Theorem base_evaluate_tracked_tie g s : ginv g ->
  rres (g_SearchTracker_track_new_score g_BaseOptimizer_evaluate g s) (base_evaluate_tracked (abs g) s) (f_n_neighbours g).
Proof.
  intros I. apply track_new_score_tie; [exact I|]. intros g1 I1 N1.
  destruct (base_evaluate_tie g1 s) as (g2 & E2 & A2 & I2 & N2 & _). rewrite E2. cbn. repeat split; try apply I2; try assumption. congruence.
Qed.
