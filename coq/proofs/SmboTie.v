(* SmboTie.v — the SMBO bookkeeping GENERATED from /repo's smb_opt/smbo.py (generated/SmboGen.v: the wrappers of the track_X_sample /
   track_y_sample decorators, evaluate, evaluate_init) equals theories/Smbo.v (track_x, track_y, smbo_evaluate, smbo_evaluate_init), so one
   generated driver step is the model's smbo_step that C17's alignment / no-repeat theorems (proofs/C17_proofs.v) are about. *)
Require Import Base PyPrims PyPrimsQ Converter CoreOpt Smbo ListFacts C17_proofs SmboGen.
From RecordUpdate Require Import RecordSet.
Import RecordSetNotations.
Open Scope Z_scope.

Definition sabs (g : g_smbo) : smbo := mkSmbo (sg_X_sample g) (sg_Y_sample g) (sg_all_pos_comb g) (sg_replacement g).

Lemma finite_tests sc : orb (score_is_nan sc) (score_is_inf sc) = negb (is_finite sc).
Proof. destruct sc; reflexivity. Qed.

(* track_X_sample: whatever the decorated function returns is appended to X_sample and returned *)
Theorem track_x_tie (iterate_f : g_smbo -> res (g_smbo * pos)) self :
  g_SMBO_track_X_sample iterate_f self =
  match iterate_f self with
  | Ok (s1, p) => Ok (s1 <| sg_X_sample := sg_X_sample s1 ++ [p] |>, p)
  | Err e => Err e
  end.
Proof. unfold g_SMBO_track_X_sample. destruct (iterate_f self) as [[s1 p]|e]; reflexivity. Qed.

Lemma track_x_abs s1 p : sabs (s1 <| sg_X_sample := sg_X_sample s1 ++ [p] |>) = track_x (sabs s1) p.
Proof. destruct s1; reflexivity. Qed.

(* track_y_sample around any evaluate that leaves a non-empty X_sample *)
Theorem track_y_tie (evaluate_f : g_smbo -> score -> res g_smbo) self sc s1 :
  evaluate_f self sc = Ok s1 -> sg_X_sample s1 <> [] ->
  exists s', g_SMBO_track_y_sample evaluate_f self sc = Ok s' /\ sabs s' = track_y (sabs s1) sc /\ sg_pos_new s' = sg_pos_new s1.
Proof.
  intros E HX. unfold g_SMBO_track_y_sample. rewrite E. cbn [bind]. rewrite finite_tests. unfold track_y.
  destruct (is_finite sc); cbn [negb].
  - eexists. split; [reflexivity|]. destruct s1; split; reflexivity.
  - unfold sg_del_last_X. destruct (sg_X_sample s1) as [|x xs] eqn:EX; [contradiction|]. cbn [bind].
    eexists. split; [reflexivity|]. destruct s1; cbn in *. subst. split; reflexivity.
Qed.

(* an empty X_sample with a non-finite score: `del self.X_sample[-1]` raises (the model's removelast would not) *)
Theorem track_y_empty_raises (evaluate_f : g_smbo -> score -> res g_smbo) self sc s1 :
  evaluate_f self sc = Ok s1 -> sg_X_sample s1 = [] -> is_finite sc = false -> g_SMBO_track_y_sample evaluate_f self sc = Err IndexError.
Proof.
  intros E HX HF. unfold g_SMBO_track_y_sample. rewrite E. cbn [bind]. rewrite finite_tests, HF. cbn [negb]. unfold sg_del_last_X. rewrite HX. reflexivity.
Qed.

Theorem evaluate_tie self sc : sg_X_sample self <> [] ->
  exists s', g_SMBO_evaluate self sc = Ok s' /\ sabs s' = smbo_evaluate (sabs self) (sg_pos_new self) sc /\ sg_pos_new s' = sg_pos_new self.
Proof.
  intros HX. unfold g_SMBO_evaluate.
  assert (B : exists s1, g_SMBO_evaluate_body self sc = Ok s1 /\ sg_X_sample s1 = sg_X_sample self /\ sg_pos_new s1 = sg_pos_new self /\
                         sabs s1 = (if sm_replacement (sabs self) then sabs self
                                    else mkSmbo (sm_X (sabs self)) (sm_Y (sabs self)) (remove_position (sm_comb (sabs self)) (sg_pos_new self)) (sm_replacement (sabs self)))).
  { unfold g_SMBO_evaluate_body, sg_remove_position. destruct self as [X Y C r pn]. cbn. destruct r; cbn; eexists; repeat split. }
  destruct B as (s1 & E1 & X1 & P1 & A1).
  destruct (track_y_tie g_SMBO_evaluate_body self sc s1 E1 ltac:(rewrite X1; exact HX)) as (s' & E2 & A2 & P2).
  exists s'. split; [exact E2|]. split; [|congruence]. rewrite A2, A1. reflexivity.
Qed.

Theorem evaluate_init_tie self sc : sg_X_sample self <> [] ->
  exists s', g_SMBO_evaluate_init self sc = Ok s' /\ sabs s' = smbo_evaluate_init (sabs self) sc /\ sg_pos_new s' = sg_pos_new self.
Proof.
  intros HX. unfold g_SMBO_evaluate_init.
  destruct (track_y_tie g_SMBO_evaluate_init_body self sc self eq_refl HX) as (s' & E2 & A2 & P2).
  exists s'. split; [exact E2|]. split; [exact A2|exact P2].
Qed.

(* one generated driver step = the model's smbo_step: the decorated proposal function returns p (the tracker stores it as pos_new),
   then the decorated evaluate / evaluate_init receives the score *)
Theorem source_smbo_step (iterate_f : g_smbo -> res (g_smbo * pos)) self s1 p sc (init : bool) :
  iterate_f self = Ok (s1, p) -> sg_pos_new s1 = p ->
  exists s2 s3, g_SMBO_track_X_sample iterate_f self = Ok (s2, p) /\
                (if init then g_SMBO_evaluate_init s2 sc else g_SMBO_evaluate s2 sc) = Ok s3 /\
                sabs s3 = smbo_step (sabs s1) init p sc.
Proof.
  intros E HP. rewrite track_x_tie, E. eexists. 
  set (s2 := s1 <| sg_X_sample := sg_X_sample s1 ++ [p] |>).
  assert (HX : sg_X_sample s2 <> []) by (destruct s1; cbn; intros H; destruct sg_X_sample; discriminate).
  assert (HP2 : sg_pos_new s2 = p) by (destruct s1; exact HP).
  unfold smbo_step. rewrite <- (track_x_abs s1 p). fold s2.
  destruct init.
  - destruct (evaluate_init_tie s2 sc HX) as (s3 & E3 & A3 & _). exists s3. split; [reflexivity|]. split; [exact E3|exact A3].
  - destruct (evaluate_tie s2 sc HX) as (s3 & E3 & A3 & _). exists s3. split; [reflexivity|]. split; [exact E3|]. rewrite A3, HP2. reflexivity.
Qed.

(* the no-repeat clause for the generated evaluate: with replacement=False the scored position is no longer a candidate afterwards, and
   candidates are only ever removed *)
Theorem source_evaluate_removes self sc s' : sg_X_sample self <> [] -> sg_replacement self = false ->
  g_SMBO_evaluate self sc = Ok s' ->
  ~ In (sg_pos_new self) (sg_all_pos_comb s') /\ (forall q, In q (sg_all_pos_comb s') -> In q (sg_all_pos_comb self)) /\ sg_replacement s' = false.
Proof.
  intros HX HR E. destruct (evaluate_tie self sc HX) as (s1 & E1 & A & _). rewrite E in E1. inversion E1; subst s1. clear E1.
  assert (C : sg_all_pos_comb s' = remove_position (sg_all_pos_comb self) (sg_pos_new self) /\ sg_replacement s' = false).
  { unfold sabs, smbo_evaluate, track_y in A. cbn [sm_replacement] in A. rewrite HR in A.
    destruct (is_finite sc); cbn in A; injection A as A1 A2 A3 A4; (split; [exact A3|exact A4]). }
  destruct C as [C1 C2]. rewrite C1. split; [apply remove_position_not_in|]. split; [intros q Hq; eapply remove_position_subset; exact Hq|exact C2].
Qed.
