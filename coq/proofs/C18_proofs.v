(* C18 — the step API equals search(); the public facades forward every constructor parameter. *)
Require Import Base StopRun Converter Driver DriverFacts Facade C20_proofs.
From RecordUpdate Require Import RecordSet.
Import RecordSetNotations.

(* ================================================================ search() = init + steps + finish *)
Section Steps.
  Context {OP : optimizer}.
  Variable sp : space.
  Variable f : nat -> values -> result.
  Variable clk : nat -> Z.

  Lemma search_step_call (s s' : drv OP) k : search_step sp f clk s k = Ok s' -> d_call s' = d_call s.
  Proof.
    unfold search_step. intros H.
    step_bind H. step_bind H.
    assert (C1 : d_call x = d_call s).
    { destruct (k <? d_n_inits_norm s); [|inv_ok E; reflexivity].
      apply initialization_spec in E. destruct E as (p & v & r & R & _). exact (sr_call _ _ _ _ _ _ _ _ _ _ R). }
    assert (C2 : d_call x0 = d_call x).
    { destruct (k =? d_n_init_search x); [|inv_ok E0; reflexivity]. step_bind E0. inv_ok E0. reflexivity. }
    destruct (_ && _).
    - apply iteration_spec in H. destruct H as (p & v & r & R & _). rewrite (sr_call _ _ _ _ _ _ _ _ _ _ R). congruence.
    - inv_ok H. congruence.
  Qed.

  Lemma stop_check_no_stop (s : drv OP) : c_stop (d_call s) = no_stop -> stop_check clk s = Ok (false, s).
  Proof. intros H. unfold stop_check, check_reads_clock, check. rewrite H. reflexivity. Qed.

  Lemma loop_eq_steps : forall todo k (s : drv OP), c_stop (d_call s) = no_stop ->
    loop sp f clk todo k s = steps sp f clk todo k s.
  Proof.
    induction todo as [|todo IH]; intros k s Hn; [reflexivity|]. cbn [loop steps].
    destruct (search_step sp f clk s k) as [s1|e] eqn:E; cbn [bind]; [|reflexivity].
    assert (Hn1 : c_stop (d_call s1) = no_stop) by (rewrite (search_step_call _ _ _ E); exact Hn).
    rewrite (stop_check_no_stop s1 Hn1). cbn [bind]. apply IH. exact Hn1.
  Qed.

  (* driving the optimizer step by step yields the very same Search object as search() *)
  Theorem search_eq_steps (s : drv OP) (c : call) : c_stop c = no_stop ->
    search sp f clk s c = search_by_steps sp f clk s c.
  Proof.
    intros Hn. unfold search, search_by_steps.
    destruct (init_search sp clk s c) as [s0|e] eqn:E; cbn [bind]; [|reflexivity].
    rewrite loop_eq_steps; [reflexivity|].
    destruct (init_search_cinv _ _ _ _ _ E) as [_ ->]. exact Hn.
  Qed.
End Steps.

(* ================================================================ facades *)
Lemma zmem_in x l : zmem x l = true <-> In x l.
Proof. unfold zmem. rewrite existsb_exists. split; [intros (y & Hy & E); apply Z.eqb_eq in E; subst; assumption|intros H; exists x; split; [assumption|apply Z.eqb_refl]]. Qed.

Lemma nodupb_NoDup l : nodupb l = true -> NoDup l.
Proof.
  induction l as [|x l IH]; cbn; intros H; constructor.
  - apply andb_prop in H. destruct H as [H _]. intros Hin. apply zmem_in in Hin. rewrite Hin in H. discriminate.
  - apply IH. apply andb_prop in H. tauto.
Qed.

Lemma dget_in_sig {V} (s : list (Z * V)) p d : NoDup (map fst s) -> In (p, d) s -> dict_get Z.eqb p s = Some d.
Proof.
  induction s as [|[p' d'] s IH]; intros Hn Hin; [contradiction|]. cbn in *. inversion Hn; subst.
  destruct Hin as [E|Hin].
  - inversion E; subst. rewrite Z.eqb_refl. reflexivity.
  - destruct (p =? p') eqn:Ep.
    + apply Z.eqb_eq in Ep. subst. exfalso. apply H1. apply in_map_iff. exists (p', d). auto.
    + apply IH; assumption.
Qed.

Lemma dget_none_notin {V} (s : list (Z * V)) p : ~ In p (map fst s) -> dict_get Z.eqb p s = None.
Proof.
  induction s as [|[p' d'] s IH]; intros Hn; [reflexivity|]. cbn in *.
  destruct (p =? p') eqn:Ep; [apply Z.eqb_eq in Ep; subst; exfalso; apply Hn; left; reflexivity|].
  apply IH. intros H. apply Hn. right. assumption.
Qed.

Lemma dget_some_in {V} (s : list (Z * V)) p v : dict_get Z.eqb p s = Some v -> In p (map fst s).
Proof.
  induction s as [|[p' d'] s IH]; cbn; [discriminate|]. destruct (p =? p') eqn:Ep.
  - apply Z.eqb_eq in Ep. subst. intros _. left. reflexivity.
  - intros H. right. apply IH. assumption.
Qed.

Lemma map_res_ext_in {A B} (g h : A -> res B) l : (forall x, In x l -> g x = h x) -> map_res g l = map_res h l.
Proof.
  induction l as [|x l IH]; intros E; cbn; [reflexivity|].
  rewrite (E x (or_introl eq_refl)), IH; [reflexivity|]. intros y Hy. apply E. right. assumption.
Qed.

(* a map_res whose only possible error is TypeError and which fails somewhere returns Err TypeError *)
Lemma map_res_err {A B} (g : A -> res B) l x :
  (forall y e, g y = Err e -> e = TypeError) -> In x l -> (exists e, g x = Err e) -> map_res g l = Err TypeError.
Proof.
  intros Hty. induction l as [|y l IH]; intros Hin Hx; [contradiction|]. cbn.
  destruct (g y) as [b|e] eqn:Ey; cbn.
  - destruct Hin as [->|Hin]; [destruct Hx as [e Hx]; congruence|]. rewrite (IH Hin Hx). reflexivity.
  - rewrite (Hty y e Ey). reflexivity.
Qed.

Lemma bind_param_err kw pd e : bind_param kw pd = Err e -> e = TypeError.
Proof. unfold bind_param. destruct (dict_get Z.eqb (fst pd) kw); [discriminate|]. destruct (snd pd); [discriminate|congruence]. Qed.

Lemma map_res_ok_all {A B} (g : A -> res B) l out : map_res g l = Ok out -> forall x, In x l -> exists y, g x = Ok y /\ In y out.
Proof.
  revert out. induction l as [|a l IH]; intros out H x Hin; [contradiction|]. cbn in H.
  destruct (g a) as [b|] eqn:Ea; cbn in H; [|discriminate].
  destruct (map_res g l) as [out'|] eqn:El; cbn in H; [|discriminate]. inversion H; subst.
  destruct Hin as [->|Hin]; [exists b; split; [assumption|left; reflexivity]|].
  destruct (IH out' eq_refl x Hin) as (y & Hy & Hy'). exists y. split; [assumption|right; assumption].
Qed.

Lemma map_res_ok_fst kw s out : map_res (bind_param kw) s = Ok out -> map fst out = map fst s.
Proof.
  revert out. induction s as [|pd s IH]; intros out H; cbn in H; [inversion H; reflexivity|].
  destruct (bind_param kw pd) as [b|] eqn:Ea; cbn in H; [|discriminate].
  destruct (map_res (bind_param kw) s) as [out'|] eqn:El; cbn in H; [|discriminate]. inversion H; subst.
  cbn. rewrite (IH out' eq_refl). f_equal.
  unfold bind_param in Ea. destruct (dict_get Z.eqb (fst pd) kw); [inversion Ea; reflexivity|].
  destruct (snd pd); inversion Ea; reflexivity.
Qed.

Lemma map_res_err_witness {A B} (g : A -> res B) l e : map_res g l = Err e -> exists x, In x l /\ g x = Err e.
Proof.
  induction l as [|y l IH]; cbn; [discriminate|]. destruct (g y) as [b|e'] eqn:Ey; cbn.
  - destruct (map_res g l) as [out|e''] eqn:El; cbn; [discriminate|]. intros H. inversion H; subst.
    destruct (IH eq_refl) as (x & Hx & Hg). exists x. split; [right; assumption|assumption].
  - intros H. inversion H; subst. exists y. split; [left; reflexivity|assumption].
Qed.

Definition C18_forward_statement : Prop :=
  forall (fa : facade) (kw : kwargs),
    well_forwarded fa = true ->
    (forall k, In k (map fst kw) -> In k (map fst (fa_params fa))) ->     (* keywords of the facade *)
    call_facade fa kw = call_backend fa kw.

Theorem C18_forward_holds : C18_forward_statement.
Proof.
  intros fa kw W Hkeys. unfold well_forwarded in W.
  repeat (apply andb_prop in W; destruct W as [W ?]).
  rename H into Hbdef, H0 into Hdef, H1 into Hcover, H2 into Hfin, H3 into Hfnd, H4 into Hown, H5 into HndB, H6 into HndP.
  apply nodupb_NoDup in HndP, HndB, Hfnd.
  set (P := fa_params fa) in *. set (B := fa_backend fa) in *. set (F := fa_forward fa) in *.
  rewrite forallb_forall in Hbdef, Hdef, Hcover, Hfin, Hown.
  (* facade names are backend names *)
  assert (HPB : forall p d, In (p, d) P -> In (p, d) B).
  { intros p d Hin. specialize (Hdef (p, d) Hin). cbn in Hdef. unfold default_of in Hdef.
    destruct (dict_get Z.eqb p B) as [d'|] eqn:G; [|discriminate].
    assert (d' = d). { destruct d', d; cbn in Hdef; try discriminate; try reflexivity. apply Z.eqb_eq in Hdef. congruence. }
    subst d'. clear -G. induction B as [|[p' d'] B IH]; cbn in G; [discriminate|].
    destruct (p =? p') eqn:E; [apply Z.eqb_eq in E; inversion G; subst; left; reflexivity|right; apply IH; assumption]. }
  assert (HPBn : forall p, In p (map fst P) -> In p (map fst B)).
  { intros p Hp. apply in_map_iff in Hp. destruct Hp as ([p' d] & <- & Hin). apply in_map_iff. exists (p', d). split; [reflexivity|apply HPB; assumption]. }
  assert (KnownP : forallb (fun k => zmem k (map fst P)) (map fst kw) = true).
  { apply forallb_forall. intros k Hk. apply zmem_in. apply Hkeys. assumption. }
  assert (KnownB : forallb (fun k => zmem k (map fst B)) (map fst kw) = true).
  { apply forallb_forall. intros k Hk. apply zmem_in. apply HPBn. apply Hkeys. assumption. }
  unfold call_facade, call_backend, bind_sig. fold P B F. rewrite KnownP, KnownB.
  destruct (map_res (bind_param kw) P) as [ef|e] eqn:EP; cbn [bind].
  2:{ (* a required facade argument is missing: the backend misses it too *)
      symmetry. destruct (map_res_err_witness _ _ _ EP) as (pd & Hpd & He').
      assert (e = TypeError) by (eapply bind_param_err; eauto).
      subst e. destruct pd as [p d].
      apply (map_res_err (bind_param kw) B (p, d)); [apply bind_param_err|apply HPB; assumption|eauto]. }
  (* the facade's environment binds every facade parameter *)
  assert (Hef : forall p d, In (p, d) P -> exists v, dict_get Z.eqb p ef = Some v /\ bind_param kw (p, d) = Ok (p, v)).
  { intros p d Hin. destruct (map_res_ok_all _ _ _ EP (p, d) Hin) as ([p' v] & Hb & Hy).
    assert (p' = p). { unfold bind_param in Hb. cbn in Hb. destruct (dict_get Z.eqb p kw); [inversion Hb; reflexivity|]. destruct d; inversion Hb; reflexivity. }
    subst p'. exists v. split; [|assumption].
    apply dget_in_sig; [|assumption]. rewrite (map_res_ok_fst _ _ _ EP). assumption. }
  (* the forwarded keyword arguments *)
  assert (Hkw' : exists kw', map_res (fun ke => match dict_get Z.eqb (snd ke) ef with Some v => Ok (fst ke, v) | None => Err Unspecified end) F = Ok kw' /\
                  map fst kw' = map fst F /\
                  (forall k v, In (k, v) kw' -> dict_get Z.eqb k ef = Some v)).
  { assert (HF : forall ke, In ke F -> fst ke = snd ke /\ In (fst ke) (map fst P)).
    { intros ke Hin. split; [apply Z.eqb_eq; apply Hown; assumption|apply zmem_in; apply Hfin; assumption]. }
    clear -HF Hef. induction F as [|ke F IH].
    - exists []. repeat split; auto. intros k v [].
    - destruct (HF ke (or_introl eq_refl)) as [E Hp]. apply in_map_iff in Hp. destruct Hp as ([p d] & Hfst & Hin). cbn in Hfst.
      destruct (Hef p d Hin) as (v & Hv & _). destruct IH as (kw' & A & Bq & C); [intros x Hx; apply HF; right; assumption|].
      exists ((fst ke, v) :: kw'). cbn. rewrite <- E, <- Hfst, Hv. cbn. rewrite A. cbn. repeat split; [f_equal; assumption|].
      intros k v0 [Heq|Hin']; [inversion Heq; subst; assumption|apply C; assumption]. }
  destruct Hkw' as (kw' & Ekw' & Hk'fst & Hk'val). rewrite Ekw'. cbn [bind].
  assert (Known' : forallb (fun k => zmem k (map fst B)) (map fst kw') = true).
  { apply forallb_forall. intros k Hk. apply zmem_in. apply HPBn. rewrite Hk'fst in Hk.
    apply in_map_iff in Hk. destruct Hk as (ke & <- & Hke). apply zmem_in. apply Hfin. assumption. }
  rewrite Known'. apply map_res_ext_in. intros [b d] HinB. unfold bind_param. cbn [fst snd].
  destruct (in_dec Z.eq_dec b (map fst P)) as [HbP|HbP].
  - (* a parameter the facade exposes *)
    apply in_map_iff in HbP. destruct HbP as ([b' df] & Hb' & HinP). cbn in Hb'. subst b'.
    destruct (Hef b df HinP) as (v & Hv & Hbp).
    assert (d = df). { pose proof (HPB b df HinP) as H1. pose proof (dget_in_sig B b d HndB HinB). pose proof (dget_in_sig B b df HndB H1). congruence. }
    subst df.
    assert (Hget' : dict_get Z.eqb b kw' = Some v).
    { assert (In b (map fst kw')). { rewrite Hk'fst. apply zmem_in. apply Hcover. apply in_map_iff. exists (b, d). auto. }
      apply in_map_iff in H. destruct H as ([b' v'] & Hb' & Hin'). cbn in Hb'. subst b'.
      rewrite (dget_in_sig kw' b v'); [|rewrite Hk'fst; assumption|assumption]. f_equal. pose proof (Hk'val b v' Hin'). congruence. }
    rewrite Hget'. unfold bind_param in Hbp. cbn [fst snd] in Hbp. symmetry. exact Hbp.
  - (* a backend parameter the facade does not expose: its default on both sides *)
    rewrite (dget_none_notin kw' b) by (rewrite Hk'fst; intros H; apply HbP; apply in_map_iff in H; destruct H as (ke & <- & Hke); apply zmem_in; apply Hfin; assumption).
    rewrite (dget_none_notin kw b) by (intros H; apply HbP; apply Hkeys; assumption). reflexivity.
Qed.
