(* C04 — search_data is a faithful, ordered record; C06 — memory is a transparent cache
   (single-process part); C11 — warm-start entries are trusted verbatim (driver part). *)
Require Import Base StopRun Converter Driver DriverFacts ConverterFacts ListFacts MemFacts.
From RecordUpdate Require Import RecordSet.
Import RecordSetNotations.

Section C04.
  Context {OP : optimizer}.
  Variable sp : space.
  Variable f0 : values -> result.           (* deterministic objective *)
  Variable clk : nat -> Z.
  Notation f := (fun (_ : nat) (v : values) => f0 v).

  Lemma dget_zip_some (ks : list pos) (nc : list values) k r :
    Forall2 (fun v k => value2position sp v = Ok k) nc ks ->
    dict_get pos_eqb k (zip ks (map f0 nc)) = Some r ->
    exists v, In v nc /\ value2position sp v = Ok k /\ r = f0 v.
  Proof.
    intros F2. revert k r. induction F2 as [|v k0 nc ks Hk F2 IH]; intros k r H; cbn in H; [discriminate|].
    destruct (pos_eqb k k0) eqn:E.
    - apply pos_eqb_eq in E. subst k0. inversion H; subst. exists v. split; [left; reflexivity|auto].
    - destruct (IH k r H) as (v' & Hin & Hv & Hr). exists v'. split; [right; assumption|auto].
  Qed.

  (* the full description of one call: its trace, the memory it started from (M0: empty, or the
     warm-start frame's dictionary), the objective calls it made *)
  Record call_record (s : drv OP) (c : call) (s' : drv OP) (M0 : @memdict result) (tr : list ev)
         (nc : list values) (ks : list pos) : Prop := {
    cr_M0    : memory_init sp c = Ok M0;
    cr_rows  : d_rows s' = d_rows s ++ map ev_row tr;
    cr_pos   : d_pos_l s' = d_pos_l s ++ map ev_pos tr;
    cr_score : d_score_l s' = d_score_l s ++ map ev_score tr;
    cr_p2v   : Forall (fun e => position2value sp (ev_pos e) = Ok (ev_val e)) tr;
    (* C04: each row's result is the objective's result at that row's own parameters — or, for a
       position present in the warm-start dictionary, that dictionary's entry (C11) *)
    cr_faith : forall e, In e tr ->
                 ev_res e = f0 (ev_val e) \/
                 (c_memory c = true /\ exists k, value2position sp (ev_val e) = Ok k /\ dict_get pos_eqb k M0 = Some (ev_res e));
    (* C06: objective calls of this call *)
    cr_calls : d_fcalls s' = d_fcalls s ++ nc;
    cr_off   : c_memory c = false -> nc = map ev_val tr;
    cr_once  : c_memory c = true -> NoDup nc /\ Forall2 (fun v k => value2position sp v = Ok k) nc ks /\ NoDup ks /\
                 (forall k, In k ks -> dict_get pos_eqb k M0 = None) /\
                 (forall v, In v nc -> exists e, In e tr /\ ev_val e = v);
    cr_warm_never_called : c_memory c = true -> forall e k, In e tr -> value2position sp (ev_val e) = Ok k ->
                 dict_mem pos_eqb k M0 = true -> ~ In (ev_val e) nc;
    cr_warm_used : c_memory c = true -> forall e k r0, In e tr -> value2position sp (ev_val e) = Ok k ->
                 dict_get pos_eqb k M0 = Some r0 -> ev_res e = r0;
    cr_revisit : c_memory c = true -> forall e1 e2, In e1 tr -> In e2 tr -> ev_val e1 = ev_val e2 -> ev_res e1 = ev_res e2;
    cr_dict  : d_memory_dict s' = (if c_memory c then M0 ++ zip ks (map f0 nc) else []);
    cr_cover : c_memory c = true -> forall e, In e tr -> exists k, value2position sp (ev_val e) = Ok k /\
                 dict_get pos_eqb k (d_memory_dict s') = Some (ev_res e)
  }.

  Definition C04_statement : Prop :=
    forall (s s' : drv OP) (c : call), 0 <= c_n_iter c ->
      search sp f clk s c = Ok s' -> exists M0 tr nc ks, call_record s c s' M0 tr nc ks.

  Theorem C04_holds : C04_statement.
  Proof.
    intros s s' c Hni Hs.
    destruct (search_spec sp f clk s c s' Hni Hs) as (s0 & tr & sE & b & Hi & He & Hf).
    destruct (init_search_spec _ _ _ _ _ Hi) as (M0 & HM0 & Hs0).
    assert (H0 : d_rows s0 = d_rows s /\ d_pos_l s0 = d_pos_l s /\ d_score_l s0 = d_score_l s /\
                 d_fcalls s0 = d_fcalls s /\ d_mem s0 = M0 /\ d_call s0 = c)
      by (rewrite Hs0; cbn; repeat split; reflexivity).
    destruct H0 as (R0 & P0 & S0 & FC0 & MM0 & Hcall). clear Hs0.
    destruct (ended_traced _ _ _ _ _ _ _ _ He) as (T & _ & _).
    destruct (ended_minv sp f0 clk _ _ _ _ _ He) as (nc & ks & M).
    destruct (finish_search_spec _ _ _ Hf) as (bv & _ & Hs').
    pose proof (t_call _ _ _ _ _ T) as HcE. rewrite Hcall in HcE.
    destruct M as [Mf Moff Mkeys Mmem Mnodup Mfresh Mhit Mcalled]. rewrite Hcall, ?MM0 in *.
    (* every member key determines its value vector *)
    assert (Hkeyval : c_memory c = true -> forall e k r, In e tr -> value2position sp (ev_val e) = Ok k ->
              dict_get pos_eqb k (zip ks (map f0 nc)) = Some r -> r = f0 (ev_val e) /\ In (ev_val e) nc).
    { intros Hon e k r Hin Hk Hg. destruct (dget_zip_some ks nc k r (Mkeys Hon) Hg) as (v' & Hv'in & Hv'k & ->).
      destruct (Mcalled Hon v' Hv'in) as (e' & He'in & He'v).
      pose proof (t_p2v _ _ _ _ _ T) as P. rewrite Forall_forall in P.
      assert (v' = ev_val e).
      { subst v'. eapply member_key_inj; [apply (P e' He'in)|apply (P e Hin)|exact Hv'k|exact Hk]. }
      rewrite H in Hv'in |- *. auto. }
    exists M0, tr, nc, ks. constructor.
    - exact HM0.
    - rewrite Hs'. cbn. rewrite (t_rows _ _ _ _ _ T), R0. reflexivity.
    - rewrite Hs'. cbn. rewrite (t_pos _ _ _ _ _ T), P0. reflexivity.
    - rewrite Hs'. cbn. rewrite (t_score _ _ _ _ _ T), S0. reflexivity.
    - exact (t_p2v _ _ _ _ _ T).
    - intros e Hin. destruct (c_memory c) eqn:Cm.
      + destruct (Mhit eq_refl e Hin) as (k & Hk & Hg). rewrite (Mmem eq_refl), dget_app in Hg.
        destruct (dict_get pos_eqb k M0) as [r0|] eqn:G0.
        * right. split; [reflexivity|]. exists k. split; [assumption|]. congruence.
        * left. apply (Hkeyval eq_refl e k _ Hin Hk Hg).
      + left. apply (Moff eq_refl). assumption.
    - rewrite Hs'. cbn. rewrite Mf, FC0. reflexivity.
    - intros Hoff. apply (Moff Hoff).
    - intros Hon. split; [|split; [exact (Mkeys Hon)|split; [exact (Mnodup Hon)|split; [exact (Mfresh Hon)|exact (Mcalled Hon)]]]].
      (* NoDup nc: equal value vectors have equal keys *)
      pose proof (Mkeys Hon) as F2. pose proof (Mnodup Hon) as Nd. clear -F2 Nd.
      induction F2 as [|v k nc ks Hk F2 IH]; [constructor|]. inversion Nd; subst. constructor; [|apply IH; assumption].
      intros Hin. apply H1. clear -Hin F2 Hk. induction F2 as [|v' k' nc ks Hk' F2 IH]; [contradiction|].
      destruct Hin as [->|Hin]; [left; congruence|right; apply IH; assumption].
    - intros Hon e k Hin Hk Hmem Hnc. unfold dict_mem in Hmem.
      destruct (dict_get pos_eqb k M0) eqn:G; [|discriminate].
      (* ev_val e among nc -> its key is among ks -> fresh, contradiction *)
      pose proof (Mkeys Hon) as F2. pose proof (Mfresh Hon) as Fr. clear -F2 Fr Hnc Hk G.
      induction F2 as [|v k' nc ks Hk' F2 IH]; [contradiction|].
      destruct Hnc as [->|Hnc].
      + assert (k' = k) by congruence. subst. rewrite (Fr k (or_introl eq_refl)) in G. discriminate.
      + apply IH; try assumption. intros k0 Hk0. apply Fr. right. assumption.
    - intros Hon e k r0 Hin Hk Hg0.
      destruct (Mhit Hon e Hin) as (k' & Hk' & Hg). assert (k' = k) by congruence. subst k'.
      rewrite (Mmem Hon), dget_app, Hg0 in Hg. congruence.
    - intros Hon e1 e2 H1 H2 Hv.
      destruct (Mhit Hon e1 H1) as (k1 & K1 & G1). destruct (Mhit Hon e2 H2) as (k2 & K2 & G2).
      rewrite Hv in K1. assert (k1 = k2) by congruence. subst. congruence.
    - rewrite Hs'. cbn. rewrite HcE. destruct (c_memory c) eqn:Cm; [|reflexivity]. apply (Mmem eq_refl).
    - intros Hon e Hin. rewrite Hs'. cbn. rewrite HcE, Hon. apply (Mhit Hon e Hin).
  Qed.
End C04.
