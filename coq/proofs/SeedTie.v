(* SeedTie.v — utils.set_random_seed GENERATED from /repo's source (generated/SeedGen.v) equals Rng.set_random_seed: the returned seed and
   the states of both global generators, for every ambient state, random_state and nth_process. *)
Require Import Base PyPrims PyPrimsQ Rng SeedGen.
From RecordUpdate Require Import RecordSet.
Import RecordSetNotations.
Open Scope Z_scope.

Section SeedTie.
  Variables (R NP : Type).
  Variable seed_py : Z -> R.
  Variable seed_np : Z -> NP.
  Variable np_randint : NP -> Z * NP.

  Theorem set_random_seed_tie (nth rs : option Z) (g : gens R NP) :
    g_set_random_seed R NP seed_py seed_np np_randint (mkGRng R NP (fst g) (snd g)) nth rs =
    let r := set_random_seed R NP seed_py seed_np np_randint nth rs g in
    Ok (mkGRng R NP (fst (snd r)) (snd (snd r)), fst r).
  Proof.
    unfold g_set_random_seed, set_random_seed, rg_randint. destruct g as [py np]. cbn [fst snd].
    destruct nth as [n|]; destruct rs as [s|]; cbn [bind rg_np]; try reflexivity;
      destruct (np_randint np) as [v np1]; cbn; reflexivity.
  Qed.
End SeedTie.
