(* C05 — best_score / best_para are the true best of this call's rows. *)
Require Import Base StopRun Converter Driver DriverFacts StopFacts.
From RecordUpdate Require Import RecordSet.
Import RecordSetNotations.

(* ---------- the running best over a list of (position, score) ---------- *)
Section BestFold.
  Context {OP : optimizer}.

  (* b is "the best of tr": nobody is strictly better, and either nothing beat -inf (no position),
     or the position is that of the FIRST event attaining the best score *)
  Definition is_best_of (tr : list ev) (b : score * option pos) : Prop :=
    fst b <> SNaN /\
    (forall e, In e tr -> sgt (ev_score e) (fst b) = false) /\
    match snd b with
    | None => fst b = SNInf /\ (forall e, In e tr -> is_nan (ev_score e) = true)
    | Some p => exists tr1 e tr2, tr = tr1 ++ e :: tr2 /\ ev_pos e = p /\ ev_score e = fst b /\
                  (forall e', In e' tr1 -> sgt (fst b) (ev_score e') = true \/ is_nan (ev_score e') = true)
    end.

  Lemma sgt_trans a b c : sgt a b = true -> sgt b c = true -> sgt a c = true.
  Proof. destruct a, b, c; cbn; try congruence; intros; try reflexivity; apply Z.ltb_lt; apply Z.ltb_lt in H, H0; lia. Qed.
  Lemma sgt_irrefl a : sgt a a = false.
  Proof. destruct a; cbn; try reflexivity. apply Z.ltb_irrefl. Qed.
  Lemma sgt_false_trans a b c : a <> SNaN -> b <> SNaN -> sgt c b = false -> sgt a b = true -> sgt c a = false.
  Proof.
    destruct a, b, c; cbn; try congruence; intros; try reflexivity;
      try (apply Z.ltb_ge; apply Z.ltb_ge in H1; apply Z.ltb_lt in H2; lia).
  Qed.
  Lemma sgt_total a b : a <> SNaN -> b <> SNaN -> sgt a b = false -> sgt b a = true \/ a = b.
  Proof.
    destruct a, b; cbn; try congruence; intros; auto.
    apply Z.ltb_ge in H1. destruct (Z.eq_dec z z0); [right; congruence|left; apply Z.ltb_lt; lia].
  Qed.

  (* invariant of the fold, started from (-inf, None) *)
  Lemma not_gt_not_eq_neginf x : sgt x SNInf = false -> seqb x SNInf = false -> is_nan x = true.
  Proof. destruct x; cbn; congruence. Qed.
  Lemma nan_not_gt x y : is_nan x = true -> sgt x y = false.
  Proof. destruct x; cbn; congruence. Qed.

  Lemma best_fold_spec (tr : list ev) : is_best_of tr (fold_left best_step tr (SNInf, None)).
  Proof.
    induction tr as [|e tr IH] using rev_ind.
    - cbn. repeat split; try discriminate; intros e [].
    - rewrite fold_left_app. cbn [fold_left]. set (b := fold_left best_step tr (SNInf, None)) in *.
      destruct IH as (Hn & Hmax & Hpos). unfold best_step, better.
      destruct (sgt (ev_score e) (fst b)) eqn:G; cbn [orb].
      + (* e is strictly better than everything before *)
        assert (Hen : ev_score e <> SNaN) by (intros X; rewrite X in G; discriminate).
        cbn [fst snd]. split; [assumption|]. split.
        * intros e' Hin. apply in_app_or in Hin. destruct Hin as [Hin|Hin].
          -- specialize (Hmax e' Hin). exact (sgt_false_trans (ev_score e) (fst b) (ev_score e') Hen Hn Hmax G).
          -- destruct Hin as [Heq|[]]. rewrite <- Heq. apply sgt_irrefl.
        * exists tr, e, []. split; [reflexivity|]. split; [reflexivity|]. split; [reflexivity|].
          intros e' Hin. specialize (Hmax e' Hin).
          destruct (is_nan (ev_score e')) eqn:N; [right; reflexivity|left].
          assert (Hne : ev_score e' <> SNaN) by (destruct (ev_score e'); cbn in N; congruence).
          destruct (sgt_total _ _ Hne Hn Hmax) as [L|L]; [exact (sgt_trans _ _ _ G L)|rewrite L; exact G].
      + destruct (snd b) as [p|] eqn:Sb; cbn [is_none andb].
        * (* a best position exists already: unchanged *)
          unfold is_best_of. rewrite Sb. split; [assumption|]. split.
          -- intros e' Hin. apply in_app_or in Hin. destruct Hin as [Hin|Hin]; [auto|].
             destruct Hin as [Heq|[]]. rewrite <- Heq. exact G.
          -- destruct Hpos as (tr1 & e0 & tr2 & -> & A & B & D).
             exists tr1, e0, (tr2 ++ [e]). rewrite <- app_assoc. cbn. repeat split; auto.
        * destruct Hpos as [Hb Hall]. destruct (seqb (ev_score e) (fst b)) eqn:T.
          -- (* the first score tying -inf provides the position *)
             apply seqb_eq in T. unfold is_best_of. cbn [fst snd]. rewrite T. split; [assumption|]. split.
             ++ intros e' Hin. apply in_app_or in Hin. destruct Hin as [Hin|Hin]; [auto|].
                destruct Hin as [Heq|[]]. rewrite <- Heq, T. apply sgt_irrefl.
             ++ exists tr, e, []. split; [reflexivity|]. split; [reflexivity|]. split; [exact T|].
                intros e' Hin. right. apply Hall. assumption.
          -- unfold is_best_of. rewrite Sb. split; [assumption|]. split.
             ++ intros e' Hin. apply in_app_or in Hin. destruct Hin as [Hin|Hin]; [auto|].
                destruct Hin as [Heq|[]]. rewrite <- Heq. exact G.
             ++ split; [assumption|]. intros e' Hin. apply in_app_or in Hin. destruct Hin as [Hin|Hin]; [auto|].
                destruct Hin as [Heq|[]]. rewrite <- Heq. rewrite Hb in G, T. apply not_gt_not_eq_neginf; assumption.
  Qed.
End BestFold.

Section C05.
  Context {OP : optimizer}.
  Variable sp : space.
  Variable f : nat -> values -> result.
  Variable clk : nat -> Z.

  (* row i of this call <-> event i: (position, decoded values, score) *)
  Definition C05_statement : Prop :=
    forall (s s' : drv OP) (c : call), 0 <= c_n_iter c ->
      search sp f clk s c = Ok s' ->
      exists tr : list ev,
        d_rows s' = d_rows s ++ map ev_row tr /\ d_pos_l s' = d_pos_l s ++ map ev_pos tr /\
        Forall (fun e => position2value sp (ev_pos e) = Ok (ev_val e)) tr /\
        (* best_score: never NaN, no row of this call is strictly better *)
        d_best_score s' <> SNaN /\
        (forall e, In e tr -> sgt (ev_score e) (d_best_score s') = false) /\
        (* best_value: the parameters of the first row attaining best_score; None only if every row is NaN *)
        match d_best_value s' with
        | Some v => exists tr1 e tr2, tr = tr1 ++ e :: tr2 /\ ev_val e = v /\ ev_score e = d_best_score s' /\
                      (forall e', In e' tr1 -> sgt (d_best_score s') (ev_score e') = true \/ is_nan (ev_score e') = true)
        | None => d_best_score s' = SNInf /\ (forall e, In e tr -> is_nan (ev_score e) = true)
        end.

  Theorem C05_holds : C05_statement.
  Proof.
    intros s s' c Hni Hs.
    destruct (search_spec sp f clk s c s' Hni Hs) as (s0 & tr & sE & b & Hi & He & Hf).
    destruct (init_search_spec _ _ _ _ _ Hi) as (mem & _ & Hs0).
    assert (Hpb : pb_pair (d_pbar s0) = (SNInf, None)) by (rewrite Hs0; reflexivity).
    assert (Hrw0 : d_rows s0 = d_rows s) by (rewrite Hs0; reflexivity).
    assert (Hps0 : d_pos_l s0 = d_pos_l s) by (rewrite Hs0; reflexivity).
    clear Hs0.
    destruct (ended_traced _ _ _ _ _ _ _ _ He) as (T & _ & _).
    destruct (finish_search_spec _ _ _ Hf) as (bv & Hbv & Hs').
    pose proof (best_fold_spec tr) as B. rewrite <- Hpb, <- (t_pbar _ _ _ _ _ T) in B.
    destruct B as (Bn & Bmax & Bpos). unfold pb_pair in *. cbn [fst snd] in *.
    exists tr. rewrite Hs'. cbn. rewrite (t_rows _ _ _ _ _ T), (t_pos _ _ _ _ _ T), Hrw0, Hps0.
    split; [reflexivity|]. split; [reflexivity|]. split; [exact (t_p2v _ _ _ _ _ T)|].
    split; [assumption|]. split; [assumption|].
    destruct (pb_pos (d_pbar sE)) as [p|].
    - destruct Hbv as (v & Hv & ->). destruct Bpos as (tr1 & e & tr2 & Htr & A & B & D).
      exists tr1, e, tr2. repeat split; auto.
      pose proof (t_p2v _ _ _ _ _ T) as P. rewrite Htr in P. apply Forall_app in P. destruct P as [_ P].
      apply Forall_inv in P. rewrite A, Hv in P. congruence.
    - subst bv. exact Bpos.
  Qed.

  (* both progress-bar update paths produce the same best (score, position) *)
  Theorem lvl1_eq_lvl0 : forall b sc p k,
    pb_best (pbar_update_lvl1 b sc p k) = pb_best (pbar_update_lvl0 b sc p k) /\
    pb_pos (pbar_update_lvl1 b sc p k) = pb_pos (pbar_update_lvl0 b sc p k).
  Proof.
    intros b sc p k. unfold pbar_update_lvl1, pbar_update_lvl0, new2best, better.
    destruct (sgt sc (pb_best b)) eqn:G; cbn; rewrite ?G; cbn; split; reflexivity.
  Qed.
End C05.

(* record of defect D13 (fixed in /repo): under the strict `>` test a run whose rows are all -inf kept
   best position None although best_score = -inf is attained by row 0 *)
Example strict_update_loses_neginf_position :
  pb_pos (new2best_strict pbar_init SNInf [0]) = None /\ pb_pos (new2best pbar_init SNInf [0]) = Some [0].
Proof. split; reflexivity. Qed.
