(* C06_sim.v — memory is TRANSPARENT: for a deterministic objective and no warm start, a search() with
   memory=True goes through exactly the same states as the same search() with memory=False, except for the
   memory bookkeeping itself (memory dict, objective call log).  Proved by a lock-step simulation. *)
Require Import Base StopRun Converter Driver DriverFacts ConverterFacts ListFacts MemFacts C11_proofs.
From RecordUpdate Require Import RecordSet.
Import RecordSetNotations.

Section Sim.
  Context {OP : optimizer}.
  Variable sp : space.
  Variable f0 : values -> result.
  Variable clk : nat -> Z.
  Notation f := (fun (_ : nat) (v : values) => f0 v).

  (* every stored result is the objective's value at the (member) vector of its key *)
  Definition mem_sound (s : drv OP) : Prop :=
    forall k r, dict_get pos_eqb k (d_mem s) = Some r ->
    forall p v, position2value sp p = Ok v -> value2position sp v = Ok k -> r = f0 v.

  Definition call_off (c : call) : call := mkCall (c_n_iter c) (c_stop c) false (c_warm c) (c_lvl1 c).

  (* t is s with the memory switched off and arbitrary memory bookkeeping *)
  Definition mir (s t : drv OP) : Prop :=
    c_memory (d_call s) = true /\ mem_sound s /\
    exists m mn fc md, t = s <| d_call := call_off (d_call s) |> <| d_mem := m |> <| d_mem_new := mn |>
                             <| d_fcalls := fc |> <| d_memory_dict := md |>.

  Definition simres (a b : res (drv OP)) : Prop :=
    match a, b with Ok s', Ok t' => mir s' t' | Err _, Err _ => True | _, _ => False end.

  Lemma mem_sound_set s key v p :
    mem_sound s -> position2value sp p = Ok v -> value2position sp v = Ok key ->
    forall k r, dict_get pos_eqb k (dict_set pos_eqb key (f0 v) (d_mem s)) = Some r ->
    forall p' v', position2value sp p' = Ok v' -> value2position sp v' = Ok k -> r = f0 v'.
  Proof.
    intros Hs Hp Hk k r Hg p' v' Hp' Hk'.
    destruct (pos_eqb k key) eqn:E.
    - apply pos_eqb_eq in E. subst k.
      assert (v' = v) by (eapply (member_key_inj sp); eauto). subst v'.
      rewrite dget_set_same in Hg. congruence.
    - rewrite dget_set_other in Hg by (intros ->; rewrite pos_eqb_refl in E; discriminate). eapply Hs; eauto.
  Qed.

  (* ---------- one objective lookup ---------- *)
  Lemma lookup_sim s t p v : mir s t -> position2value sp p = Ok v ->
    exists r s' t', lookup sp f s v = Ok (r, s') /\ lookup sp f t v = Ok (r, t') /\ mir s' t' /\
      (* nothing but the memory bookkeeping changes *)
      s' <| d_mem := d_mem s |> <| d_mem_new := d_mem_new s |> <| d_fcalls := d_fcalls s |> = s.
  Proof.
    intros (Hon & Hs & m & mn & fc & md & Ht) Hp.
    destruct (value2position_of_position2value sp p v Hp) as (key & Hk & _ & _).
    assert (Hoff : lookup sp f t v = Ok (f0 v, t <| d_fcalls ::= (fun l => l ++ [v]) |>)).
    { unfold lookup. rewrite Ht. cbn. reflexivity. }
    unfold lookup at 1. rewrite Hon, Hk. cbn [bind].
    destruct (dict_get pos_eqb key (d_mem s)) as [r|] eqn:G.
    - assert (r = f0 v) by (eapply Hs; eauto). subst r.
      exists (f0 v), s, (t <| d_fcalls ::= (fun l => l ++ [v]) |>). split; [reflexivity|]. split; [exact Hoff|]. split.
      + split; [assumption|]. split; [assumption|]. exists m, mn, (fc ++ [v]), md. rewrite Ht. cbn. reflexivity.
      + destruct s; reflexivity.
    - exists (f0 v), (s <| d_fcalls ::= (fun l => l ++ [v]) |> <| d_mem ::= dict_set pos_eqb key (f0 v) |> <| d_mem_new ::= dict_set pos_eqb key (f0 v) |>),
             (t <| d_fcalls ::= (fun l => l ++ [v]) |>).
      split; [reflexivity|]. split; [exact Hoff|]. split.
      + split; [cbn; assumption|]. split.
        * intros k r Hg p' v' Hp' Hk'. cbn in Hg. eapply (mem_sound_set s key v p); eauto.
        * exists m, mn, (fc ++ [v]), md. rewrite Ht. cbn. reflexivity.
      + destruct s; reflexivity.
  Qed.

  (* updates that neither read nor write the memory bookkeeping commute with the mirror relation *)
  Definition oblivious (g : drv OP -> drv OP) : Prop :=
    (forall x, d_call (g x) = d_call x /\ d_mem (g x) = d_mem x) /\
    (forall x cl m mn fc md,
       g (x <| d_call := cl |> <| d_mem := m |> <| d_mem_new := mn |> <| d_fcalls := fc |> <| d_memory_dict := md |>) =
       (g x) <| d_call := cl |> <| d_mem := m |> <| d_mem_new := mn |> <| d_fcalls := fc |> <| d_memory_dict := md |>).

  Lemma mir_upd g s t : oblivious g -> mir s t -> mir (g s) (g t).
  Proof.
    intros [Ha Hb] (Hon & Hs & m & mn & fc & md & ->). destruct (Ha s) as [Hc Hm].
    split; [rewrite Hc; assumption|]. split.
    - unfold mem_sound. rewrite Hm. exact Hs.
    - exists m, mn, fc, md. rewrite Hb, Hc. reflexivity.
  Qed.

  Ltac obl := split; [intros x; destruct x; split; reflexivity | intros x cl m mn fc md; destruct x; reflexivity].

  Definition simres2 {A} (a b : res (A * drv OP)) : Prop :=
    match a, b with Ok (x, s'), Ok (y, t') => x = y /\ mir s' t' | Err _, Err _ => True | _, _ => False end.

  Lemma score_of_sim s t p : mir s t -> simres2 (score_of sp f clk s p) (score_of sp f clk t p).
  Proof.
    intros M. unfold score_of, tick.
    assert (Hclk : d_clk t = d_clk s) by (destruct M as (_ & _ & m & mn & fc & md & ->); reflexivity).
    rewrite Hclk. cbn zeta iota beta.
    destruct (position2value sp p) as [v|e] eqn:Hp; cbn [bind]; [|exact I].
    assert (M1 : mir (s <| d_clk ::= S |>) (t <| d_clk ::= S |>)) by (apply (mir_upd (fun x => x <| d_clk ::= S |>)); [obl|exact M]).
    destruct (lookup_sim _ _ p v M1 Hp) as (r & s' & t' & E1 & E2 & M2 & _).
    rewrite E1, E2. cbn [bind].
    assert (Hclk2 : d_clk t' = d_clk s') by (destruct M2 as (_ & _ & m & mn & fc & md & ->); reflexivity).
    cbn. rewrite Hclk2. split; [reflexivity|].
    apply (mir_upd (fun x => x <| d_rows ::= (fun l => l ++ [result_row r v]) |> <| d_clk ::= S |>
                              <| d_eval_times ::= (fun l => l ++ [clk (d_clk s') - clk (d_clk s)]) |>)); [obl|exact M2].
  Qed.

  Lemma mir_fields s t : mir s t ->
    d_opt t = d_opt s /\ d_clk t = d_clk s /\ d_pbar t = d_pbar s /\ c_lvl1 (d_call t) = c_lvl1 (d_call s) /\
    d_n_inits_norm t = d_n_inits_norm s /\ d_n_init_search t = d_n_init_search s /\
    c_n_iter (d_call t) = c_n_iter (d_call s) /\ c_stop (d_call t) = c_stop (d_call s) /\
    d_start t = d_start s /\ d_score_l t = d_score_l s.
  Proof. intros (_ & _ & m & mn & fc & md & ->). cbn. repeat split; reflexivity. Qed.

  Lemma pbar_update_mir s t sc p k : mir s t -> pbar_update t sc p k = pbar_update s sc p k.
  Proof. intros M. destruct (mir_fields _ _ M) as (_ & _ & Hp & Hl & _). unfold pbar_update. rewrite Hp, Hl. reflexivity. Qed.

  (* _initialization / _iteration, generically in the two optimizer calls *)
  Section StepSim.
    Variable propose : ost OP -> res (ost OP * pos).
    Variable digest : ost OP -> score -> res (ost OP).
    Variable bump : drv OP -> drv OP.                 (* the counter updates of the step *)
    Hypothesis bump_obl : oblivious bump.

    Definition gen_step (s : drv OP) (nth_iter : Z) : res (drv OP) :=
      let '(t0, s) := tick clk s in
      do op <- propose (d_opt s);
      let '(o1, p) := op in
      let s := s <| d_opt := o1 |> in
      do ss <- score_of sp f clk s p;
      let '(sc, s) := ss in
      do o2 <- digest (d_opt s) sc;
      let s := s <| d_opt := o2 |> <| d_pos_l ::= (fun l => l ++ [p]) |> <| d_score_l ::= (fun l => l ++ [sc]) |> in
      let s := bump (s <| d_pbar := pbar_update s sc p nth_iter |>) in
      let '(t1, s) := tick clk s in
      Ok (s <| d_iter_times ::= (fun l => l ++ [t1 - t0]) |>).

    Lemma gen_step_sim s t k : mir s t -> simres (gen_step s k) (gen_step t k).
    Proof.
      intros M. destruct (mir_fields _ _ M) as (Ho & Hc & _). unfold gen_step, tick. rewrite Hc. cbn zeta iota beta.
      replace (d_opt (t <| d_clk ::= S |>)) with (d_opt (s <| d_clk ::= S |>)) by (cbn; symmetry; exact Ho).
      destruct (propose (d_opt (s <| d_clk ::= S |>))) as [[o1 p]|e]; cbn [bind]; [|exact I].
      assert (M1 : mir (s <| d_clk ::= S |> <| d_opt := o1 |>) (t <| d_clk ::= S |> <| d_opt := o1 |>))
        by (apply (mir_upd (fun x => x <| d_clk ::= S |> <| d_opt := o1 |>)); [obl|exact M]).
      pose proof (score_of_sim _ _ p M1) as Hsc.
      destruct (score_of sp f clk (s <| d_clk ::= S |> <| d_opt := o1 |>) p) as [[sc s']|e1];
        destruct (score_of sp f clk (t <| d_clk ::= S |> <| d_opt := o1 |>) p) as [[sc' t']|e2]; try contradiction; cbn [bind]; [|exact I].
      destruct Hsc as [<- M2]. destruct (mir_fields _ _ M2) as (Ho2 & Hc2 & _). rewrite Ho2.
      destruct (digest (d_opt s') sc) as [o2|e3]; cbn [bind]; [|exact I].
      set (g1 := fun x : drv OP => x <| d_opt := o2 |> <| d_pos_l ::= (fun l => l ++ [p]) |> <| d_score_l ::= (fun l => l ++ [sc]) |>).
      assert (M3 : mir (g1 s') (g1 t')) by (apply mir_upd; [unfold g1; obl|exact M2]).
      change (s' <| d_opt := o2 |> <| d_pos_l ::= (fun l => l ++ [p]) |> <| d_score_l ::= (fun l => l ++ [sc]) |>) with (g1 s').
      change (t' <| d_opt := o2 |> <| d_pos_l ::= (fun l => l ++ [p]) |> <| d_score_l ::= (fun l => l ++ [sc]) |>) with (g1 t').
      rewrite (pbar_update_mir _ _ sc p k M3).
      set (pb := pbar_update (g1 s') sc p k).
      assert (M4 : mir (bump (g1 s' <| d_pbar := pb |>)) (bump (g1 t' <| d_pbar := pb |>))).
      { apply mir_upd; [exact bump_obl|]. apply (mir_upd (fun x => x <| d_pbar := pb |>)); [obl|exact M3]. }
      destruct (mir_fields _ _ M4) as (_ & Hc4 & _). rewrite Hc4. cbn zeta iota beta.
      apply (mir_upd (fun x => x <| d_clk ::= S |> <| d_iter_times ::= (fun l => l ++ [clk (d_clk (bump (g1 s' <| d_pbar := pb |>))) - clk (d_clk s)]) |>)); [obl|exact M4].
    Qed.
  End StepSim.

  Definition bump_init (x : drv OP) : drv OP := x <| d_n_init_total ::= Z.succ |> <| d_n_init_search ::= Z.succ |>.
  Definition bump_iter (x : drv OP) : drv OP := x <| d_n_iter_total ::= Z.succ |> <| d_n_iter_search ::= Z.succ |>.

  Lemma initialization_gen s k : initialization sp f clk s k = gen_step (o_init_pos OP) (o_eval_init OP) bump_init s k.
  Proof. reflexivity. Qed.
  Lemma iteration_gen s k : iteration sp f clk s k = gen_step (o_iterate OP) (o_evaluate OP) bump_iter s k.
  Proof. reflexivity. Qed.

  Lemma initialization_sim s t k : mir s t -> simres (initialization sp f clk s k) (initialization sp f clk t k).
  Proof. intros M. rewrite !initialization_gen. apply gen_step_sim; [unfold bump_init; obl|exact M]. Qed.
  Lemma iteration_sim s t k : mir s t -> simres (iteration sp f clk s k) (iteration sp f clk t k).
  Proof. intros M. rewrite !iteration_gen. apply gen_step_sim; [unfold bump_iter; obl|exact M]. Qed.

  Lemma search_step_sim s t k : mir s t -> simres (search_step sp f clk s k) (search_step sp f clk t k).
  Proof.
    intros M. unfold search_step. destruct (mir_fields _ _ M) as (_ & _ & _ & _ & Hn & _). rewrite Hn.
    assert (H1 : simres (if k <? d_n_inits_norm s then initialization sp f clk s k else Ok s)
                        (if k <? d_n_inits_norm s then initialization sp f clk t k else Ok t)).
    { destruct (k <? d_n_inits_norm s); [apply initialization_sim; exact M|exact M]. }
    destruct (if k <? d_n_inits_norm s then initialization sp f clk s k else Ok s) as [s1|e1];
      destruct (if k <? d_n_inits_norm s then initialization sp f clk t k else Ok t) as [t1|e1']; try contradiction; cbn [bind]; [|exact I].
    cbn in H1. destruct (mir_fields _ _ H1) as (Ho1 & _ & _ & _ & _ & Hs1 & _). rewrite Hs1, Ho1.
    assert (H2 : simres (if k =? d_n_init_search s1 then do o' <- o_finish_init OP (d_opt s1); Ok (s1 <| d_opt := o' |>) else Ok s1)
                        (if k =? d_n_init_search s1 then do o' <- o_finish_init OP (d_opt s1); Ok (t1 <| d_opt := o' |>) else Ok t1)).
    { destruct (k =? d_n_init_search s1); [|exact H1]. destruct (o_finish_init OP (d_opt s1)) as [o'|e]; cbn [bind]; [|exact I].
      apply (mir_upd (fun x => x <| d_opt := o' |>)); [obl|exact H1]. }
    destruct (if k =? d_n_init_search s1 then do o' <- o_finish_init OP (d_opt s1); Ok (s1 <| d_opt := o' |>) else Ok s1) as [s2|e2];
      destruct (if k =? d_n_init_search s1 then do o' <- o_finish_init OP (d_opt s1); Ok (t1 <| d_opt := o' |>) else Ok t1) as [t2|e2']; try contradiction; cbn [bind]; [|exact I].
    cbn in H2. destruct (mir_fields _ _ H2) as (_ & _ & _ & _ & _ & Hs2 & Hn2 & _). rewrite Hs2, Hn2.
    destruct ((d_n_init_search s2 <=? k) && (k <? c_n_iter (d_call s2))); [apply iteration_sim; exact H2|exact H2].
  Qed.

  Lemma stop_check_sim s t : mir s t -> simres2 (stop_check clk s) (stop_check clk t).
  Proof.
    intros M. unfold stop_check, tick. destruct (mir_fields _ _ M) as (_ & Hc & Hp & _ & _ & _ & _ & Hst & Hsta & Hsl).
    rewrite Hst, Hc, Hp, Hsta, Hsl.
    destruct (check_reads_clock (c_stop (d_call s))); cbn zeta iota beta.
    - destruct (check _ _ _ _ _) as [b|e]; cbn [bind]; [|exact I]. split; [reflexivity|].
      apply (mir_upd (fun x => x <| d_clk ::= S |>)); [obl|exact M].
    - destruct (check _ _ _ _ _) as [b|e]; cbn [bind]; [|exact I]. split; [reflexivity|exact M].
  Qed.

  Lemma loop_sim : forall todo k s t, mir s t -> simres (loop sp f clk todo k s) (loop sp f clk todo k t).
  Proof.
    induction todo as [|todo IH]; intros k s t M; cbn [loop]; [exact M|].
    pose proof (search_step_sim s t k M) as H1.
    destruct (search_step sp f clk s k) as [s1|e]; destruct (search_step sp f clk t k) as [t1|e']; try contradiction; cbn [bind]; [|exact I].
    cbn in H1. pose proof (stop_check_sim s1 t1 H1) as H2.
    destruct (stop_check clk s1) as [[b s2]|e]; destruct (stop_check clk t1) as [[b' t2]|e']; try contradiction; cbn [bind]; [|exact I].
    destruct H2 as [<- M2]. destruct b; [exact M2|apply IH; exact M2].
  Qed.

  (* ---------- the whole call ---------- *)
  Record same_run (a b : drv OP) : Prop := {
    sr_rows_eq : d_rows a = d_rows b;
    sr_pos_eq : d_pos_l a = d_pos_l b;
    sr_score_eq : d_score_l a = d_score_l b;
    sr_best_eq : d_best_score a = d_best_score b /\ d_best_value a = d_best_value b;
    sr_counters_eq : d_n_init_total a = d_n_init_total b /\ d_n_iter_total a = d_n_iter_total b;
    sr_times_eq : d_eval_times a = d_eval_times b /\ d_iter_times a = d_iter_times b;
    sr_opt_eq : d_opt a = d_opt b
  }.

  Theorem memory_transparent (s s1 : drv OP) (c : call) :
    c_memory c = true -> c_warm c = None ->
    search sp f clk s c = Ok s1 ->
    exists s2, search sp f clk s (call_off c) = Ok s2 /\ same_run s1 s2.
  Proof.
    intros Hon Hw H. unfold search in *.
    destruct (init_search sp clk s c) as [s0|e] eqn:Ei; cbn [bind] in H; [|discriminate].
    assert (Et : exists t0, init_search sp clk s (call_off c) = Ok t0 /\ mir s0 t0).
    { unfold init_search, tick, memory_init in *. cbn in Ei |- *. rewrite Hw in *. cbn in Ei |- *. inversion Ei; subst s0. clear Ei.
      eexists. split; [reflexivity|]. split; [cbn; exact Hon|]. split.
      - intros k r Hg. cbn in Hg. discriminate.
      - exists [], [], (d_fcalls s), (d_memory_dict s). destruct s; reflexivity. }
    destruct Et as (t0 & Et & M0). rewrite Et. cbn [bind].
    assert (Hn : c_n_iter (call_off c) = c_n_iter c) by reflexivity. rewrite Hn.
    pose proof (loop_sim (Z.to_nat (c_n_iter c)) 0 s0 t0 M0) as HL.
    destruct (loop sp f clk (Z.to_nat (c_n_iter c)) 0 s0) as [sE|e] eqn:El; cbn [bind] in H; [|discriminate].
    destruct (loop sp f clk (Z.to_nat (c_n_iter c)) 0 t0) as [tE|e']; [|contradiction]. cbn [bind]. cbn in HL.
    destruct HL as (_ & _ & m & mn & fc & md & ->).
    unfold finish_search in *. cbn in H |- *.
    destruct (match pb_pos (d_pbar sE) with Some p => do v <- position2value sp p; Ok (Some v) | None => Ok None end) as [bv|e]; cbn [bind] in H |- *; [|discriminate].
    inversion H; subst s1. eexists. split; [reflexivity|]. constructor; cbn; auto.
  Qed.
End Sim.
