(* ListFacts.v — small list lemmas missing from Coq 8.16's standard library. *)
From Coq Require Import List Lia.
Import ListNotations.

Lemma Forall2_length {A B} (R : A -> B -> Prop) l l' : Forall2 R l l' -> length l = length l'.
Proof. induction 1; cbn; congruence. Qed.

Lemma NoDup_app_snoc {A} (l : list A) x : NoDup l -> ~ In x l -> NoDup (l ++ [x]).
Proof.
  induction l as [|y l IH]; intros Hn Hx; cbn.
  - constructor; [intros []|constructor].
  - inversion Hn; subst. constructor.
    + intros Hin. apply in_app_or in Hin. destruct Hin as [Hin|[->|[]]]; [contradiction|]. apply Hx. left. reflexivity.
    + apply IH; [assumption|]. intros Hin. apply Hx. right. assumption.
Qed.

Lemma NoDup_map_inj {A B} (f : A -> B) (l : list A) :
  NoDup l -> (forall x y, In x l -> In y l -> f x = f y -> x = y) -> NoDup (map f l).
Proof.
  induction 1 as [|a l Hn Hd IH]; intros Hi; cbn; constructor.
  - intros Hin. apply in_map_iff in Hin. destruct Hin as (y & Hy & Hy').
    assert (y = a) by (apply Hi; cbn; auto). subst. contradiction.
  - apply IH. intros x y Hx Hy. apply Hi; cbn; auto.
Qed.
