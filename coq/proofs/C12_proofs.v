(* C12 — max_score stops the search exactly when the target is reached. *)
Require Import Base StopRun Converter Driver DriverFacts StopFacts.
From RecordUpdate Require Import RecordSet.
Import RecordSetNotations.

Section C12.
  Context {OP : optimizer}.
  Variable sp : space.
  Variable f : nat -> values -> result.
  Variable clk : nat -> Z.

  Definition only_max_score (c : call) (m : score) : Prop := c_stop c = mkStop None (Some m) None.

  (* the full statement of the property, for one search() call *)
  Definition C12_statement : Prop :=
    forall (s s' : drv OP) (c : call) (m : score),
      only_max_score c m -> m <> SNInf -> 0 <= c_n_iter c ->
      search sp f clk s c = Ok s' ->
      exists sc : list score,                       (* the scores of this call's steps, in order *)
        d_score_l s' = d_score_l s ++ sc /\
        length (d_rows s') = (length (d_rows s) + length sc)%nat /\
        match first_reach m sc with
        | Some k => length sc = S k                 (* stopped right after the first step reaching m *)
        | None => zlen sc = c_n_iter c              (* nobody reached m: all n_iter steps ran *)
        end /\
        (sge (d_best_score s') m = true <-> exists x, In x sc /\ sge x m = true).

  Lemma stop_after_max_score (s0 : drv OP) m tr :
    c_stop (d_call s0) = mkStop None (Some m) None ->
    stop_after clk s0 tr = Ok (sge (fst (fold_left best_step tr (pb_pair (d_pbar s0)))) m).
  Proof.
    intros Hc. unfold stop_after, check. rewrite Hc. cbn.
    destruct (sge _ m); reflexivity.
  Qed.

  Lemma existsb_firstn_false {A} (p : A -> bool) (l : list A) :
    (forall j, (0 < j <= length l)%nat -> existsb p (firstn j l) = false) -> forall x, In x l -> p x = false.
  Proof.
    intros H x Hx. destruct l as [|a l]; [contradiction|].
    specialize (H (length (a :: l)) ltac:(cbn; lia)). rewrite firstn_all in H.
    destruct (p x) eqn:Px; [|reflexivity].
    assert (existsb p (a :: l) = true) by (apply existsb_exists; eauto). congruence.
  Qed.

  Theorem C12_holds : C12_statement.
  Proof.
    intros s s' c m Hm Hninf Hn Hs.
    destruct (search_spec sp f clk s c s' Hn Hs) as (s0 & tr & sE & b & Hi & He & Hf).
    destruct (init_search_spec _ _ _ _ _ Hi) as (mem & _ & Hs0).
    assert (Hcall : d_call s0 = c) by (rewrite Hs0; reflexivity).
    assert (Hpb : pb_pair (d_pbar s0) = (SNInf, None)) by (rewrite Hs0; reflexivity).
    assert (Hsc0 : d_score_l s0 = d_score_l s) by (rewrite Hs0; reflexivity).
    assert (Hrw0 : d_rows s0 = d_rows s) by (rewrite Hs0; reflexivity).
    clear Hs0.
    assert (Hm0 : sge SNInf m = false) by (destruct m; cbn; congruence).
    destruct (ended_traced _ _ _ _ _ _ _ _ He) as (T & Hle & Hfull).
    destruct (ended_stops _ _ _ _ _ _ _ _ He) as (Hnone & Hstop).
    destruct (finish_search_spec _ _ _ Hf) as (bv & _ & Hs').
    assert (Hstopm : c_stop (d_call s0) = mkStop None (Some m) None) by (rewrite Hcall; exact Hm).
    assert (Hbest : d_best_score s' = fst (fold_left best_step tr (SNInf, None))).
    { rewrite Hs'. cbn. rewrite <- Hpb, <- (t_pbar _ _ _ _ _ T). reflexivity. }
    assert (Hnn : fst (SNInf, @None pos) <> SNaN) by (cbn; discriminate).
    exists (map ev_score tr). split; [|split; [|split]].
    - rewrite Hs'. cbn. rewrite (t_score _ _ _ _ _ T), Hsc0. reflexivity.
    - rewrite Hs'. cbn. rewrite (t_rows _ _ _ _ _ T), Hrw0, app_length, !map_length. reflexivity.
    - (* the stopping step *)
      assert (Hpre : forall tr', none_stopped clk s0 tr' -> forall e, In e tr' -> sge (ev_score e) m = false).
      { intros tr' Hn' e Hin. apply (existsb_firstn_false (fun e => sge (ev_score e) m) tr'); [|assumption].
        intros j Hj. specialize (Hn' j Hj). rewrite (stop_after_max_score _ m _ Hstopm), Hpb in Hn'.
        injection Hn' as Hn'. rewrite fold_best_sge in Hn' by assumption. cbn [fst] in Hn'.
        rewrite Hm0 in Hn'. exact Hn'. }
      destruct b.
      + destruct (Hstop eq_refl) as (Hlast & Hnp & Hne).
        destruct (exists_last Hne) as (tr0 & e & ->). rewrite removelast_last in Hnp.
        rewrite (stop_after_max_score _ m _ Hstopm), Hpb in Hlast. injection Hlast as H0. symmetry in H0.
        rewrite fold_best_sge in H0 by assumption. cbn [fst] in H0. rewrite Hm0 in H0. cbn [orb] in H0.
        rewrite existsb_app in H0. cbn in H0. rewrite orb_false_r in H0.
        assert (Hall : forall y, In y (map ev_score tr0) -> sge y m = false).
        { intros y Hy. apply in_map_iff in Hy. destruct Hy as (e0 & <- & He0). eapply Hpre; eauto. }
        assert (Hex0 : existsb (fun e => sge (ev_score e) m) tr0 = false).
        { destruct (existsb _ tr0) eqn:X; [|reflexivity]. apply existsb_exists in X.
          destruct X as (e0 & He0 & Hx). rewrite (Hpre _ Hnp _ He0) in Hx. discriminate. }
        rewrite Hex0 in H0. cbn in H0.
        symmetry in H0. rewrite map_app. cbn [map]. rewrite (first_reach_last m _ _ Hall H0).
        rewrite app_length, map_length. cbn. lia.
      + specialize (Hnone eq_refl). rewrite first_reach_none.
        * unfold zlen in *. rewrite map_length. apply Hfull. reflexivity.
        * intros y Hy. apply in_map_iff in Hy. destruct Hy as (e0 & <- & He0). eapply Hpre; eauto.
    - rewrite Hbest, fold_best_sge by assumption. cbn [fst]. rewrite Hm0. cbn [orb]. split.
      + intros H. apply existsb_exists in H. destruct H as (e & He1 & He2).
        exists (ev_score e). split; [apply in_map; assumption|assumption].
      + intros (x & Hx & Hxm). apply in_map_iff in Hx. destruct Hx as (e & <- & He1).
        apply existsb_exists. eauto.
  Qed.
End C12.

(* the unchanged tree's truthiness reading is refuted for m = 0 (kept as the record of defect D1) *)
Definition check_truthy (m : option score) (best : score) : bool := score_exceeded_truthy best m.
Lemma truthy_zero_never_stops : forall best, check_truthy (Some (SFin 0)) best = false.
Proof. intros best. reflexivity. Qed.
