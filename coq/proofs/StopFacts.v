(* StopFacts.v — facts about scores, the running best and the stopping predicates. *)
Require Import Base StopRun Converter Driver DriverFacts.

(* ---------- order facts on scores ---------- *)
Lemma sge_best_step (b x m : score) :
  b <> SNaN -> sge (if sgt x b then x else b) m = sge b m || sge x m.
Proof.
  intros Hb. destruct b, x, m; cbn; try congruence; try reflexivity;
    repeat match goal with |- context[if ?c then _ else _] => destruct c eqn:? end;
    cbn; try reflexivity; try lia;
    repeat match goal with
           | |- context[?a <=? ?b] => destruct (Z.leb_spec a b)
           | |- context[?a <? ?b] => destruct (Z.ltb_spec a b)
           | H : (_ <? _) = true |- _ => apply Z.ltb_lt in H
           | H : (_ <? _) = false |- _ => apply Z.ltb_ge in H
           end; cbn; try reflexivity; try lia.
Qed.

Lemma best_step_notnan (b : score) (x : score) : b <> SNaN -> (if sgt x b then x else b) <> SNaN.
Proof. intros Hb. destruct b, x; cbn; try congruence; destruct (_ <? _); congruence. Qed.

Lemma seqb_eq a b : seqb a b = true -> a = b.
Proof. destruct a, b; cbn; try discriminate; try reflexivity. intros H. apply Z.eqb_eq in H. congruence. Qed.

(* the score component of the running best ignores the tie rule (a tie keeps the same score) *)
Lemma best_step_fst b e : fst (best_step b e) = if sgt (ev_score e) (fst b) then ev_score e else fst b.
Proof.
  unfold best_step, better. destruct (sgt (ev_score e) (fst b)) eqn:G; cbn; [reflexivity|].
  destruct (is_none (snd b) && seqb (ev_score e) (fst b)) eqn:T; [|reflexivity].
  apply andb_prop in T. destruct T as [_ T]. apply seqb_eq in T. cbn. exact T.
Qed.

Section Best.
  Context {OP : optimizer}.

  Lemma fold_best_notnan (tr : list ev) b : fst b <> SNaN -> fst (fold_left best_step tr b) <> SNaN.
  Proof.
    revert b. induction tr as [|e tr IH]; intros b Hb; cbn; [assumption|].
    apply IH. rewrite best_step_fst. apply best_step_notnan. assumption.
  Qed.

  (* the running best reaches m exactly when some score did *)
  Lemma fold_best_sge (tr : list ev) b m : fst b <> SNaN ->
    sge (fst (fold_left best_step tr b)) m = sge (fst b) m || existsb (fun e => sge (ev_score e) m) tr.
  Proof.
    revert b. induction tr as [|e tr IH]; intros b Hb; cbn; [rewrite orb_false_r; reflexivity|].
    rewrite IH.
    - rewrite best_step_fst, (sge_best_step (fst b) (ev_score e) m Hb), orb_assoc. reflexivity.
    - rewrite best_step_fst. apply best_step_notnan. assumption.
  Qed.
End Best.

(* ---------- first step reaching a threshold ---------- *)
Fixpoint first_reach (m : score) (l : list score) : option nat :=
  match l with
  | [] => None
  | s :: tl => if sge s m then Some O else option_map S (first_reach m tl)
  end.

Lemma first_reach_none m l : (forall x, In x l -> sge x m = false) -> first_reach m l = None.
Proof.
  induction l as [|x l IH]; intros H; cbn; [reflexivity|].
  rewrite (H x) by (left; reflexivity). rewrite IH; [reflexivity|]. intros y Hy. apply H. right. assumption.
Qed.

Lemma first_reach_last m l x : (forall y, In y l -> sge y m = false) -> sge x m = true ->
  first_reach m (l ++ [x]) = Some (length l).
Proof.
  induction l as [|y l IH]; intros H Hx; cbn.
  - rewrite Hx. reflexivity.
  - rewrite (H y) by (left; reflexivity). rewrite IH; [reflexivity| |assumption].
    intros z Hz. apply H. right. assumption.
Qed.

Lemma first_reach_some_in m l k : first_reach m l = Some k -> exists x, In x l /\ sge x m = true.
Proof.
  revert k. induction l as [|y l IH]; intros k H; cbn in H; [discriminate|].
  destruct (sge y m) eqn:G.
  - exists y. split; [left; reflexivity|assumption].
  - destruct (first_reach m l) eqn:F; [|discriminate]. destruct (IH _ eq_refl) as (x & Hx & Hs).
    exists x. split; [right; assumption|assumption].
Qed.
