(* ConvTie.v — Converter.position2value / value2position / value2para / para2value GENERATED from /repo's converter.py
   (generated/ConvGen.v) are EQUAL to the hand model theories/Converter.v (results and errors), for every space, name list and argument:
   everything proved about the model's conversions (C20 round trips, C01's genuine decoding, the memory key of C06 / C11) is about what
   the source says now. *)
Require Import Base PyPrims PyPrimsQ Converter ListFacts ConvGen.
Open Scope Z_scope.

Lemma nth_py_nowrap {A} (l : list A) (k : nat) : nth_py l (Z.of_nat k) = nth_nowrap l (Z.of_nat k).
Proof. unfold nth_py, nth_nowrap. cbv zeta. destruct (Z.of_nat k <? 0) eqn:E; [apply Z.ltb_lt in E; lia|]. cbv iota. rewrite ?E. reflexivity. Qed.

Lemma enumerate_from {A} (l : list A) (k : nat) :
  zip (map Z.of_nat (seq k (length l))) l = match l with [] => [] | x :: tl => (Z.of_nat k, x) :: zip (map Z.of_nat (seq (S k) (length tl))) tl end.
Proof. destruct l; reflexivity. Qed.

Section ConvTie.
  Variable names : list Z.

  Lemma p2v_loop (p : pos) (body : list Z -> Z * list Z -> res (list Z)) :
    (forall acc n dim, body acc (n, dim) = do i <- py_getitem p n; do v <- py_getitem dim i; Ok (acc ++ [v])) ->
    forall sp k acc, py_for body (zip (map Z.of_nat (seq k (length sp))) sp) acc =
                     match position2value_aux sp p (Z.of_nat k) with Ok vs => Ok (acc ++ vs) | Err e => Err e end.
  Proof.
    intros H. induction sp as [|dim sp IH]; intros k acc; [cbn; rewrite app_nil_r; reflexivity|].
    rewrite enumerate_from. cbn [py_for position2value_aux]. rewrite H. unfold py_getitem. rewrite nth_py_nowrap.
    destruct (nth_nowrap p (Z.of_nat k)) as [i|e]; cbn [bind]; [|reflexivity].
    destruct (nth_py dim i) as [v|e]; cbn [bind]; [|reflexivity].
    rewrite IH. replace (Z.of_nat k + 1) with (Z.of_nat (S k)) by lia.
    destruct (position2value_aux sp p (Z.of_nat (S k))) as [vs|e]; cbn [bind]; [|reflexivity]. rewrite <- app_assoc. reflexivity.
  Qed.

  Theorem position2value_tie sp p : g_Converter_position2value sp p = position2value sp p.
  Proof.
    unfold g_Converter_position2value, position2value, py_enumerate. cbv zeta. rewrite (p2v_loop p).
    - change (Z.of_nat 0) with 0. destruct (position2value_aux sp p 0); reflexivity.
    - intros acc n dim. destruct (py_getitem p n) as [i|e]; cbn [bind]; [|reflexivity]. destruct (py_getitem dim i); reflexivity.
  Qed.

  Lemma v2p_loop (v : values) (body : list Z -> Z * list Z -> res (list Z)) :
    (forall acc n dim, body acc (n, dim) = do x <- py_getitem v n; do i <- nearest_index dim x; Ok (acc ++ [i])) ->
    forall sp k acc, py_for body (zip (map Z.of_nat (seq k (length sp))) sp) acc =
                     match value2position_aux sp v (Z.of_nat k) with Ok ps => Ok (acc ++ ps) | Err e => Err e end.
  Proof.
    intros H. induction sp as [|dim sp IH]; intros k acc; [cbn; rewrite app_nil_r; reflexivity|].
    rewrite enumerate_from. cbn [py_for value2position_aux]. rewrite H. unfold py_getitem. rewrite nth_py_nowrap.
    destruct (nth_nowrap v (Z.of_nat k)) as [x|e]; cbn [bind]; [|reflexivity].
    destruct (nearest_index dim x) as [i|e]; cbn [bind]; [|reflexivity].
    rewrite IH. replace (Z.of_nat k + 1) with (Z.of_nat (S k)) by lia.
    destruct (value2position_aux sp v (Z.of_nat (S k))) as [ps|e]; cbn [bind]; [|reflexivity]. rewrite <- app_assoc. reflexivity.
  Qed.

  Theorem value2position_tie sp v : g_Converter_value2position sp v = value2position sp v.
  Proof.
    unfold g_Converter_value2position, value2position, py_enumerate. cbv zeta. rewrite (v2p_loop v).
    - change (Z.of_nat 0) with 0. destruct (value2position_aux sp v 0); reflexivity.
    - intros acc n dim. destruct (py_getitem v n) as [x|e]; cbn [bind]; [|reflexivity]. destruct (nearest_index dim x); reflexivity.
  Qed.

  Lemma v2para_loop (body : para -> Z * Z -> res para) :
    (forall acc k x, body acc (k, x) = Ok (dict_set Z.eqb k x acc)) ->
    forall l acc, py_for body l acc = Ok (fold_left (fun d kv => dict_set Z.eqb (fst kv) (snd kv) d) l acc).
  Proof.
    intros H. induction l as [|[k x] l IH]; intros acc; cbn [py_for fold_left]; [reflexivity|]. rewrite H. cbn [bind fst snd]. apply IH.
  Qed.

  Theorem value2para_tie v : g_Converter_value2para names v = Ok (value2para names v).
  Proof.
    unfold g_Converter_value2para, value2para, dict_of_pairs, py_zip. cbv zeta. rewrite v2para_loop; [reflexivity|]. intros; reflexivity.
  Qed.

  Lemma para2v_loop (f : Z -> res Z) (body : list Z -> Z -> res (list Z)) :
    (forall acc x, body acc x = do y <- f x; Ok (acc ++ [y])) ->
    forall l acc, py_for body l acc = match map_res f l with Ok ys => Ok (acc ++ ys) | Err e => Err e end.
  Proof.
    intros H. induction l as [|a l IH]; intros acc; cbn [py_for map_res]; [rewrite app_nil_r; reflexivity|].
    rewrite H. destruct (f a) as [y|e]; cbn [bind]; [|reflexivity]. rewrite IH.
    destruct (map_res f l) as [ys|e]; cbn [bind]; [|reflexivity]. rewrite <- app_assoc. reflexivity.
  Qed.

  Theorem para2value_tie p : g_Converter_para2value names p = para2value names p.
  Proof.
    unfold g_Converter_para2value, para2value. cbv zeta.
    rewrite (para2v_loop (fun nm => match dict_get Z.eqb nm p with Some x => Ok x | None => Err KeyError end)).
    - destruct (map_res _ names); reflexivity.
    - intros acc x. unfold py_dict_get. destruct (dict_get Z.eqb x p); reflexivity.
  Qed.
End ConvTie.
