(* ConverterFacts.v — facts about converter.py's model: zip-style characterisations of the
   index-driven loops, nearest-index lookup, round trips. *)
Require Import Base Converter.

(* ---------- the enumerate()-loops as plain zips ---------- *)
Fixpoint p2v (sp : space) (p : pos) : res values :=
  match sp, p with
  | [], _ => Ok []
  | dim :: tl, i :: p' => do v <- nth_py dim i; do vs <- p2v tl p'; Ok (v :: vs)
  | _ :: _, [] => Err IndexError
  end.

Fixpoint v2p (sp : space) (v : values) : res pos :=
  match sp, v with
  | [], _ => Ok []
  | dim :: tl, x :: v' => do i <- nearest_index dim x; do ps <- v2p tl v'; Ok (i :: ps)
  | _ :: _, [] => Err IndexError
  end.

Lemma nth_nowrap_skipn {A} (l : list A) n : 0 <= n ->
  nth_nowrap l n = match skipn (Z.to_nat n) l with x :: _ => Ok x | [] => Err IndexError end.
Proof.
  intros Hn. unfold nth_nowrap, zlen.
  destruct (Z.ltb_spec n 0); [lia|]. cbn [orb].
  destruct (Z.leb_spec (Z.of_nat (length l)) n) as [Hge|Hlt].
  - rewrite skipn_all2 by lia. reflexivity.
  - remember (Z.to_nat n) as k. assert (k < length l)%nat by lia.
    clear Heqk Hlt Hn H. revert l H0. induction k as [|k IH]; intros [|x l] Hk; cbn in *; try lia; [reflexivity|].
    apply IH. lia.
Qed.

Lemma skipn_succ {A} (l : list A) k : skipn (S k) l = tl (skipn k l).
Proof.
  revert l. induction k as [|k IH]; intros [|x l]; try reflexivity.
  - change (skipn (S (S k)) (x :: l)) with (skipn (S k) l). rewrite IH. reflexivity.
Qed.

Lemma position2value_aux_zip sp : forall p n, 0 <= n ->
  position2value_aux sp p n = p2v sp (skipn (Z.to_nat n) p).
Proof.
  induction sp as [|dim sp IH]; intros p n Hn; cbn [position2value_aux p2v]; [reflexivity|].
  rewrite nth_nowrap_skipn by assumption.
  rewrite (IH p (n + 1)) by lia. replace (Z.to_nat (n + 1)) with (S (Z.to_nat n)) by lia.
  rewrite skipn_succ. destruct (skipn (Z.to_nat n) p) as [|i p']; cbn; reflexivity.
Qed.

Lemma value2position_aux_zip sp : forall v n, 0 <= n ->
  value2position_aux sp v n = v2p sp (skipn (Z.to_nat n) v).
Proof.
  induction sp as [|dim sp IH]; intros v n Hn; cbn [value2position_aux v2p]; [reflexivity|].
  rewrite nth_nowrap_skipn by assumption.
  rewrite (IH v (n + 1)) by lia. replace (Z.to_nat (n + 1)) with (S (Z.to_nat n)) by lia.
  rewrite skipn_succ. destruct (skipn (Z.to_nat n) v) as [|i v']; cbn; reflexivity.
Qed.

Lemma position2value_zip sp p : position2value sp p = p2v sp p.
Proof. unfold position2value. rewrite position2value_aux_zip by lia. reflexivity. Qed.
Lemma value2position_zip sp v : value2position sp v = v2p sp v.
Proof. unfold value2position. rewrite value2position_aux_zip by lia. reflexivity. Qed.

(* ---------- argmin: the first index of a minimal element ---------- *)
Lemma argmin_aux_spec l : forall best besti i, (besti < i)%nat ->
  exists m, ((m = best /\ argmin_first_aux best besti i l = besti) \/
             exists k, nth_error l k = Some m /\ argmin_first_aux best besti i l = (i + k)%nat /\ m < best)
            /\ m <= best /\ Forall (fun y => m <= y) l
            /\ (forall k y, nth_error l k = Some y -> (i + k < argmin_first_aux best besti i l)%nat -> m < y).
Proof.
  induction l as [|y l IH]; intros best besti i Hlt; cbn [argmin_first_aux].
  - exists best. split; [left; auto|]. split; [lia|]. split; [constructor|]. intros k y Hk. destruct k; discriminate.
  - destruct (Z.ltb_spec y best) as [Hy|Hy].
    + destruct (IH y i (S i) ltac:(lia)) as (m & Hm & Hle & Hall & Hfirst).
      exists m. split; [|split; [lia|split]].
      * right. destruct Hm as [[-> Hr]|(k & Hk & Hr & Hlt')].
        -- exists 0%nat. cbn. split; [reflexivity|]. split; [lia|assumption].
        -- exists (S k). cbn. split; [assumption|]. split; [lia|lia].
      * constructor; [lia|assumption].
      * intros k z Hk Hr. destruct k; cbn in Hk.
        -- inversion Hk; subst. destruct Hm as [[-> Hr']|(k' & _ & Hr' & ?)]; lia.
        -- apply (Hfirst k z Hk). lia.
    + destruct (IH best besti (S i) ltac:(lia)) as (m & Hm & Hle & Hall & Hfirst).
      exists m. split; [|split; [lia|split]].
      * destruct Hm as [[-> Hr]|(k & Hk & Hr & Hlt')]; [left; auto|].
        right. exists (S k). cbn. split; [assumption|]. split; [lia|lia].
      * constructor; [lia|assumption].
      * intros k z Hk Hr. destruct k; cbn in Hk.
        -- inversion Hk; subst. destruct Hm as [[-> Hr']|(k' & _ & Hr' & ?)]; lia.
        -- apply (Hfirst k z Hk). lia.
Qed.

(* a member value's nearest index holds that very value, and it is the FIRST index holding it *)
Lemma nearest_index_member dim x i :
  nth_py dim i = Ok x ->
  exists j, nearest_index dim x = Ok j /\ 0 <= j < zlen dim /\ nth_error dim (Z.to_nat j) = Some x /\
            (forall k, (k < Z.to_nat j)%nat -> nth_error dim k <> Some x).
Proof.
  intros Hi. assert (Hin : In x dim).
  { unfold nth_py in Hi. destruct (_ || _); [discriminate|].
    destruct (nth_error dim _) eqn:E; [|discriminate]. inversion Hi; subst. eapply nth_error_In; eauto. }
  unfold nearest_index. destruct dim as [|a0 rest]; [contradiction|]. cbn [map argmin_first bind].
  set (g := fun a => Z.abs (x - a)).
  destruct (argmin_aux_spec (map g rest) (g a0) 0%nat 1%nat ltac:(lia)) as (m & Hm & Hle & Hall & Hfirst).
  set (r := argmin_first_aux (g a0) 0%nat 1%nat (map g rest)) in *.
  assert (Hm0 : m = 0).
  { assert (0 <= m).
    { destruct Hm as [[-> _]|(k & Hk & _)]; [unfold g; lia|].
      apply nth_error_In in Hk. apply in_map_iff in Hk. destruct Hk as (a & <- & _). unfold g. lia. }
    destruct Hin as [->|Hin]; [unfold g in Hle; lia|].
    rewrite Forall_forall in Hall. specialize (Hall (g x) (in_map g _ _ Hin)). unfold g in Hall. lia. }
  subst m. exists (Z.of_nat r). split; [reflexivity|].
  destruct Hm as [[Hg Hr]|(k & Hk & Hr & Hlt)]; fold r in Hr; rewrite Hr in *.
  - unfold g in Hg. assert (a0 = x) by lia. subst a0. unfold zlen. cbn. repeat split; try lia.
  - rewrite nth_error_map in Hk. destruct (nth_error rest k) as [a|] eqn:Ek; [|discriminate].
    cbn in Hk. assert (Hga : g a = 0) by congruence. clear Hk. unfold g in Hga. assert (a = x) by lia. subst a.
    assert (k < length rest)%nat by (apply nth_error_Some; congruence).
    unfold zlen. cbn [length]. split; [lia|]. rewrite Nat2Z.id. split; [cbn; assumption|].
    intros k' Hk'. destruct k' as [|k'']; cbn.
    + intros [= ->]. unfold g in Hlt. lia.
    + intros Hx. specialize (Hfirst k'' (g x)). rewrite nth_error_map, Hx in Hfirst. cbn in Hfirst.
      specialize (Hfirst eq_refl ltac:(lia)). unfold g in Hfirst. lia.
Qed.

(* ---------- position -> value -> position ---------- *)
Definition in_box (sp : space) (p : pos) : Prop := Forall2 (fun dim i => 0 <= i < zlen dim) sp p.

Lemma nth_py_inrange {A} (l : list A) j x : 0 <= j < zlen l -> nth_error l (Z.to_nat j) = Some x -> nth_py l j = Ok x.
Proof.
  intros Hj Hn. unfold nth_py. destruct (Z.ltb_spec j 0); [lia|].
  destruct (Z.ltb_spec j 0); [lia|]. destruct (Z.leb_spec (zlen l) j); [lia|]. cbn. rewrite Hn. reflexivity.
Qed.

(* the key computed by the memory wrapper decodes to the very same values *)
Lemma v2p_of_p2v sp : forall p v, p2v sp p = Ok v ->
  exists key, v2p sp v = Ok key /\ p2v sp key = Ok v /\ in_box sp key.
Proof.
  induction sp as [|dim sp IH]; intros p v H; cbn in H.
  - inversion H; subst. exists []. repeat split; constructor.
  - destruct p as [|i p']; [discriminate|].
    destruct (nth_py dim i) as [x|] eqn:Ex; cbn in H; [|discriminate].
    destruct (p2v sp p') as [vs|] eqn:Ev; cbn in H; [|discriminate]. inversion H; subst.
    destruct (nearest_index_member dim x i Ex) as (j & Hj & Hr & Hn & _).
    destruct (IH p' vs Ev) as (key & Hk1 & Hk2 & Hk3).
    exists (j :: key). cbn. rewrite Hj. cbn. rewrite Hk1. cbn.
    rewrite (nth_py_inrange dim j x Hr Hn). cbn. rewrite Hk2. repeat split. constructor; assumption.
Qed.

Lemma value2position_of_position2value sp p v : position2value sp p = Ok v ->
  exists key, value2position sp v = Ok key /\ position2value sp key = Ok v /\ in_box sp key.
Proof. rewrite position2value_zip. intros H. destruct (v2p_of_p2v sp p v H) as (key & A & B & C).
  exists key. rewrite value2position_zip, position2value_zip. auto. Qed.

(* with pairwise distinct values per dimension the key IS the position (for an in-box position) *)
Definition distinct_dims (sp : space) : Prop := Forall (@NoDup Z) sp.

Lemma NoDup_nth_error_inj {A} (l : list A) i j x : NoDup l ->
  nth_error l i = Some x -> nth_error l j = Some x -> i = j.
Proof.
  intros Hn Hi Hj. assert (i < length l)%nat by (apply nth_error_Some; congruence).
  apply (proj1 (NoDup_nth_error l) Hn i j H). congruence.
Qed.

Lemma p2v2p sp : distinct_dims sp -> forall p v, in_box sp p -> p2v sp p = Ok v -> v2p sp v = Ok p.
Proof.
  induction sp as [|dim sp IH]; intros Hd p v Hb H.
  - inversion Hb; subst. cbn in *. reflexivity.
  - inversion Hb as [|? i ? p' Hi Hb']; subst. inversion Hd as [|? ? Hnd Hd']; subst. cbn in H.
    destruct (nth_py dim i) as [x|] eqn:Ex; cbn in H; [|discriminate].
    destruct (p2v sp p') as [vs|] eqn:Ev; cbn in H; [|discriminate]. inversion H; subst.
    destruct (nearest_index_member dim x i Ex) as (j & Hj & Hr & Hn & _).
    assert (Hxi : nth_error dim (Z.to_nat i) = Some x).
    { unfold nth_py in Ex. destruct (Z.ltb_spec i 0); [lia|]. destruct (_ || _); [discriminate|].
      destruct (nth_error dim (Z.to_nat i)); [inversion Ex; reflexivity|discriminate]. }
    assert (Z.to_nat j = Z.to_nat i) by (eapply NoDup_nth_error_inj; eauto).
    assert (j = i) by lia. subst j.
    cbn. rewrite Hj. cbn. rewrite (IH Hd' p' vs Hb' Ev). reflexivity.
Qed.

Theorem position_roundtrip sp p v : distinct_dims sp -> in_box sp p ->
  position2value sp p = Ok v -> value2position sp v = Ok p.
Proof. rewrite position2value_zip, value2position_zip. intros. eapply p2v2p; eauto. Qed.

(* an in-box position never uses numpy's negative-index wrapping, and decoding cannot fail *)
Lemma p2v_in_box_ok sp : forall p, in_box sp p -> exists v, p2v sp p = Ok v /\
  Forall2 (fun dim x => In x dim) sp v.
Proof.
  induction sp as [|dim sp IH]; intros p Hb; inversion Hb as [|? i ? p' Hi Hb']; subst.
  - exists []. split; [reflexivity|constructor].
  - destruct (IH p' Hb') as (vs & Hv & Hin).
    destruct (nth_error dim (Z.to_nat i)) as [x|] eqn:Ex.
    + exists (x :: vs). cbn. rewrite (nth_py_inrange dim i x Hi Ex). cbn. rewrite Hv. cbn.
      split; [reflexivity|]. constructor; [eapply nth_error_In; eauto|assumption].
    + exfalso. apply nth_error_None in Ex. unfold zlen in Hi. lia.
Qed.
