(* C20 — position / value / parameter / memory conversions are mutually inverse. *)
Require Import Base Converter ConverterFacts ListFacts MemFacts.

(* ---------- value -> position -> value for members ---------- *)
Theorem value_roundtrip sp p v : position2value sp p = Ok v ->
  exists key, value2position sp v = Ok key /\ position2value sp key = Ok v.
Proof. intros H. destruct (value2position_of_position2value sp p v H) as (k & A & B & _). eauto. Qed.

(* ---------- parameters ---------- *)
Lemma dict_get_set_same (k : Z) (v : Z) d : dict_get Z.eqb k (dict_set Z.eqb k v d) = Some v.
Proof.
  induction d as [|[k' v'] d IH]; cbn; [rewrite Z.eqb_refl; reflexivity|].
  destruct (k =? k') eqn:E; cbn; rewrite E; [reflexivity|exact IH].
Qed.
Lemma dict_get_set_other (k k0 : Z) (v : Z) d : k0 <> k -> dict_get Z.eqb k0 (dict_set Z.eqb k v d) = dict_get Z.eqb k0 d.
Proof.
  intros Hne. induction d as [|[k' v'] d IH]; cbn.
  - replace (k0 =? k) with false by (symmetry; apply Z.eqb_neq; assumption). reflexivity.
  - destruct (k =? k') eqn:E; cbn.
    + apply Z.eqb_eq in E. subst k'. replace (k0 =? k) with false by (symmetry; apply Z.eqb_neq; assumption). reflexivity.
    + destruct (k0 =? k'); [reflexivity|exact IH].
Qed.

Lemma dict_of_pairs_get names : forall (vs : list Z) d, NoDup names -> length names = length vs ->
  forall n x, In (n, x) (zip names vs) ->
  dict_get Z.eqb n (fold_left (fun d kv => dict_set Z.eqb (fst kv) (snd kv) d) (zip names vs) d) = Some x.
Proof.
  induction names as [|nm names IH]; intros vs d Hnd Hlen n x Hin; [contradiction|].
  destruct vs as [|v vs]; [discriminate|]. cbn in *. inversion Hnd; subst.
  destruct Hin as [Heq|Hin].
  - inversion Heq; subst.
    (* later sets concern other names *)
    assert (Hkeep : forall (l : list (Z * Z)) d0, ~ In n (map fst l) ->
              dict_get Z.eqb n (fold_left (fun d kv => dict_set Z.eqb (fst kv) (snd kv) d) l d0) = dict_get Z.eqb n d0).
    { induction l as [|[a b] l IHl]; intros d0 Hn; cbn; [reflexivity|].
      rewrite IHl by (intros C; apply Hn; right; assumption).
      apply dict_get_set_other. intros ->. apply Hn. left. reflexivity. }
    rewrite Hkeep; [apply dict_get_set_same|].
    intros C. apply H1. clear -C. revert vs C. induction names as [|a names IHn]; intros [|v vs] C; cbn in *; try contradiction.
    destruct C as [->|C]; [left; reflexivity|right; eapply IHn; eauto].
  - apply (IH vs); auto.
Qed.

Theorem para_roundtrip names v : NoDup names -> length names = length v ->
  para2value names (value2para names v) = Ok v.
Proof.
  intros Hnd Hlen. unfold para2value, value2para, dict_of_pairs.
  assert (H : forall ns vs, (forall n x, In (n, x) (zip ns vs) -> In (n, x) (zip names v)) -> length ns = length vs ->
            map_res (fun nm => match dict_get Z.eqb nm (fold_left (fun d kv => dict_set Z.eqb (fst kv) (snd kv) d) (zip names v) []) with
                               | Some x => Ok x | None => Err KeyError end) ns = Ok vs).
  { induction ns as [|n ns IH]; intros [|x vs] Hsub Hl; try discriminate; [reflexivity|]. cbn.
    rewrite (dict_of_pairs_get names v [] Hnd Hlen n x) by (apply Hsub; left; reflexivity). cbn.
    rewrite (IH vs); [reflexivity| |cbn in Hl; lia]. intros n' x' Hin. apply Hsub. right. assumption. }
  apply H; auto.
Qed.

(* ---------- batched conversions agree with the single ones ---------- *)
Definition hd_res {A} (l : list A) : res A := match l with x :: _ => Ok x | [] => Err IndexError end.

Lemma column_skipn {A} (rows : list (list A)) n : 0 <= n ->
  column rows n = map_res (fun r => hd_res (skipn (Z.to_nat n) r)) rows.
Proof.
  intros Hn. unfold column. induction rows as [|r rows IH]; cbn; [reflexivity|].
  rewrite nth_nowrap_skipn by assumption. rewrite IH. unfold hd_res. reflexivity.
Qed.

(* index-free column traversal *)
Fixpoint cols_zip {A B} (g : list Z -> A -> res B) (sp : space) (rows : list (list A)) : res (list (list B)) :=
  match sp with
  | [] => Ok []
  | dim :: sp' =>
      do col <- map_res hd_res rows;
      do pcol <- map_res (g dim) col;
      do rest <- cols_zip g sp' (map (@tl A) rows);
      Ok (pcol :: rest)
  end.

Lemma map_res_map {A B C} (g : B -> res C) (h : A -> B) l : map_res g (map h l) = map_res (fun x => g (h x)) l.
Proof. induction l as [|x l IH]; cbn; [reflexivity|]. rewrite IH. reflexivity. Qed.

Lemma map_res_ext {A B} (g h : A -> res B) l : (forall x, g x = h x) -> map_res g l = map_res h l.
Proof. intros E. induction l as [|x l IH]; cbn; [reflexivity|]. rewrite E, IH. reflexivity. Qed.

Lemma v2p_cols_zip sp : forall vals n, 0 <= n ->
  values2positions_cols sp vals n = cols_zip nearest_index sp (map (skipn (Z.to_nat n)) vals).
Proof.
  induction sp as [|dim sp IH]; intros vals n Hn; cbn [values2positions_cols cols_zip]; [reflexivity|].
  rewrite column_skipn by assumption. rewrite map_res_map.
  rewrite (IH vals (n + 1)) by lia. rewrite map_map.
  replace (Z.to_nat (n + 1)) with (S (Z.to_nat n)) by lia.
  rewrite (map_ext (fun x => tl (skipn (Z.to_nat n) x)) (skipn (S (Z.to_nat n)))) by (intros; symmetry; apply skipn_succ).
  reflexivity.
Qed.

Lemma p2v_cols_zip sp : forall ps n, 0 <= n ->
  positions2values_cols sp ps n = cols_zip (fun dim i => nth_py dim i) sp (map (skipn (Z.to_nat n)) ps).
Proof.
  induction sp as [|dim sp IH]; intros vals n Hn; cbn [positions2values_cols cols_zip]; [reflexivity|].
  rewrite column_skipn by assumption. rewrite map_res_map.
  rewrite (IH vals (n + 1)) by lia. rewrite map_map.
  replace (Z.to_nat (n + 1)) with (S (Z.to_nat n)) by lia.
  rewrite (map_ext (fun x => tl (skipn (Z.to_nat n) x)) (skipn (S (Z.to_nat n)))) by (intros; symmetry; apply skipn_succ).
  reflexivity.
Qed.

(* generic: row-wise conversion succeeds => the column-wise one gives the transposed result *)
Fixpoint row_conv {A B} (g : list Z -> A -> res B) (sp : space) (row : list A) : res (list B) :=
  match sp, row with
  | [], _ => Ok []
  | dim :: tl, x :: row' => do y <- g dim x; do ys <- row_conv g tl row'; Ok (y :: ys)
  | _ :: _, [] => Err IndexError
  end.

Lemma transpose_cons_col {B} (col : list B) (cols : list (list B)) (rows : list (list B)) :
  length col = length rows -> transpose_cols (length rows) cols = rows ->
  Forall (fun c => length c = length rows) cols ->
  transpose_cols (length rows) (col :: cols) = map (fun yr => fst yr :: snd yr) (zip col rows).
Proof.
  revert col cols. induction rows as [|r rows IH]; intros col cols Hl Ht Hc.
  - destruct col; [reflexivity|discriminate].
  - destruct col as [|y col]; [discriminate|]. cbn [length transpose_cols] in *.
    destruct (map_res (fun c => match c with x :: _ => Ok x | [] => Err IndexError end) cols) as [heads|] eqn:Eh; [|discriminate].
    injection Ht as Hh Hr. cbn. rewrite Eh. cbn. f_equal; [congruence|].
    apply IH; [cbn in Hl; lia|exact Hr|].
    rewrite Forall_forall in *. intros c Hin. apply in_map_iff in Hin. destruct Hin as (c0 & <- & Hc0).
    specialize (Hc c0 Hc0). destruct c0; cbn in *; lia.
Qed.

Lemma cols_zip_rows {A B} (g : list Z -> A -> res B) sp : forall rows outs,
  map_res (row_conv g sp) rows = Ok outs ->
  exists cols, cols_zip g sp rows = Ok cols /\ transpose_cols (length rows) cols = outs /\
               Forall (fun c => length c = length rows) cols.
Proof.
  induction sp as [|dim sp IH]; intros rows outs H.
  - exists []. cbn. split; [reflexivity|]. split; [|constructor].
    revert outs H. induction rows as [|r rows IHr]; intros outs H; cbn in *.
    + inversion H. reflexivity.
    + destruct (map_res (fun _ : list A => Ok []) rows) as [l|] eqn:E; cbn in H; [|discriminate].
      injection H as <-. f_equal. apply IHr. reflexivity.
  - (* split every row into head and tail *)
    assert (Hsplit : exists col pcol routs, map_res hd_res rows = Ok col /\ map_res (g dim) col = Ok pcol /\
                       map_res (row_conv g sp) (map (@tl A) rows) = Ok routs /\
                       outs = map (fun yr => fst yr :: snd yr) (zip pcol routs) /\ length pcol = length rows /\ length routs = length rows).
    { revert outs H. induction rows as [|r rows IHr]; intros outs H.
      - cbn in H. inversion H. exists [], [], []. cbn. repeat split; reflexivity.
      - change (map_res (row_conv g (dim :: sp)) (r :: rows)) with
          (do y <- row_conv g (dim :: sp) r; do ys <- map_res (row_conv g (dim :: sp)) rows; Ok (y :: ys)) in H.
        destruct (map_res (row_conv g (dim :: sp)) rows) as [outs'|] eqn:Eo.
        2:{ destruct (row_conv g (dim :: sp) r); discriminate. }
        destruct r as [|x r]; [discriminate|].
        change (row_conv g (dim :: sp) (x :: r)) with (do y <- g dim x; do ys <- row_conv g sp r; Ok (y :: ys)) in H.
        destruct (g dim x) as [y|] eqn:Ey; [|discriminate].
        destruct (row_conv g sp r) as [ys|] eqn:Er; [|discriminate]. cbn [bind] in H. injection H as <-.
        destruct (IHr outs' eq_refl) as (col & pcol & routs & A1 & A2 & A3 & A4 & A5 & A6).
        exists (x :: col), (y :: pcol), (ys :: routs). cbn. rewrite A1. cbn. rewrite Ey. cbn. rewrite A2. cbn.
        rewrite Er. cbn. rewrite A3. cbn. rewrite A4. repeat split; try reflexivity; lia. }
    destruct Hsplit as (col & pcol & routs & A1 & A2 & A3 & A4 & A5 & A6).
    destruct (IH (map (@tl A) rows) routs A3) as (cols & B1 & B2 & B3).
    exists (pcol :: cols). cbn [cols_zip]. rewrite A1. cbn. rewrite A2. cbn. rewrite B1. cbn.
    rewrite map_length in B2, B3. split; [reflexivity|]. split.
    + rewrite A4. rewrite <- A6 in *. apply transpose_cons_col; [lia|exact B2|exact B3].
    + constructor; [lia|exact B3].
Qed.

Lemma v2p_row_conv sp v : v2p sp v = row_conv nearest_index sp v.
Proof. revert v. induction sp as [|dim sp IH]; intros [|x v]; cbn; try reflexivity. rewrite IH. reflexivity. Qed.
Lemma p2v_row_conv sp p : p2v sp p = row_conv (fun dim i => nth_py dim i) sp p.
Proof. revert p. induction sp as [|dim sp IH]; intros [|x v]; cbn; try reflexivity. rewrite IH. reflexivity. Qed.

Theorem batched_v2p_eq_single sp vals ps : vals <> [] ->
  map_res (value2position sp) vals = Ok ps -> values2positions sp vals = Ok ps.
Proof.
  intros Hne H. unfold values2positions. destruct vals as [|v0 vals']; [contradiction|]. set (vals := v0 :: vals') in *.
  rewrite v2p_cols_zip by lia. cbn [Z.to_nat skipn]. rewrite map_id.
  rewrite (map_res_ext _ (row_conv nearest_index sp)) in H by (intros; rewrite value2position_zip; apply v2p_row_conv).
  destruct (cols_zip_rows nearest_index sp vals ps H) as (cols & C1 & C2 & _). rewrite C1. cbn [bind]. f_equal. exact C2.
Qed.

Theorem batched_p2v_eq_single sp ps vs : ps <> [] ->
  map_res (position2value sp) ps = Ok vs -> positions2values sp ps = Ok vs.
Proof.
  intros Hne H. unfold positions2values. destruct ps as [|p0 ps']; [contradiction|]. set (pl := p0 :: ps') in *.
  rewrite p2v_cols_zip by lia. cbn [Z.to_nat skipn]. rewrite map_id.
  rewrite (map_res_ext _ (row_conv (fun dim i => nth_py dim i) sp)) in H by (intros; rewrite position2value_zip; apply p2v_row_conv).
  destruct (cols_zip_rows _ sp pl vs H) as (cols & C1 & C2 & _). rewrite C1. cbn [bind]. f_equal. exact C2.
Qed.

(* ---------- memory dictionary <-> dataframe ---------- *)
Lemma zip_fst_snd {A B} (d : list (A * B)) : zip (map fst d) (map snd d) = d.
Proof. induction d as [|[a b] d IH]; cbn; [reflexivity|]. rewrite IH. reflexivity. Qed.

Lemma map_fst_zip {A B} (a : list A) (b : list B) : length a = length b -> map fst (zip a b) = a.
Proof. revert b. induction a as [|x a IH]; intros [|y b] H; cbn in *; try discriminate; [reflexivity|]. rewrite IH by lia. reflexivity. Qed.
Lemma map_snd_zip {A B} (a : list A) (b : list B) : length a = length b -> map snd (zip a b) = b.
Proof. revert b. induction a as [|x a IH]; intros [|y b] H; cbn in *; try discriminate; [reflexivity|]. rewrite IH by lia. reflexivity. Qed.

Lemma dict_of_pairs_nodup {V} (d : list (pos * V)) acc :
  NoDup (map fst acc ++ map fst d) ->
  fold_left (fun m kv => dict_set pos_eqb (fst kv) (snd kv) m) d acc = acc ++ d.
Proof.
  revert acc. induction d as [|[k v] d IH]; intros acc Hnd; cbn; [rewrite app_nil_r; reflexivity|].
  assert (Habs : dict_get pos_eqb k acc = None).
  { destruct (dict_get pos_eqb k acc) eqn:G; [|reflexivity]. exfalso.
    apply dget_in in G. apply NoDup_remove_2 in Hnd. apply Hnd. apply in_or_app. left.
    apply in_map_iff. exists (k, v0). split; [reflexivity|assumption]. }
  rewrite dset_absent by exact Habs. rewrite IH.
  - rewrite <- app_assoc. reflexivity.
  - rewrite map_app. cbn. rewrite <- app_assoc. exact Hnd.
Qed.

Lemma map_res_length {A B} (g : A -> res B) l out : map_res g l = Ok out -> length out = length l.
Proof.
  revert out. induction l as [|x l IH]; intros out H; cbn in H; [inversion H; reflexivity|].
  destruct (g x); cbn in H; [|discriminate]. destruct (map_res g l) as [out'|] eqn:E; cbn in H; [|discriminate].
  inversion H; subst. cbn. rewrite (IH out' eq_refl). reflexivity.
Qed.

Lemma map_res_p2v_v2p sp ps vs : distinct_dims sp -> Forall (in_box sp) ps ->
  map_res (position2value sp) ps = Ok vs -> map_res (value2position sp) vs = Ok ps.
Proof.
  intros Hd. revert vs. induction ps as [|p ps IH]; intros vs Hb H; cbn in H.
  - inversion H. reflexivity.
  - inversion Hb; subst. destruct (position2value sp p) as [v|] eqn:Ev; cbn in H; [|discriminate].
    destruct (map_res (position2value sp) ps) as [vs'|] eqn:E; cbn in H; [|discriminate]. inversion H; subst.
    cbn. rewrite (position_roundtrip sp p v Hd H2 Ev). cbn. rewrite (IH vs' H3 eq_refl). reflexivity.
Qed.

Lemma map_res_p2v_ok sp ps : Forall (in_box sp) ps -> exists vs, map_res (position2value sp) ps = Ok vs /\
  Forall (fun v => length v = length sp) vs.
Proof.
  induction 1 as [|p ps Hp Hps (vs & IH & IHl)]; [exists []; split; [reflexivity|constructor]|].
  destruct (p2v_in_box_ok sp p Hp) as (v & Hv & Hin). rewrite <- position2value_zip in Hv.
  exists (v :: vs). cbn. rewrite Hv. cbn. rewrite IH. split; [reflexivity|]. constructor; [|assumption].
  symmetry. eapply Forall2_length. exact Hin.
Qed.

Lemma select_same names row : NoDup names -> length names = length row -> select_cols names names row = Ok row.
Proof. intros. unfold select_cols. apply para_roundtrip; assumption. Qed.

Lemma map_res_id {A} (g : A -> res A) l : Forall (fun x => g x = Ok x) l -> map_res g l = Ok l.
Proof. induction 1 as [|x l Hx _ IH]; cbn; [reflexivity|]. rewrite Hx. cbn. rewrite IH. reflexivity. Qed.

Theorem memdict_frame_roundtrip {V} sp names (d : list (pos * V)) :
  distinct_dims sp -> NoDup names -> length names = length sp ->
  d <> [] -> NoDup (map fst d) -> Forall (in_box sp) (map fst d) ->
  exists fr, memory_dict2dataframe sp names d = Ok fr /\ dataframe2memory_dict sp names fr = Ok d.
Proof.
  intros Hd Hn Hl Hne Hnd Hbox.
  destruct (map_res_p2v_ok sp (map fst d) Hbox) as (vs & Hvs & Hvl).
  assert (Hps : map fst d <> []) by (destruct d; [contradiction|discriminate]).
  unfold memory_dict2dataframe, memory_dict2positions_scores.
  rewrite (batched_p2v_eq_single sp (map fst d) vs Hps Hvs). cbn [bind].
  eexists. split; [reflexivity|].
  unfold dataframe2memory_dict. cbn [fr_cols fr_rows].
  assert (Hsub : subsetb names names = true).
  { unfold subsetb. apply forallb_forall. intros x Hx. apply existsb_exists. exists x. split; [assumption|apply Z.eqb_refl]. }
  rewrite Hsub.
  assert (Hlen : length vs = length (map snd d)).
  { rewrite (map_res_length _ _ _ Hvs), !map_length. reflexivity. }
  assert (Hsel : map_res (fun r => select_cols names names (fst r)) (zip vs (map snd d)) = Ok vs).
  { transitivity (map_res (select_cols names names) (map fst (zip vs (map snd d)))); [symmetry; apply map_res_map|].
    assert (E : map fst (zip vs (map snd d)) = vs) by (apply map_fst_zip; exact Hlen). rewrite E.
    apply map_res_id. eapply Forall_impl; [|exact Hvl]. intros v Hv. cbv beta in Hv. apply select_same; [assumption|congruence]. }
  rewrite Hsel. cbn [bind].
  assert (Hvne : vs <> []).
  { intros ->. cbn in Hlen. rewrite map_length in Hlen. destruct d; [contradiction|discriminate]. }
  rewrite (batched_v2p_eq_single sp vs (map fst d) Hvne (map_res_p2v_v2p sp _ _ Hd Hbox Hvs)). cbn [bind].
  f_equal. transitivity (positions_scores2memory_dict (map fst d) (map snd d)).
  { f_equal. apply map_snd_zip. exact Hlen. }
  unfold positions_scores2memory_dict, dict_of_pairs. rewrite zip_fst_snd.
  rewrite (dict_of_pairs_nodup d []) by exact Hnd. reflexivity.
Qed.
