(* C10 — warm-start points are always evaluated during initialisation. *)
Require Import Base Converter ConverterFacts ListFacts Init C20_proofs C18_proofs.

(* ---------- a warm-start dictionary in ANY key order denotes the per-name position ---------- *)
(* reading by name does not depend on the order of the dictionary's items *)
Lemma dict_get_perm_nodup (w w' : para) k : NoDup (map fst w) -> (forall x, In x w <-> In x w') -> NoDup (map fst w') ->
  dict_get Z.eqb k w = dict_get Z.eqb k w'.
Proof.
  intros Hn Hp Hn'.
  destruct (dict_get Z.eqb k w) as [v|] eqn:G.
  - symmetry. apply dget_in_sig; [assumption|]. apply Hp.
    clear -G. induction w as [|[k' v'] w IH]; cbn in G; [discriminate|]. destruct (k =? k') eqn:E.
    + apply Z.eqb_eq in E. inversion G; subst. left. reflexivity.
    + right. apply IH. assumption.
  - symmetry. apply dget_none_notin. intros Hin. apply in_map_iff in Hin. destruct Hin as ([k' v'] & Hk & Hin). cbn in Hk. subst k'.
    apply Hp in Hin. rewrite (dget_in_sig w k v' Hn Hin) in G. discriminate.
Qed.

Theorem warm_start_key_order_irrelevant sp names (w w' : para) :
  NoDup (map fst w) -> NoDup (map fst w') -> (forall x, In x w <-> In x w') ->
  warm_start_position sp names w = warm_start_position sp names w'.
Proof.
  intros Hn Hn' Hp. unfold warm_start_position, para2value.
  rewrite (map_res_ext _ (fun nm => match dict_get Z.eqb nm w' with Some x => Ok x | None => Err KeyError end)); [reflexivity|].
  intros nm. rewrite (dict_get_perm_nodup w w' nm Hn Hp Hn'). reflexivity.
Qed.

(* an in-space value vector (the values of an in-box position p of a space with distinct values) maps to p *)
Theorem warm_start_in_space sp names (p : pos) (v : values) (w : para) :
  distinct_dims sp -> in_box sp p -> position2value sp p = Ok v -> para2value names w = Ok v ->
  warm_start_position sp names w = Ok p.
Proof. intros Hd Hb Hp Hw. unfold warm_start_position. rewrite Hw. cbn. apply position_roundtrip; assumption. Qed.

(* ---------- feasible warm-start positions survive the filter and sit before index n_inits ---------- *)
Lemma filter_res_in {A} (g : A -> res bool) l out x : filter_res g l = Ok out -> In x l -> g x = Ok true -> In x out.
Proof.
  revert out. induction l as [|y l IH]; intros out H Hin Hg; [contradiction|]. cbn in H.
  destruct (g y) as [b|] eqn:Ey; cbn in H; [|discriminate]. destruct (filter_res g l) as [r|] eqn:Er; cbn in H; [|discriminate].
  inversion H; subst. destruct Hin as [->|Hin].
  - rewrite Hg in Ey. inversion Ey; subst. left. reflexivity.
  - specialize (IH r eq_refl Hin Hg). destruct b; [right|]; assumption.
Qed.

Lemma filter_res_length {A} (g : A -> res bool) l out : filter_res g l = Ok out -> (length out <= length l)%nat.
Proof.
  revert out. induction l as [|y l IH]; intros out H; cbn in H; [inversion H; cbn; lia|].
  destruct (g y) as [b|]; cbn in H; [|discriminate]. destruct (filter_res g l) as [r|]; cbn in H; [|discriminate].
  inversion H; subst. specialize (IH r eq_refl). destruct b; cbn; lia.
Qed.

Theorem warm_start_in_init_list sp cons names (ws : list para) (warm : list pos) w p
        (rnd grid vert fill : list pos) (n_rnd n_grid n_vert : nat) :
  init_warm_start sp cons names ws = Ok warm ->
  In w ws -> warm_start_position sp names w = Ok p -> not_in_constraint sp cons p = Ok true ->
  (length rnd <= n_rnd)%nat -> (length grid <= n_grid)%nat -> (length vert <= n_vert)%nat ->
  exists i, nth_error (assemble rnd grid vert warm fill) i = Some p /\ (i < n_rnd + n_grid + n_vert + length ws)%nat.
Proof.
  intros Hw Hin Hp Hf Hr Hg Hv. unfold init_warm_start in Hw.
  destruct (map_res (warm_start_position sp names) ws) as [ps|] eqn:Eps; cbn in Hw; [|discriminate].
  assert (Hinps : In p ps).
  { destruct (map_res_ok_all _ _ _ Eps w Hin) as (y & Hy & Hy'). rewrite Hp in Hy. inversion Hy; subst. assumption. }
  pose proof (filter_res_in _ _ _ p Hw Hinps Hf) as Hinw.
  pose proof (filter_res_length _ _ _ Hw) as Hlw. rewrite (map_res_length _ _ _ Eps) in Hlw.
  destruct (In_nth_error _ _ Hinw) as [j Hj].
  assert (j < length warm)%nat by (apply nth_error_Some; congruence).
  exists (length rnd + (length grid + (length vert + j)))%nat. split; [|lia].
  unfold assemble. rewrite nth_error_app2 by lia. replace (length rnd + (length grid + (length vert + j)) - length rnd)%nat with (length grid + (length vert + j))%nat by lia.
  rewrite nth_error_app2 by lia. replace (length grid + (length vert + j) - length grid)%nat with (length vert + j)%nat by lia.
  rewrite nth_error_app2 by lia. replace (length vert + j - length vert)%nat with j by lia.
  rewrite nth_error_app1 by lia. exact Hj.
Qed.

(* ---------- split + the round-robin schedule evaluate l[t] at init step t ---------- *)
Lemma every_nth_aux_nth {A} (l : list A) P : (0 < P)%nat -> forall fuel idx q,
  (idx + q * P < length l)%nat -> (q < fuel)%nat ->
  nth_error (every_nth_aux fuel l idx P) q = nth_error l (idx + q * P).
Proof.
  intros HP. induction fuel as [|f IH]; intros idx q Hlt Hq; [lia|]. cbn [every_nth_aux].
  destruct (nth_error l idx) as [x|] eqn:E.
  - destruct q as [|q]; cbn.
    + rewrite Nat.add_0_r. symmetry. exact E.
    + rewrite IH by (cbn in Hlt; lia). f_equal. cbn. lia.
  - apply nth_error_None in E. nia.
Qed.

Lemma nth_error_seq0 n k : (k < n)%nat -> nth_error (seq 0 n) k = Some k.
Proof.
  assert (G : forall s n k, (k < n)%nat -> nth_error (seq s n) k = Some (s + k)%nat).
  { intros s m. revert s. induction m as [|m IH]; intros s j Hj; [lia|]. destruct j; cbn; [f_equal; lia|]. rewrite IH by lia. f_equal. lia. }
  intros H. apply (G 0%nat n k H).
Qed.

Theorem split_round_robin {A} (l : list A) (P t : nat) : (0 < P)%nat -> (t < length l)%nat ->
  pop_init_pos (split l P) P t = nth_error l t.
Proof.
  intros HP Ht. unfold pop_init_pos, split.
  assert (Hm : (t mod P < P)%nat) by (apply Nat.mod_upper_bound; lia).
  rewrite nth_error_map, (nth_error_seq0 P (t mod P)%nat Hm). cbn [option_map].
  pose proof (Nat.div_mod t P ltac:(lia)) as D.
  assert (Hq : (t / P <= t)%nat) by (apply Nat.div_le_upper_bound; nia).
  rewrite every_nth_aux_nth; try lia; try nia.
  f_equal. lia.
Qed.

(* record of defect D10 (fixed in /repo): read positionally, {"y":105, "x":3} was taken as x=105, y=3 *)
Example key_order_unfixed :
  let sp := [[1; 2; 3; 4]; [100; 105; 110]] in
  warm_start_position_unfixed sp [(1, 105); (0, 3)] = Ok [3; 0] /\
  warm_start_position sp [0; 1] [(1, 105); (0, 3)] = Ok [2; 1].
Proof. vm_compute. split; reflexivity. Qed.

(* ---------- the driver serves the initial positions, in order, in the first n_inits steps ---------- *)
Require Import StopRun Driver DriverFacts CoreOpt Tracker Algos.
From RecordUpdate Require Import RecordSet.
Import RecordSetNotations.

Section InitOrder.
  Variable c : algo_cfg.
  Variable f : nat -> values -> result.
  Variable clk : nat -> Z.
  Notation OPT := (algo_optimizer c).

  (* while only initialisation steps have run, step t served h_inits[t] *)
  Lemma reach_init_prefix (s0 : drv OPT) tr s :
    reach (a_sp c) f clk s0 tr s -> zlen tr <= d_n_inits_norm s0 ->
    t_nth_init (h_trk (d_opt s)) = t_nth_init (h_trk (d_opt s0)) + zlen tr /\
    h_inits (d_opt s) = h_inits (d_opt s0) /\
    Forall2 (fun e i => nth_nowrap (h_inits (d_opt s0)) (t_nth_init (h_trk (d_opt s0)) + Z.of_nat i) = Ok (ev_pos e))
            tr (seq 0 (length tr)).
  Proof.
    induction 1 as [|tr s s1 s2 p v r Hr IH Hs R Ho Hk]; intros Hle.
    - split; [cbn; lia|]. split; [reflexivity|constructor].
    - rewrite zlen_app in Hle. pose proof (zlen_nonneg tr) as Hnn.
      destruct (IH ltac:(lia)) as (A & B & C).
      destruct (reach_call _ _ _ _ _ _ Hr) as [_ Hnorm].
      unfold opt_rel, is_init_step in Ho. rewrite Hnorm in Ho.
      replace (zlen tr <? d_n_inits_norm s0) with true in Ho by (symmetry; apply Z.ltb_lt; lia).
      destruct Ho as (o1 & Hi & He). cbn [algo_optimizer o_init_pos o_eval_init] in Hi, He.
      unfold algo_init_pos in Hi. destruct (nth_nowrap (h_inits (d_opt s)) (t_nth_init (h_trk (d_opt s)))) as [q|] eqn:En; cbn [bind] in Hi; [|discriminate].
      assert (q = p /\ h_trk o1 = track_new_pos (h_trk (d_opt s)) q /\ h_inits o1 = h_inits (d_opt s)) as (-> & Ht1 & Hi1) by (inversion Hi; subst; cbn; auto).
      unfold algo_evaluate_init in He. destruct (evaluate_init (h_trk o1) (r_score r)) as [k'|] eqn:Ee; cbn [bind] in He; [|discriminate].
      assert (h_trk (d_opt s1) = k' /\ h_inits (d_opt s1) = h_inits o1) as (Ht2 & Hi2) by (inversion He; subst; cbn; auto).
      rewrite (stop_check_opt _ _ _ _ Hk).
      assert (Hni : t_nth_init k' = t_nth_init (h_trk o1)).
      { unfold evaluate_init, track_new_score, evaluate_init_body in Ee. cbn [bind] in Ee. inversion Ee; subst k'. clear.
        unfold set_score_new. destruct (is_finite _); cbn; destruct (t_pos_best _); destruct (t_pos_cur _); reflexivity. }
      split; [|split].
      + rewrite Ht2, Hni, Ht1. cbn. rewrite A, zlen_app. lia.
      + rewrite Hi2, Hi1. exact B.
      + rewrite app_length. cbn [length]. rewrite Nat.add_1_r, seq_S. apply Forall2_app; [exact C|].
        constructor; [|constructor]. cbn. rewrite B, A in En. unfold zlen in En. exact En.
  Qed.
End InitOrder.

Section InitServed.
  Variable c : algo_cfg.
  Variable f : nat -> values -> result.
  Variable clk : nat -> Z.
  Notation OPT := (algo_optimizer c).

  Lemma reach_prefix (s0 : drv OPT) tr s : reach (a_sp c) f clk s0 tr s ->
    forall j, (j <= length tr)%nat -> exists sj, reach (a_sp c) f clk s0 (firstn j tr) sj.
  Proof.
    induction 1 as [|tr s s1 s2 p v r Hr IH Hs R Ho Hk]; intros j Hj.
    - destruct j; [|cbn in Hj; lia]. exists s0. constructor.
    - rewrite app_length in Hj. cbn in Hj. destruct (Nat.eq_dec j (length tr + 1)) as [->|Hne].
      + rewrite firstn_all2 by (rewrite app_length; cbn; lia). exists s2. econstructor; eauto.
      + rewrite firstn_app. replace (j - length tr)%nat with 0%nat by lia. cbn. rewrite app_nil_r. apply IH. lia.
  Qed.

  Lemma nth_pointwise_eq (L : list pos) (tr : list ev) :
    length tr = length L ->
    Forall2 (fun e i => nth_nowrap L (0 + Z.of_nat i) = Ok (ev_pos e)) tr (seq 0 (length tr)) ->
    map ev_pos tr = L.
  Proof.
    intros Hl HF. apply nth_ext with (d := []) (d' := []); [rewrite map_length; exact Hl|].
    intros n Hn. rewrite map_length in Hn.
    assert (G : forall (t : list ev) (s0 : nat), Forall2 (fun e i => nth_nowrap L (0 + Z.of_nat i) = Ok (ev_pos e)) t (seq s0 (length t)) ->
              forall k, (k < length t)%nat -> nth_nowrap L (Z.of_nat (s0 + k)) = Ok (nth k (map ev_pos t) [])).
    { induction t as [|e t IHt]; intros s0 F k Hk; [cbn in Hk; lia|]. cbn in F. inversion F; subst.
      destruct k; cbn.
      - rewrite Nat.add_0_r. cbn beta in H2. replace (0 + Z.of_nat s0) with (Z.of_nat s0) in H2 by lia. exact H2.
      - replace (s0 + S k)%nat with (S s0 + k)%nat by lia. apply IHt; [assumption|cbn in Hk; lia]. }
    specialize (G tr 0%nat HF n Hn). cbn in G. unfold nth_nowrap in G.
    destruct (_ || _); [discriminate|]. rewrite Nat2Z.id in G.
    destruct (nth_error L n) as [p|] eqn:E; [|discriminate]. injection G as G. rewrite (nth_error_nth L n [] E). exact (eq_sym G).
  Qed.

  (* a fresh optimizer searched for at least n_inits steps evaluates exactly its initial positions, in order,
     in the first n_inits steps *)
  Theorem family_inits_served (s s' : drv OPT) (cl : call) :
    d_n_init_total s = 0 -> t_nth_init (h_trk (d_opt s)) = 0 ->
    c_stop cl = no_stop -> zlen (h_inits (d_opt s)) <= c_n_iter cl ->
    search (a_sp c) f clk s cl = Ok s' ->
    exists tr : list ev, d_pos_l s' = d_pos_l s ++ map ev_pos tr /\
      map ev_pos (firstn (length (h_inits (d_opt s))) tr) = h_inits (d_opt s).
  Proof.
    intros Hz Hn0 Hns Hle Hs.
    assert (Hni : 0 <= c_n_iter cl) by (pose proof (zlen_nonneg (h_inits (d_opt s))); lia).
    destruct (search_spec (a_sp c) f clk s cl s' Hni Hs) as (s0 & tr & sE & b & Hi0 & He & Hf).
    destruct (init_search_spec _ _ _ _ _ Hi0) as (mem & _ & Hs0).
    assert (H0 : d_pos_l s0 = d_pos_l s /\ d_opt s0 = d_opt s /\ d_call s0 = cl /\
                 d_n_inits_norm s0 = Z.min (zlen (h_inits (d_opt s)) - 0) (c_n_iter cl))
      by (rewrite Hs0; cbn; rewrite Hz; repeat split; reflexivity).
    destruct H0 as (P0 & O0 & C0 & N0). clear Hs0.
    destruct (ended_traced _ _ _ _ _ _ _ _ He) as (T & _ & Hfull).
    destruct (finish_search_spec _ _ _ Hf) as (bv & _ & Hs').
    exists tr. split; [rewrite Hs'; cbn; rewrite (t_pos _ _ _ _ _ T), P0; reflexivity|].
    (* without stopping criteria the loop ran all N steps *)
    assert (Hb : b = false).
    { destruct b; [|reflexivity]. exfalso.
      destruct (ended_stops _ _ _ _ _ _ _ _ He) as [_ Ht]. destruct (Ht eq_refl) as (Hl & _).
      unfold stop_after, check in Hl. rewrite C0, Hns in Hl. cbn in Hl. discriminate. }
    subst b. pose proof (Hfull eq_refl) as Hlen.
    set (n := length (h_inits (d_opt s))) in *.
    assert (Hn : (n <= length tr)%nat) by (unfold zlen in *; lia).
    inversion He as [tr' s'' Hr' Hl' Etr Es |]; subst tr' s''.
    destruct (reach_prefix s0 tr sE Hr' n Hn) as (sj & Hrj).
    assert (Hlj : length (firstn n tr) = n) by (rewrite firstn_length; lia).
    assert (Hnorm : zlen (firstn n tr) <= d_n_inits_norm s0).
    { rewrite N0. unfold zlen in *. rewrite Hlj. fold n. lia. }
    destruct (reach_init_prefix c f clk s0 _ sj Hrj Hnorm) as (_ & _ & F).
    rewrite O0, Hn0 in F. apply nth_pointwise_eq; [rewrite Hlj; reflexivity|exact F].
  Qed.
End InitServed.
