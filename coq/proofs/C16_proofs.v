(* C16 — grid search enumerates the whole space without repetition. *)
Require Import Base Converter Grid ListFacts GridFacts.
From Coq Require Import Znumtheory.

(* ---------- every point of the box is hit by a NoDup list of |S| in-box positions ---------- *)
Fixpoint encode_le (dims : list Z) (p : pos) : Z :=
  match dims, p with
  | d :: dims', i :: p' => i + d * encode_le dims' p'
  | _, _ => 0
  end.

Lemma encode_le_range dims p : Forall (fun d => 1 <= d) dims -> in_dims dims p -> 0 <= encode_le dims p < zprod dims.
Proof.
  intros Hd Hb. induction Hb as [|d i dims p Hi Hb IH]; cbn [encode_le zprod fold_right]; [lia|].
  fold (zprod dims). inversion Hd; subst. specialize (IH H2). nia.
Qed.

Lemma decode_encode_le dims p : Forall (fun d => 1 <= d) dims -> in_dims dims p -> decode_le dims (encode_le dims p) = p.
Proof.
  intros Hd Hb. induction Hb as [|d i dims p Hi Hb IH]; cbn [encode_le decode_le]; [reflexivity|].
  inversion Hd; subst. f_equal.
  - rewrite Z.mul_comm, Z.mod_add by lia. apply Z.mod_small. lia.
  - rewrite Z.mul_comm, Z.div_add by lia. rewrite Z.div_small by lia. rewrite Z.add_0_l. apply IH. assumption.
Qed.

Definition box_list (dims : list Z) : list pos := map (fun t => decode_le dims (Z.of_nat t)) (seq 0 (Z.to_nat (zprod dims))).

Lemma box_list_complete dims p : Forall (fun d => 1 <= d) dims -> in_dims dims p -> In p (box_list dims).
Proof.
  intros Hd Hb. pose proof (encode_le_range dims p Hd Hb) as Hr.
  unfold box_list. apply in_map_iff. exists (Z.to_nat (encode_le dims p)). split.
  - rewrite Z2Nat.id by lia. apply decode_encode_le; assumption.
  - apply in_seq. lia.
Qed.

Theorem covers_every_point dims ps : Forall (fun d => 1 <= d) dims ->
  NoDup ps -> Forall (in_dims dims) ps -> length ps = Z.to_nat (zprod dims) ->
  forall p, in_dims dims p -> In p ps.
Proof.
  intros Hd Hnd Hin Hlen p Hp.
  assert (Hincl : incl ps (box_list dims)).
  { intros q Hq. rewrite Forall_forall in Hin. apply box_list_complete; auto. }
  assert (Hl : (length (box_list dims) <= length ps)%nat).
  { unfold box_list. rewrite map_length, seq_length. lia. }
  apply (NoDup_length_incl Hnd Hl Hincl). apply box_list_complete; assumption.
Qed.

(* ---------- diagonal ---------- *)
Lemma diag_run_some dims s d0 d : forall n t0 p,
  diag_run n dims s d0 (mkDiag (Some d) p (t0 + 1)) = Ok (map (decode_be dims) (ptrs (zprod dims) s d n t0 p)).
Proof.
  induction n as [|n IH]; intros t0 p; [reflexivity|].
  unfold diag_run in *. cbn [diag_run_gen diag_iterate_gen dg_dir dg_ptr dg_trial bind].
  unfold grid_evaluate. cbn [dg_dir dg_ptr dg_trial]. rewrite IH. reflexivity.
Qed.

Definition C16_diag_statement : Prop :=
  forall (dims : list Z) (s d0 : Z),
    Forall (fun d => 1 <= d) dims -> dims <> [] ->
    0 < s -> (s | zprod dims) -> 1 <= d0 ->
    exists ps, diag_run (Z.to_nat (zprod dims)) dims s d0 diag_init = Ok ps /\
               NoDup ps /\ Forall (in_dims dims) ps /\ length ps = Z.to_nat (zprod dims) /\
               (forall p, in_dims dims p -> In p ps).

Theorem C16_diag_holds : C16_diag_statement.
Proof.
  intros dims s d0 Hd Hne Hs [m Hm] Hd0.
  pose proof (zprod_pos dims Hd) as HS. set (S := zprod dims) in *.
  assert (Hm0 : 0 < m) by nia.
  destruct (get_direction_ok S HS (Z.to_nat d0 + 1) d0 Hd0 ltac:(lia)) as (d & Hgd & Hg & Hdr).
  assert (Hg' : Z.gcd d S = 1) by (rewrite Z.gcd_comm; exact Hg).
  destruct (diag_pointers_cover S s d m Hs Hm0 Hm Hg') as (Pn & Pl & Pr).
  assert (Hrun : diag_run (Z.to_nat S) dims s d0 diag_init = Ok (map (decode_be dims) (first_pass_ptrs S s d))).
  { replace (Z.to_nat S) with (Datatypes.S (Z.to_nat (S - 1))) by lia.
    unfold diag_run. cbn [diag_run_gen diag_iterate_gen diag_init dg_dir dg_ptr dg_trial]. fold S. rewrite Hgd.
    cbn [bind grid_evaluate dg_dir dg_ptr dg_trial].
    unfold grid_evaluate. cbn [dg_dir dg_ptr dg_trial].
    pose proof (diag_run_some dims s d0 d (Z.to_nat (S - 1)) 0 0) as R.
    unfold diag_run in R. fold S in R. rewrite R. cbn [bind]. unfold first_pass_ptrs. cbn [map].
    rewrite decode_be_zero by assumption. reflexivity. }
  exists (map (decode_be dims) (first_pass_ptrs S s d)).
  assert (A : NoDup (map (decode_be dims) (first_pass_ptrs S s d))).
  { apply NoDup_map_inj; [exact Pn|]. intros x y Hx Hy. rewrite Forall_forall in Pr.
    apply decode_be_inj; auto. }
  assert (B : Forall (in_dims dims) (map (decode_be dims) (first_pass_ptrs S s d))).
  { apply Forall_forall. intros q Hq. apply in_map_iff in Hq. destruct Hq as (x & <- & Hx).
    rewrite Forall_forall in Pr. apply decode_be_in_dims; auto. }
  assert (C : length (map (decode_be dims) (first_pass_ptrs S s d)) = Z.to_nat S) by (rewrite map_length; exact Pl).
  split; [exact Hrun|]. split; [exact A|]. split; [exact B|]. split; [exact C|].
  apply covers_every_point; assumption.
Qed.

(* ---------- orthogonal ---------- *)
Lemma orth_pointer_mod S s m t : 0 < s -> 0 < m -> S = m * s -> 0 <= t < S ->
  orth_pointer S s t mod S = (t mod m) * s + t / m.
Proof.
  intros Hs Hm HS Ht. unfold orth_pointer.
  assert (E : t * s / S = t / m) by (rewrite HS; apply Z.div_mul_cancel_r; lia).
  rewrite E. pose proof (Z.div_mod t m ltac:(lia)) as D. pose proof (Z.mod_pos_bound t m Hm) as B.
  assert (Hq : 0 <= t / m < s) by (split; [apply Z.div_pos; lia|apply Z.div_lt_upper_bound; nia]).
  replace (t * s + t / m) with ((t mod m) * s + t / m + (t / m) * S) by nia.
  rewrite Z.mod_add by lia. apply Z.mod_small. nia.
Qed.

Definition C16_orth_statement : Prop :=
  forall (dims : list Z) (s : Z),
    Forall (fun d => 1 <= d) dims -> 0 < s -> (s | zprod dims) ->
    let ps := orth_run (Z.to_nat (zprod dims)) dims s in
    NoDup ps /\ Forall (in_dims dims) ps /\ length ps = Z.to_nat (zprod dims) /\
    (forall p, in_dims dims p -> In p ps).

Theorem C16_orth_holds : C16_orth_statement.
Proof.
  intros dims s Hd Hs [m Hm]. pose proof (zprod_pos dims Hd) as HS. set (S := zprod dims) in *.
  assert (Hm0 : 0 < m) by nia. cbv zeta.
  assert (A : NoDup (orth_run (Z.to_nat S) dims s)).
  { unfold orth_run. apply NoDup_map_inj; [apply seq_NoDup|].
    intros a b Ha Hb H. apply in_seq in Ha, Hb. unfold orth_iterate in H. fold S in H.
    assert (Hxa : 0 <= orth_pointer S s (Z.of_nat a)) by (unfold orth_pointer; pose proof (Z.div_pos (Z.of_nat a * s) S ltac:(nia) ltac:(lia)); nia).
    assert (Hxb : 0 <= orth_pointer S s (Z.of_nat b)) by (unfold orth_pointer; pose proof (Z.div_pos (Z.of_nat b * s) S ltac:(nia) ltac:(lia)); nia).
    rewrite (decode_le_mod dims Hd _ Hxa), (decode_le_mod dims Hd _ Hxb) in H. fold S in H.
    apply decode_le_inj in H; auto; try (apply Z.mod_pos_bound; lia).
    rewrite (orth_pointer_mod S s m _ Hs Hm0 Hm) in H by lia.
    rewrite (orth_pointer_mod S s m _ Hs Hm0 Hm) in H by lia.
    set (ta := Z.of_nat a) in *. set (tb := Z.of_nat b) in *.
    pose proof (Z.div_mod ta m ltac:(lia)). pose proof (Z.mod_pos_bound ta m Hm0).
    pose proof (Z.div_mod tb m ltac:(lia)). pose proof (Z.mod_pos_bound tb m Hm0).
    assert (0 <= ta / m < s) by (split; [apply Z.div_pos; lia|apply Z.div_lt_upper_bound; nia]).
    assert (0 <= tb / m < s) by (split; [apply Z.div_pos; lia|apply Z.div_lt_upper_bound; nia]).
    assert (ta mod m = tb mod m /\ ta / m = tb / m) as [E1 E2].
    { apply (Z.div_mod_unique s); [left; lia|left; lia|]. lia. }
    assert (ta = tb) by (rewrite H0, H2, E1, E2; reflexivity). lia. }
  assert (B : Forall (in_dims dims) (orth_run (Z.to_nat S) dims s)).
  { apply Forall_forall. intros q Hq. unfold orth_run in Hq. apply in_map_iff in Hq. destruct Hq as (t & <- & Ht).
    unfold orth_iterate. apply decode_le_in_dims; [assumption|]. fold S.
    unfold orth_pointer. pose proof (Z.div_pos (Z.of_nat t * s) S ltac:(nia) ltac:(lia)). nia. }
  assert (C : length (orth_run (Z.to_nat S) dims s) = Z.to_nat S) by (unfold orth_run; rewrite map_length, seq_length; reflexivity).
  split; [exact A|]. split; [exact B|]. split; [exact C|]. apply covers_every_point; assumption.
Qed.

(* record of defect D4 (fixed in /repo): with the unchanged pass test the 1x4 space with step 1 is
   enumerated 0,1,2,1 — point 3 is missed in the first |S| steps *)
Example diag_offbyone_unfixed :
  diag_run_gen pass_finished_unfixed 4 [4] 1 1 diag_init = Ok [[0]; [1]; [2]; [1]] /\
  diag_run 4 [4] 1 1 diag_init = Ok [[0]; [1]; [2]; [3]].
Proof. vm_compute. split; reflexivity. Qed.
