(* ResTie.v — the wrapper GENERATED from /repo's _results_manager.py (generated/ResGen.v), placed around the GENERATED memory wrapper
   (generated/MemGen.v) when memory is on, or around the raw objective when it is off, is the model's inner_score (SearchTie.v): the part
   of Driver.score_of between the two clock readings.  So the whole path position -> value -> para -> (memory) -> objective -> row is
   generated code proved against the model. *)
Require Import Base PyPrims PyPrimsQ StopRun Converter ConverterFacts Driver C20_proofs MemGen MemTie ResGen DriverGen DriverTie SearchGen SearchTie.
From RecordUpdate Require Import RecordSet.
Import RecordSetNotations.
Open Scope Z_scope.

Lemma p2v_aux_length sp : forall p n v, position2value_aux sp p n = Ok v -> length v = length sp.
Proof.
  induction sp as [|dim sp IH]; intros p n v H; cbn in H; [inversion H; reflexivity|].
  destruct (nth_nowrap p n) as [i|]; cbn [bind] in H; [|discriminate].
  destruct (nth_py dim i) as [x|]; cbn [bind] in H; [|discriminate].
  destruct (position2value_aux sp p (n + 1)) as [vs|] eqn:E; cbn [bind] in H; [|discriminate].
  inversion H; subst. cbn. f_equal. eapply IH. exact E.
Qed.

Section ResTie.
  Context {OP : optimizer}.
  Variable sp : space.
  Variable names : list Z.
  Variable f : nat -> values -> result.
  Hypothesis names_nodup : NoDup names.
  Hypothesis names_len : length names = length sp.

  (* memory off: objective_function is the user's objective itself; its state is the call log *)
  Definition obj_raw (l : list values) (p : para) : res (list values * result) :=
    do v <- para2value names p; Ok (l ++ [v], f (length l) v).

  Theorem results_wrapper_tie_memory_on (s : drv OP) p : c_memory (d_call s) = true ->
    match g_ResultsManager_wrapper sp names g_mem (g_Memory_wrapper sp names f) (mkGRes g_mem (d_rows s) (mem_of s)) p with
    | Ok (g', sc) => inner_score sp f s p = Ok ((with_mem s (rg_inner g_mem g')) <| d_rows := rg_results_list g_mem g' |>, sc)
    | Err e => inner_score sp f s p = Err e
    end.
  Proof.
    intros HM. unfold g_ResultsManager_wrapper, inner_score.
    destruct (position2value sp p) as [v|e] eqn:EV; cbn [bind]; [|reflexivity].
    assert (HL : length names = length v) by (rewrite names_len; symmetry; eapply p2v_aux_length; exact EV).
    unfold rg_obj_func_results. cbn [rg_inner].
    pose proof (memory_wrapper_tie sp names f s v names_nodup HL HM) as T.
    destruct (g_Memory_wrapper sp names f (mem_of s) (value2para names v)) as [[g' r]|e]; cbn [bind fst snd].
    - rewrite T. cbn [bind fst snd]. unfold with_mem. destruct s; reflexivity.
    - rewrite T. reflexivity.
  Qed.

  Theorem results_wrapper_tie_memory_off (s : drv OP) p : c_memory (d_call s) = false ->
    match g_ResultsManager_wrapper sp names (list values) obj_raw (mkGRes (list values) (d_rows s) (d_fcalls s)) p with
    | Ok (g', sc) => inner_score sp f s p =
                     Ok (s <| d_fcalls := rg_inner (list values) g' |> <| d_rows := rg_results_list (list values) g' |>, sc)
    | Err e => inner_score sp f s p = Err e
    end.
  Proof.
    intros HM. unfold g_ResultsManager_wrapper, inner_score, lookup. rewrite HM.
    destruct (position2value sp p) as [v|e] eqn:EV; cbn [bind]; [|reflexivity].
    assert (HL : length names = length v) by (rewrite names_len; symmetry; eapply p2v_aux_length; exact EV).
    unfold rg_obj_func_results, obj_raw. cbn [rg_inner]. rewrite (para_roundtrip names v names_nodup HL). cbn [bind fst snd].
    destruct s; reflexivity.
  Qed.
End ResTie.
