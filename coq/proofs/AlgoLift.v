(* AlgoLift.v — lifting optimizer contracts through search(): what the rows, pos_l and best of a whole call
   look like when the optimizer honours a contract; instantiated for the hill-climbing family. *)
Require Import Base StopRun Converter ConverterFacts CoreOpt Tracker Algos Driver DriverFacts CoreFacts AlgoFacts ListFacts StopFacts.
From RecordUpdate Require Import RecordSet.
Import RecordSetNotations.

Section Lift.
  Context {OP : optimizer}.
  Variable sp : space.
  Variable f : nat -> values -> result.
  Variable clk : nat -> Z.

  (* any optimizer honouring a contract (I, Q): every position evaluated by the call satisfies Q,
     the invariant survives the call, and best_value decodes one of those positions *)
  Theorem search_contract_lift (Inv : ost OP -> Prop) (Q : pos -> Prop) (s s' : drv OP) (c : call) :
    opt_contract Inv Q -> 0 <= c_n_iter c -> Inv (d_opt s) ->
    search sp f clk s c = Ok s' ->
    exists tr : list ev,
      d_pos_l s' = d_pos_l s ++ map ev_pos tr /\ d_rows s' = d_rows s ++ map ev_row tr /\
      Forall (fun e => Q (ev_pos e) /\ position2value sp (ev_pos e) = Ok (ev_val e)) tr /\
      Inv (d_opt s') /\
      match d_best_value s' with
      | Some v => exists e, In e tr /\ ev_val e = v
      | None => True
      end.
  Proof.
    intros C Hn Hi Hs.
    destruct (search_spec sp f clk s c s' Hn Hs) as (s0 & tr & sE & b & Hi0 & He & Hf).
    destruct (init_search_spec _ _ _ _ _ Hi0) as (mem & _ & Hs0).
    assert (H0 : d_pos_l s0 = d_pos_l s /\ d_rows s0 = d_rows s /\ d_opt s0 = d_opt s /\ pb_pair (d_pbar s0) = (SNInf, None))
      by (rewrite Hs0; repeat split; reflexivity).
    destruct H0 as (P0 & R0 & O0 & B0). clear Hs0.
    destruct (ended_traced _ _ _ _ _ _ _ _ He) as (T & _ & _).
    assert (Hi1 : Inv (d_opt s0)) by (rewrite O0; exact Hi).
    destruct (ended_contract sp f clk Inv Q _ _ _ _ _ C Hi1 He) as [IE QE].
    destruct (finish_search_spec _ _ _ Hf) as (bv & Hbv & Hs').
    exists tr. rewrite Hs'. cbn. rewrite (t_pos _ _ _ _ _ T), (t_rows _ _ _ _ _ T), P0, R0.
    split; [reflexivity|]. split; [reflexivity|]. split; [|split; [exact IE|]].
    - pose proof (t_p2v _ _ _ _ _ T) as P. rewrite Forall_forall in *. intros e He0. split; [|apply P; assumption].
      apply QE. apply in_map. assumption.
    - destruct bv as [v|]; [|exact I].
      destruct (pb_pos (d_pbar sE)) as [p|] eqn:Ep; [|discriminate].
      destruct Hbv as (v' & Hv' & Ev). inversion Ev; subst v'.
      (* the best position is the position of some event *)
      pose proof (t_pbar _ _ _ _ _ T) as Tp. rewrite B0 in Tp. unfold pb_pair in Tp. rewrite Ep in Tp.
      assert (Hin : exists e, In e tr /\ ev_pos e = p).
      { assert (G : forall (l : list ev) b q, snd (fold_left best_step l b) = Some q -> snd b = Some q \/ exists e, In e l /\ ev_pos e = q).
        { induction l as [|e l IH]; intros b0 q Hq; cbn in Hq; [left; assumption|].
          destruct (IH _ _ Hq) as [Hb|(e' & He' & Hp')]; [|right; exists e'; split; [right; assumption|assumption]].
          unfold best_step in Hb. destruct (better _ _ _); [|left; assumption].
          cbn in Hb. inversion Hb; subst. right. exists e. split; [left; reflexivity|reflexivity]. }
        destruct (G tr (SNInf, None) p) as [Hb|Hex]; [rewrite <- Tp; reflexivity|discriminate|exact Hex]. }
      destruct Hin as (e & He0 & Hp). exists e. split; [assumption|].
      pose proof (t_p2v _ _ _ _ _ T) as P. rewrite Forall_forall in P. specialize (P e He0). rewrite Hp, Hv' in P. congruence.
  Qed.

  (* history-indexed contracts lift likewise *)
  Theorem search_hist_lift (J : ost OP -> list (pos * score) -> Prop) (s s' : drv OP) (c : call) H0 :
    opt_hist_contract J -> 0 <= c_n_iter c -> J (d_opt s) H0 ->
    search sp f clk s c = Ok s' ->
    exists tr : list ev, d_pos_l s' = d_pos_l s ++ map ev_pos tr /\ d_score_l s' = d_score_l s ++ map ev_score tr /\
      J (d_opt s') (H0 ++ map ev_pair tr).
  Proof.
    intros C Hn Hj Hs.
    destruct (search_spec sp f clk s c s' Hn Hs) as (s0 & tr & sE & b & Hi0 & He & Hf).
    destruct (init_search_spec _ _ _ _ _ Hi0) as (mem & _ & Hs0).
    assert (H1 : d_pos_l s0 = d_pos_l s /\ d_score_l s0 = d_score_l s /\ d_opt s0 = d_opt s) by (rewrite Hs0; repeat split; reflexivity).
    destruct H1 as (P0 & S0 & O0). clear Hs0.
    destruct (ended_traced _ _ _ _ _ _ _ _ He) as (T & _ & _).
    assert (Hj1 : J (d_opt s0) H0) by (rewrite O0; exact Hj).
    pose proof (ended_hist sp f clk J _ _ _ _ _ H0 C Hj1 He) as JE.
    destruct (finish_search_spec _ _ _ Hf) as (bv & _ & Hs').
    exists tr. rewrite Hs'. cbn. rewrite (t_pos _ _ _ _ _ T), (t_score _ _ _ _ _ T), P0, S0. auto.
  Qed.
End Lift.

(* ================================================================ the hill-climbing family, end to end *)
Section Family.
  Variable c : algo_cfg.
  Variable f : nat -> values -> result.
  Variable clk : nat -> Z.
  Hypothesis Hdims : dims_ok (a_sp c).

  (* C01 + C02: every point a search() of these seven optimizers evaluates is a genuine, feasible point of
     the space, decoded without index wrapping — for every tape of draws (no NaN samples), every objective
     (also non-finite scores), every hyper-parameter setting, every call history *)
  Theorem family_points_genuine_and_feasible (s s' : drv (algo_optimizer c)) (cl : call) :
    0 <= c_n_iter cl -> algo_inv c (d_opt s) ->
    search (a_sp c) f clk s cl = Ok s' ->
    exists tr : list ev,
      d_pos_l s' = d_pos_l s ++ map ev_pos tr /\ d_rows s' = d_rows s ++ map ev_row tr /\
      Forall (fun e => in_box (a_sp c) (ev_pos e) /\ feasible (a_sp c) (a_cons c) (ev_pos e) = Ok true /\
                       position2value (a_sp c) (ev_pos e) = Ok (ev_val e) /\ a_cons c (ev_val e) = true) tr /\
      algo_inv c (d_opt s') /\
      match d_best_value s' with Some v => a_cons c v = true | None => True end.
  Proof.
    intros Hn Hi Hs.
    destruct (@search_contract_lift (algo_optimizer c) (a_sp c) f clk (algo_inv c) (emit_ok (a_sp c) (a_cons c)) s s' cl (algo_contract c Hdims) Hn Hi Hs)
      as (tr & A & B & C & D & E).
    assert (C' : Forall (fun e => in_box (a_sp c) (ev_pos e) /\ feasible (a_sp c) (a_cons c) (ev_pos e) = Ok true /\
                       position2value (a_sp c) (ev_pos e) = Ok (ev_val e) /\ a_cons c (ev_val e) = true) tr).
    { eapply Forall_impl; [|exact C]. intros e [[Hb Hf] Hp]. split; [assumption|]. split; [assumption|]. split; [assumption|].
      unfold feasible, not_in_constraint in Hf. rewrite Hp in Hf. cbn in Hf. congruence. }
    exists tr. split; [assumption|]. split; [assumption|]. split; [exact C'|]. split; [assumption|].
    destruct (d_best_value s') as [v|]; [|exact I]. destruct E as (e & He & <-).
    rewrite Forall_forall in C'. apply (C' e He).
  Qed.

  (* C19: after any call, the tracked current / best pairs and the valid lists consist of pairs that were
     really evaluated (position with ITS score) *)
  Theorem family_tracked_pairs_grounded (s s' : drv (algo_optimizer c)) (cl : call) H0 :
    0 <= c_n_iter cl -> grounded (h_trk (d_opt s)) H0 ->
    search (a_sp c) f clk s cl = Ok s' ->
    exists tr : list ev, d_pos_l s' = d_pos_l s ++ map ev_pos tr /\ d_score_l s' = d_score_l s ++ map ev_score tr /\
      grounded (h_trk (d_opt s')) (H0 ++ map ev_pair tr).
  Proof. intros Hn G Hs. exact (@search_hist_lift (algo_optimizer c) (a_sp c) f clk (algo_grounded) s s' cl H0 (algo_hist_contract c) Hn G Hs). Qed.
End Family.

(* ================================================================ C15: evaluate never fails on any score *)
Lemma argmax_last_aux_range l : forall best besti i, (besti < i)%nat ->
  (argmax_last_aux best besti i l < i + length l)%nat.
Proof.
  induction l as [|y l IH]; intros best besti i Hlt; cbn [argmax_last_aux length]; [lia|].
  destruct (best <=? y); [pose proof (IH y i (S i) ltac:(lia))|pose proof (IH best besti (S i) ltac:(lia))]; lia.
Qed.

Lemma last_n_nonempty {A} n (l : list A) : (0 < n)%nat -> l <> [] -> last_n n l <> [].
Proof.
  intros Hn Hl. unfold last_n. destruct l as [|x l]; [contradiction|]. cbn [length].
  intros E. apply (f_equal (@length A)) in E. rewrite skipn_length in E. cbn [length] in E. lia.
Qed.

Theorem hc_evaluate_total n k s : 1 <= n -> exists k', hc_evaluate n k s = Ok k'.
Proof.
  intros Hn. unfold hc_evaluate, track_new_score, hc_evaluate_body.
  set (k0 := base_evaluate (set_score_new k s) s).
  destruct (t_valid k0) as [|x0 l0] eqn:Ev; cbn [bind]; [eauto|].
  replace (n =? 0) with false by (symmetry; apply Z.eqb_neq; lia).
  destruct (t_nth_trial k0 mod n =? 0); cbn [bind]; [|eauto].
  set (recent := last_n (Z.to_nat n) (x0 :: l0)).
  assert (Hne : recent <> []) by (apply last_n_nonempty; [lia|discriminate]).
  destruct (scores_of recent) as [|z zs] eqn:Es.
  { exfalso. apply Hne. unfold scores_of in Es. destruct recent; [reflexivity|discriminate]. }
  cbn [argmax_last bind].
  assert (Hidx : (argmax_last_aux z 0 1 zs < length recent)%nat).
  { pose proof (argmax_last_aux_range zs z 0%nat 1%nat ltac:(lia)).
    assert (length recent = length (z :: zs)) by (rewrite <- Es; unfold scores_of; rewrite map_length; reflexivity).
    cbn [length] in H0. lia. }
  destruct (nth_error recent (argmax_last_aux z 0 1 zs)) as [[p sc]|] eqn:En; [cbn; eauto|].
  apply nth_error_None in En. lia.
Qed.
