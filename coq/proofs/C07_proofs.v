(* C07 — a fixed random_state makes a run exactly reproducible. *)
Require Import Base Rng.

Section C07.
  Variables (R NP : Type).
  Variable seed_py : Z -> R.
  Variable seed_np : Z -> NP.
  Variable np_randint : NP -> Z * NP.
  Notation ssr := (set_random_seed R NP seed_py seed_np np_randint).

  (* whatever happens after construction is a function of the two generators' states (every stochastic choice
     of the library goes through them: checked by the entropy log of the harness) *)
  Variable Out : Type.
  Variable run : gens R NP -> Out.

  (* with an integer random_state the ambient generator states do not flow into the run *)
  Theorem seed_overrides_ambient (nth : option Z) (s : Z) (amb1 amb2 : gens R NP) :
    ssr nth (Some s) amb1 = ssr nth (Some s) amb2 /\
    run (snd (ssr nth (Some s) amb1)) = run (snd (ssr nth (Some s) amb2)).
  Proof. unfold set_random_seed. split; reflexivity. Qed.

  Theorem random_seed_is_state_plus_process (nth : option Z) (s : Z) amb :
    fst (ssr nth (Some s) amb) = s + match nth with Some n => n | None => 0 end.
  Proof. reflexivity. Qed.

  (* a run made with random_state=None is replayed by passing (random_seed - nth_process) as random_state;
     hence by passing random_seed itself exactly when nth_process is None or 0 *)
  Theorem replay_none_general (nth : option Z) amb amb' :
    let n := match nth with Some n => n | None => 0 end in
    let seed := fst (ssr nth None amb) in
    ssr nth (Some (seed - n)) amb' = (seed, snd (ssr nth None amb)).
  Proof.
    cbv zeta. unfold set_random_seed. destruct (np_randint (snd amb)) as [v np1]. cbn [fst snd].
    destruct nth as [n|]; cbn [fst snd].
    - replace (v + n - n + n) with (v + n) by lia. reflexivity.
    - replace (v + 0 - 0 + 0) with (v + 0) by lia. reflexivity.
  Qed.

  Corollary replay_none (nth : option Z) amb amb' :
    (nth = None \/ nth = Some 0) ->
    let seed := fst (ssr nth None amb) in
    snd (ssr nth (Some seed) amb') = snd (ssr nth None amb) /\ fst (ssr nth (Some seed) amb') = seed /\
    run (snd (ssr nth (Some seed) amb')) = run (snd (ssr nth None amb)).
  Proof.
    intros H. cbv zeta. pose proof (replay_none_general nth amb amb') as G. cbv zeta in G.
    assert (E : fst (ssr nth None amb) - match nth with Some n => n | None => 0 end = fst (ssr nth None amb))
      by (destruct H as [->| ->]; lia).
    rewrite E in G. rewrite G. cbn. auto.
  Qed.

  (* nested optimizers: the seeds the members receive, and the final generator state, are functions of the
     generator state right after the parent's seeding — so they inherit reproducibility *)
  Theorem members_inherit (nth : option Z) (s : Z) (n : nat) amb1 amb2 :
    build_members R NP seed_py seed_np np_randint n (snd (ssr nth (Some s) amb1)) =
    build_members R NP seed_py seed_np np_randint n (snd (ssr nth (Some s) amb2)).
  Proof. reflexivity. Qed.
End C07.

(* with nth_process = 2 the replay through random_seed does NOT reproduce the seeds (documented boundary) *)
Example replay_needs_process_zero :
  let ssr := set_random_seed Z Z (fun z => z) (fun z => z) (fun np => (np + 7, np + 1)) in
  let seed := fst (ssr (Some 2) None (0, 100)) in
  snd (ssr (Some 2) (Some seed) (0, 0)) <> snd (ssr (Some 2) None (0, 100)).
Proof. vm_compute. intros H. inversion H. Qed.
